#!/bin/bash
# usage: round3.sh <id> [wtroot] [outroot] — confirm a seeded change in its scratch worktree and run the property's quick
# check against that worktree (VERIF_REPO), leaving /repo untouched.  Not for C08/C12/C20 (translator output is shared).
id=$1; wt=${2:-/tmp/wt3}/$id; out=${3:-/tmp/seed3_out}/$id
bash /verif/harness/confirm_seed.sh $id $wt $out
cd /verif && VERIF_REPO=$wt ./check $id 2>&1 | grep -E "^VIOLATION|^KNOWN|^ERROR" ; echo "exit=${PIPESTATUS[0]}"
