#!/bin/bash
# usage: confirm_seed.sh <id> [worktree] [outdir] — confirm a sub-agent's seeded change in its scratch worktree:
# demo fails with the change, passes without, test suite unchanged (40 passed, 1 known failure).
id=$1; wt=${2:-/tmp/wt/$id}; out=${3:-/tmp/seed_out/$id}
cd $wt || exit 9
git checkout -q -- . ; git apply $out/patch.diff || { echo "$id: patch does not apply"; exit 3; }
PYTHONPATH=$wt /venv/bin/python $out/demo.py $wt > $out/demo_with.log 2>&1; a=$?
git checkout -q -- .
PYTHONPATH=$wt /venv/bin/python $out/demo.py $wt > $out/demo_without.log 2>&1; b=$?
git apply $out/patch.diff
/venv/bin/python -m pytest -q -p no:cacheprovider --timeout=900 tests > $out/tests_with.log 2>&1
t=$(tail -1 $out/tests_with.log)
echo "$id: demo_with_patch_exit=$a demo_without_exit=$b tests_with_patch: $t"
