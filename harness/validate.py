"""Validate MANIFEST.json and every evidence file against the schemas in /root/.vp (run with python3-vt, which has jsonschema)."""
import glob
import json
import sys

import jsonschema

bad = 0
man = json.load(open("/verif/MANIFEST.json"))
try:
    jsonschema.validate(man, json.load(open("/root/.vp/MANIFEST.schema.json")))
    print("MANIFEST.json: valid;", len(man["checks"]), "checks;", "not_applicable:", man.get("not_applicable"))
except jsonschema.ValidationError as e:
    bad += 1
    print("MANIFEST.json INVALID:", e.message[:300])
ev_schema = json.load(open("/root/.vp/EVIDENCE.schema.json"))
for f in sorted(glob.glob("/verif/evidence/C*.json")):
    ev = json.load(open(f))
    try:
        jsonschema.validate(ev, ev_schema)
        c = ev["coverage"]
        print(f.split("/")[-1], "valid tier=%s seed=%s violations=%s theorems=%s/%s evals=%s wall=%ss" % (
            ev.get("tier"), ev.get("seed"), ev.get("violations"), c.get("discharged"), c.get("obligations"), c.get("evaluations"), ev.get("wall_s")))
    except jsonschema.ValidationError as e:
        bad += 1
        print(f.split("/")[-1], "INVALID:", e.message[:300])
ids = {c["property_id"] for c in man["checks"]} | {x["property_id"] if isinstance(x, dict) else x for x in man.get("not_applicable", [])}
props = [json.loads(l)["id"] for l in open("/verif/properties.jsonl")]
missing = [p for p in props if p not in ids]
if missing:
    bad += 1
    print("properties neither claimed nor listed as not_applicable:", missing)
sys.exit(1 if bad else 0)
