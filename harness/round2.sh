#!/bin/bash
# usage: round2.sh <id> — confirm a round-2 seeded change, then run the quick check against it on /repo
id=$1
bash /verif/harness/confirm_seed.sh $id /tmp/wt2/$id /tmp/seed2_out/$id
bash /verif/harness/seedtest.sh /tmp/seed2_out/$id/patch.diff $id 2>&1 | grep -E "VIOLATION|KNOWN|exit=|^ M|patch does not" 
