"""Exact Gaussian field averages by tensor Gauss–Hermite quadrature, driven through the real propagators
(shared by C04 and C05)."""
import itertools
import math

import numpy as np


def gh_nodes(dim, n=10):
    """nodes x_k in R^dim and weights w_k with sum_k w_k f(x_k) = E[f(x)], x ~ N(0, 1)^dim (exact for polynomials
    of degree < 2n in each variable)"""
    x, w = np.polynomial.hermite_e.hermegauss(n)
    w = w / math.sqrt(2 * math.pi)
    nodes = np.array(list(itertools.product(x, repeat=dim)))
    weights = np.array([np.prod(c) for c in itertools.product(w, repeat=dim)])
    return nodes, weights


def build(rng, trial_kind, walker_type, norb, ne, nchol, dt, spin_dep, n_walkers, n_exp_terms=6, rdm_random=True, prop_batch=1):
    """system with an *arbitrary* rdm1 for the mean-field shift and a complex, non-orthonormal walker"""
    import jax.numpy as jnp
    from ad_afqmc import hamiltonian, propagation
    import systems
    import trials
    import wf
    ham = hamiltonian.hamiltonian(norb)
    ham_data, plain = trials.make_ham(rng, norb, nchol=nchol, spin_dependent=spin_dep)
    ham_data["ene0"] = 0.0
    trial, wd, desc = trials.make(trial_kind, rng, norb, ne)
    if rdm_random:
        ra = systems.sym(systems.dyadic(rng, (norb, norb), 4, 0.5)) + np.eye(norb) * ne[0] / norb
        rb = systems.sym(systems.dyadic(rng, (norb, norb), 4, 0.5)) + np.eye(norb) * ne[1] / norb
        wd["rdm1"] = jnp.array([ra, rb])
    else:
        wd["rdm1"] = jnp.array(trial.get_rdm1({k: v for k, v in wd.items() if k != "rdm1"}))
    if walker_type == "restricted":
        prop = propagation.propagator_restricted(dt=dt, n_walkers=n_walkers, n_exp_terms=n_exp_terms, n_batch=prop_batch)
    else:
        prop = propagation.propagator_unrestricted(dt=dt, n_walkers=n_walkers, n_exp_terms=n_exp_terms, n_batch=prop_batch)
    ham_data = ham.build_measurement_intermediates(ham_data, trial, wd)
    ham_data = ham.build_propagation_intermediates(ham_data, prop, trial, wd)
    return dict(ham=ham, ham_data=ham_data, plain=plain, trial=trial, wave_data=wd, desc=desc, prop=prop)


def fock_state(sec, walkers, k, restricted):
    import fock
    if restricted:
        w = np.array(walkers[k])
        return sec.slater(fock.walker_so(w, w))
    return sec.slater(fock.walker_so(np.array(walkers[0][k]), np.array(walkers[1][k])))
