"""Small pyscf systems for C16: random geometries, mean-field / coupled-cluster objects, reference energies."""
import contextlib
import io
import math
import os

import numpy as np


def quiet():
    return contextlib.redirect_stdout(io.StringIO())


def geometry(rng, kind):
    """returns (atom string, spin choices, n_core) — bond lengths drawn around equilibrium"""
    r = lambda a, b: round(rng.uniform(a, b), 3)
    if kind == "H2":
        return f"H 0 0 0; H 0 0 {r(0.6, 1.4)}", [0], 0
    if kind == "H3":
        a, b = r(0.8, 1.3), r(0.8, 1.3)
        return f"H 0 0 0; H 0 0 {a}; H 0 0 {a + b}", [1], 0
    if kind == "H4chain":
        z = [0.0]
        for _ in range(3):
            z.append(z[-1] + r(0.75, 1.25))
        return "; ".join(f"H 0 0 {x:.3f}" for x in z), [0, 2], 0
    if kind == "H4stretched":
        z = [0.0]
        for _ in range(3):
            z.append(z[-1] + r(1.9, 2.4))
        return "; ".join(f"H 0 0 {x:.3f}" for x in z), [0], 0
    if kind == "H4ring":
        rad = r(0.8, 1.1)
        pts = []
        for k in range(4):
            ang = 2 * math.pi * k / 4 + rng.uniform(-0.15, 0.15)
            pts.append(f"H {rad * math.cos(ang):.3f} {rad * math.sin(ang):.3f} 0")
        return "; ".join(pts), [0, 2], 0
    if kind == "LiH":
        return f"Li 0 0 0; H 0 0 {r(1.3, 1.9)}", [0], 1
    if kind == "OH":
        return f"O 0 0 0; H 0 {r(-0.2, 0.2)} {r(0.85, 1.1)}", [1], 1
    raise ValueError(kind)


def mean_field(atom, basis, spin, method, df=False):
    from pyscf import gto, scf
    mol = gto.M(atom=atom, basis=basis, spin=spin, verbose=0)
    mf = {"rhf": scf.RHF, "rohf": scf.ROHF, "uhf": scf.UHF}[method](mol)
    if df:
        mf = mf.density_fit()
    mf.conv_tol = 1e-12
    mf.max_cycle = 200
    mf.kernel()
    if method == "uhf":
        # follow instabilities a couple of times so that genuinely spin-polarised solutions appear
        for _ in range(2):
            mo1 = mf.stability()[0]
            if all(np.allclose(a, b) for a, b in zip(mo1, mf.mo_coeff)):
                break
            dm = mf.make_rdm1(mo1, mf.mo_occ)
            mf.kernel(dm)
    return mol, mf


def lattice_mf(rng, nsite, nelec, u):
    """Hubbard ring through pyscf's custom-Hamiltonian pattern: returns (mol, mf, integrals dict)"""
    from pyscf import ao2mo, gto, scf
    mol = gto.M(verbose=0)
    mol.nelectron = sum(nelec)
    mol.spin = nelec[0] - nelec[1]
    mol.incore_anyway = True
    mol.nao_nr = lambda *a: nsite
    h1 = np.zeros((nsite, nsite))
    for i in range(nsite):
        t = 1.0 + 0.1 * rng.randint(-2, 2)
        h1[i, (i + 1) % nsite] = h1[(i + 1) % nsite, i] = -t
        h1[i, i] = 0.125 * rng.randint(-2, 2)
    eri = np.zeros((nsite,) * 4)
    for i in range(nsite):
        eri[i, i, i, i] = u
    mf = scf.RHF(mol) if mol.spin == 0 else scf.ROHF(mol)
    mf.get_hcore = lambda *a: h1
    mf.get_ovlp = lambda *a: np.eye(nsite)
    mf._eri = ao2mo.restore(8, eri, nsite)
    mf.conv_tol = 1e-12
    mf.kernel()
    return mol, mf, {"h0": 0.25, "h1": h1, "h2": eri}


def read_fcidump(path="FCIDUMP_chol"):
    import h5py
    with h5py.File(path, "r") as f:
        header = [int(x) for x in np.array(f["header"])]
        nmo = header[1]
        h0 = float(np.array(f["energy_core"]))
        h1 = np.array(f["hcore"]).reshape(nmo, nmo)
        chol = np.array(f["chol"]).reshape(-1, nmo, nmo)
        h1mod = np.array(f["hcore_mod"]).reshape(nmo, nmo)
    return header, h0, h1, chol, h1mod


def exact_ground_state(h0, h1, eri, nelec_sp):
    """lowest eigenvalue in the (n_alpha, n_beta) sector: dense diagonalisation when the sector is small
    (no dependence on a Davidson start vector), several Davidson roots otherwise"""
    from math import comb
    from pyscf import ao2mo, fci
    norb = h1.shape[0]
    dim = comb(norb, nelec_sp[0]) * comb(norb, nelec_sp[1])
    eri4 = ao2mo.restore(1, np.asarray(eri), norb)
    if dim <= 4000:
        _, H = fci.direct_spin1.pspace(h1, eri4, norb, nelec_sp, np=dim)
        if H.shape[0] == dim:
            return float(np.linalg.eigvalsh(H)[0] + h0)
    cis = fci.direct_spin1.FCI()
    cis.conv_tol = 1e-12
    cis.nroots = 3
    e, _ = cis.kernel(h1, eri4, norb, nelec_sp, ecore=h0)
    return float(np.min(e))


def fci_of_written(h0, h1, chol, nelec_sp):
    eri = np.einsum("gij,gkl->ijkl", chol, chol)
    return exact_ground_state(h0, h1, eri, nelec_sp)


def fci_of_molecule(mol, mf, nf, nelec_sp, basis=None):
    """the same solver on pyscf's own integrals (full space, or the frozen-core active space)"""
    from pyscf import ao2mo, mcscf
    mo = basis if basis is not None else (mf.mo_coeff[0] if np.ndim(mf.mo_coeff) == 3 else mf.mo_coeff)
    if nf == 0:
        h1 = mo.T @ mf.get_hcore() @ mo
        eri = ao2mo.kernel(mol, mo)
        return exact_ground_state(float(mol.energy_nuc()), h1, ao2mo.restore(1, eri, mo.shape[1]), nelec_sp)
    mc = mcscf.CASCI(mf, mol.nao - nf, mol.nelectron - 2 * nf)
    mc.verbose = 0
    mc.mo_coeff = mo
    h1, ecore = mc.get_h1eff()
    eri = mc.get_h2eff()
    return exact_ground_state(float(ecore), h1, ao2mo.restore(1, eri, mc.ncas), nelec_sp)
