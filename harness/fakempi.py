"""Thread-based stand-in for an MPI communicator (no libmpi in this sandbox).

R threads each hold a FakeComm(rank); Gather/Scatter follow mpi4py's buffer semantics
(root's recvbuf is filled in rank order; Scatter hands rank r the r-th equal slice of root's
sendbuf).  Random sleeps before every collective randomise the order in which ranks arrive.
"""
import random
import threading
import time

import numpy as np


class World:
    def __init__(self, size, seed=0):
        self.size = size
        self.barrier = threading.Barrier(size)
        self.slots = [None] * size
        self.post = None
        self.rng = random.Random(seed)
        self.lock = threading.Lock()
        self.arrivals = []

    def jitter(self, rank, what):
        with self.lock:
            d = self.rng.random() * 0.004
        time.sleep(d)
        with self.lock:
            self.arrivals.append((what, rank))


class FakeComm:
    def __init__(self, world, rank):
        self.w = world
        self.rank = rank

    def Get_size(self):
        return self.w.size

    def Get_rank(self):
        return self.rank

    def Barrier(self):
        self.w.barrier.wait()

    def Gather(self, sendbuf, recvbuf, root=0):
        self.w.jitter(self.rank, "gather")
        self.w.slots[self.rank] = np.array(sendbuf, copy=True)
        self.w.barrier.wait()
        if self.rank == root:
            recvbuf[...] = np.concatenate([np.asarray(s) for s in self.w.slots], axis=0).reshape(recvbuf.shape)
        self.w.barrier.wait()

    def Reduce(self, sendbuf, recvbuf, op=None, root=0):
        """sum-reduction of [array, type] buffers into root's [array, type]"""
        self.w.jitter(self.rank, "reduce")
        self.w.slots[self.rank] = np.array(sendbuf[0], copy=True)
        self.w.barrier.wait()
        if self.rank == root:
            np.copyto(recvbuf[0], np.sum(np.stack([np.asarray(x) for x in self.w.slots]), axis=0).astype(recvbuf[0].dtype))
        self.w.barrier.wait()

    def Bcast(self, buf, root=0):
        self.w.jitter(self.rank, "bcast")
        if self.rank == root:
            self.w.post = np.array(buf, copy=True)
        self.w.barrier.wait()
        np.copyto(buf, self.w.post)
        self.w.barrier.wait()

    def bcast(self, obj, root=0):
        if self.rank == root:
            self.w.post = obj
        self.w.barrier.wait()
        out = self.w.post
        self.w.barrier.wait()
        return out

    def Scatter(self, sendbuf, recvbuf, root=0):
        self.w.jitter(self.rank, "scatter")
        if self.rank == root:
            self.w.post = np.array(sendbuf, copy=True)
        self.w.barrier.wait()
        n = self.w.post.shape[0] // self.w.size
        recvbuf[...] = self.w.post[self.rank * n:(self.rank + 1) * n].reshape(recvbuf.shape)
        self.w.barrier.wait()


def run_ranks(size, fn, seed=0):
    """fn(comm, rank) executed by `size` threads; returns list of results in rank order"""
    world = World(size, seed)
    res = [None] * size
    err = [None] * size

    def work(r):
        try:
            res[r] = fn(FakeComm(world, r), r)
        except BaseException as e:  # noqa
            err[r] = e
            try:
                world.barrier.abort()
            except Exception:
                pass

    ts = [threading.Thread(target=work, args=(r,)) for r in range(size)]
    for t in ts:
        t.start()
    for t in ts:
        t.join(120)
    for e in err:
        if e is not None and not isinstance(e, threading.BrokenBarrierError):
            raise e
    for e in err:
        if e is not None:
            raise e
    return res, world.arrivals


class FakeMPI:
    """stand-in for the mpi4py MPI module as driver.afqmc uses it"""
    FLOAT = None
    INT = None
    SUM = None

    def __init__(self, comm):
        self.COMM_WORLD = comm
