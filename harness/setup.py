"""MANIFEST.setup_cmd: regenerate Generated/*.lean from /repo and build the whole Lean library."""
import os
import subprocess
import sys

sys.path.insert(0, os.path.dirname(os.path.abspath(__file__)))
import common


def regenerate():
    import translate_lattices
    translate_lattices.main(common.REPO, common.VERIF)
    for name in ("translate_sampler",):
        try:
            mod = __import__(name)
            mod.main(common.REPO, common.VERIF)
        except ImportError:
            pass


if __name__ == "__main__":
    regenerate()
    with common.Lock(os.path.join(common.LEAN, ".lake.lock")):
        p = subprocess.run(["lake", "build"], cwd=common.LEAN)
    sys.exit(p.returncode)
