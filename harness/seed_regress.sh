#!/bin/bash
# usage: seed_regress.sh [tier] [Cxx ...] — apply every saved seeded change (of the listed properties; default all) to /repo in
# turn, run the property's check, restore.
# Prints one line per seed: name, exit code, number of VIOLATION lines.  /repo must be clean before and is clean after.
tier=${1:-quick}
shift; only=" $* "
cd /verif
[ -z "$(git -C /repo status --short)" ] || { echo "/repo is not clean"; exit 9; }
for d in seeded/*/; do
  name=$(basename $d)
  id=$(python3 -c "import json;print(json.load(open('$d/meta.json'))['property'])")
  [ "$only" != "  " ] && [[ "$only" != *" $id "* ]] && continue
  st=$(python3 -c "import json;print(json.load(open('$d/meta.json')).get('status','active'))")
  [ "$st" = "neutralised" ] && { echo "$name: skipped (neutralised by a later fix, see meta.json)"; continue; }
  git -C /repo apply /verif/$d/patch.diff || { echo "$name: patch does not apply"; continue; }
  out=$(./check $id --tier $tier 2>&1); rc=$?
  git -C /repo checkout -- .
  nv=$(echo "$out" | grep -c "^VIOLATION")
  nf=$(echo "$out" | grep -c "no-failing-input-found")
  echo "$name: exit=$rc violations=$nv no_input=$nf"
done
git -C /repo status --short
