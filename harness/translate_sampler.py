"""Translator (T2) for the control structure of the sampler and the driver (C08, C12).

Parses ad_afqmc/sampling.py and the two block loops of ad_afqmc/driver.py with `ast` and emits
lean/AfqmcVerif/Generated/SamplerProg.lean: every sampler method as a `Machine.Prog` term, the
driver loop as a `Prog`, an arity check of every call to a sampler / hamiltonian method, and the
`by decide` obligations (`check p .stale` succeeds, `noClobber p`, `arityOk`).  The property
theorems in Props/C08.lean and Props/C12.lean are instantiated with these facts, so they are
re-checked against what the code says now.
"""
import ast
import os
import sys

ENTRY = ["propagate_phaseless", "propagate_phaseless_ad", "propagate_phaseless_ad_1",
         "propagate_phaseless_ad_nosr", "propagate_phaseless_ad_norot",
         "propagate_phaseless_ad_nosr_norot"]

PROP_OPS = {"propagate": "propagate", "orthonormalize_walkers": "qr",
            "stochastic_reconfiguration_local": "srLocal", "stochastic_reconfiguration_global": "srGlobal"}


# ------------------------------------------------------------ tiny Prog AST on the Python side
def Op(name, tag=None):
    return ("op", name, tag)


def seq(ps):
    ps = [p for p in ps if p != ("skip",)]
    if not ps:
        return ("skip",)
    out = ps[-1]
    for p in reversed(ps[:-1]):
        out = ("seq", p, out)
    return out


def has_ops(p):
    if p[0] == "skip":
        return False
    if p[0] == "op":
        return True
    if p[0] in ("seq", "alt"):
        return has_ops(p[1]) or has_ops(p[2])
    if p[0] == "scan":
        return has_ops(p[2])
    if p[0] == "ref":
        return True
    return False


def lean(p):
    if p[0] == "skip":
        return "Prog.skip"
    if p[0] == "op":
        if p[1] in ("other", "clobber"):
            return f'(Prog.op (Op.{p[1]} "{p[2]}"))'
        return f"(Prog.op Op.{p[1]})"
    if p[0] == "seq":
        return f"(Prog.seq {lean(p[1])} {lean(p[2])})"
    if p[0] == "alt":
        return f"(Prog.alt {lean(p[1])} {lean(p[2])})"
    if p[0] == "scan":
        return f'(Prog.scan "{p[1]}" {lean(p[2])})'
    if p[0] == "ref":
        return "m_" + p[1]
    raise ValueError(p)


def is_sub(node, base, key):
    """node is base["key"]"""
    return (isinstance(node, ast.Subscript) and isinstance(node.value, ast.Name) and node.value.id == base
            and isinstance(node.slice, ast.Constant) and node.slice.value == key)


def sub_key(node, base="prop_data"):
    if (isinstance(node, ast.Subscript) and isinstance(node.value, ast.Name) and node.value.id == base
            and isinstance(node.slice, ast.Constant)):
        return node.slice.value
    return None


class Translator:
    def __init__(self, repo):
        self.repo = repo
        self.issues = []       # arity / untranslatable findings
        self.sigs = {}
        self.load_sigs()

    # ---- signatures for the arity check (positional parameters without defaults, excluding self)
    def load_sigs(self):
        for mod, classes in (("sampling.py", ["sampler"]), ("hamiltonian.py", ["hamiltonian"]),
                             ("propagation.py", ["propagator"]), ("wavefunctions.py", ["wave_function"])):
            tree = ast.parse(open(os.path.join(self.repo, "ad_afqmc", mod)).read())
            for node in tree.body:
                if isinstance(node, ast.ClassDef) and node.name in classes:
                    for st in node.body:
                        if isinstance(st, ast.FunctionDef):
                            a = st.args
                            names = [x.arg for x in a.args][1:]
                            nreq = len(names) - len(a.defaults)
                            key = (node.name, st.name)
                            # singledispatch registrations share the first definition's name "_"
                            if st.name == "_":
                                continue
                            self.sigs[key] = (nreq, len(names), names)
        self.receiver_class = {"self": "sampler", "ham": "hamiltonian", "prop": "propagator", "propagator": "propagator",
                               "trial": "wave_function", "sampler": "sampler", "sampler_eq": "sampler"}

    def check_arity(self, call, where):
        f = call.func
        if not (isinstance(f, ast.Attribute) and isinstance(f.value, ast.Name)):
            return
        cls = self.receiver_class.get(f.value.id)
        if cls is None or (cls, f.attr) not in self.sigs:
            return
        nreq, nmax, names = self.sigs[(cls, f.attr)]
        npos = len(call.args)
        kw = [k.arg for k in call.keywords if k.arg is not None]
        if any(isinstance(a, ast.Starred) for a in call.args) or any(k.arg is None for k in call.keywords):
            return
        ok = npos <= nmax and all(k in names[npos:] for k in kw) and npos + len([k for k in kw if k in names[:nreq] or True]) >= nreq
        if not ok:
            self.issues.append(f"{where}: call {f.value.id}.{f.attr} with {npos} positional + {len(kw)} keyword args, signature needs {nreq}..{nmax} {names}")

    # ---- sampler methods
    def load_sampler(self):
        tree = ast.parse(open(os.path.join(self.repo, "ad_afqmc", "sampling.py")).read())
        self.methods = {}
        for node in tree.body:
            if isinstance(node, ast.ClassDef) and node.name == "sampler":
                for st in node.body:
                    if isinstance(st, ast.FunctionDef):
                        self.methods[st.name] = st
        self.progs = {}
        self.order = []
        for name in self.methods:
            self.translate_method(name)

    def translate_method(self, name):
        if name in self.progs:
            return
        self.progs[name] = None  # cycle guard
        fn = self.methods[name]
        env = {}      # local wrapper name -> sampler method name
        fields_len = {}
        body = [self.stmt(st, env, fields_len, f"sampler.{name}", "self") for st in fn.body]
        self.progs[name] = seq(body)
        self.order.append(name)

    def resolve_wrapper(self, node, env):
        """f in lax.scan(f, ...): a local lambda / def calling self._X, possibly wrapped in checkpoint"""
        if isinstance(node, ast.Call) and isinstance(node.func, ast.Name) and node.func.id == "checkpoint" and node.args:
            return self.resolve_wrapper(node.args[0], env)
        if isinstance(node, ast.Name):
            return env.get(node.id)
        if isinstance(node, ast.Lambda):
            return self.wrapper_target(node.body)
        return None

    def wrapper_target(self, expr):
        if isinstance(expr, ast.Call) and isinstance(expr.func, ast.Attribute) and isinstance(expr.func.value, ast.Name) \
                and expr.func.value.id in ("self", "sampler", "sampler_eq"):
            return (expr.func.attr, expr)
        return None

    def calls_in_order(self, node):
        """Call nodes in evaluation order (arguments before the call itself); lambdas are not entered"""
        out = []

        def visit(n):
            if isinstance(n, ast.Lambda):
                return
            for ch in ast.iter_child_nodes(n):
                visit(ch)
            if isinstance(n, ast.Call):
                out.append(n)
        visit(node)
        return out

    def call_prog(self, call, env, fields_len, where, selfname):
        f = call.func
        self.check_arity(call, where)
        if isinstance(f, ast.Attribute) and isinstance(f.value, ast.Name):
            recv, attr = f.value.id, f.attr
            if recv in ("prop", "propagator") and attr in PROP_OPS:
                return Op(PROP_OPS[attr])
            if recv in ("prop", "propagator") and attr == "propagate_free":
                return Op("clobber", "propagate_free")
            if recv in ("prop", "propagator") and attr == "init_prop_data":
                return Op("clobber", "init_prop_data")
            if recv == "trial" and attr == "calc_energy":
                return Op("measure")
            if recv == "trial" and attr == "calc_overlap":
                return Op("other", "calc_overlap")
            if recv == "trial" and attr == "optimize":
                return Op("other", "optimize")
            if recv == "ham" and attr in ("build_measurement_intermediates", "build_propagation_intermediates", "rotate_orbs"):
                return Op("other", attr)
            if recv == "linalg_utils" and attr == "modified_cholesky":
                return Op("other", "modified_cholesky")
            if recv in ("self", "sampler", "sampler_eq") and attr in getattr(self, "methods", {}):
                self.translate_method(attr)
                for a in call.args:
                    if isinstance(a, ast.Lambda):
                        pass
                return ("ref", attr)
            if recv == "lax" and attr == "scan":
                tgt = self.resolve_wrapper(call.args[0], env) if call.args else None
                length = None
                for k in call.keywords:
                    if k.arg == "length" and isinstance(k.value, ast.Attribute) and isinstance(k.value.value, ast.Name):
                        length = k.value.attr
                if length is None and len(call.args) >= 3 and isinstance(call.args[2], ast.Name):
                    length = fields_len.get(call.args[2].id)
                if tgt is None or length is None:
                    self.issues.append(f"{where}: lax.scan could not be resolved (target={tgt}, length={length})")
                    return Op("clobber", "unresolved_scan")
                mname, inner = tgt
                self.check_arity(inner, where + "/scan-wrapper")
                self.translate_method(mname)
                return ("scan", length, ("ref", mname))
        if isinstance(f, ast.Name) and f.id in env and env[f.id] is not None:
            mname, inner = env[f.id]
            self.translate_method(mname)
            return ("ref", mname)
        return ("skip",)

    def stmt(self, st, env, fields_len, where, selfname):
        # local wrappers
        if isinstance(st, ast.Assign) and len(st.targets) == 1 and isinstance(st.targets[0], ast.Name):
            tname = st.targets[0].id
            if isinstance(st.value, ast.Lambda):
                env[tname] = self.wrapper_target(st.value.body)
                return ("skip",)
            if isinstance(st.value, ast.Call) and isinstance(st.value.func, ast.Attribute) and st.value.func.attr == "normal":
                for k in st.value.keywords:
                    if k.arg == "shape" and isinstance(k.value, ast.Tuple) and k.value.elts and isinstance(k.value.elts[0], ast.Attribute):
                        fields_len[tname] = k.value.elts[0].attr
        if isinstance(st, ast.FunctionDef):
            tgt = None
            for sub in st.body:
                if isinstance(sub, ast.Return):
                    tgt = self.wrapper_target(sub.value)
            env[st.name] = tgt
            return ("skip",)
        if isinstance(st, (ast.Expr,)) and isinstance(st.value, ast.Constant):
            return ("skip",)
        if isinstance(st, ast.If):
            a = seq([self.stmt(s, env, fields_len, where, selfname) for s in st.body])
            b = seq([self.stmt(s, env, fields_len, where, selfname) for s in st.orelse])
            tests = [self.call_prog(c, env, fields_len, where, selfname) for c in self.calls_in_order(st.test)]
            if has_ops(a) or has_ops(b):
                return seq(tests + [("alt", a, b)])
            return seq(tests)
        if isinstance(st, (ast.For, ast.While)):
            body = seq([self.stmt(s, env, fields_len, where, selfname) for s in st.body])
            if has_ops(body):
                self.issues.append(f"{where}: loop containing machine operations was not expected here")
                return ("scan", "unknown_loop", body)
            return ("skip",)
        if isinstance(st, ast.With):
            return seq([self.stmt(s, env, fields_len, where, selfname) for s in st.body])
        if isinstance(st, ast.Return):
            return seq([self.call_prog(c, env, fields_len, where, selfname) for c in self.calls_in_order(st.value)]) if st.value else ("skip",)
        # refresh pattern
        if isinstance(st, ast.Assign) and len(st.targets) == 1 and is_sub(st.targets[0], "prop_data", "overlaps"):
            v = st.value
            if (isinstance(v, ast.Call) and isinstance(v.func, ast.Attribute) and v.func.attr == "calc_overlap"
                    and isinstance(v.func.value, ast.Name) and v.func.value.id == "trial" and len(v.args) == 2
                    and is_sub(v.args[0], "prop_data", "walkers")):
                self.check_arity(v, where)
                return Op("refresh")
            return seq([self.call_prog(c, env, fields_len, where, selfname) for c in self.calls_in_order(v)] + [Op("clobber", "overlaps")])
        progs = []
        value = getattr(st, "value", None)
        if value is not None:
            progs += [self.call_prog(c, env, fields_len, where, selfname) for c in self.calls_in_order(value)]
        # targets
        targets = []
        if isinstance(st, ast.Assign):
            targets = st.targets
        elif isinstance(st, (ast.AugAssign, ast.AnnAssign)):
            targets = [st.target]
        for t in targets:
            elts = t.elts if isinstance(t, ast.Tuple) else [t]
            for e in elts:
                if isinstance(e, ast.Tuple):
                    elts += list(e.elts)
                    continue
                k = sub_key(e)
                if k == "walkers":
                    progs.append(Op("clobber", "walkers"))
                elif k == "overlaps":
                    progs.append(Op("clobber", "overlaps"))
                elif k is not None:
                    progs.append(Op("other", "set:" + k))
        return seq(progs)

    # ---- driver
    def load_driver(self):
        tree = ast.parse(open(os.path.join(self.repo, "ad_afqmc", "driver.py")).read())
        fn = [n for n in tree.body if isinstance(n, ast.FunctionDef) and n.name == "afqmc"][0]
        # wrappers: every sampler method some lambda bound to propagate_phaseless_wrapper calls
        wrappers = []
        for node in ast.walk(fn):
            if isinstance(node, ast.Assign) and len(node.targets) == 1 and isinstance(node.targets[0], ast.Name) \
                    and isinstance(node.value, ast.Lambda):
                tgt = self.wrapper_target(node.value.body)
                if tgt is not None:
                    self.check_arity(tgt[1], "driver.afqmc/" + node.targets[0].id)
                    self.translate_method(tgt[0])
                    wrappers.append((node.targets[0].id, tgt[0]))
        self.driver_wrappers = wrappers
        wrapper_names = {w for w, _ in wrappers}
        methods_of = {}
        for w, m in wrappers:
            methods_of.setdefault(w, [])
            if m not in methods_of[w]:
                methods_of[w].append(m)

        def alt_of(ms):
            out = ("ref", ms[-1])
            for m in reversed(ms[:-1]):
                out = ("alt", ("ref", m), out)
            return out

        env = {}
        outer = self

        class DriverT:
            pass

        def dcall(call, where):
            f = call.func
            if isinstance(f, ast.Name) and f.id in ("jvp", "vjp") and call.args and isinstance(call.args[0], ast.Name) \
                    and call.args[0].id in wrapper_names:
                return alt_of(methods_of[call.args[0].id])
            if isinstance(f, ast.Name) and f.id in wrapper_names:
                return alt_of(methods_of[f.id])
            return outer.call_prog(call, env, {}, where, None)

        def dstmt(st, where):
            if isinstance(st, ast.If):
                a = seq([dstmt(s, where) for s in st.body])
                b = seq([dstmt(s, where) for s in st.orelse])
                if has_ops(a) or has_ops(b):
                    return ("alt", a, b)
                return ("skip",)
            if isinstance(st, ast.For):
                body = seq([dstmt(s, where) for s in st.body])
                if not has_ops(body):
                    return ("skip",)
                # loop length: range(... X.n_blocks ...)
                length = "loop"
                for sub in ast.walk(st.iter):
                    if isinstance(sub, ast.Attribute) and sub.attr == "n_blocks" and isinstance(sub.value, ast.Name):
                        length = sub.value.id + ".n_blocks"
                return ("scan", length, body)
            if isinstance(st, ast.With):
                return seq([dstmt(s, where) for s in st.body])
            progs = []
            value = getattr(st, "value", None)
            if value is not None:
                progs += [dcall(c, where) for c in outer.calls_in_order(value)]
            targets = st.targets if isinstance(st, ast.Assign) else ([st.target] if isinstance(st, (ast.AugAssign, ast.AnnAssign)) else [])
            for t in targets:
                elts = list(t.elts) if isinstance(t, ast.Tuple) else [t]
                for e in elts:
                    k = sub_key(e)
                    if k == "walkers":
                        progs.append(Op("clobber", "walkers"))
                    elif k == "overlaps":
                        progs.append(Op("clobber", "overlaps"))
                    elif k is not None:
                        progs.append(Op("other", "set:" + k))
            return seq(progs)

        self.driver = seq([dstmt(st, "driver.afqmc") for st in fn.body])

    # ---- emit
    def emit(self, dest):
        L = ["/- GENERATED on every run by harness/translate_sampler.py from ad_afqmc/sampling.py and driver.py — do not edit. -/",
             "import AfqmcVerif.Model.Machine", "import AfqmcVerif.Lemmas.Machine", "namespace AfqmcVerif.Generated.SamplerProg",
             "open AfqmcVerif.Machine", ""]
        for name in self.order:
            L.append(f"def m_{name} : Prog := {lean(self.progs[name])}")
        L.append("")
        L.append(f"def driver : Prog := {lean(self.driver)}")
        L.append("")
        issues = "[" + ", ".join('"%s"' % i.replace('"', "'") for i in self.issues) + "]"
        L.append(f"def translationIssues : List String := {issues}")
        L.append("theorem translation_clean : translationIssues = [] := by decide")
        L.append("")
        for name in ENTRY:
            if name in self.progs:
                L.append(f"theorem {name}_coherent : (check m_{name} Coh.stale).isSome = true := by decide")
                L.append(f"theorem {name}_noClobber : noClobber m_{name} = true := by decide")
            else:
                L.append(f"theorem {name}_present : False := by decide  -- entry point missing from sampling.py")
        L.append("theorem driver_coherent : (check driver Coh.stale).isSome = true := by decide")
        L.append("")
        L.append("/- C12: entry points that must agree differ only by operations that are the identity under the stated hypothesis -/")
        L.append('def optTags : List String := ["optimize"]')
        L.append('def setupTags : List String := ["optimize", "build_measurement_intermediates", "build_propagation_intermediates"]')
        pairs = [("ad_eq_ad_norot", "optTags", "propagate_phaseless_ad", "propagate_phaseless_ad_norot"),
                 ("ad_nosr_eq_ad_nosr_norot", "optTags", "propagate_phaseless_ad_nosr", "propagate_phaseless_ad_nosr_norot"),
                 ("ad_norot_eq_plain", "setupTags", "propagate_phaseless_ad_norot", "propagate_phaseless")]
        for thm, tags, a, b in pairs:
            if a in self.progs and b in self.progs:
                L.append(f"theorem {thm} : eraseTags {tags} m_{a} = eraseTags {tags} m_{b} := by decide")
            else:
                L.append(f"theorem {thm} : False := by decide  -- entry point missing")
        L.append("")
        L.append("def entryPoints : List (String × Prog) := [" + ", ".join(f'("{n}", m_{n})' for n in ENTRY if n in self.progs)
                 + ', ("driver", driver)]')
        L.append("")
        L.append("end AfqmcVerif.Generated.SamplerProg")
        text = "\n".join(L) + "\n"
        old = open(dest).read() if os.path.exists(dest) else None
        if old != text:
            with open(dest, "w") as f:
                f.write(text)
        return text


def main(repo, verif):
    t = Translator(repo)
    t.load_sampler()
    t.load_driver()
    dest = os.path.join(verif, "lean", "AfqmcVerif", "Generated", "SamplerProg.lean")
    t.emit(dest)
    return t


if __name__ == "__main__":
    repo = sys.argv[1] if len(sys.argv) > 1 else "/repo"
    verif = os.path.dirname(os.path.dirname(os.path.abspath(__file__)))
    t = main(repo, verif)
    print(open(os.path.join(verif, "lean", "AfqmcVerif", "Generated", "SamplerProg.lean")).read())
    print("issues:", t.issues)
