"""Acceptance test for trials.py: the library's overlap / local energy of every trial class against the explicit
second-quantised state on the brute-force Fock space.

    cd /verif && PYTHONPATH=/repo /venv/bin/python harness/test_trials.py [-v]

exit status 0 iff every pass/fail criterion holds.  Checks that are reported but NOT part of the criterion are
marked "(info)": multislater with a non-aufbau reference, rhf._calc_energy with the unrestricted entry point,
spin-dependent h1, hand-coded ucisd with a non-orthogonal beta basis.
"""
import os
import random
import sys
import time

import numpy as np

sys.path.insert(0, os.path.dirname(os.path.abspath(__file__)))
import trials as T  # noqa: E402  (enables x64)
import fock  # noqa: E402

import jax.numpy as jnp  # noqa: E402

VERBOSE = "-v" in sys.argv
NORBS = (3, 4)
NELECS = [(2, 2), (2, 1), (1, 1), (2, 0)]
NWALK = 5
OVLP_TOL = 1e-10
ENERGY_TOL = {k: 1e-6 for k in T.KINDS}
ENERGY_TOL.update(cisd=1e-4, cisd_faster=1e-4, ucisd=1e-4)

failures = []


def log(*a):
    print(*a, flush=True)


def walker(rng, n, k, top=None):
    """random complex non-orthonormal dyadic walker; its leading k x k block is kept well conditioned because
    the CI kinds invert it"""
    while True:
        w = T.dy_orbitals(rng, n, k, cplx=True)
        if k == 0 or np.linalg.svd(w[:k], compute_uv=False)[-1] >= 0.2:
            return jnp.array(w)


def walkers_for(kind, rng, norb, nelec):
    up = walker(rng, norb, nelec[0])
    if kind in T.RESTRICTED_ONLY:
        return up, up
    return up, walker(rng, norb, nelec[1])


def overlap_errors(kind, rng, norb, nelec, n=NWALK, restricted_entry=False, **opt):
    trial, wave_data, desc = T.make(kind, rng, norb, nelec, **opt)
    sec, psi = T.state(kind, trial, wave_data, desc)
    npsi = np.linalg.norm(psi)
    out = []
    for _ in range(n):
        if restricted_entry:
            up = walker(rng, norb, nelec[0])
            dn = up[:, : nelec[1]]
            lib = complex(trial._calc_overlap_restricted(up, wave_data))
        else:
            up, dn = walkers_for(kind, rng, norb, nelec)
            lib = T.lib_overlap(kind, trial, wave_data, up, dn)
        phi = sec.slater(fock.walker_so(np.asarray(up), np.asarray(dn)))
        spec = complex(np.vdot(psi, phi))
        scale = max(1.0, npsi * np.linalg.norm(phi))
        out.append(abs(lib - spec) / scale)
    return out


# ------------------------------------------------------------------ 1. overlaps (pass/fail)
def test_overlaps():
    log("== overlaps: |lib - <psi_T|Phi>| / max(1, |psi||Phi|), %d complex walkers per case" % NWALK)
    rng = random.Random(20260926)
    summary = {}
    for kind in T.KINDS:
        worst, cases, unsupported = 0.0, 0, []
        for norb in NORBS:
            for nelec in NELECS:
                if not T.supported(kind, norb, nelec):
                    unsupported.append(nelec)
                    continue
                variants = [{}]
                if kind in ("rhf", "uhf"):
                    variants.append({"complex_mo": True})
                if kind in ("UCISD", "ucisd", "GCISD"):
                    variants += [{"mo": "generic"}, {"mo": "qr"}, {"mo": "identity"}]
                if kind == "GCISD":
                    variants.append({"antisym": False, "mo": "generic"})
                if kind == "multislater":
                    variants.append({"ndets": 12, "max_excitation": 4})
                for opt in variants:
                    errs = overlap_errors(kind, rng, norb, nelec, **opt)
                    # the restricted entry point of the unrestricted kinds (closed shell)
                    if kind not in T.RESTRICTED_ONLY and nelec[0] == nelec[1]:
                        errs += overlap_errors(kind, rng, norb, nelec, n=2, restricted_entry=True, **opt)
                    cases += 1
                    worst = max(worst, max(errs))
                    if VERBOSE:
                        log(f"   {kind:12s} norb={norb} nelec={nelec} {opt} max err {max(errs):.2e}")
                    if max(errs) > OVLP_TOL:
                        failures.append(f"overlap {kind} norb={norb} nelec={nelec} {opt}: {max(errs):.3e}")
        summary[kind] = worst
        sup = [ne for ne in NELECS if T.supported(kind, 4, ne)]
        log(f"  {kind:12s} max overlap err {worst:.2e} over {cases:3d} cases; supported nelec {sup}"
            f"{'' if worst <= OVLP_TOL else '   <-- FAIL'}")
    return summary


# ------------------------------------------------------------------ 2. SUPPORTED is what the library does
def test_supported_table():
    log("== SUPPORTED table against the library")
    rng = random.Random(7)
    # (a) the entry-point classification
    for kind in T.KINDS:
        nelec = (2, 2)
        trial, wave_data, desc = T.make(kind, rng, 3, nelec)
        ro = T.is_restricted_only(trial)
        if ro != (kind in T.RESTRICTED_ONLY) or ro != (T.SUPPORTED[kind]["entry"] == "restricted"):
            failures.append(f"entry point classification of {kind}")
        if ro:
            try:
                w = walker(rng, 3, 2)
                trial._calc_overlap(w, w, wave_data)
                failures.append(f"{kind}._calc_overlap unexpectedly defined")
            except NotImplementedError:
                pass
    # (b) rhf refuses open shells
    from ad_afqmc import wavefunctions
    try:
        wavefunctions.rhf(3, (2, 1))
        failures.append("rhf accepted an open shell")
    except AssertionError:
        log("  rhf(3,(2,1)): AssertionError as recorded")
    # (c) multislater with n_dn = 0 fails while tracing
    saved = dict(T.SUPPORTED["multislater"])
    T.SUPPORTED["multislater"]["n_dn_zero"] = True
    try:
        trial, wave_data, desc = T.make("multislater", rng, 3, (2, 0))
        try:
            trial._calc_overlap(walker(rng, 3, 2), walker(rng, 3, 0), wave_data)
            failures.append("multislater n_dn=0 unexpectedly works: update SUPPORTED")
        except Exception as e:  # noqa: BLE001
            log(f"  multislater nelec=(2,0): {type(e).__name__}: {str(e)[:90]} (as recorded)")
    finally:
        T.SUPPORTED["multislater"] = saved
    # (d) restricted CISD kinds with an open shell: the class silently treats the walker as closed shell
    for kind in ("CISD", "cisd"):
        trial, wave_data, desc = T.make(kind, rng, 3, (2, 2))
        w = walker(rng, 3, 2)
        import dataclasses
        t21 = dataclasses.replace(trial, nelec=(2, 1)) if dataclasses.is_dataclass(trial) else None
        a = complex(trial._calc_overlap_restricted(w, wave_data))
        b = complex(t21._calc_overlap_restricted(w, wave_data))
        log(f"  {kind} with nelec=(2,1) and a 2-column walker returns the (2,2) value: {abs(a - b) < 1e-14}")


# ------------------------------------------------------------------ 3. multislater, non-aufbau reference (info)
def test_multislater_random_reference():
    log("== multislater with a non-aufbau first determinant (info, excluded from the criterion)")
    rng = random.Random(99)
    res = {}
    for norb in NORBS:
        for nelec in [(2, 2), (2, 1), (1, 1)]:
            bad, tot, worst, example = 0, 0, 0.0, None
            for rep in range(8):
                trial, wave_data, desc = T.make("multislater", rng, norb, nelec, reference="random")
                sec, psi = T.state("multislater", trial, wave_data, desc)
                for _ in range(NWALK):
                    up, dn = walkers_for("multislater", rng, norb, nelec)
                    lib = T.lib_overlap("multislater", trial, wave_data, up, dn)
                    spec = T.spec_overlap(sec, psi, up, dn)
                    err = abs(lib - spec)
                    tot += 1
                    if err > 1e-8:
                        bad += 1
                        if example is None:
                            example = (desc["dets"][0][:2], lib, spec)
                    worst = max(worst, err)
            res[(norb, nelec)] = (bad, tot, worst)
            log(f"  norb={norb} nelec={nelec}: {bad}/{tot} overlaps wrong, worst abs err {worst:.3e}"
                + (f"; e.g. reference {example[0]}: lib {example[1]:.6f} spec {example[2]:.6f}" if example else ""))
    return res


# ------------------------------------------------------------------ 4. local energies
def ref_block_smin(kind, desc, up, dn):
    """smallest singular value of the occupied block that the CI kinds invert (plain data, no library code):
    the walker in the basis of the trial, rows of the reference determinant"""
    up, dn = np.asarray(up), np.asarray(dn)
    blocks = []
    if kind == "GCISD":
        w = np.asarray(desc["mo_coeff"]).T @ fock.walker_so(up, dn)
        blocks.append(w[: w.shape[1]])
    elif kind in ("UCISD", "ucisd"):
        blocks.append(up[: up.shape[1]])
        blocks.append((np.asarray(desc["mo_coeff"])[1].T @ dn)[: dn.shape[1]])
    elif kind == "multislater":
        a, b, _ = desc["dets"][0]
        blocks += [up[list(a)], dn[list(b)]]
    elif kind in T.RESTRICTED_ONLY:
        blocks.append(up[: up.shape[1]])
    return min([np.linalg.svd(b, compute_uv=False)[-1] for b in blocks if b.size] + [1.0])


def energy_errors(kind, rng, norb, nelec, spin_dependent=False, entry=None, nwalk=3, **opt):
    """entry: None (natural entry of the kind), 'restricted' or 'unrestricted'.
    -> (energy errors / max(1,|E|), force bias errors / max(1,|fb|))"""
    trial, wave_data, desc = T.make(kind, rng, norb, nelec, **opt)
    sec, psi = T.state(kind, trial, wave_data, desc)
    ham_data, plain = T.make_ham(rng, norb, nchol=3, spin_dependent=spin_dependent)
    ham_data = trial._build_measurement_intermediates(ham_data, wave_data)
    H = fock.hamiltonian(sec, plain["h0"], plain["h1"], plain["chol"])
    errs, fberrs = [], []
    for _ in range(nwalk):
        while True:
            if entry == "restricted" or (entry is None and kind in T.RESTRICTED_ONLY):
                up = walker(rng, norb, nelec[0])
                dn = up[:, : nelec[1]]
                restricted = True
            else:
                up, dn = walker(rng, norb, nelec[0]), walker(rng, norb, nelec[1])
                restricted = False
            phi = sec.slater(fock.walker_so(np.asarray(up), np.asarray(dn)))
            ov = np.vdot(psi, phi)
            # keep the local energy well conditioned: not a near-node walker, and a well conditioned
            # occupied block (the CI formulas divide by the overlap with the reference determinant)
            if (abs(ov) >= 0.1 * np.linalg.norm(psi) * np.linalg.norm(phi)
                    and ref_block_smin(kind, desc, up, dn) >= 0.2):
                break
        spec = complex(np.vdot(psi, H @ phi) / ov)
        lib = T.lib_energy(kind, trial, ham_data, wave_data, up, dn, restricted=restricted)
        errs.append(abs(lib - spec) / max(1.0, abs(spec)))
        fb_spec = T.spec_force_bias(sec, psi, plain["chol"], up, dn)
        fb_lib = T.lib_force_bias(kind, trial, ham_data, wave_data, up, dn, restricted=restricted)
        fberrs.append(np.max(np.abs(fb_lib - fb_spec)) / max(1.0, np.max(np.abs(fb_spec))))
    return errs, fberrs


FB_TOL = 1e-9


def test_energies():
    log("== local energy |lib - <psi_T|H|Phi>/<psi_T|Phi>| / max(1,|E|) and force bias "
        "|lib - <psi_T|L_g|Phi>/<psi_T|Phi>| / max(1,|fb|), spin-independent h1")
    rng = random.Random(4242)
    summary, fbsummary = {}, {}
    for kind in T.KINDS:
        worst, fbworst = 0.0, 0.0
        cases = [(3, (2, 2)), (4, (2, 2)), (4, (1, 1))]
        if T.SUPPORTED[kind]["open_shell"]:
            cases += [(3, (2, 1)), (4, (2, 1))]
        if T.SUPPORTED[kind]["n_dn_zero"]:
            cases += [(3, (2, 0))]
        # rhf: the unrestricted entry point _calc_energy is a known defect -> restricted entry for the criterion
        entry = "restricted" if kind == "rhf" else None
        for norb, nelec in cases:
            opt = {}
            if kind == "GCISD" and sum(nelec) == 3:
                # jnp.linalg.det (JAX 0.11.1) returns the wrong sign for some complex 3x3 matrices with tied
                # pivot candidates (see test_jax_det3); the exactly orthogonal dyadic MO matrices produce such
                # ties systematically, so the float-orthogonal basis is used here
                opt = {"mo": "qr"}
            t0 = time.time()
            try:
                errs, fberrs = energy_errors(kind, rng, norb, nelec, entry=entry, **opt)
                works = True
            except Exception as ex:  # noqa: BLE001
                works = False
                log(f"   {kind:12s} norb={norb} nelec={nelec} energy raises {type(ex).__name__}: {str(ex)[:70]}")
            expected = T.SUPPORTED[kind]["n_dn_zero_energy"] if nelec[1] == 0 else True
            if works != expected:
                failures.append(f"energy {kind} norb={norb} nelec={nelec}: runs={works}, SUPPORTED says {expected}")
            if not works:
                continue
            worst, fbworst = max(worst, max(errs)), max(fbworst, max(fberrs))
            if VERBOSE:
                log(f"   {kind:12s} norb={norb} nelec={nelec} energy {max(errs):.2e} force bias {max(fberrs):.2e}"
                    f"  ({time.time() - t0:.1f}s)")
            if max(errs) > ENERGY_TOL[kind]:
                failures.append(f"energy {kind} norb={norb} nelec={nelec}: {max(errs):.3e} > {ENERGY_TOL[kind]}")
            if max(fberrs) > FB_TOL:
                failures.append(f"force bias {kind} norb={norb} nelec={nelec}: {max(fberrs):.3e} > {FB_TOL}")
        summary[kind], fbsummary[kind] = worst, fbworst
        ok = worst <= ENERGY_TOL[kind] and fbworst <= FB_TOL
        log(f"  {kind:12s} max energy err {worst:.2e} (tol {ENERGY_TOL[kind]:.0e})  max force bias err {fbworst:.2e}"
            f"{'' if ok else '   <-- FAIL'}")
    return summary, fbsummary


def test_energy_info():
    log("== local energies, informational (excluded from the criterion)")
    rng = random.Random(555)
    info = {}

    def run(label, kind, norb, nelec, **kw):
        try:
            e, fb = energy_errors(kind, rng, norb, nelec, **kw)
            info[label] = (max(e), max(fb))
            log(f"  {label:70s} energy err {max(e):.2e}  force bias err {max(fb):.2e}")
        except Exception as ex:  # noqa: BLE001
            info[label] = repr(ex)
            log(f"  {label:70s} {type(ex).__name__}: {str(ex)[:80]}")

    run("rhf, unrestricted entry _calc_energy, up != dn", "rhf", 3, (2, 2), entry="unrestricted")
    for kind in ("uhf", "ghf", "noci", "multislater", "UCISD", "GCISD", "ucisd"):
        run(f"{kind}, spin-dependent h1, unrestricted entry", kind, 3, (2, 1), spin_dependent=True)
    for kind in ("rhf", "CISD", "cisd", "CISD_THC"):
        run(f"{kind}, spin-dependent h1, restricted entry (uses the spin average)", kind, 3, (2, 2),
            spin_dependent=True, entry="restricted")
    run("UCISD (auto), non-orthogonal beta basis", "UCISD", 3, (2, 1), mo="generic")
    run("ucisd (hand-coded), non-orthogonal beta basis", "ucisd", 3, (2, 1), mo="generic")
    run("ucisd (hand-coded), float-orthogonal (qr) beta basis", "ucisd", 4, (2, 1), mo="qr")
    run("GCISD (auto), non-orthogonal MO basis", "GCISD", 3, (2, 1), mo="generic")
    run("uhf, complex orbitals", "uhf", 3, (2, 1), complex_mo=True)
    run("rhf, complex orbitals, restricted entry", "rhf", 3, (2, 2), complex_mo=True, entry="restricted")
    return info


def test_jax_det3():
    """(info) jnp.linalg.det in this JAX returns the wrong SIGN for some complex 3x3 matrices whose pivot
    candidates tie (closed-form 3x3 path under jit); every 3-electron determinant of the library goes through it"""
    import jax
    log(f"== jnp.linalg.det on complex 3x3 matrices with tied rows (info; jax {jax.__version__})")
    g = np.random.default_rng(1)
    res = {}
    for label, tie in (("generic", False), ("rows 0,1 equal in columns 0,1", True)):
        bad, n = 0, 1500
        for _ in range(n):
            m = g.standard_normal((3, 3)) + 1j * g.standard_normal((3, 3))
            if tie:
                m[1, :2] = m[0, :2]
            d1, d2 = np.linalg.det(m), complex(jnp.linalg.det(jnp.array(m)))
            bad += abs(d1 - d2) > 1e-9 * max(1e-3, abs(d1))
        res[label] = (bad, n)
        log(f"  {label:32s}: {bad}/{n} determinants wrong (sign flipped)")
    return res


if __name__ == "__main__":
    t0 = time.time()
    ov = test_overlaps()
    test_supported_table()
    ms = test_multislater_random_reference()
    en, fb = test_energies()
    inf = test_energy_info()
    test_jax_det3()
    log("== summary (max errors)")
    for kind in T.KINDS:
        sup = [ne for ne in NELECS if T.supported(kind, 4, ne)]
        log(f"  {kind:12s} overlap {ov[kind]:.2e}  energy {en[kind]:.2e}  force bias {fb[kind]:.2e}  nelec {sup}")
    log(f"elapsed {time.time() - t0:.0f}s")
    if failures:
        log("FAILURES:")
        for f in failures:
            log("  " + f)
        sys.exit(1)
    log("ALL PASS")
