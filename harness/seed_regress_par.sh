#!/bin/bash
# usage: seed_regress_par.sh <tier> <Cxx> [<Cxx> ...] — like seed_regress.sh, but each saved seed of the listed properties is applied
# to its own scratch worktree of /repo (removed afterwards) and the check runs with VERIF_REPO pointing there, so several
# streams can run side by side.  Not for C08 / C12 / C20 (their translators rewrite the shared Generated/*.lean).
tier=$1; shift
cd /verif
for id in "$@"; do
  case $id in C08|C12|C20) echo "$id: use seed_regress.sh (shared generated files)"; continue;; esac
  for d in seeded/$id*/; do
    name=$(basename $d)
    st=$(python3 -c "import json;print(json.load(open('$d/meta.json')).get('status','active'))")
    [ "$st" = "neutralised" ] && { echo "$name: skipped (neutralised by a later fix, see meta.json)"; continue; }
    wt=/tmp/wtp/$name
    rm -rf $wt; mkdir -p /tmp/wtp
    git -C /repo worktree add -q --detach $wt HEAD || { echo "$name: worktree failed"; continue; }
    git -C $wt apply /verif/$d/patch.diff || { echo "$name: patch does not apply"; git -C /repo worktree remove --force $wt; continue; }
    out=$(VERIF_REPO=$wt ./check $id --tier $tier 2>&1); rc=$?
    git -C /repo worktree remove --force $wt
    nv=$(echo "$out" | grep -c "^VIOLATION")
    nf=$(echo "$out" | grep -c "no-failing-input-found")
    echo "$name: exit=$rc violations=$nv no_input=$nf"
  done
done
git -C /repo worktree prune
