"""C09 — weights real, finite, non-negative; dead stay dead.

Lean: decision logic of the weight updates on IEEE-like values (any raw factor, any history).
Tie: (a) the phaseless `where` chain of the real propagate is driven to every value class of the raw
importance factor (NaN, +-inf, negative, below / inside / above the window) by choosing the stored
overlaps, and the resulting weights are compared with the model; (b) long histories of every
propagator with hostile parameters, invariants monitored after every step (failing-input search);
(c) sampler-level killed-walker fraction."""
import json
import math
import random
from fractions import Fraction

import numpy as np

import common
import systems

LEVEL = "proof"
LO, HI, CAP = Fraction(1.0e-3), Fraction(100.0), Fraction(100.0)


def rs(q):
    q = Fraction(q)
    return str(q.numerator) if q.denominator == 1 else f"{q.numerator}/{q.denominator}"


def ftok(x):
    x = float(x)
    if math.isnan(x):
        return "nan"
    if math.isinf(x):
        return "inf" if x > 0 else "-inf"
    return rs(Fraction(x))


def check_weights(w_new, w_old, shift, window, where):
    """invariants after one step; returns list of (clause, detail)"""
    bad = []
    w_new = np.array(w_new)
    if np.iscomplexobj(w_new):
        bad.append(("weights are real numbers", {"dtype": str(w_new.dtype)}))
        w_new = w_new.real
    if not np.isfinite(w_new).all():
        bad.append(("every weight remains finite", {"weights": w_new.tolist()}))
    elif (w_new < 0).any():
        bad.append(("every weight remains >= 0", {"weights": w_new.tolist()}))
    elif (w_new > 100).any():
        bad.append(("weights stay within the documented cap", {"weights": w_new.tolist()}))
    w_old = np.array(w_old).real
    dead = (w_old == 0)
    if np.isfinite(w_new).all() and (w_new[dead] != 0).any():
        bad.append(("a walker whose weight reached 0 keeps weight 0", {"before": w_old.tolist(), "after": w_new.tolist()}))
    if window and np.isfinite(w_new).all():
        for a, b in zip(w_old, w_new):
            if a > 0 and b != 0:
                f = b / a
                if not (1.0e-3 * (1 - 1e-12) <= f <= 100.0 * (1 + 1e-12)):
                    bad.append(("a single step multiplies a weight by 0 or by a factor inside the window", {"factor": float(f)}))
                    break
    s = float(np.sum(w_new)) if np.isfinite(w_new).all() else float("nan")
    if s > 0 and not np.isfinite(complex(shift)):
        bad.append(("population-control shift stays finite while any walker is alive", {"shift": str(shift), "sum_w": s}))
    for c, d in bad:
        d["where"] = where
    return bad


# ---------------------------------------------------------------- (a) value classes of the raw factor
def value_class_cases(rng, walker_type):
    """drive propagator.propagate so that the raw importance factor of each walker falls into a chosen class"""
    import jax.numpy as jnp
    from jax import random as jr
    tk, nelec = ("rhf", (2, 2)) if walker_type == "restricted" else ("uhf", (2, 1))
    n = 12
    S = systems.make_system(rng, tk, walker_type, norb=4, nelec=nelec, nchol=2, n_walkers=n, dt=0.05, seed=rng.randrange(1 << 30))
    prop, trial, hd, wd = S["prop"], S["trial"], S["ham_data"], S["wave_data"]
    fields = jr.normal(jr.PRNGKey(rng.randrange(1 << 30)), (n, 2))
    pd0 = systems.copy_prop_data(S["prop_data"])
    ref = prop.propagate(trial, hd, systems.copy_prop_data(pd0), fields, wd)
    ov_new = np.array(ref["overlaps"])
    # raw complex importance function of the reference run, recomputed from public quantities
    fb = np.array(trial.calc_force_bias(pd0["walkers"], hd, wd))
    mf = np.array(hd["mf_shifts"])
    sdt = np.sqrt(prop.dt)
    fs = -sdt * (1j * fb - mf)
    sh = np.array(fields) - fs
    shift_term = np.sum(sh * mf, axis=1)
    fb_term = np.sum(np.array(fields) * fs - fs * fs / 2.0, axis=1)
    pref = np.exp(-sdt * shift_term + fb_term + prop.dt * (complex(pd0["pop_control_ene_shift"]) + complex(hd["h0_prop"])))
    phase_pref = np.exp(-sdt * shift_term)
    # target raw factors (|I| cos theta) per walker
    targets = [float("nan"), float("inf"), -3.0, 1.0e-5, 5.0e-4, 2.0e-3, 0.5, 1.0, 7.0, 99.0, 150.0, 1.0e30]
    w0 = [1.0, 0.0, 2.0, 1.0, 0.5, 3.0, 1.0, 100.0, 20.0, 1.0, 1.0, 1.0]
    ov_old = np.array(pd0["overlaps"]).astype(complex)
    for k, tgt in enumerate(targets):
        if math.isnan(tgt):
            ov_old[k] = float("nan")
        elif math.isinf(tgt):
            ov_old[k] = 0.0
        else:
            # choose ov_old so that I = tgt (real, phase 0 after removing the mean-field phase):
            # I = pref * ov_new / ov_old and theta = angle(phase_pref * ov_new / ov_old)
            # take ov_old = pref*ov_new/ (|tgt| * u) with u a unit phase making theta = 0 or pi
            ratio_phase = (phase_pref[k] / pref[k])
            ratio_phase = ratio_phase / abs(ratio_phase)
            sign = 1.0 if tgt >= 0 else -1.0
            imp = abs(tgt) * sign / ratio_phase          # I with phase such that theta = 0 (or pi)
            ov_old[k] = pref[k] * ov_new[k] / imp
    pd = systems.copy_prop_data(pd0)
    pd["overlaps"] = jnp.array(ov_old)
    pd["weights"] = jnp.array(w0)
    out = prop.propagate(trial, hd, pd, fields, wd)
    w_out = np.array(out["weights"])
    # the raw factor the code computed, from the same public quantities
    with np.errstate(all="ignore"):
        imp = pref * ov_new / ov_old
        theta = np.angle(phase_pref * ov_new / ov_old)
        raw = np.abs(imp) * np.cos(theta)
    return [(float(raw[k]), float(w0[k]), float(w_out[k]), walker_type, targets[k]) for k in range(n)], out


# ---------------------------------------------------------------- (b) histories
def history(rng, kind, nsteps, hostile):
    """returns (failures, nsteps_run, stats)"""
    import jax.numpy as jnp
    from jax import random as jr
    dt = rng.choice(hostile["dts"])
    seed = rng.randrange(1 << 30)
    if kind in ("restricted", "unrestricted"):
        tk, nelec = ("rhf", (2, 2)) if kind == "restricted" else ("uhf", (2, 1))
        S = systems.make_system(rng, tk, kind, norb=4, nelec=nelec, nchol=3, n_walkers=6, dt=dt, seed=seed,
                                h_scale=rng.choice([1.0, 3.0]), l_scale=rng.choice([0.5, 2.0]))
        nf = 3
        window = True
    else:
        adj = systems.chain_adjacency(4) if rng.random() < 0.5 else systems.grid_adjacency(2, 2)
        tk = rng.choice(["uhf_cpmc", "ghf_cpmc"])
        S = systems.make_hubbard(rng, adj, hostile.get("u", rng.choice([1.0, 4.0, 12.0])), rng.choice([(2, 2), (2, 1), (1, 1)]), tk, kind,
                                 dt=dt, n_walkers=6, seed=seed, **({"u1": hostile["u1"]} if "u1" in hostile else {}))
        nf = 4
        window = False
    prop, trial, hd, wd = S["prop"], S["trial"], S["ham_data"], S["wave_data"]
    pd = S["prop_data"]
    key = jr.PRNGKey(seed)
    fails = []
    desc = {"propagator": kind, "dt": dt, "seed": seed, "trial": type(trial).__name__}
    ndead = 0
    for t in range(nsteps):
        key, sub = jr.split(key)
        f = jr.normal(sub, (6, nf))
        if hostile["extreme"] and rng.random() < 0.15:
            f = f.at[rng.randrange(6), rng.randrange(nf)].set(rng.choice([30.0, -30.0, 1.0e3]))
        w_old = np.array(pd["weights"])
        pd = prop.propagate(trial, hd, pd, f, wd)
        bad = check_weights(pd["weights"], w_old, pd["pop_control_ene_shift"], window, {**desc, "step": t})
        ndead = max(ndead, int(np.sum(np.array(pd["weights"]) == 0)))
        if bad:
            fails += bad
            break
        if (t + 1) % 10 == 0 and float(np.sum(np.array(pd["weights"]))) > 0:
            pd = prop.orthonormalize_walkers(pd) if kind in ("restricted", "unrestricted") else pd
            pd = prop.stochastic_reconfiguration_local(pd)
            pd["overlaps"] = trial.calc_overlap(pd["walkers"], wd)
            if "greens" in pd:
                pd["greens"] = trial.calc_full_green_vmap(pd["walkers"], wd)
    return fails, t + 1, {"max_dead": ndead}


def run(ctx):
    systems.setup_jax()
    rng = random.Random(ctx.seed)
    proofs_ok = ctx.build_and_audit()
    spec_fail = []
    # (a)
    lines, refs = [], []
    for wt in ("restricted", "unrestricted"):
        try:
            cases, out = value_class_cases(rng, wt)
            for raw, w0, wout, wt_, tgt in cases:
                lines.append(f"phaseless {rs(LO)} {rs(HI)} {rs(CAP)} {ftok(raw)} {ftok(w0)}")
                refs.append((raw, w0, wout, wt_, tgt))
        except Exception as ex:
            spec_fail.append(("propagator.propagate", "value-class run executes", {"walker_type": wt, "error": repr(ex)[:300]}))
    mism, skipped = [], 0
    classes = {}
    try:
        model = common.lean_run("C09", lines) if lines else []
        for k, (raw, w0, wout, wt_, tgt) in enumerate(refs):
            d = dict(tok.split("=", 1) for tok in model[k].split(" ") if "=" in tok)
            cls = "nan" if math.isnan(raw) else ("inf" if math.isinf(raw) else ("neg" if raw < 0 else ("low" if raw < 1e-3 else ("high" if raw > 100 else "window"))))
            classes[cls] = classes.get(cls, 0) + 1
            # decision margins: raw within 1e-9 of a threshold, or product within 1e-9 of the cap
            if math.isfinite(raw) and (abs(raw - 1e-3) < 1e-9 or abs(raw - 100.0) < 1e-6 or abs(raw * w0 - 100.0) < 1e-6):
                skipped += 1
                continue
            want = d.get("weight")
            wv = float("nan") if want == "nan" else (float("inf") if want == "inf" else (float("-inf") if want == "-inf" else float(Fraction(want))))
            ok = (math.isnan(wv) and math.isnan(wout)) or (math.isfinite(wv) and math.isfinite(wout) and abs(wv - wout) <= 1e-9 * max(1.0, abs(wv)))
            if not ok:
                mism.append({"raw_factor": raw, "class": cls, "w_before": w0, "impl_w_after": wout, "model_w_after": want, "walker_type": wt_})
    except Exception as ex:
        ctx.broken.append({"kind": "driver", "error": str(ex)[-1500:]})
    # (b)
    kinds = ["restricted", "unrestricted", "cpmc", "cpmc_slow", "cpmc_nn", "cpmc_nn_slow", "cpmc_continuous"]
    nhist = 2 if ctx.tier == "quick" else 10
    nsteps = 40 if ctx.tier == "quick" else 120
    hist_stats = {}
    total_steps = 0
    for kind in kinds:
        for h in range(nhist):
            hostile = {"dts": [1e-4, 0.01, 0.1, 0.5, 1.0] if h % 2 else [0.01, 0.1, 0.5], "extreme": h % 2 == 1}
            try:
                fails, n, st = history(rng, kind, nsteps, hostile)
            except Exception as ex:
                fails, n, st = [("history runs", {"propagator": kind, "error": repr(ex)[:300]})], 0, {}
            total_steps += n
            hist_stats.setdefault(kind, []).append({"steps": n, **st})
            for c, d in fails:
                spec_fail.append((kind, c, d))
        if kind.startswith("cpmc"):
            # a hopeless time step at strong coupling: the whole population dies, and must then stay dead (weight 0, not NaN)
            try:
                fails, n, st = history(rng, kind, 12, {"dts": [0.4], "extreme": False, "u": 12.0, "u1": 3.0})
            except Exception as ex:
                fails, n, st = [("history runs", {"propagator": kind, "error": repr(ex)[:300]})], 0, {}
            total_steps += n
            hist_stats.setdefault(kind, []).append({"steps": n, "collapse_history": True, **st})
            for c, d in fails:
                spec_fail.append((kind, c, d))
    # (c) killed fraction through the sampler
    try:
        from ad_afqmc import sampling
        S = systems.make_system(rng, "uhf", "unrestricted", norb=4, nelec=(2, 1), nchol=3, n_walkers=6, dt=0.5, seed=rng.randrange(1 << 30), l_scale=2.0)
        smp = sampling.sampler(n_prop_steps=5, n_ene_blocks=2, n_sr_blocks=2, n_blocks=1)
        e, pd = smp.propagate_phaseless(S["ham"], dict(S["ham_data"]), S["prop"], systems.copy_prop_data(S["prop_data"]), S["trial"], S["wave_data"])
        kf = float(pd["n_killed_walkers"])
        ctx.cov["killed_fraction_sample"] = kf
        if not (0.0 <= kf <= 1.0):
            spec_fail.append(("sampler.propagate_phaseless", "reported killed-walker fraction lies in [0,1]", {"fraction": kf}))
    except Exception as ex:
        spec_fail.append(("sampler.propagate_phaseless", "sampler runs with a large time step", {"error": repr(ex)[:300]}))

    ctx.cov["evaluations"] = len(refs) + total_steps
    ctx.cov["distinct_nontrivial"] = len(classes) + len(kinds) * nhist
    ctx.cov["rule"] = ("(a) one real phaseless step per walker type with stored overlaps chosen so that the raw importance factor of the 12 walkers "
                       "hits NaN, +inf, negative, below window, inside window, above window, 1e30, with initial weights incl. 0 and 100; resulting "
                       "weights compared with the Lean model on IEEE-like values; (b) histories of 40 (120) steps for all 7 propagators with dt from "
                       "1e-4 to 1.0, strong interactions, poor trials and injected extreme fields, invariants monitored after every step, local SR "
                       "every 10 steps; (c) killed-walker fraction of a sampler run at dt = 0.5")
    ctx.cov["samples"] = lines[:3] + [json.dumps(hist_stats.get("cpmc", [])[:1])]
    ctx.cov["distribution"] = {"raw_factor_classes": classes, "histories": {k: len(v) for k, v in hist_stats.items()}, "steps_monitored": total_steps}
    ctx.cov["skipped"] = {"threshold_near_ties": skipped}
    ctx.cov["correspondence"] = {"where_chain_cases": len(refs), "mismatches": len(mism)}
    ctx.assumptions += ["exp/log/cos/angle and IEEE rounding (the model takes the raw factor as data)",
                        "finite products do not overflow (weights <= 100, factors <= 100)"]
    if mism:
        ctx.broken.append({"kind": "correspondence", "first": mism[:3], "count": len(mism)})
    seen = set()
    for name, clause, det in spec_fail:
        if (name, clause) in seen:
            continue
        seen.add((name, clause))
        k = common.known_match("C09", name, clause)
        if k:
            ctx.known_finding(f"{name}: {clause} ({k.get('what_fails', '')[:120]})")
        else:
            ctx.violation({"propagator": name, "clause": clause, "detail": det})


def replay(path):
    systems.setup_jax()
    r = json.load(open(path))
    print(json.dumps(r, indent=1)[:2500])
    return 1
