"""C16 — the pyscf interface writes the molecule's Hamiltonian and a consistent trial (partial).

Lean: electron-count bookkeeping of the FCIDUMP header (incl. frozen core), triangular unpacking is a
bijection, the QR phase fix returns pyscf's own MO phases when basis^T S mo is orthogonal, amplitude
conversion closed forms.  Tie: (exact) header / nelec_sp / unpacked custom Cholesky vectors / converted
amplitudes for injected dyadic amplitudes vs the Lean model; (property on the implementation) for random
small molecules: trial energy through mpi_jax._prep_afqmc + init_prop_data vs the pyscf mean-field energy,
FCI of the written Hamiltonian vs pyscf FCI/CASCI, CISD/UCISD mixed energy at the reference vs the
coupled-cluster energy (also in randomly re-phased MO gauges), written trial coefficients vs basis^T S mo."""
import json
import os
import random
from fractions import Fraction

import numpy as np

import common
import systems

LEVEL = "proof"


def rs(q):
    q = Fraction(q)
    return str(q.numerator) if q.denominator == 1 else f"{q.numerator}/{q.denominator}"


def libs():
    from ad_afqmc import config
    config.afqmc_config["use_mpi"] = False
    systems.setup_jax()
    from ad_afqmc import mpi_jax, pyscf_interface
    return mpi_jax, pyscf_interface


def estimate(trial, wt):
    """energy of the trial read back by the AFQMC set-up, as the driver computes it"""
    import molecules as M
    mpi_jax, _ = libs()
    with M.quiet():
        ham_data, ham, prop, tr, wd, smp, obs, opts, _ = mpi_jax._prep_afqmc({"trial": trial, "walker_type": wt, "n_walkers": 2, "seed": 1})
        ham_data = ham.build_measurement_intermediates(ham_data, tr, wd)
        ham_data = ham.build_propagation_intermediates(ham_data, prop, tr, wd)
        pd = prop.init_prop_data(tr, wd, ham_data)
    return float(pd["e_estimate"]), tr


def dyadic(rng, shape, bits=3):
    return np.array([rng.randint(-(1 << bits), 1 << bits) / float(1 << bits) for _ in range(int(np.prod(shape)))]).reshape(shape)


def rephase(rng, mf):
    """an equally valid gauge: flip the phase of random MOs (never all of the first ones only)"""
    mo = np.array(mf.mo_coeff, copy=True)
    if mo.ndim == 3:
        for s in (0, 1):
            for j in range(mo.shape[2]):
                if rng.random() < 0.4:
                    mo[s][:, j] *= -1.0
    else:
        for j in range(mo.shape[1]):
            if rng.random() < 0.4:
                mo[:, j] *= -1.0
    mf.mo_coeff = mo
    return mf


def build_case(case):
    """deterministically rebuild the pyscf objects of a case descriptor"""
    import molecules as M
    rng = random.Random(case["seed"])
    if case["kind"] == "lattice":
        mol, mf, ints = M.lattice_mf(rng, case["nsite"], tuple(case["nelec"]), case["u"])
        return mol, mf, ints
    mol, mf = M.mean_field(case["atom"], case["basis"], case["spin"], case["method"], df=case.get("df", False))
    if case.get("rephase"):
        rephase(rng, mf)
    return mol, mf, None


def basis_for(case, mf, rng):
    mode = case.get("basis_mode", "mo")
    mo = mf.mo_coeff[0] if np.ndim(mf.mo_coeff) == 3 else mf.mo_coeff
    nf = case.get("nf", 0)
    if mode == "mo":
        return None
    n = mo.shape[1]
    if mode == "rot":          # rotate the non-frozen orbitals among themselves
        U = np.eye(n)
        U[nf:, nf:] = systems.orthonormal(rng, n - nf, n - nf)
        return mo @ U
    if mode == "lowdin":       # symmetric orthogonalisation of the AOs
        S = mf.get_ovlp()
        w, v = np.linalg.eigh(S)
        return v @ np.diag(w ** -0.5) @ v.T
    raise ValueError(mode)


def run_case(case, workdir):
    """returns (failures, lean_lines, lean_expect, info)"""
    import molecules as M
    from pyscf import cc as pcc
    from pyscf import fci, mcscf
    mpi_jax, pyscf_interface = libs()
    os.makedirs(workdir, exist_ok=True)
    os.chdir(workdir)
    for f in ("FCIDUMP_chol", "mo_coeff.npz", "amplitudes.npz"):
        if os.path.exists(f):
            os.remove(f)
    fails, lines, expect = [], [], []
    rng = random.Random(case["seed"] + 17)
    mol, mf, ints = build_case(case)
    nf = case.get("nf", 0)
    cut = case["chol_cut"]
    tol = 1e-8 + 30 * cut if not case.get("df") else 1e-8
    na, nb = mol.nelec
    info = {}
    if case.get("method") == "uhf":
        try:
            info["S2"] = float(mf.spin_square()[0])
        except Exception:
            pass
    basis = basis_for(case, mf, rng) if ints is None else (np.eye(case["nsite"]) if case.get("basis_mode") == "identity" else None)
    kind = case["kind"]
    if ints is None:
        # a preparation is a function of its arguments only: an earlier preparation of the same molecule (as in a script
        # that prepares several trials one after the other) must not influence this one
        with M.quiet():
            pyscf_interface.prep_afqmc(mf, chol_cut=cut)
        info["preceded_by_another_preparation"] = True
    if kind in ("mf", "lattice"):
        with M.quiet():
            ints_in = ints
            if ints is not None and case.get("eri_layout"):
                # the same two-electron integrals in another of the layouts pyscf produces / ao2mo.restore accepts
                from pyscf import ao2mo as _ao
                n_ = case["nsite"]
                lay = case["eri_layout"]
                h2 = {"4-index": lambda e: e, "4-fold": lambda e: _ao.restore(4, e, n_), "8-fold": lambda e: _ao.restore(8, e, n_),
                      "full-matrix": lambda e: np.asarray(e).reshape(n_ * n_, n_ * n_)}[lay](np.asarray(ints["h2"]))
                ints_in = dict(ints, h2=h2)
                info["eri_layout"] = lay
            pyscf_interface.prep_afqmc(mf, basis_coeff=basis, norb_frozen=nf, chol_cut=cut, integrals=ints_in)
    else:
        frozen = nf if nf else None
        if kind == "ccsd":
            mycc = pcc.CCSD(mf, frozen=frozen)
        else:
            mycc = pcc.UCCSD(mf, frozen=frozen)
        mycc.verbose = 0
        mycc.conv_tol = 1e-10
        mycc.conv_tol_normt = 1e-8
        mycc.max_cycle = 200
        if case.get("inject"):
            t1, t2 = mycc.init_amps()[1:]
            if kind == "ccsd":
                mycc.t1, mycc.t2 = dyadic(rng, t1.shape), dyadic(rng, t2.shape)
            else:
                mycc.t1 = tuple(dyadic(rng, x.shape) for x in t1)
                mycc.t2 = tuple(dyadic(rng, x.shape) for x in t2)
        else:
            mycc.kernel()
            if not mycc.converged:
                return [], [], [], {"skipped": "cc not converged"}
        with M.quiet():
            pyscf_interface.prep_afqmc(mycc, chol_cut=cut)
    header, h0, h1, chol, h1mod = M.read_fcidump()
    nao = (case["nsite"] if ints is not None else mol.nao)
    # ---- exact bookkeeping vs the Lean model
    lines.append(f"header {na} {nb} {nao} {nf} {header[3]}")
    expect.append(("header", None))
    info["header"] = header
    # h1_mod = h1 - v0
    v0 = 0.5 * np.einsum("gik,gjk->ij", chol, chol)
    if np.abs(h1mod - (h1 - v0)).max() > 1e-10:
        fails.append(("write_dqmc", "hcore_mod equals hcore - 1/2 sum_g L_g L_g", {"error": float(np.abs(h1mod - (h1 - v0)).max())}))
    # ---- trial coefficients vs basis^T S mo
    S = mf.get_ovlp() if ints is None else np.eye(nao)
    B = basis if basis is not None else (mf.mo_coeff[0] if np.ndim(mf.mo_coeff) == 3 else mf.mo_coeff)
    written = np.load("mo_coeff.npz")["mo_coeff"]
    unrestricted_obj = np.ndim(mf.mo_coeff) == 3
    from pyscf import scf
    for s in (0, 1):
        mo_s = mf.mo_coeff[s] if unrestricted_obj else mf.mo_coeff
        mo_act = mo_s[:, nf:]
        if isinstance(mf, scf.rohf.ROHF):
            # occupied columns first (doubly, singly, virtual): what a trial that occupies the leading columns needs
            mo_act = mo_act[:, np.argsort(-np.asarray(mf.mo_occ)[nf:], kind="stable")]
            info["rohf_occupation"] = [int(x) for x in mf.mo_occ]
        Mx = B[:, nf:].T @ S @ mo_act
        if np.abs(Mx.T @ Mx - np.eye(Mx.shape[0])).max() > 1e-9:
            info.setdefault("nonorthogonal_M", []).append(s)
            continue
        if isinstance(mf, (scf.uhf.UHF, scf.rohf.ROHF)):
            err = np.abs(written[s] - Mx).max()
            clause = "written trial coefficients are pyscf's MOs in the AFQMC basis with their own phases (QR phase fix)"
        else:
            err = np.abs(np.abs(written[s]) - np.abs(Mx)).max() + np.abs(written[s] @ written[s].T - Mx @ Mx.T).max()
            clause = "written trial coefficients are pyscf's MOs in the AFQMC basis up to column signs"
        if err > 1e-8:
            fails.append(("prep_afqmc", clause, {"spin": s, "error": float(err)}))
    # ---- energies
    if kind in ("mf", "lattice"):
        e_ref = float(mf.e_tot) + (ints["h0"] if ints is not None else 0.0)
        combos = [("rhf", "rhf"), ("uhf", "uhf")] if (not isinstance(mf, (scf.uhf.UHF, scf.rohf.ROHF))) else [("uhf", "uhf")]
        for trial, wt in combos:
            e, tr = estimate(trial, wt)
            lines.append(f"nelec_sp {header[0]} {header[2]}")
            expect.append(("nelec_sp", tuple(int(x) for x in tr.nelec)))
            if tuple(tr.nelec) != (na - nf, nb - nf):
                fails.append(("_prep_afqmc", "electron counts read back equal the molecule's per-spin counts minus the frozen core",
                              {"read_back": list(tr.nelec), "molecule": [na, nb], "frozen": nf}))
            if not np.isfinite(e) or abs(e - e_ref) > tol:
                fails.append(("prep_afqmc+_prep_afqmc", f"trial energy ({trial} trial, {wt} walkers) equals the pyscf mean-field energy within the Cholesky threshold",
                              {"library": e, "pyscf": e_ref, "tolerance": tol}))
            info.setdefault("dE_mf", []).append(e - e_ref)
        if case.get("fci"):
            nsp = (na - nf, nb - nf)
            e_w = M.fci_of_written(h0, h1, chol, nsp)
            if ints is not None:
                e_f = M.exact_ground_state(ints["h0"], ints["h1"], ints["h2"], (na, nb))
            else:
                # pyscf's own (non density-fitted) integrals in the restricted MO basis of the same molecule
                mol2, mf2 = (mol, mf) if not unrestricted_obj and not case.get("df") else M.mean_field(case["atom"], case["basis"], case["spin"], "rohf" if case["spin"] else "rhf")
                e_f = M.fci_of_molecule(mol2, mf2, nf, nsp, basis=(B if (mf2 is mf and basis is not None) else None))
            ftol = tol if not case.get("df") else 5e-3   # density fitting changes the Hamiltonian itself
            if abs(e_w - e_f) > ftol:
                fails.append(("prep_afqmc", "exact ground-state energy of the written Hamiltonian equals pyscf's FCI energy",
                              {"written": float(e_w), "pyscf": float(e_f), "tolerance": ftol}))
            info["dE_fci"] = float(e_w - e_f)
        if ints is not None and case.get("basis_mode") == "identity":
            # exact unpacking vs the Lean model
            from pyscf import ao2mo
            chol0 = pyscf_interface.modified_cholesky(ao2mo.restore(4, ints["h2"], nao), cut)
            for g in range(min(3, chol0.shape[0])):
                lines.append(f"unpack {nao} " + " ".join(rs(Fraction(float(x))) for x in chol0[g]))
                expect.append(("vec", [Fraction(float(x)) for x in chol[g].ravel()]))
    else:
        amps = np.load("amplitudes.npz")
        if case.get("inject"):
            if kind == "ccsd":
                no, nv = mycc.t1.shape
                lines.append(f"ci2 {no} {nv} " + " ".join(rs(Fraction(float(x))) for x in list(mycc.t1.ravel()) + list(mycc.t2.ravel())))
                expect.append(("vec", [Fraction(float(x)) for x in amps["ci2"].ravel()]))
                if np.abs(amps["ci1"] - mycc.t1).max() != 0:
                    fails.append(("prep_afqmc", "ci1 equals t1", {}))
            else:
                (t1a, t1b), (t2aa, t2ab, t2bb) = mycc.t1, mycc.t2
                for nm, t1, t2 in (("ci2aa", t1a, t2aa), ("ci2bb", t1b, t2bb)):
                    no, nv = t1.shape
                    lines.append(f"ci2same {no} {nv} " + " ".join(rs(Fraction(float(x))) for x in list(t1.ravel()) + list(t2.ravel())))
                    expect.append(("vec", [Fraction(float(x)) for x in amps[nm].ravel()]))
                noa, nva = t1a.shape
                nob, nvb = t1b.shape
                lines.append(f"ci2ab {noa} {nva} {nob} {nvb} " + " ".join(rs(Fraction(float(x))) for x in list(t1a.ravel()) + list(t1b.ravel()) + list(t2ab.ravel())))
                expect.append(("vec", [Fraction(float(x)) for x in amps["ci2ab"].ravel()]))
        else:
            trial, wt = ("cisd", "rhf") if kind == "ccsd" else ("ucisd", "uhf")
            e, tr = estimate(trial, wt)
            ctol = 1e-6 + 100 * cut
            if not np.isfinite(e) or abs(e - mycc.e_tot) > ctol:
                fails.append(("prep_afqmc+_prep_afqmc", f"{trial} trial's mixed energy at the reference determinant equals the coupled-cluster total energy",
                              {"library": e, "pyscf_cc": float(mycc.e_tot), "tolerance": ctol,
                               "negative_alpha_beta_mo_overlaps": int(np.sum(np.diag(mf.mo_coeff[0].T @ S @ mf.mo_coeff[1]) < 0)) if unrestricted_obj else None}))
            info["dE_cc"] = e - float(mycc.e_tot)
            lines.append(f"nelec_sp {header[0]} {header[2]}")
            expect.append(("nelec_sp", tuple(int(x) for x in tr.nelec)))
    return fails, lines, expect, info


def make_cases(rng, tier):
    import molecules as M
    cases = []

    def mol_case(kind, gkind, basis, method, **kw):
        atom, spins, ncore = M.geometry(rng, gkind)
        spin = kw.pop("spin", spins[0])
        c = dict(kind=kind, system=gkind, atom=atom, basis=basis, spin=spin, method=method, seed=rng.randrange(1 << 30),
                 chol_cut=kw.pop("chol_cut", rng.choice([1e-8, 1e-6, 1e-5])), nf=kw.pop("nf", 0))
        c.update(kw)
        cases.append(c)

    # mean-field trials
    mol_case("mf", "H4chain", rng.choice(["sto-6g", "6-31g"]), "rhf", fci=True, basis_mode=rng.choice(["mo", "rot", "lowdin"]))
    mol_case("mf", "LiH", "sto-3g", "rhf", nf=1, fci=True, basis_mode=rng.choice(["mo", "rot"]))
    mol_case("mf", "OH", "sto-3g", "rohf", nf=rng.choice([0, 1]), fci=True, basis_mode=rng.choice(["mo", "rot"]))
    mol_case("mf", rng.choice(["OH", "H3"]), "sto-3g" if rng.random() < 0.5 else "6-31g", "uhf", fci=(tier == "thorough"), rephase=True)
    mol_case("mf", "H4ring", "sto-6g", "rohf", spin=2, fci=True)
    # singlet UHF with broken spin symmetry (alpha and beta orbitals differ although ms = 0)
    mol_case("mf", "H4stretched", "sto-6g", "uhf", fci=(tier == "thorough"), rephase=rng.random() < 0.5)
    mol_case("mf", "H4chain", "6-31g", "rhf", df=True, fci=(tier == "thorough"))
    # density fitting whose auxiliary basis pyscf has to generate itself (no predefined fitting set for this orbital basis)
    mol_case("mf", "H4chain", "sto-6g", "rhf", df=True, fci=False)
    # coupled cluster
    mol_case("ccsd", rng.choice(["H4chain", "H4ring"]), "6-31g", "rhf", rephase=True, chol_cut=1e-8)
    mol_case("ccsd", "LiH", "sto-3g" if tier == "quick" else "6-31g", "rhf", nf=1, rephase=True, chol_cut=1e-8)
    mol_case("uccsd", rng.choice(["OH", "H3"]), "6-31g", "uhf", rephase=rng.random() < 0.5, chol_cut=1e-8)
    mol_case("uccsd", rng.choice(["H4chain", "H4stretched"]), "sto-6g", "uhf", rephase=True, chol_cut=1e-8)
    # injected amplitudes (exact)
    mol_case("ccsd", "LiH", "sto-3g", "rhf", nf=rng.choice([0, 1]), inject=True)
    mol_case("uccsd", rng.choice(["OH", "H3"]), "sto-3g", "uhf", inject=True)
    # lattice through the custom-integrals path
    for mode in ("mo", "identity"):
        ne = rng.choice([(2, 2), (2, 1), (3, 2)])
        cases.append(dict(kind="lattice", system="hubbard-ring", nsite=rng.choice([4, 5]), nelec=list(ne), u=rng.choice([1.0, 2.0, 4.0]),
                          seed=rng.randrange(1 << 30), chol_cut=1e-8, basis_mode=mode, fci=True,
                          eri_layout=("full-matrix" if mode == "mo" else rng.choice(["4-index", "4-fold", "8-fold"]))))
    if tier == "thorough":
        for _ in range(2):
            mol_case("mf", "H4ring", "6-31g", "rhf", fci=True, basis_mode="lowdin")
            mol_case("mf", "OH", "6-31g", "rohf", nf=1, fci=False, basis_mode="rot")
            mol_case("mf", "H3", "6-31g", "uhf", fci=True, rephase=True)
            mol_case("mf", "H2", "6-31g", "rhf", fci=True, basis_mode="rot")
            mol_case("ccsd", "H4chain", "6-31g", "rhf", rephase=True, chol_cut=1e-6)
            mol_case("uccsd", "OH", "sto-3g", "uhf", rephase=True, chol_cut=1e-8)
            mol_case("uccsd", "H4ring", "sto-6g", "uhf", spin=2, rephase=True, chol_cut=1e-8)
            mol_case("uccsd", "H3", "6-31g", "uhf", inject=True)
    return cases


def compare_model(lines, expect, model):
    mism = []
    for k, (kind, want) in enumerate(expect):
        got = model[k] if k < len(model) else None
        if got is None or got == "bad-op":
            mism.append({"line": lines[k][:120], "model": got})
            continue
        if kind == "header":
            toks = lines[k].split()
            hd, sp = got.split(" sp=")
            want_hd = None  # filled by caller (code's header) – compared there
            mism_here = None
        elif kind == "nelec_sp":
            if got != f"({want[0]},{want[1]})":
                mism.append({"line": lines[k], "model": got, "code": list(want)})
        elif kind == "vec":
            vals = [Fraction(x) for x in got.split()]
            if vals != want:
                bad = [i for i, (a, b) in enumerate(zip(vals, want)) if a != b][:3]
                mism.append({"line": lines[k][:160], "first_differences": [(i, str(vals[i]), str(want[i])) for i in bad], "lengths": [len(vals), len(want)]})
    return mism


def run(ctx):
    libs()
    rng = random.Random(ctx.seed)
    proofs_ok = ctx.build_and_audit(modules=["AfqmcVerif.Props.C16", "AfqmcVerif.Base.RatIO"])
    cases = make_cases(rng, ctx.tier)
    spec_fail, mism = [], []
    dist, skipped, infos = {}, {}, []
    evals = 0
    cwd = os.getcwd()
    for i, case in enumerate(cases):
        label = f"{case['kind']}:{case['system']}:{case.get('method', '-')}:nf{case.get('nf', 0)}" + (":df" if case.get("df") else "") + (":inject" if case.get("inject") else "")
        dist[label] = dist.get(label, 0) + 1
        try:
            fails, lines, expect, info = run_case(case, os.path.join(ctx.work, "run"))
        except Exception as ex:
            os.chdir(cwd)
            spec_fail.append(("prep_afqmc+_prep_afqmc", "the preparation pipeline runs on a supported input", {"case": case, "error": repr(ex)[:400]}))
            continue
        finally:
            os.chdir(cwd)
        if "skipped" in info:
            skipped[info["skipped"]] = skipped.get(info["skipped"], 0) + 1
            continue
        evals += 1
        infos.append({"case": label, **{k: v for k, v in info.items()}})
        for where, clause, det in fails:
            spec_fail.append((where, clause, {"case": case, **det}))
        # model correspondence
        try:
            model = common.lean_run("C16", lines) if lines else []
            for k, (kind, want) in enumerate(expect):
                if kind == "header":
                    hd = model[k].split(" sp=")[0] if k < len(model) else None
                    code_hd = "[" + ",".join(str(x) for x in info["header"]) + "]"
                    if hd != code_hd:
                        mism.append({"case": label, "line": lines[k], "model": hd, "code": code_hd})
            for m in compare_model(lines, expect, model):
                mism.append({"case": label, **m})
        except Exception as ex:
            ctx.broken.append({"kind": "driver", "error": str(ex)[-1500:]})
    ctx.cov["evaluations"] = evals
    ctx.cov["distinct_nontrivial"] = len(dist)
    ctx.cov["rule"] = ("random geometries of H2/H3/H4 chain/H4 ring/LiH/OH (sto-3g, sto-6g, 6-31g), RHF/ROHF/UHF (UHF after following instabilities), frozen core 0/1, "
                       "density fitting, custom basis_coeff (rotated MOs, Lowdin AOs), chol_cut in {1e-5,1e-6,1e-8}, random MO re-phasing before CCSD/UCCSD, "
                       "Hubbard rings through the custom-integrals path (basis = MOs and basis = identity), injected dyadic amplitudes; every molecular case is preceded by another preparation of the same molecule in the same process")
    ctx.cov["samples"] = [json.dumps(c)[:300] for c in cases[:3]]
    ctx.cov["distribution"] = dist
    ctx.cov["skipped"] = skipped
    ctx.cov["case_results"] = infos
    ctx.cov["correspondence"] = {"cases": evals, "mismatches": len(mism)}
    ctx.assumptions += ["pyscf (SCF, CCSD/UCCSD, FCI/CASCI, integrals, ao2mo.restore packing order) is the reference and is trusted",
                        "numpy.linalg.qr returns an orthogonal Q and upper-triangular R (hypotheses of qr_sign_fix)",
                        "that the CISD/UCISD mixed energy at the reference equals the CC energy is validated on the implementation, not proved",
                        "energy tolerances: 1e-8 + 30 x chol_cut (mean-field, FCI), 1e-6 + 100 x chol_cut (CC)"]
    if mism:
        ctx.broken.append({"kind": "correspondence", "first": mism[:3], "count": len(mism)})
    seen = set()
    for name, clause, det in spec_fail:
        if (name, clause) in seen:
            continue
        seen.add((name, clause))
        if common.known_match("C16", name, clause):
            ctx.known_finding(f"{name}: {clause}")
        else:
            ctx.violation({"where": name, "clause": clause, "detail": det})


def replay(path):
    r = json.load(open(path))
    case = r.get("detail", {}).get("case")
    if not case:
        print(json.dumps(r, indent=1)[:3000])
        return 1
    libs()
    import tempfile
    d = tempfile.mkdtemp(prefix="c16_replay_", dir=os.path.join(common.VERIF, ".work") if os.path.isdir(os.path.join(common.VERIF, ".work")) else None)
    fails, _, _, info = run_case(case, d)
    import shutil
    shutil.rmtree(d, ignore_errors=True)
    for f in fails:
        print("FAIL", f[0], "-", f[1], json.dumps(f[2], default=str)[:400])
    print("info", json.dumps(info, default=str)[:600])
    return 1 if fails else 0
