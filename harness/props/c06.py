"""C06 — AD energy derivatives are the true derivatives of the sampled estimator (partial).

Lean (what a theorem can carry): particle-number symmetry of the local energy, one-body limit.
Tie (tests of the implementation, guided by those theorems): jvp / vjp of
sampler.propagate_phaseless_ad* called as driver.afqmc calls them vs (1) central finite differences of
the same function at three steps, (2) forward vs reverse contraction, (3) primal vs the plain sampler at
zero coupling, (4) one-body limit: energy = h0 + sum_occ eps, relaxed response = tr(rho O),
(5) per-spin trace of the AD density matrix = electron count with a single energy block."""
import json
import random

import numpy as np

import common
import systems

LEVEL = "proof"
SKIPPED = {}
ENTRIES = ["propagate_phaseless_ad", "propagate_phaseless_ad_nosr", "propagate_phaseless_ad_norot", "propagate_phaseless_ad_nosr_norot"]


def wrapper(S, smp, name):
    def f(coupling, obs, prop_data):
        return getattr(smp, name)(S["ham"], dict(S["ham_data"]), coupling, obs, S["prop"], prop_data, S["trial"], dict(S["wave_data"]))
    return f


def tangent_like(pd):
    import jax
    from jax import dtypes
    out = {}
    for k, v in pd.items():
        if isinstance(v, list):
            out[k] = [np.zeros_like(y) for y in v]
        elif hasattr(v, "dtype") and v.dtype == "uint32":
            out[k] = np.zeros(v.shape, dtype=dtypes.float0)
        else:
            out[k] = np.zeros_like(v)
    return out


def derivative_checks(S, smp, name, obs, spec_fail, desc, tight=None):
    import jax
    import jax.numpy as jnp
    f = wrapper(S, smp, name)
    pd = systems.copy_prop_data(S["prop_data"])
    n = 0
    try:
        e0, dE, _ = jax.jvp(f, (0.0, obs, pd), (1.0, 0.0 * obs, tangent_like(pd)), has_aux=True)
        e0, dE = float(np.real(e0)), float(np.real(dE))
        n += 1
    except Exception as ex:
        spec_fail.append((name, "forward-mode derivative can be evaluated as the driver does", {**desc, "error": repr(ex)[:300]}))
        return n
    fds = []
    for h in (1e-3, 1e-4, 1e-5):
        ep = float(np.real(f(h, obs, systems.copy_prop_data(S["prop_data"]))[0]))
        em = float(np.real(f(-h, obs, systems.copy_prop_data(S["prop_data"]))[0]))
        fds.append((ep - em) / (2 * h))
        n += 2
    # the finite-difference values must agree with the AD value up to the O(h^2) / round-off error of the difference
    tol = [2e-4, 2e-5, 2e-5]
    # `tight`: for smooth, well-conditioned cases the h = 1e-4 difference agrees to ~1e-8; a looser match there is a wrong derivative
    if not any(abs(fd - dE) <= t * max(1.0, abs(dE)) for fd, t in zip(fds, tol)) or abs(fds[1] - dE) > 1e-3 * max(1.0, abs(dE)) \
            or (tight is not None and abs(fds[1] - dE) > tight * max(1.0, abs(dE))):
        spec_fail.append((name, "forward-mode derivative equals the finite-difference derivative of the same function",
                          {**desc, "jvp": dE, "finite_differences(h=1e-3,1e-4,1e-5)": fds}))
    # reverse mode: gradient with respect to the observable at coupling 1, contracted with the observable
    try:
        e1, vjp_fun, _ = jax.vjp(f, 1.0, 0.0 * obs, systems.copy_prop_data(S["prop_data"]), has_aux=True)
        rdm = np.array(vjp_fun(1.0)[1])
        n += 1
        contracted = float(np.real(np.sum(rdm * np.array(obs))))
        if abs(contracted - dE) > 1e-7 * max(1.0, abs(dE)):
            spec_fail.append((name, "reverse-mode density matrix contracted with the observable equals the forward-mode response",
                              {**desc, "reverse_contracted": contracted, "forward": dE}))
        if abs(float(np.real(e1)) - e0) > 1e-10 * max(1.0, abs(e0)):
            spec_fail.append((name, "primal energies of forward and reverse mode agree at zero observable", {**desc, "forward": e0, "reverse": float(np.real(e1))}))
        # (5) per-spin trace = electron count when a single energy block is used
        if smp.n_ene_blocks * smp.n_sr_blocks == 1 or (smp.n_ene_blocks == 1 and "nosr" in name):
            ne = S["trial"].nelec
            tr = [float(np.real(np.trace(rdm[0]))), float(np.real(np.trace(rdm[1])))]
            if abs(tr[0] - ne[0]) > 1e-6 or abs(tr[1] - ne[1]) > 1e-6:
                spec_fail.append((name, "AD density matrix has per-spin trace equal to the electron count (single energy block)",
                                  {**desc, "traces": tr, "nelec": list(ne)}))
    except Exception as ex:
        spec_fail.append((name, "reverse-mode density matrix can be evaluated as the driver does", {**desc, "error": repr(ex)[:300]}))
    # (3') the state handed over by the driver carries overlaps that are stale after its reconfiguration: the primal of
    # every AD entry point must not depend on them (the plain sampler recomputes them on entry)
    try:
        pds = systems.copy_prop_data(S["prop_data"])
        ovs = np.array(pds["overlaps"])
        pds["overlaps"] = jnp.array(ovs * (0.3 + 0.4j) + 0.1 * np.arange(1, len(ovs) + 1))
        es = float(np.real(f(0.0, obs, pds)[0]))
        n += 1
        if abs(es - e0) > 1e-9 * max(1.0, abs(e0)):
            spec_fail.append((name, "primal energy equals the plain (non-AD) sampler at zero coupling for the state the driver hands over (stale overlap cache)",
                              {**desc, "with_consistent_cache": e0, "with_stale_cache": es}))
    except Exception as ex:
        spec_fail.append((name, "AD entry point runs on a state with a stale overlap cache", {**desc, "error": repr(ex)[:300]}))
    # (3) primal vs plain sampler
    try:
        ep, _ = smp.propagate_phaseless(S["ham"], dict(S["ham_data"]), S["prop"], systems.copy_prop_data(S["prop_data"]), S["trial"], dict(S["wave_data"]))
        same_structure = "nosr" not in name or smp.n_sr_blocks == 1
        # hypothesis of the equality: the trial is a fixed point of the SCF map (the AD entry re-optimises it, the plain sampler
        # does not).  Measured with an independent Roothaan step; a trial that is not converged to 1e-11 is outside the clause.
        try:
            converged = "norot" in name or systems.scf_residual(S) <= 1e-11
        except Exception:
            converged = True
        if not converged:
            SKIPPED["primal_vs_plain_trial_not_converged"] = SKIPPED.get("primal_vs_plain_trial_not_converged", 0) + 1
        if same_structure and converged and abs(float(np.real(ep)) - e0) > 1e-8 * max(1.0, abs(e0)):
            spec_fail.append((name, "primal energy equals the plain (non-AD) sampler at zero coupling", {**desc, "ad": e0, "plain": float(np.real(ep))}))
        n += 1
    except Exception as ex:
        spec_fail.append((name, "plain sampler runs", {**desc, "error": repr(ex)[:300]}))
    return n


def one_body_limit(rng, spec_fail, kind):
    """no two-body term: energy = h0 + sum_occ eps_i, orbital-relaxed response = tr(rho O)"""
    import jax
    import jax.numpy as jnp
    from jax import random as jr
    from ad_afqmc import hamiltonian, propagation, sampling, wavefunctions
    norb, ne = 4, (2, 2) if kind == "rhf" else rng.choice([(2, 1), (2, 2)])

    def one_body(seed_eps):
        eps = np.array(sorted(seed_eps), dtype=float) / 2
        U = systems.orthonormal(rng, norb, norb)
        hh = U @ np.diag(eps) @ U.T
        return (hh + hh.T) / 2
    h = one_body(rng.sample(range(-10, 10), norb))
    # unrestricted trial: a different one-body matrix for each spin (a Zeeman-like term), and below a different observable per spin
    hb = h if kind == "rhf" else one_body(rng.sample(range(-10, 10), norb))
    h0 = 0.5
    ham = hamiltonian.hamiltonian(norb)
    ham_data = {"h0": h0, "h1": jnp.array([h, hb]), "chol": jnp.zeros((1, norb * norb)), "ene0": 0.0}
    w, v = np.linalg.eigh(h)
    wb, vb = np.linalg.eigh(hb)
    if kind == "rhf":
        trial = wavefunctions.rhf(norb, ne)
        wd = {"mo_coeff": jnp.array(v[:, :ne[0]])}
        prop = propagation.propagator_restricted(dt=0.01, n_walkers=4)
    else:
        trial = wavefunctions.uhf(norb, ne)
        wd = {"mo_coeff": [jnp.array(v[:, :ne[0]]), jnp.array(vb[:, :ne[1]])]}
        prop = propagation.propagator_unrestricted(dt=0.01, n_walkers=4)
    wd["rdm1"] = jnp.array([v[:, :ne[0]] @ v[:, :ne[0]].T, vb[:, :ne[1]] @ vb[:, :ne[1]].T])
    ham_data = ham.build_measurement_intermediates(ham_data, trial, wd)
    ham_data = ham.build_propagation_intermediates(ham_data, prop, trial, wd)
    pd = prop.init_prop_data(trial, wd, ham_data)
    pd["key"] = jr.PRNGKey(rng.randrange(1 << 30))
    S = dict(ham=ham, ham_data=ham_data, trial=trial, wave_data=wd, prop=prop, prop_data=pd)
    smp = sampling.sampler(n_prop_steps=3, n_ene_blocks=2, n_sr_blocks=1, n_blocks=1)
    O = systems.dyadic(rng, (norb, norb), 3)
    O = (O + O.T) / 2
    Ob = O
    if kind != "rhf":
        Ob = systems.dyadic(rng, (norb, norb), 3)
        Ob = (Ob + Ob.T) / 2
    obs = jnp.array([O, Ob])
    f = wrapper(S, smp, "propagate_phaseless_ad")
    e0, dE, _ = jax.jvp(f, (0.0, obs, systems.copy_prop_data(pd)), (1.0, 0.0 * obs, tangent_like(pd)), has_aux=True)
    want_e = h0 + sum(w[:ne[0]]) + sum(wb[:ne[1]])
    want_d = float(np.sum((v[:, :ne[0]] @ v[:, :ne[0]].T) * O) + np.sum((vb[:, :ne[1]] @ vb[:, :ne[1]].T) * Ob))
    desc = {"trial": kind, "norb": norb, "nelec": ne, "orbital_energies": [w.tolist(), wb.tolist()], "spin_dependent_h1_and_observable": kind != "rhf"}
    if abs(float(np.real(e0)) - want_e) > 1e-9:
        spec_fail.append(("propagate_phaseless_ad", "one-body limit: the energy equals h0 + sum of occupied orbital energies", {**desc, "got": float(np.real(e0)), "want": float(want_e)}))
    if abs(float(np.real(dE)) - want_d) > 1e-6:
        spec_fail.append(("propagate_phaseless_ad", "one-body limit: the orbital-relaxed response equals tr(rho O)", {**desc, "got": float(np.real(dE)), "want": want_d}))
    return 1


def ring_system(rng, norb=4, u=2.0, nocc=1):
    """Hubbard ring with a closed-shell, uniform-density trial: the mean-field-shifted one-body matrix keeps the ring
    symmetry, i.e. it has exactly degenerate levels (k, -k) - the case in which a derivative taken through an
    eigen-decomposition with regularised denominators differs from the derivative of the matrix function"""
    import jax.numpy as jnp
    from jax import random as jr
    from ad_afqmc import hamiltonian, propagation, wavefunctions
    K = np.zeros((norb, norb))
    for i in range(norb):
        K[i, (i + 1) % norb] = K[(i + 1) % norb, i] = -1.0
    chol = np.zeros((norb, norb, norb))
    for i in range(norb):
        chol[i, i, i] = np.sqrt(u)
    w, v = np.linalg.eigh(K)
    ne = (nocc, nocc)
    ham = hamiltonian.hamiltonian(norb)
    ham_data = {"h0": 0.0, "h1": jnp.array([K, K]), "chol": jnp.array(chol.reshape(norb, -1)), "ene0": 0.0}
    trial = wavefunctions.rhf(norb, ne)
    wd = {"mo_coeff": jnp.array(v[:, :nocc])}
    wd["rdm1"] = jnp.array([v[:, :nocc] @ v[:, :nocc].T] * 2)
    prop = propagation.propagator_restricted(dt=0.05, n_walkers=4)
    ham_data = ham.build_measurement_intermediates(ham_data, trial, wd)
    ham_data = ham.build_propagation_intermediates(ham_data, prop, trial, wd)
    pd = prop.init_prop_data(trial, wd, ham_data)
    pd["key"] = jr.PRNGKey(rng.randrange(1 << 30))
    return dict(ham=ham, ham_data=ham_data, trial=trial, wave_data=wd, prop=prop, prop_data=pd)


def two_rdm_check(rng, spec_fail):
    """2-RDM variant as driver.afqmc calls it (vjp with respect to the full two-body tensor): the gradient
    contracted with a direction equals the central finite difference along that direction"""
    import jax
    import jax.numpy as jnp
    from ad_afqmc import sampling
    seed = rng.randrange(1 << 30)
    norb = 3
    S = systems.make_system(random.Random(seed), "rhf", "restricted", norb=norb, nelec=(1, 1), nchol=2, n_walkers=3, dt=0.02, seed=seed, converge=12)
    smp = sampling.sampler(n_prop_steps=2, n_ene_blocks=1, n_sr_blocks=1, n_blocks=1)
    chol = np.array(S["ham_data"]["chol"]).reshape(2, -1)
    eri = jnp.array(chol.T @ chol).reshape(norb, norb, norb, norb)
    f = wrapper(S, smp, "propagate_phaseless_ad_1")
    desc = {"seed": seed, "norb": norb}
    try:
        e1, vjp_fun, _ = jax.vjp(f, 1.0, eri, systems.copy_prop_data(S["prop_data"]), has_aux=True)
        rdm2 = np.array(vjp_fun(1.0)[1])
    except Exception as ex:
        spec_fail.append(("propagate_phaseless_ad_1", "2-RDM reverse mode can be evaluated as the driver does", {**desc, "error": repr(ex)[:300]}))
        return 1
    # direction inside the span the truncated Cholesky keeps: a rescaling of one Cholesky vector
    l0 = chol[0].reshape(norb, norb)
    D = np.einsum("ij,kl->ijkl", l0, l0)
    want = float(np.sum(rdm2 * D))
    fds = []
    for h in (1e-3, 1e-4):
        ep = float(np.real(f(1.0, eri + h * D, systems.copy_prop_data(S["prop_data"]))[0]))
        em = float(np.real(f(1.0, eri - h * D, systems.copy_prop_data(S["prop_data"]))[0]))
        fds.append((ep - em) / (2 * h))
    import os
    if os.environ.get("C06_DEBUG"):
        print("2rdm", want, fds)
    if not np.isfinite(want) or min(abs(fd - want) for fd in fds) > 5e-5 * max(1.0, abs(want)):
        spec_fail.append(("propagate_phaseless_ad_1", "2-RDM gradient contracted with a direction equals the finite difference along it",
                          {**desc, "contracted": want, "finite_differences": fds}))
    return 5


def run(ctx):
    systems.setup_jax()
    import jax.numpy as jnp
    from ad_afqmc import sampling
    rng = random.Random(ctx.seed)
    proofs_ok = ctx.build_and_audit()
    spec_fail = []
    evals = 0
    combos = []
    cfgs = [("rhf", "restricted", (2, 2)), ("uhf", "unrestricted", (2, 1))]
    grids = [(2, 1, 1), (2, 2, 2)]
    for tk, wt, ne in cfgs:
        for name in (ENTRIES if ctx.tier == "thorough" else [ENTRIES[0], ENTRIES[3]] if tk == "rhf" else [ENTRIES[1], ENTRIES[2]]):
            for g in (grids if ctx.tier == "thorough" else [grids[0] if "nosr" in name else grids[1]]):
                seed = rng.randrange(1 << 30)
                S = systems.make_system(random.Random(seed), tk, wt, norb=4, nelec=ne, nchol=2, n_walkers=4, dt=0.02, seed=seed, converge=12)
                smp = sampling.sampler(n_prop_steps=g[0], n_ene_blocks=g[1], n_sr_blocks=g[2], n_blocks=1)
                O = systems.dyadic(random.Random(seed + 1), (4, 4), 3)          # NOT symmetric: every observable matrix
                obs = jnp.array([O, systems.dyadic(random.Random(seed + 2), (4, 4), 3) if wt == "unrestricted" else O])
                desc = {"trial": tk, "walker_type": wt, "nelec": ne, "grid": g, "seed": seed}
                combos.append(json.dumps([name, tk, g]))
                evals += derivative_checks(S, smp, name, obs, spec_fail, desc)
    # degenerate one-body levels (ring): site potential as observable
    try:
        from ad_afqmc import sampling as _smp
        S = ring_system(rng)
        O = np.zeros((4, 4))
        O[0, 0] = 1.0
        O[1, 2] = 0.25          # and a non-symmetric piece
        evals += derivative_checks(S, _smp.sampler(n_prop_steps=2, n_ene_blocks=2, n_sr_blocks=2, n_blocks=1), "propagate_phaseless_ad_norot",
                                   jnp.array([O, O]), spec_fail, {"system": "4-site Hubbard ring, uniform closed-shell trial (degenerate one-body levels)", "nelec": (1, 1)})
        combos.append(json.dumps(["propagate_phaseless_ad_norot", "ring", [2, 2, 2]]))
    except Exception as ex:
        spec_fail.append(("propagate_phaseless_ad_norot", "ring (degenerate levels) run executes", {"error": repr(ex)[:300]}))
    # a ring whose OCCUPIED space contains an exactly degenerate pair (six sites, 3 + 3 electrons: k = 0, +1, -1), with orbital
    # relaxation on: the derivative runs through the eigen-decomposition inside trial.optimize at coinciding occupied levels, and
    # the observable couples the pair
    try:
        from ad_afqmc import sampling as _smp
        # U = 2.5: the 30 Roothaan iterations are a contraction (at U >= 3 the iteration map is ill-conditioned and its exact derivative
        # is not what a finite difference sees); 20 steps per block so that the walkers have left the (variational) trial
        S = ring_system(rng, norb=6, u=2.5, nocc=3)
        O = systems.sym(systems.dyadic(random.Random(rng.randrange(1 << 30)), (6, 6), 3))
        for nm in (("propagate_phaseless_ad",) if ctx.tier == "quick" else ("propagate_phaseless_ad", "propagate_phaseless_ad_nosr")):
            evals += derivative_checks(S, _smp.sampler(n_prop_steps=20, n_ene_blocks=1, n_sr_blocks=2, n_blocks=1), nm,
                                       jnp.array([O, O]), spec_fail, {"system": "6-site Hubbard ring U=2.5, 3+3 electrons (degenerate occupied pair), orbital relaxation on", "nelec": (3, 3)},
                                       tight=2e-6)
            combos.append(json.dumps([nm, "ring6", [20, 1, 2]]))
    except Exception as ex:
        spec_fail.append(("propagate_phaseless_ad", "ring (degenerate occupied levels) run executes", {"error": repr(ex)[:300]}))
    for kind in ("rhf", "uhf"):
        try:
            evals += one_body_limit(rng, spec_fail, kind)
        except Exception as ex:
            spec_fail.append(("propagate_phaseless_ad", "one-body limit run executes", {"trial": kind, "error": repr(ex)[:300]}))
    try:
        evals += two_rdm_check(rng, spec_fail)
    except Exception as ex:
        spec_fail.append(("propagate_phaseless_ad_1", "2-RDM run executes", {"error": repr(ex)[:300]}))
    ctx.cov["evaluations"] = evals
    ctx.cov["distinct_nontrivial"] = len(set(combos)) + 3
    ctx.cov["explanation"] = ("Partial by nature: the AD engine of JAX is outside any model. The Lean theorems (particle-number symmetry of the local energy, one-body "
                              "limit) give closed forms that the run instantiates; everything else compares the implementation with itself (jvp vs central finite "
                              "differences at h = 1e-3, 1e-4, 1e-5 of the same seeded function; vjp contraction vs jvp; primal vs plain sampler) exactly as "
                              "driver.afqmc calls the entry points, with non-symmetric observable matrices, rhf + restricted and uhf + unrestricted walkers, plus a Hubbard ring whose shifted one-body matrix has exactly degenerate levels.")
    ctx.cov["rule"] = "AD entry points x walker types x block structures (quick: 2 entry points per walker type; thorough: all 4 x 2 structures); one-body limit for rhf and uhf"
    ctx.cov["samples"] = combos[:3]
    ctx.cov["correspondence"] = {"function_evaluations": evals}
    ctx.cov["skipped"] = dict(SKIPPED)
    ctx.assumptions += ["JAX jvp/vjp/checkpoint/custom_jvp correctness is NOT verified - compared with finite differences",
                        "finite differences of a seeded estimator stay inside one branch of the discrete decisions (comb indices, clips) for h <= 1e-3"]
    seen = set()
    for name, clause, det in spec_fail:
        if (name, clause) in seen:
            continue
        seen.add((name, clause))
        if common.known_match("C06", name, clause):
            ctx.known_finding(f"{name}: {clause}")
        else:
            ctx.violation({"entry": name, "clause": clause, "detail": det})


def replay(path):
    r = json.load(open(path))
    print(json.dumps(r, indent=1)[:3000])
    return 1
