"""C02 — local energy = <psi_T|H|phi>/<psi_T|phi>.

Lean: D1/D2-based theorems for rhf/uhf (all dimensions, spin-dependent h1, restricted = unrestricted
on equal blocks).  Tie: (a) rhf/uhf energies of the real code vs the Lean model at Q(i);
(b) every trial kind and entry point vs the Fock-space mixed estimator, with spin-dependent h1 for the
kinds the property lists; (c) quadratic convergence of the finite-difference (AD) kinds in eps."""
import json
import random

import numpy as np

import common
import systems
import wf

LEVEL = "proof"
# tolerance per kind: exact formulas / finite differences (eps = 1e-4) / single-precision intermediates
TOL = {"rhf": 1e-9, "uhf": 1e-9, "ghf": 1e-9, "noci": 1e-9, "multislater": 5e-6, "CISD": 5e-6, "UCISD": 5e-6,
       "GCISD": 5e-6, "CISD_THC": 5e-6, "cisd": 5e-4, "cisd_faster": 5e-4, "ucisd": 5e-4}
SPIN_DEP = ("uhf", "ghf", "noci", "multislater", "UCISD", "GCISD")
AUTO = ("multislater", "CISD", "UCISD", "GCISD", "CISD_THC")


def run(ctx):
    systems.setup_jax()
    import jax.numpy as jnp
    import trials
    import fock
    rng = random.Random(ctx.seed)
    proofs_ok = ctx.build_and_audit()
    spec_fail, lines, refs = [], [], []
    skipped_singular = [0]
    pub = [0]
    colrep = [0]
    dist = {}
    evals = 0
    nw = 2 if ctx.tier == "quick" else 5
    # ---- (a) Lean model
    for kind in ("rhf", "uhf"):
        for norb, ne in ((3, (1, 1)), (3, (2, 2)), (4, (2, 2)), (4, (2, 1)), (3, (2, 0))):
            if not trials.supported(kind, norb, ne):
                continue
            trial, wd, desc = trials.make(kind, rng, norb, ne, complex_mo=True)
            ham, plain = trials.make_ham(rng, norb, nchol=2, spin_dependent=True)
            ham = trial._build_measurement_intermediates(dict(ham), wd)
            if kind == "rhf":
                Ca = Cb = np.array(wd["mo_coeff"])
            else:
                Ca, Cb = np.array(wd["mo_coeff"][0]), np.array(wd["mo_coeff"][1])
            for _ in range(nw):
                Wa, Wb = wf.complex_walker(rng, norb, ne[0]), wf.complex_walker(rng, norb, ne[1])
                if kind == "uhf":
                    e = complex(trial._calc_energy(jnp.array(Wa), jnp.array(Wb), ham, wd))
                    lines.append(wf.sd_line_uhf(plain, Ca, Cb, Wa, Wb))
                    refs.append(("uhf unrestricted", e, {"norb": norb, "nelec": ne}))
                else:
                    er = complex(trial._calc_energy_restricted(jnp.array(Wa), ham, wd))
                    lines.append(wf.sd_line_rhfr(plain, Ca, Wa))
                    refs.append(("rhf restricted", er, {"norb": norb, "nelec": ne}))
    # ghf: the same Lean model in the doubled (spin-orbital) space, second spin block empty
    # (the interpreted exact model costs ~k! per determinant: two electrons in the quick tier, three in the thorough one)
    for norb, ne in (((3, (1, 1)), (2, (1, 1))) if ctx.tier == "quick" else ((3, (1, 1)), (2, (1, 1)), (3, (2, 1)))):
        try:
            trial, wd, desc = trials.make("ghf", rng, norb, ne)
            hamg0, plaing = trials.make_ham(rng, norb, nchol=2, spin_dependent=True)
            hamg = trial._build_measurement_intermediates(dict(hamg0), wd)
            for _ in range(2):
                Wa, Wb = wf.complex_walker(rng, norb, ne[0]), wf.complex_walker(rng, norb, ne[1])
                val = complex(trial._calc_energy(jnp.array(Wa), jnp.array(Wb), hamg, wd))
                lines.append(wf.ghf_as_doubled(plaing, np.array(wd["mo_coeff"]), Wa, Wb))
                refs.append(("ghf unrestricted", val, {"norb": norb, "nelec": ne}))
        except Exception as ex:
            spec_fail.append(("ghf", "ghf model case can be built", {"error": repr(ex)[:300]}))
    mism = []
    try:
        model = common.lean_run("SD", lines)
        for k, (name, e, det) in enumerate(refs):
            d = wf.parse_line(model[k]) if k < len(model) else {}
            if "energy" not in d or not wf.close(e, wf.parse_qi(d["energy"]), 1e-9):
                mism.append({"entry": name, "impl": str(e), "model": d.get("energy"), **det})
                # the Lean model is PROVED equal to the mixed estimator: a disagreement on a concrete input is a concrete failing input
                spec_fail.append((name, "implementation equals the proved closed form of the mixed estimator on this input (theorem + exact evaluation at Q(i))",
                                  {**det, "impl": str(mism[-1].get("impl"))[:300], "model": str(mism[-1].get("model"))[:300], "protocol_line": lines[k][:4000]}))
    except Exception as ex:
        ctx.broken.append({"kind": "driver", "error": str(ex)[-1500:]})
    # ---- (b) all kinds vs the Fock-space mixed estimator
    for kind, norb, ne in wf.cases(rng, list(trials.KINDS), ctx.tier):
        if ne[1] == 0 and not trials.SUPPORTED[kind]["n_dn_zero_energy"]:
            continue
        for spin_dep in ((False, True) if kind in SPIN_DEP else (False,)):
            try:
                trial, wd, desc = trials.make(kind, rng, norb, ne, **wf.make_opts(kind, rng))
                sec, psi = trials.state(kind, trial, wd, desc)
                ham, plain = trials.make_ham(rng, norb, nchol=2, spin_dependent=spin_dep)
                H = fock.hamiltonian(sec, plain["h0"], plain["h1"], plain["chol"])
                ham = trial._build_measurement_intermediates(dict(ham), wd)
            except Exception as ex:
                spec_fail.append((kind, "trial and intermediates can be built", {"norb": norb, "nelec": ne, "error": repr(ex)[:300]}))
                continue
            dist[kind] = dist.get(kind, 0) + 1
            ronly = kind in trials.RESTRICTED_ONLY
            ref = wf.reference_state(kind, trial, wd, desc)
            for _ in range(nw):
                Wa = wf.complex_walker(rng, norb, ne[0])
                Wb = Wa if ronly else wf.complex_walker(rng, norb, ne[1])
                if not wf.admissible(ref, sec, Wa, Wb):
                    skipped_singular[0] += 1
                    continue
                ov = trials.spec_overlap(sec, psi, Wa, Wb)
                if abs(ov) < 0.05 * max(1.0, float(np.abs(psi).max())):
                    continue   # |overlap| bounded away from 0 (quantifier)
                want = trials.spec_energy(sec, psi, H, Wa, Wb)
                evals += 1
                try:
                    got = trials.lib_energy(kind, trial, ham, wd, jnp.array(Wa), jnp.array(Wb))
                except Exception as ex:
                    spec_fail.append((kind, "energy entry point runs", {"norb": norb, "nelec": ne, "error": repr(ex)[:300]}))
                    break
                if not wf.close(got, want, TOL[kind], TOL[kind]):
                    spec_fail.append((kind + (" (unrestricted entry)" if not ronly else " (restricted entry)"),
                                      "local energy equals <psi_T|H|phi>/<psi_T|phi>",
                                      {"norb": norb, "nelec": ne, "spin_dependent_h1": spin_dep, "got": str(got), "want": str(want), "tol": TOL[kind]}))
                    break
            # the theorem's right-hand side (specEnergy2: column replacements) evaluated with the class's OWN overlap function
            if not ronly:
                try:
                    Wa, Wb = wf.complex_walker(rng, norb, ne[0]), wf.complex_walker(rng, norb, ne[1])
                    ovl = lambda a, b: trials.lib_overlap(kind, trial, wd, jnp.array(a), jnp.array(b))
                    if abs(ovl(Wa, Wb)) > 0.05 and wf.admissible(ref, sec, Wa, Wb):
                        want_cr, _ = wf.column_replacement_estimators(ovl, plain, Wa, Wb)
                        got = trials.lib_energy(kind, trial, ham, wd, jnp.array(Wa), jnp.array(Wb))
                        evals += 1
                        colrep[0] += 1
                        if not wf.close(got, want_cr, 4 * TOL[kind], 4 * TOL[kind]):
                            spec_fail.append((kind + " (unrestricted entry)", "local energy equals the column-replacement mixed estimator of the class's own overlap (specEnergy2)",
                                              {"norb": norb, "nelec": ne, "spin_dependent_h1": spin_dep, "got": str(got), "want": str(want_cr), "tol": 4 * TOL[kind],
                                               "Wa": wf.mat_tokens(Wa), "Wb": wf.mat_tokens(Wb)}))
                except Exception as ex:
                    spec_fail.append((kind, "column-replacement estimator can be evaluated", {"norb": norb, "nelec": ne, "error": repr(ex)[:300]}))
            # public route: re-prepared dictionary, batched entry points (one (norb, nelec) per kind and h1 flavour)
            if dist[kind] <= (2 if ctx.tier == "quick" else 99) and not (spin_dep and ronly):
                f2, n2 = wf.public_rebuild_batch(kind, trial, wd, desc, sec, psi, rng, norb, ne, "energy", TOL[kind], spin_dep=spin_dep)
                spec_fail.extend(f2)
                evals += n2
                pub[0] += n2
            # restricted entry point on equal blocks (closed shell): sees the average of h1, exactly
            # (for an unrestricted trial with spin-dependent h1 the restricted entry is outside the quantifier)
            if ne[0] == ne[1] and not ronly and hasattr(trial, "_calc_energy_restricted") and kind != "multislater" \
                    and (not spin_dep or kind == "rhf"):
                W = wf.complex_walker(rng, norb, ne[0])
                ov = trials.spec_overlap(sec, psi, W, W)
                if abs(ov) > 0.05:
                    try:
                        r = complex(trial._calc_energy_restricted(jnp.array(W), ham, wd))
                        # the mixed estimator of the true (possibly spin-dependent) H on [W, W]; for a restricted
                        # trial this coincides with the estimator of the spin-averaged h1 (exactly)
                        want = trials.spec_energy(sec, psi, H, W, W)
                        evals += 1
                        if not wf.close(r, want, TOL[kind], TOL[kind]):
                            spec_fail.append((kind + " (restricted entry)", "restricted-walker entry point equals the mixed estimator on equal spin blocks",
                                              {"norb": norb, "nelec": ne, "spin_dependent_h1": spin_dep, "got": str(r), "want": str(want)}))
                    except NotImplementedError:
                        pass
                    except Exception as ex:
                        spec_fail.append((kind + " (restricted entry)", "restricted energy runs", {"norb": norb, "nelec": ne, "error": repr(ex)[:300]}))
    # ---- (c) finite-difference kinds converge quadratically in eps
    fd_cases = 0
    for kind in AUTO:
        norb, ne = 3, (2, 2) if kind in ("CISD", "CISD_THC") else (2, 1)
        if kind in ("CISD", "CISD_THC"):
            ne = (1, 1)
        try:
            trial, wd, desc = trials.make(kind, rng, norb, ne, **wf.make_opts(kind, rng))
            sec, psi = trials.state(kind, trial, wd, desc)
            ham, plain = trials.make_ham(rng, norb, nchol=2)
            H = fock.hamiltonian(sec, plain["h0"], plain["h1"], plain["chol"])
            ronly = kind in trials.RESTRICTED_ONLY
            Wa = wf.complex_walker(rng, norb, ne[0])
            Wb = Wa if ronly else wf.complex_walker(rng, norb, ne[1])
            want = trials.spec_energy(sec, psi, H, Wa, Wb)
            errs = []
            for eps in (4e-2, 2e-2, 1e-2):
                t2 = type(trial)(**{k: v for k, v in trial.__dict__.items() if k != "eps"})
                t2.eps = eps
                hm = t2._build_measurement_intermediates(dict(ham), wd)
                errs.append(abs(trials.lib_energy(kind, t2, hm, wd, jnp.array(Wa), jnp.array(Wb)) - want))
            fd_cases += 1
            ratios = [errs[i] / errs[i + 1] for i in range(2) if errs[i + 1] > 1e-9]
            if ratios and not all(2.8 <= r <= 5.5 for r in ratios):
                spec_fail.append((kind, "finite-difference energy converges quadratically in its step size",
                                  {"norb": norb, "nelec": ne, "eps": [4e-2, 2e-2, 1e-2], "errors": errs, "ratios": ratios}))
        except Exception as ex:
            spec_fail.append((kind, "finite-difference convergence run", {"error": repr(ex)[:300]}))

    ctx.cov["evaluations"] = evals + len(refs) + fd_cases
    ctx.cov["distinct_nontrivial"] = sum(dist.values()) + len(refs)
    ctx.cov["rule"] = ("(a) rhf restricted / uhf unrestricted with complex trial orbitals, spin-dependent h1, 2 Cholesky matrices vs the Lean model at "
                       "Q(i) (1e-9); (b) all 12 classes x supported (norb, nelec) x {spin-independent, spin-dependent h1 for uhf/ghf/noci/multislater/"
                       "UCISD/GCISD} vs the Fock-space mixed estimator on complex walkers with |overlap| > 0.05 (tolerances: 1e-9 exact formulas, 5e-6 "
                       "finite-difference kinds at eps=1e-4, 5e-4 hand-coded cisd/ucisd with single-precision intermediates); restricted entry vs the "
                       "estimator with the averaged h1; (c) error ratio under eps halving for the AD kinds; (d) public ham.build_measurement_intermediates on a dictionary "
                       "already prepared for another Hamiltonian, then batched calc_energy with n_batch in {1,2,3} on 6 distinct walkers")
    ctx.cov["samples"] = [lines[0][:300], json.dumps(dist)]
    ctx.cov["distribution"] = dist
    ctx.cov["skipped"] = {"walkers_with_vanishing_reference_overlap (outside the CI formulas' domain)": skipped_singular[0]}
    ctx.cov["correspondence"] = {"lean_model_cases": len(refs), "mismatches": len(mism), "spec_evaluations": evals, "fd_convergence_cases": fd_cases, "public_rebuilt_batched_evaluations": pub[0],
                                 "column_replacement_estimator_cases": colrep[0]}
    ctx.assumptions += ["theorem layer covers rhf/uhf (and linear combinations); CI kinds are validated against the Fock-space estimator",
                        "jax.jvp/vjp return derivatives of the traced function (AD kinds)"]
    if mism:
        ctx.broken.append({"kind": "correspondence", "first": mism[:3], "count": len(mism)})
    seen = set()
    for name, clause, det in spec_fail:
        if (name, clause) in seen:
            continue
        seen.add((name, clause))
        k = common.known_match("C02", name, clause)
        if k:
            ctx.known_finding(f"{name}: {clause}")
        else:
            ctx.violation({"kind": name, "clause": clause, "detail": det})


def replay(path):
    r = json.load(open(path))
    print(json.dumps(r, indent=1)[:3000])
    return 1
