"""C04 — the phaseless step is an exact importance-sampling reweighting of exp(-dt H).

Lean: overlap cancellation, mean-field (completing the square) identity, force-bias shift identity for
real shifts, projection logic.  Tie: one real prop.propagate on a batch whose fields are the tensor
Gauss–Hermite nodes; the field average of (complex importance factor x propagated walker / new overlap)
is compared on the Fock space with expm(-dt (H - E_shift)) applied to the old walker / old overlap over a
dt ladder (residual must shrink at least threefold, about fourfold, per halving); the applied weight is
compared with |I| max(0, cos theta) through the window."""
import json
import math
import random

import numpy as np

import common
import systems
import wf
import quadrature as qd

LEVEL = "proof"


def one_average(rng_seed, trial_kind, walker_type, norb, ne, nchol, dt, spin_dep):
    """returns (relative residual, detail) for one dt"""
    import jax.numpy as jnp
    from scipy.linalg import expm
    import fock
    import trials
    rng = random.Random(rng_seed)
    nodes, wts = qd.gh_nodes(nchol, 10 if nchol <= 2 else 8)
    n = len(wts)
    # the propagator's own batching (n_batch) is part of the step: use a split whose batch size differs from the batch count
    pb = 2 if (n % 2 == 0 and n // 2 != 2 and rng_seed % 2 == 0) else 1
    S = qd.build(rng, trial_kind, walker_type, norb, ne, nchol, dt, spin_dep, n, prop_batch=pb)
    prop, trial, hd, wd, plain = S["prop"], S["trial"], S["ham_data"], S["wave_data"], S["plain"]
    restricted = walker_type == "restricted"
    Wa = wf.complex_walker(rng, norb, ne[0])
    Wb = Wa if restricted else wf.complex_walker(rng, norb, ne[1])
    walkers = jnp.array([Wa] * n) if restricted else [jnp.array([Wa] * n), jnp.array([Wb] * n)]
    ov = trial.calc_overlap(walkers, wd)
    eshift = float(rng.randint(-8, 8) / 8.0)
    # the population is prepared by the propagator's public initialiser from the SUPPLIED walkers (whatever it stores as the old
    # overlap is what the step divides by); only the energy shift is then set to the value under test
    pd = dict(prop.init_prop_data(trial, wd, hd, init_walkers=walkers))
    pd["e_estimate"] = jnp.array(0.0)
    pd["pop_control_ene_shift"] = jnp.array(eshift)
    # incoming weights as they are in the middle of a run (not all one): the window applies to the step's factor, not to the product
    w_in = np.array([(1.0, 0.5, 2.0 ** -11, 3.0, 0.125, 20.0)[k % 6] for k in range(n)])
    pd["weights"] = jnp.array(w_in)
    fields = jnp.array(nodes)
    out = prop.propagate(trial, hd, {k: v for k, v in pd.items()}, fields, wd)
    # complex importance function, from public quantities (definition in the property statement)
    fb = np.array(trial.calc_force_bias(walkers, hd, wd))
    mf = np.array(hd["mf_shifts"])
    sdt = math.sqrt(dt)
    fs = -sdt * (1j * fb - mf)
    sh = nodes - fs
    shift_term = np.sum(sh * mf, axis=1)
    fb_term = np.sum(nodes * fs - fs * fs / 2.0, axis=1)
    ov_new = np.array(out["overlaps"])
    ov_old = np.array(ov)
    imp = np.exp(-sdt * shift_term + fb_term + dt * (eshift + complex(hd["h0_prop"]))) * ov_new / ov_old
    theta = np.angle(np.exp(-sdt * shift_term) * ov_new / ov_old)
    sec = trials.sector_for(norb, ne)
    H = fock.hamiltonian(sec, plain["h0"], plain["h1"], plain["chol"])
    acc = np.zeros(sec.dim, dtype=complex)
    for k in range(n):
        acc += wts[k] * imp[k] * qd.fock_state(sec, out["walkers"], k, restricted) / ov_new[k]
    phi0 = sec.slater(fock.walker_so(Wa, Wb))
    target = expm(-dt * (H - eshift * np.eye(sec.dim))) @ phi0 / ov_old[0]
    res = float(np.linalg.norm(acc - target) / np.linalg.norm(target))
    # applied weight = |I| max(0, cos theta) through the window
    raw = np.abs(imp) * np.cos(theta)
    want_w = np.where(np.isnan(raw), 0.0, raw)
    want_w = np.where(want_w < 1e-3, 0.0, want_w)
    want_w = np.where(want_w > 100.0, 0.0, want_w)
    want_w = want_w * w_in
    want_w = np.where(want_w > 100.0, 0.0, want_w)       # runaway cap on the running weight
    wbad = None
    got_w = np.array(out["weights"])
    margin = (np.minimum(np.abs(raw - 1e-3), np.abs(raw - 100.0)) > 1e-9) & (np.abs(raw * w_in - 100.0) > 1e-7)
    if np.abs(got_w - want_w)[margin].max(initial=0.0) > 1e-9:
        k = int(np.argmax(np.abs(got_w - want_w) * margin))
        wbad = {"node": k, "incoming_weight": float(w_in[k]), "outgoing_weight": float(got_w[k]), "incoming_times_windowed_factor": float(want_w[k]), "raw_factor": float(raw[k])}
    return res, wbad


def degenerate_walker_case(rng_seed, walker_type, mode):
    """'set to zero when it is not a number': a population in which one walker has EXACTLY zero overlap with the
    trial (mode 'orthogonal') or non-finite entries (mode 'overflow').  Its weight must come out 0, the other
    walkers' weights must be what they are without it (walkers evolve independently), and the run must stay finite."""
    import jax.numpy as jnp
    rng = random.Random(rng_seed)
    norb, ne = 4, ((2, 2) if walker_type == "restricted" else (2, 1))
    tk = "rhf" if walker_type == "restricted" else "uhf"
    S = qd.build(rng, tk, walker_type, norb, ne, 2, 0.01, walker_type != "restricted", 3)
    prop, trial, hd, wd = S["prop"], S["trial"], S["ham_data"], S["wave_data"]
    restricted = walker_type == "restricted"
    # trial = leading unit vectors, so that a walker made of the other unit vectors is exactly orthogonal to it
    eye = np.eye(norb)
    if restricted:
        wd = dict(wd, mo_coeff=jnp.array(eye[:, :ne[0]]))
    else:
        wd = dict(wd, mo_coeff=[jnp.array(eye[:, :ne[0]]), jnp.array(eye[:, :ne[1]])])
    good = [wf.complex_walker(rng, norb, ne[0]) for _ in range(3)]
    goodb = [wf.complex_walker(rng, norb, ne[1]) for _ in range(3)]
    bad = (eye[:, norb - ne[0]:] + 0j) if mode == "orthogonal" else np.full_like(good[1], np.inf)
    out = {}
    for label, mid in (("with", bad), ("without", good[1])):
        Wa = [good[0], mid, good[2]]
        walkers = jnp.array(Wa) if restricted else [jnp.array(Wa), jnp.array(goodb)]
        ov = trial.calc_overlap(walkers, wd)
        pd = {"walkers": walkers, "weights": jnp.ones(3), "overlaps": ov, "e_estimate": jnp.array(0.0), "pop_control_ene_shift": jnp.array(0.25)}
        fields = jnp.array([[0.5, -0.25], [0.125, 0.75], [-0.5, 0.25]])
        o1 = prop.propagate(trial, hd, dict(pd), fields, wd)
        o2 = prop.propagate(trial, hd, {k: v for k, v in o1.items()}, fields, wd)
        out[label] = (np.array(o1["weights"]), np.array(o2["weights"]), complex(np.array(o1["pop_control_ene_shift"])))
    w1, w2, sh = out["with"]
    v1, v2, _ = out["without"]
    bad_list = []
    if not (w1[1] == 0.0):
        bad_list.append(("weight of a walker whose importance factor is not a number is set to zero", {"weight": str(w1[1])}))
    if not (np.isfinite(w1).all() and np.isfinite(w2).all() and np.isfinite(sh)):
        bad_list.append(("weights and the population-control shift stay finite when one walker is degenerate",
                         {"weights_step1": [str(x) for x in w1], "weights_step2": [str(x) for x in w2], "shift": str(sh)}))
    elif abs(w1[0] - v1[0]) > 1e-12 or abs(w1[2] - v1[2]) > 1e-12:
        bad_list.append(("the other walkers' weights do not depend on the degenerate walker", {"with": [str(x) for x in w1], "without": [str(x) for x in v1]}))
    return bad_list


def run(ctx):
    systems.setup_jax()
    rng = random.Random(ctx.seed)
    proofs_ok = ctx.build_and_audit()
    spec_fail = []
    ladder = [0.04, 0.02, 0.01, 0.005]
    # (trial kind, walker type): single-determinant kinds and the kinds that keep their own intermediates in
    # ham_data (the AD family), prepared in the driver's order: measurement first, then propagation
    cases = [("rhf", "restricted", 3, (1, 1), 1, False), ("uhf", "unrestricted", 3, (2, 1), 2, True),
             ("CISD", "restricted", 3, (1, 1), 1, False),
             ("uhf", "unrestricted", 3, (1, 1), 1, True), ("noci", "unrestricted", 3, (1, 1), 2, True),
             ("rhf", "restricted", 3, (2, 2), 2, False), ("ghf", "unrestricted", 3, (2, 1), 1, True),
             ("multislater", "unrestricted", 3, (1, 1), 1, True),
             ("uhf", "unrestricted", 4, (2, 1), 3, True)]
    if ctx.tier == "quick":
        cases = cases[:3] + rng.sample(cases[3:8], 2)
    stats = []
    evals = 0
    for tk, wt, norb, ne, nchol, spin_dep in cases:
        seed = rng.randrange(1 << 30)
        try:
            res = []
            for dt in ladder:
                r, wbad = one_average(seed, tk, wt, norb, ne, nchol, dt, spin_dep)
                res.append(r)
                evals += 1
                if wbad:
                    spec_fail.append((f"propagator_{wt}.propagate ({tk})", "applied weight = |I| max(0, cos theta), zero outside the documented window",
                                      {"dt": dt, **wbad, "seed": seed}))
            ratios = [res[i] / res[i + 1] for i in range(len(res) - 1)]
            det = {"trial": tk, "walker_type": wt, "norb": norb, "nelec": ne, "nchol": nchol, "spin_dependent_h1": spin_dep, "seed": seed,
                   "dt_ladder": ladder, "residuals": res, "ratios": ratios}
            stats.append(det)
            if not all(r >= 3.0 for r in ratios) or res[-1] > 5e-3:
                spec_fail.append((f"propagator_{wt}.propagate ({tk})",
                                  "field-averaged importance-weighted step equals exp(-dt (H - E_shift)) up to an O(dt^2) residual (>= threefold shrink per halving)", det))
        except Exception as ex:
            spec_fail.append((f"propagator_{wt}.propagate ({tk})", "quadrature run executes", {"error": repr(ex)[:400]}))
    degenerate = 0
    for wt in ("restricted", "unrestricted"):
        for mode in ("orthogonal", "overflow"):
            seed = rng.randrange(1 << 30)
            try:
                for clause, det in degenerate_walker_case(seed, wt, mode):
                    spec_fail.append((f"propagator_{wt}.propagate", clause, {"walker": mode, "seed": seed, **det}))
                degenerate += 1
            except Exception as ex:
                spec_fail.append((f"propagator_{wt}.propagate", "degenerate-walker run executes", {"walker": mode, "error": repr(ex)[:300]}))
    evals += degenerate
    ctx.cov["evaluations"] = evals
    ctx.cov["distinct_nontrivial"] = len(stats) * len(ladder) + degenerate
    ctx.cov["rule"] = ("trial kinds usable for propagation (rhf/CISD+restricted, uhf/noci/ghf/multislater+unrestricted; intermediates built in the driver's order), h0, symmetric h1 per spin (spin-dependent for "
                       "unrestricted), 1-3 symmetric Cholesky matrices, arbitrary symmetric rdm1 for the mean-field shift, complex non-orthonormal walker, "
                       "random E_shift; fields = tensor Gauss-Hermite nodes (8-10 per dimension); dt ladder 0.04..0.005; residual on the full Fock space")
    ctx.cov["samples"] = [json.dumps(stats[0])[:600] if stats else "-"]
    ctx.cov["ladders"] = stats
    ctx.cov["correspondence"] = {"quadrature_runs": evals - degenerate, "degenerate_walker_runs": degenerate}
    ctx.assumptions += ["the complex importance factor is reconstructed from public quantities (force bias, mean-field shifts, overlaps) by the formula in the "
                        "property statement", "expm of scipy for the Fock-space reference; Gauss-Hermite quadrature error (entire integrands, negligible)",
                        "order clause (O(dt^2)) and the complex-shift identity are validated by the ladder, not proved"]
    seen = set()
    for name, clause, det in spec_fail:
        if (name, clause) in seen:
            continue
        seen.add((name, clause))
        if common.known_match("C04", name, clause):
            ctx.known_finding(f"{name}: {clause}")
        else:
            ctx.violation({"where": name, "clause": clause, "detail": det})


def replay(path):
    systems.setup_jax()
    r = json.load(open(path))
    d = r.get("detail", {})
    if "seed" not in d or "trial" not in d:
        print(json.dumps(r, indent=1)[:3000])
        return 1
    res = [one_average(d["seed"], d["trial"], d["walker_type"], d["norb"], tuple(d["nelec"]), d["nchol"], dt, d["spin_dependent_h1"])[0] for dt in d["dt_ladder"]]
    ratios = [res[i] / res[i + 1] for i in range(len(res) - 1)]
    print("residuals", res, "ratios", ratios)
    return 0 if all(x >= 3.0 for x in ratios) else 1
