"""C19 — blocking analysis, outlier rejection, jackknife: correspondence with the exact Lean model at
K = Q (means exact, error^2 to 1e-9, plateau decision and kept index set exactly, near-ties skipped
by exact margin) and the property's clauses evaluated on the implementation."""
import io
import json
import math
import random
from fractions import Fraction

import numpy as np

import common

LEVEL = "proof"
C105 = Fraction(1.05)
C2 = C105 * C105
EPS = Fraction(1.0e-10)


def rs(q):
    q = Fraction(q)
    return str(q.numerator) if q.denominator == 1 else f"{q.numerator}/{q.denominator}"


def fr(x):
    return Fraction(float(x))


def dy(rng, lo, hi, bits):
    return rng.randint(1, 2 ** bits) * 2.0 ** rng.randint(lo, hi)


def gen_series(rng, n, kind):
    scale = 2.0 ** rng.choice([0, 0, 0, -40, 40, -60, 20, -20])
    if kind == "unit":
        w = [1.0] * n
    elif kind == "scaled_unit":
        w = [scale] * n
    else:
        w = [dy(rng, -3, 3, 5) * scale for _ in range(n)]
    if kind == "const":
        e = [dy(rng, -2, 2, 6)] * n
    elif kind == "ties":
        vals = [dy(rng, -2, 2, 3) for _ in range(3)]
        e = [rng.choice(vals) for _ in range(n)]
    elif kind == "ar1":
        x, e = 0.0, []
        for _ in range(n):
            x = 0.75 * x + rng.randint(-64, 64) / 64.0
            e.append(round(x * 1024) / 1024.0 - 5.0)
    else:
        e = [rng.randint(-512, 512) / 128.0 - 3.0 for _ in range(n)]
    return w, e


def call_blocking(w, e, neql):
    from ad_afqmc import stat_utils
    lines = []
    old = stat_utils.print
    stat_utils.print = lambda *a, **k: lines.append(" ".join(str(x) for x in a))
    try:
        with np.errstate(all="ignore"):
            mean, err = stat_utils.blocking_analysis(np.array(w), np.array(e), neql=neql, printQ=True)
    finally:
        stat_utils.print = old
    per = {}
    for l in lines:
        t = l.split()
        if len(t) == 4 and t[0].isdigit():
            try:
                per[int(t[0])] = (int(t[1]), float(t[2]), float(t[3]))
            except ValueError:
                pass
    return float(mean), (None if err is None else float(err)), per


def close(a, b, rel, ab=0.0):
    return abs(a - b) <= rel * max(abs(a), abs(b)) + ab


def spec_blocking(w, e, neql, rng):
    """clauses of the property that are exact statements about one call"""
    bad = []
    mean, err, per = call_blocking(w, e, neql)
    ww, ee = w[neql:], e[neql:]
    W = sum(fr(x) for x in ww)
    m_exact = sum(fr(a) * fr(b) for a, b in zip(ww, ee)) / W
    if not close(mean, float(m_exact), 1e-12, 1e-300):
        bad.append(("mean is the weight-averaged mean of the samples", {"got": mean, "want": float(m_exact)}))
    # common rescaling of the weights by a power of two is exact in floating point
    for k in (rng.choice([-30, -7, 5, 33]),):
        m2, e2, _ = call_blocking([x * 2.0 ** k for x in w], e, neql)
        if not close(m2, mean, 1e-13) or (err is None) != (e2 is None) or (err is not None and not close(e2, err, 1e-9)):
            bad.append(("mean and error invariant under a common rescaling of the weights", {"scale": f"2^{k}", "before": [mean, err], "after": [m2, e2]}))
    c = rng.randint(-8, 8) * 1.0
    m3, e3, per3 = call_blocking(w, [x + c for x in e], neql)
    if not close(m3, mean + c, 1e-11, 1e-12):
        bad.append(("mean shifts with an added constant", {"c": c, "before": mean, "after": m3}))
    for i in per:
        if i in per3 and not close(per3[i][2], per[i][2], 4e-6, 1e-13):
            bad.append(("error ignores an added constant", {"c": c, "size": i, "before": per[i][2], "after": per3[i][2]}))
            break
    # the same two clauses where rounding matters: a large common offset on a series with small fluctuations (total energies of
    # 1e4..1e6 with noise 1e-3), and constant non-dyadic energies under non-uniform weights
    cb = rng.choice([25000.0, -1.0e6, 3.0e5, -77000.0])
    es = [x * 2.0 ** -10 for x in e]
    _, _, pa = call_blocking(w, es, neql)
    mb, _, pb = call_blocking(w, [x + cb for x in es], neql)
    for i in pa:
        if i in pb and not (close(pb[i][2], pa[i][2], 2e-5, 1e-11)):
            bad.append(("error ignores an added constant", {"c": cb, "energy_scale": "2^-10", "size": i, "before": pa[i][2], "after": pb[i][2]}))
            break
    if len(pa) != len(pb):
        bad.append(("error ignores an added constant", {"c": cb, "energy_scale": "2^-10", "block_sizes_before": sorted(pa), "block_sizes_after": sorted(pb)}))
    cv = rng.choice([0.1, -74.3, 1234.567, -1.0e5 / 3])
    _, ec, pc = call_blocking(w, [cv] * len(e), neql)
    worst = max([abs(v[2]) if v[2] == v[2] else float("inf") for v in pc.values()] + [abs(ec) if ec is not None and ec == ec else (float("inf") if ec is not None else 0.0)])
    if worst > 1e-11 * abs(cv):
        bad.append(("constant data never produce a non-zero error", {"energy": cv, "largest_error_reported": worst}))
    if len(set(ee)) == 1 and err is not None and err != 0.0:
        bad.append(("constant data never produce a non-zero error", {"err": err}))
    if 1 in per:
        n = len(ww)
        V1 = W
        V2 = sum(fr(x) ** 2 for x in ww)
        if n > 1 and V1 - V2 / V1 != 0:
            v = sum(fr(a) * (fr(b) - m_exact) ** 2 for a, b in zip(ww, ee)) / (V1 - V2 / V1) / (n - 1)
            if not close(per[1][2] ** 2, float(v), 4e-6, 1e-300):  # printed with 7 significant digits
                bad.append(("block size 1 equals the unbiased weighted-variance formula over n-1", {"got": per[1][2] ** 2, "want": float(v)}))
    return bad, (mean, err, per)


def spec_outliers(x, m, col, ncol):
    from ad_afqmc import stat_utils
    data = np.zeros((len(x), ncol))
    data[:, col] = x
    if ncol > 1:
        data[:, (col + 1) % ncol] = np.arange(len(x))
    kept, mask = stat_utils.reject_outliers(data, col, m=m)
    mask = [bool(b) for b in mask]
    bad = []
    if kept.shape[0] != sum(mask) or not (kept == data[np.array(mask)]).all():
        bad.append(("returned rows are exactly the masked rows", {}))
    # the definition, in exact arithmetic: a row is kept iff |x_i - med| < m (MAD + 1e-10); decisions closer than 1e-9 (relative) to the boundary are not judged

    def med(v):
        v = sorted(v)
        k = len(v)
        return v[k // 2] if k % 2 else (v[k // 2 - 1] + v[k // 2]) / 2
    xs = [Fraction(float(v)) for v in x]
    mu = med(xs)
    dev = [abs(v - mu) for v in xs]
    bound = Fraction(float(m)) * (med(dev) + Fraction(1.0e-10))
    for i, dv in enumerate(dev):
        if abs(dv - bound) <= Fraction(1, 10 ** 9) * max(bound, Fraction(1, 10 ** 9)):
            continue
        if (dv < bound) != mask[i]:
            bad.append(("a row is kept exactly when it lies within m median-absolute-deviations of the median",
                        {"row": i, "value": float(xs[i]), "median": float(mu), "MAD": float(med(dev)), "kept": mask[i]}))
            break
    return bad, mask


def spec_jackknife(num, den):
    from ad_afqmc import stat_utils
    mean, sigma = stat_utils.jackknife_ratios(np.array(num), np.array(den))
    n = len(num)
    est = []
    for i in range(n):
        a = sum(fr(num[j]) for j in range(n) if j != i)
        b = sum(fr(den[j]) for j in range(n) if j != i)
        est.append(a / b)
    mm = sum(est) / n
    s2 = (n - 1) * sum((x - mm) ** 2 for x in est) / n
    bad = []
    if not close(float(mean), float(mm), 1e-10, 1e-300) or not close(float(sigma) ** 2, float(s2), 1e-7, 1e-300):
        bad.append(("jackknife equals the brute-force leave-one-out computation", {"got": [float(mean), float(sigma) ** 2], "want": [float(mm), float(s2)]}))
    return bad, (float(mean), float(sigma))


def ensemble_check(rng, tier):
    """i.i.d. ensemble: the error at block size 1 agrees with the true standard error of the mean, and the
    reported plateau error is statistically valid (a test of the 'statistically valid' clause)"""
    from ad_afqmc import stat_utils
    nrep = 40 if tier == "quick" else 300
    n = 2000
    g = np.random.default_rng(rng.randrange(1 << 30))
    means, errs1, plats = [], [], []
    for _ in range(nrep):
        e = g.normal(0.0, 1.0, n)
        w = np.ones(n)
        m, p, per = call_blocking(list(w), list(e), 0)
        means.append(m)
        errs1.append(per[1][2] if 1 in per else float("nan"))
        plats.append(p)
    true = 1.0 / math.sqrt(n)
    bad = []
    if not (0.9 * true < float(np.mean(errs1)) < 1.1 * true):
        bad.append(("uncorrelated samples: error agrees with the true standard error of the mean", {"mean_err1": float(np.mean(errs1)), "true": true}))
    sd = float(np.std(means))
    if not (0.7 * true < sd < 1.3 * true):
        bad.append(("ensemble spread of the mean matches the true error (sanity of the test itself)", {"sd": sd, "true": true}))
    got = [p for p in plats if p is not None]
    if got and not (0.7 * true < float(np.mean(got)) < 1.5 * true):
        bad.append(("uncorrelated samples: reported plateau error is statistically valid", {"mean_plateau": float(np.mean(got)), "true": true}))
    # autocorrelated samples: AR(1) with correlation 0.9 (integrated autocorrelation factor sqrt(19) = 4.36 on the error): the per-size
    # estimates must GROW with the block size (blocks are runs of consecutive samples) and approach the true error of the mean
    phi, n2 = 0.9, 4000
    true2 = math.sqrt((1 + phi) / (1 - phi)) / math.sqrt(n2)      # unit stationary variance
    r1, r50, r100 = [], [], []
    for _ in range(8 if tier == "quick" else 40):
        x = np.empty(n2)
        x[0] = g.normal()
        z = g.normal(0.0, math.sqrt(1 - phi * phi), n2)
        for t in range(1, n2):
            x[t] = phi * x[t - 1] + z[t]
        m, p, per = call_blocking([1.0] * n2, list(x), 0)
        if 1 in per and 50 in per and 100 in per:
            r1.append(per[1][2]); r50.append(per[50][2]); r100.append(per[100][2])
    if r1:
        a1, a50, a100 = float(np.mean(r1)), float(np.mean(r50)), float(np.mean(r100))
        if not (a50 > 2.5 * a1 and a100 > 2.5 * a1 and 0.6 * true2 < a100 < 1.4 * true2):
            bad.append(("autocorrelated samples: per-block-size estimates grow towards the true error",
                        {"correlation": phi, "n": n2, "mean_error_size_1": a1, "mean_error_size_50": a50, "mean_error_size_100": a100, "true_error": true2,
                         "numpy_generator_seed_source": "harness rng stream"}))
    return bad


def run(ctx):
    rng = random.Random(ctx.seed)
    proofs_ok = ctx.build_and_audit()
    nb = 50 if ctx.tier == "quick" else 300
    kinds = ["unit", "scaled_unit", "random", "const", "ties", "ar1"]
    lines, refs = [], []
    spec_fail = []
    dist = {}
    for i in range(nb):
        kind = kinds[i % len(kinds)]
        n = rng.choice([4, 5, 6, 9, 12, 25, 41, 64, 101, 230]) if ctx.tier == "quick" or rng.random() < 0.9 else rng.choice([2050, 10000])
        neql = rng.choice([0, 0, 1, n // 4])
        if n - neql < 3:
            neql = 0
        w, e = gen_series(rng, n, kind)
        dist[kind] = dist.get(kind, 0) + 1
        bad, out = spec_blocking(w, e, neql, rng)
        for c, d in bad:
            d.update({"w": w[:2000], "e": e[:2000], "neql": neql})
            spec_fail.append(("blocking_analysis", c, d))
        lines.append(f"block {rs(C2)} {neql} {n} " + " ".join(rs(fr(x)) for x in w) + " " + " ".join(rs(fr(x)) for x in e))
        refs.append(("block", (w, e, neql), out))
    for i in range(nb // 2):
        n = rng.choice([2, 3, 4, 7, 16, 40])
        num = [rng.randint(-256, 256) / 64.0 for _ in range(n)]
        den = [rng.randint(64, 512) / 128.0 for _ in range(n)]
        if i % 4 == 3:
            # a total energy: large ratio, small spread (what the routine is used for)
            n = 64
            e0 = rng.choice([-76.5, -230.25, -14.875])
            den = [rng.randint(96, 160) / 128.0 for _ in range(n)]
            num = [d * (e0 + rng.randint(-8, 8) / 8192.0) for d in den]
        bad, out = spec_jackknife(num, den)
        for c, d in bad:
            d.update({"num": num, "den": den})
            spec_fail.append(("jackknife_ratios", c, d))
        lines.append(f"jack {n} " + " ".join(rs(fr(x)) for x in num) + " " + " ".join(rs(fr(x)) for x in den))
        refs.append(("jack", (num, den), out))
        dist["jack"] = dist.get("jack", 0) + 1
    for i in range(nb // 2):
        n = rng.choice([1, 2, 3, 4, 5, 8, 21, 50])
        kind = rng.choice(["spread", "ties", "outlier", "majority"])
        if i < 2:
            kind, n = "majority", (5, 21)[i]     # every run: a column whose median absolute deviation is exactly zero
        x = [rng.randint(-64, 64) / 16.0 for _ in range(n)]
        if kind == "majority":
            # more than half of the rows tie at one value (a converged / symmetry-zero observable), the others are away from it
            v = rng.choice([0.0, 1.5, -74.25])
            x = [v] * n
            for j in rng.sample(range(n), max(1, (n - 1) // 3) if n > 2 else 0):
                x[j] = v + rng.choice([-1, 1]) * 2.0 ** rng.randint(-12, 6)
        if kind == "ties":
            x = [rng.choice([1.0, 1.0, 2.0, 2.5]) for _ in range(n)]
        if kind == "outlier":
            x[rng.randrange(n)] = 2.0 ** rng.randint(4, 12)
        m = rng.choice([10.0, 2.0, 1.0, 0.5, 3.0])
        ncol = rng.choice([1, 2, 3])
        col = rng.randrange(ncol)
        bad, mask = spec_outliers(x, m, col, ncol)
        for c, d in bad:
            d.update({"x": x, "m": m})
            spec_fail.append(("reject_outliers", c, d))
        lines.append(f"outl {rs(EPS)} {rs(fr(m))} " + " ".join(rs(fr(v)) for v in x))
        refs.append(("outl", (x, m), mask))
        dist["outl_" + kind] = dist.get("outl_" + kind, 0) + 1
    try:
        model = common.lean_run("C19", lines)
    except Exception as ex:
        model = None
        ctx.broken.append({"kind": "driver", "error": str(ex)[-1500:]})

    def parse(line):
        d = {}
        for tok in line.split(" "):
            if "=" in tok:
                k, v = tok.split("=", 1)
                d[k] = v
        return d

    mism, skipped, compared = [], 0, 0
    nontrivial = set()
    if model is not None:
        for k, (what, inp, out) in enumerate(refs):
            m = parse(model[k]) if k < len(model) else {}
            if what == "block":
                w, e, neql = inp
                mean, err, per = out
                if len(set(e)) > 1:
                    nontrivial.add(json.dumps(inp)[:4000])
                compared += 1
                if "mean" not in m or not close(mean, float(Fraction(m["mean"])), 1e-12, 1e-300):
                    mism.append({"fn": "blocking_analysis", "what": "mean", "impl": mean, "model": m.get("mean"), "w": w[:50], "e": e[:50], "neql": neql})
                    continue
                errs = {}
                body = m.get("errs", "[]")[1:-1]
                for part in body.split(","):
                    if ":" in part:
                        a, b = part.split(":")
                        errs[int(a)] = Fraction(b)
                # per-size errors (when the implementation printed them)
                bad_size = None
                for i, q in errs.items():
                    if i in per and not close(per[i][2] ** 2, float(q), 4e-6, 1e-290):  # printed with 7 significant digits
                        bad_size = (i, per[i][2] ** 2, float(q))
                if per and set(per) != set(errs):
                    bad_size = ("admitted sizes", sorted(per), sorted(errs))
                if bad_size:
                    mism.append({"fn": "blocking_analysis", "what": "per-size error^2", "detail": bad_size, "w": w[:50], "e": e[:50], "neql": neql})
                    continue
                # plateau decision margin
                seq = [errs[i] for i in sorted(errs)]
                prev, tie = Fraction(0), False
                for q in seq:
                    if prev != 0 and abs(q - C2 * prev) <= Fraction(1, 10 ** 7) * prev:
                        tie = True
                    if prev == 0 and q == 0:
                        pass
                    prev = q
                # float noise on exactly-zero errors: sizes whose exact error is 0 are decided by rounding
                if any(q == 0 for q in seq) and any(q != 0 for q in seq):
                    tie = True
                if any(q < 0 for q in seq):
                    tie = True
                if tie:
                    skipped += 1
                    continue
                pm = m.get("plateau")
                if (pm == "none") != (err is None) or (err is not None and not close(err ** 2, float(Fraction(pm)), 1e-8, 1e-290)):
                    if all(q == 0 for q in seq) and (err is None or err == 0.0):
                        continue
                    mism.append({"fn": "blocking_analysis", "what": "plateau error", "impl": err, "model": pm, "w": w[:50], "e": e[:50], "neql": neql})
            elif what == "jack":
                compared += 1
                nontrivial.add(json.dumps(inp))
                mean, sigma = out
                if "mean" not in m or not close(mean, float(Fraction(m["mean"])), 1e-10, 1e-300) or not close(sigma ** 2, float(Fraction(m["sigma2"])), 1e-7, 1e-300):
                    mism.append({"fn": "jackknife_ratios", "impl": out, "model": m, "num": inp[0], "den": inp[1]})
            else:
                x, mm = inp
                if "margin" in m and Fraction(m["margin"]) < Fraction(1, 10 ** 9):
                    skipped += 1
                    continue
                compared += 1
                if len(set(x)) > 1:
                    nontrivial.add(json.dumps(inp))
                want = [c == "1" for c in m.get("mask", "[]")[1:-1].split(",") if c != ""]
                if want != out:
                    mism.append({"fn": "reject_outliers", "impl": out, "model": want, "x": x, "m": mm})
    for c, d in ensemble_check(rng, ctx.tier):
        spec_fail.append(("blocking_analysis (ensemble test)", c, d))

    ctx.cov["evaluations"] = len(refs)
    ctx.cov["distinct_nontrivial"] = len(nontrivial)
    ctx.cov["rule"] = ("dyadic weight/energy series of 6 kinds (unit, uniformly scaled by 2^k with |k| up to 60, random positive, constant, ties, AR(1)), "
                       "lengths 4..230 (to 10000 thorough), equilibration cuts; jackknife inputs; outlier columns with ties/outliers, every column and m; "
                       "compared with the exact rational Lean model (mean 1e-12, error^2 1e-8, plateau None-ness and value, kept mask exactly); "
                       "plateau/mask decisions within 1e-7 of a tie skipped and counted; non-trivial = non-constant series")
    ctx.cov["samples"] = [lines[0][:300], lines[nb][:200], lines[-1][:200]]
    ctx.cov["distribution"] = dist
    ctx.cov["skipped"] = {"near_tie_or_rounding_decided": skipped}
    ctx.cov["correspondence"] = {"compared": compared, "mismatches": len(mism)}
    ctx.assumptions += ["sqrt and IEEE rounding of the implementation (model carries error^2 exactly)",
                        "AR(1) 'grow towards and plateau' clause is a statement about ensembles: covered by a seeded synthetic-ensemble test, not by a theorem",
                        "np.median follows its documented even-length convention (modelled)"]
    if mism:
        ctx.broken.append({"kind": "correspondence", "first": mism[:3], "count": len(mism)})
    seen = set()
    for name, clause, det in spec_fail:
        if (name, clause) in seen:
            continue
        seen.add((name, clause))
        if common.known_match("C19", name, clause):
            ctx.known_finding(f"{name}: {clause}")
        else:
            ctx.violation({"function": name, "clause": clause, "detail": det})


def replay(path):
    r = json.load(open(path))
    d = r.get("detail")
    if not d:
        print(json.dumps(r, indent=1)[:3000])
        return 1
    rng = random.Random(0)
    fails = []
    if "w" in d:
        fails, _ = spec_blocking(d["w"], d["e"], d.get("neql", 0), rng)
    elif "num" in d:
        fails, _ = spec_jackknife(d["num"], d["den"])
    for f in fails:
        print("FAILS:", f[0], {k: v for k, v in f[1].items() if k not in ("w", "e")})
    if not fails:
        print("property holds on this input now")
    return 1 if fails else 0
