"""C18 — trial optimisation is a stable, differentiable SCF with orthonormal output.

Lean: the eigen-derivative rule satisfies the linearised eigen-equations for a non-degenerate spectrum
and every entry of F is finite (bounded by 1/thresh + 1) for every spectrum; selected, sign-fixed
columns of an orthogonal matrix are orthonormal.  Tie: jax.jvp(linalg_utils._eigh) on random symmetric
matrices incl. exactly and nearly degenerate spectra (finite; first-order equations; eigenvalue
derivative vs finite differences; F entries recovered from dV vs the Lean decision logic);
trial.optimize for rhf / uhf (closed and open shell): orthonormal output for every input, a converged
solution is a fixed point, energy equals an independent Roothaan solver (and pyscf in the thorough
tier) on well-conditioned problems."""
import json
import random
from fractions import Fraction

import numpy as np

import common
import systems
import wf

LEVEL = "proof"
THRESH, BIG = Fraction(1.0e-5), Fraction(1.0e200)


def rs(q):
    q = Fraction(q)
    return str(q.numerator) if q.denominator == 1 else f"{q.numerator}/{q.denominator}"


def hf_energy(h0, h1, L, dm):
    """E = h0 + sum_s tr(h_s D_s) + 1/2 sum_g [(tr L D)^2 - sum_s tr(L D_s L D_s)]"""
    D = dm[0] + dm[1]
    e = h0 + np.sum(h1[0] * dm[0]) + np.sum(h1[1] * dm[1])
    for l in L:
        e += 0.5 * (np.sum(l * D) ** 2 - np.trace(l @ dm[0] @ l @ dm[0]) - np.trace(l @ dm[1] @ l @ dm[1]))
    return float(np.real(e))


def independent_scf(h1, L, ne, dm0, iters=400):
    """plain Roothaan iterations with damping, independent of the library"""
    dm = [dm0[0].copy(), dm0[1].copy()]
    for it in range(iters):
        D = dm[0] + dm[1]
        J = sum(np.sum(l * D) * l for l in L)
        new = []
        for s in (0, 1):
            Kx = sum(l @ dm[s] @ l for l in L)
            w, v = np.linalg.eigh(h1[s] + J - Kx)
            c = v[:, :ne[s]]
            new.append(c @ c.T)
        if max(np.abs(new[s] - dm[s]).max() for s in (0, 1)) < 1e-12:
            dm = new
            break
        dm = [0.5 * dm[s] + 0.5 * new[s] for s in (0, 1)]
    return dm


def gapped_problem(rng, norb, ne, spin_dep=False):
    """weakly interacting Hamiltonian with a clear Fermi gap (well conditioned SCF)"""
    eps = np.array(sorted(rng.sample(range(-12, 12), norb)), dtype=float)
    U = systems.orthonormal(rng, norb, norb)
    ha = U @ np.diag(eps) @ U.T + 0.05 * systems.sym(systems.dyadic(rng, (norb, norb), 4))
    hb = ha + (0.2 * systems.sym(systems.dyadic(rng, (norb, norb), 4)) if spin_dep else 0.0)
    L = np.array([0.3 * systems.sym(systems.dyadic(rng, (norb, norb), 4)) for _ in range(2)])
    return float(rng.randint(-4, 4) / 4.0), np.array([ha, hb]), L


def run(ctx):
    systems.setup_jax()
    import jax
    import jax.numpy as jnp
    from ad_afqmc import linalg_utils, wavefunctions
    rng = random.Random(ctx.seed)
    proofs_ok = ctx.build_and_audit()
    spec_fail, lines, refs = [], [], []
    evals = 0
    dist = {"nondegenerate": 0, "exactly_degenerate": 0, "nearly_degenerate": 0}
    nj = 12 if ctx.tier == "quick" else 80
    for i in range(nj):
        n = rng.choice([2, 3, 4, 5])
        kind = ["nondegenerate", "exactly_degenerate", "nearly_degenerate"][i % 3]
        U = systems.orthonormal(rng, n, n)
        w = np.array(sorted(rng.sample(range(-8, 8), n)), dtype=float)
        if kind == "exactly_degenerate" and n >= 2:
            w[1] = w[0]
        if kind == "nearly_degenerate" and n >= 2:
            w[1] = w[0] + rng.choice([1e-7, 3e-6, 1e-9])
        A = U @ np.diag(w) @ U.T
        if kind == "exactly_degenerate":
            A = np.diag(w)  # exactly representable degeneracy
        A = (A + A.T) / 2
        Ad = systems.sym(systems.dyadic(rng, (n, n), 4))
        dist[kind] += 1
        try:
            (wv, V), (dw, dV) = jax.jvp(linalg_utils._eigh, (jnp.array(A),), (jnp.array(Ad),))
            wv, V, dw, dV = np.array(wv), np.array(V), np.array(dw), np.array(dV)
            evals += 1
            if not (np.isfinite(dw).all() and np.isfinite(dV).all()):
                spec_fail.append(("linalg_utils._eigh", "the eigen-derivative stays finite (no NaN/inf) when eigenvalues coincide or nearly coincide",
                                  {"spectrum": kind, "A": A.tolist(), "tangent": Ad.tolist()}))
                continue
            B = V.T @ Ad @ V
            if kind == "nondegenerate":
                r1 = np.abs(A @ dV + Ad @ V - dV @ np.diag(wv) - V @ np.diag(dw)).max()
                r2 = np.abs(V.T @ dV + (V.T @ dV).T).max()
                h = 1e-6
                fd = (np.linalg.eigvalsh(A + h * Ad) - np.linalg.eigvalsh(A - h * Ad)) / (2 * h)
                if r1 > 1e-8 or r2 > 1e-8 or np.abs(fd - dw).max() > 1e-5:
                    spec_fail.append(("linalg_utils._eigh", "the derivative equals the standard eigenvalue / eigenvector derivative for a non-degenerate spectrum",
                                      {"A": A.tolist(), "tangent": Ad.tolist(), "eigen_equation_residual": float(r1), "orthogonality_residual": float(r2),
                                       "dw_vs_finite_difference": float(np.abs(fd - dw).max())}))
            # F entries recovered from the output: (V^T dV)_ij = F_ij B_ij
            G = V.T @ dV
            for a in range(n):
                for b in range(n):
                    if abs(B[a, b]) > 0.05 and a != b and min(abs(abs(wv[b] - wv[a]) - 1e-5), 1.0) > 1e-7:
                        lines.append(f"fentry {rs(THRESH)} {rs(BIG)} {rs(Fraction(float(wv[a])))} {rs(Fraction(float(wv[b])))} 0")
                        refs.append((float(G[a, b] / B[a, b]), kind, float(wv[a]), float(wv[b])))
        except Exception as ex:
            spec_fail.append(("linalg_utils._eigh", "jvp runs", {"error": repr(ex)[:300]}))
    mism = []
    try:
        model = common.lean_run("C18", lines) if lines else []
        for k, (f_impl, kind, wa, wb) in enumerate(refs):
            d = wf.parse_line(model[k]) if k < len(model) else {}
            want = float(Fraction(d["f"])) if "f" in d else None
            if want is None or abs(f_impl - want) > 1e-5 * max(1.0, abs(want)) + 1e-9:
                mism.append({"spectrum": kind, "w_i": wa, "w_j": wb, "impl_F": f_impl, "model_F": want})
    except Exception as ex:
        ctx.broken.append({"kind": "driver", "error": str(ex)[-1500:]})
    # ---- trial.optimize
    nopt = 6 if ctx.tier == "quick" else 30
    for i in range(nopt):
        kind = "rhf" if i % 3 == 0 else "uhf"
        norb = rng.choice([3, 4, 5])
        ne = rng.choice([(1, 1), (2, 2)]) if kind == "rhf" else rng.choice([(2, 1), (2, 2), (3, 1), (3, 2), (1, 1)])
        if max(ne) >= norb:
            ne = (1, 1)
        h0, h1, L = gapped_problem(rng, norb, ne, spin_dep=(kind == "uhf" and rng.random() < 0.5))
        ham = {"h0": h0, "h1": jnp.array(h1), "chol": jnp.array(L.reshape(len(L), -1))}
        trial = wavefunctions.rhf(norb, ne) if kind == "rhf" else wavefunctions.uhf(norb, ne)
        # (i) orthonormal output for every input, including a strongly perturbed / non-orthonormal guess
        guess = [systems.dyadic(rng, (norb, ne[0]), 3) + np.eye(norb)[:, :ne[0]], systems.dyadic(rng, (norb, ne[1]), 3) + np.eye(norb)[:, :ne[1]]]
        wd = {"mo_coeff": jnp.array(guess[0])} if kind == "rhf" else {"mo_coeff": [jnp.array(guess[0]), jnp.array(guess[1])]}
        try:
            out = trial.optimize(dict(ham), dict(wd))
            cs = [np.array(out["mo_coeff"])] if kind == "rhf" else [np.array(out["mo_coeff"][0]), np.array(out["mo_coeff"][1])]
            evals += 1
            for c in cs:
                if c.shape[1] and np.abs(c.T @ c - np.eye(c.shape[1])).max() > 1e-9:
                    spec_fail.append((f"{kind}.optimize", "returns orthonormal occupied orbitals for every input", {"norb": norb, "nelec": ne, "error": float(np.abs(c.T @ c - np.eye(c.shape[1])).max())}))
            # (ii) independent solver from the same kind of guess
            eigs = [np.linalg.eigh(h1[s])[1] for s in (0, 1)]
            dm0 = [eigs[s][:, :ne[s]] @ eigs[s][:, :ne[s]].T for s in (0, 1)]
            if kind == "rhf":
                dm0 = [dm0[0], dm0[0]]
            dm_ref = independent_scf(h1 if kind == "uhf" else np.array([(h1[0] + h1[1]) / 2] * 2), L, ne, dm0)
            e_ref = hf_energy(h0, h1, L, dm_ref)
            # library: start from the core-Hamiltonian guess, iterate to convergence
            wd2 = {"mo_coeff": jnp.array(eigs[0][:, :ne[0]])} if kind == "rhf" else {"mo_coeff": [jnp.array(eigs[0][:, :ne[0]]), jnp.array(eigs[1][:, :ne[1]])]}
            for _ in range(4):
                wd2 = trial.optimize(dict(ham), dict(wd2))
            cs2 = [np.array(wd2["mo_coeff"])] * 2 if kind == "rhf" else [np.array(wd2["mo_coeff"][0]), np.array(wd2["mo_coeff"][1])]
            dm_lib = [cs2[0] @ cs2[0].T, cs2[1] @ cs2[1].T]
            e_lib = hf_energy(h0, h1, L, dm_lib)
            if abs(e_lib - e_ref) > 1e-7:
                spec_fail.append((f"{kind}.optimize", "from a reasonable guess reaches the same energy as an independent SCF solver on a well-conditioned problem",
                                  {"norb": norb, "nelec": ne, "library": e_lib, "independent": e_ref}))
            # (iii) converged solution is a fixed point (same occupied space)
            wd3 = trial.optimize(dict(ham), dict(wd2))
            cs3 = [np.array(wd3["mo_coeff"])] * 2 if kind == "rhf" else [np.array(wd3["mo_coeff"][0]), np.array(wd3["mo_coeff"][1])]
            drift = max(np.abs(cs3[s] @ cs3[s].T - dm_lib[s]).max() for s in (0, 1))
            if drift > 1e-7:
                spec_fail.append((f"{kind}.optimize", "leaves a converged Hartree-Fock solution unchanged (same occupied space)",
                                  {"norb": norb, "nelec": ne, "projector_drift": float(drift)}))
        except Exception as ex:
            spec_fail.append((f"{kind}.optimize", "optimisation runs", {"norb": norb, "nelec": ne, "error": repr(ex)[:300]}))
    # ---- two trial objects that differ only in the number of SCF iterations (a one-step probe, then a full optimisation):
    # each must run its own number of iterations
    for kind in ("rhf", "uhf"):
        try:
            norb, ne = 4, ((2, 2) if kind == "rhf" else (2, 1))
            h0, h1, L = gapped_problem(rng, norb, ne, spin_dep=(kind == "uhf"))
            ham = {"h0": h0, "h1": jnp.array(h1), "chol": jnp.array(L.reshape(len(L), -1))}
            cls = wavefunctions.rhf if kind == "rhf" else wavefunctions.uhf
            eigs = [np.linalg.eigh(h1[sp])[1] for sp in (0, 1)]
            guess = [eigs[sp][:, :ne[sp]] for sp in (0, 1)]
            wd0 = {"mo_coeff": jnp.array(guess[0])} if kind == "rhf" else {"mo_coeff": [jnp.array(guess[0]), jnp.array(guess[1])]}
            probe = cls(norb, ne, n_opt_iter=1).optimize(dict(ham), dict(wd0))          # one Roothaan step
            full = cls(norb, ne, n_opt_iter=60).optimize(dict(ham), dict(wd0))
            # the one-step probe must be ONE plain Roothaan step (occupied projector), whatever other trial objects of the same
            # sizes have been used before in this process
            hh = h1 if kind == "uhf" else np.array([(h1[0] + h1[1]) / 2] * 2)
            d0 = [guess[0] @ guess[0].T, guess[1] @ guess[1].T] if kind == "uhf" else [guess[0] @ guess[0].T] * 2
            Dt = d0[0] + d0[1]
            Jm = sum(np.sum(l * Dt) * l for l in L)
            one = []
            for sp in (0, 1):
                Kx = sum(l @ d0[sp] @ l for l in L)
                wv, vv = np.linalg.eigh(hh[sp] + Jm - Kx)
                one.append(vv[:, :ne[sp]] @ vv[:, :ne[sp]].T)
            cp = [np.array(probe["mo_coeff"])] * 2 if kind == "rhf" else [np.array(probe["mo_coeff"][0]), np.array(probe["mo_coeff"][1])]
            dstep = max(np.abs(cp[sp] @ cp[sp].T - one[sp]).max() for sp in (0, 1))
            if dstep > 1e-8:
                spec_fail.append((f"{kind}.optimize", "a trial object asked for one SCF iteration performs one Roothaan step (its own iteration count, not that of an earlier object)",
                                  {"norb": norb, "nelec": ne, "projector_difference_from_one_step": float(dstep)}))
            cf = [np.array(full["mo_coeff"])] * 2 if kind == "rhf" else [np.array(full["mo_coeff"][0]), np.array(full["mo_coeff"][1])]
            dm0 = [guess[0] @ guess[0].T, guess[1] @ guess[1].T]
            if kind == "rhf":
                dm0 = [dm0[0], dm0[0]]
            dm_ref = independent_scf(h1 if kind == "uhf" else np.array([(h1[0] + h1[1]) / 2] * 2), L, ne, dm0)
            e_ref = hf_energy(h0, h1, L, dm_ref)
            e_full = hf_energy(h0, h1, L, [cf[0] @ cf[0].T, cf[1] @ cf[1].T])
            evals += 2
            if abs(e_full - e_ref) > 1e-7:
                spec_fail.append((f"{kind}.optimize", "from a reasonable guess reaches the same energy as an independent SCF solver on a well-conditioned problem",
                                  {"norb": norb, "nelec": ne, "n_opt_iter": 60, "preceded_by": "a trial object with n_opt_iter=1 of the same sizes",
                                   "library": e_full, "independent": e_ref}))
        except Exception as ex:
            spec_fail.append((f"{kind}.optimize", "optimisation with a non-default iteration count runs", {"error": repr(ex)[:300]}))
    # ---- hypothesis of `jit_transparent` (Props/C18.lean), checked on the classes: `optimize` is jitted with the trial object as a
    # static argument, so objects that compare equal share one executable; equality (and hashing consistent with it) must look at
    # every attribute the optimisation reads
    import dataclasses
    eq_checked = 0
    for kind, cls, base in (("rhf", wavefunctions.rhf, dict(norb=4, nelec=(2, 2))), ("uhf", wavefunctions.uhf, dict(norb=4, nelec=(2, 1)))):
        try:
            a = cls(**base)
            for fname, alt in (("norb", 5), ("nelec", (1, 1)), ("n_opt_iter", a.n_opt_iter + 7)):
                b = dataclasses.replace(a, **{fname: alt})
                eq_checked += 1
                if a == b:
                    spec_fail.append((f"{kind}.optimize", "a trial object asked for one SCF iteration performs one Roothaan step (its own iteration count, not that of an earlier object)",
                                      {"reason": f"objects that differ in `{fname}` compare equal, so jax.jit reuses the executable traced for the other one",
                                       "a": repr(a), "b": repr(b)}))
                c = dataclasses.replace(a)
                if not (a == c and hash(a) == hash(c)):
                    spec_fail.append((f"{kind}.optimize", "equal trial objects hash equally (jit cache lookup)", {"a": repr(a)}))
        except Exception as ex:
            spec_fail.append((f"{kind}.optimize", "trial objects can be copied and compared", {"error": repr(ex)[:300]}))
    dist["static_identity_fields_checked"] = eq_checked
    # ---- differentiating through the optimisation when Fock levels coincide EXACTLY (two identical non-interacting
    # fragments; repeated one-body levels): the derivative of the optimised density must be finite
    for kind in ("rhf", "uhf"):
        try:
            lev = [-2.0, -2.0, 0.5, 0.5, 0.5, 3.0]
            norb, ne = 6, ((2, 2) if kind == "rhf" else (2, 1))
            h = np.diag(lev)
            Lz = np.zeros((1, norb, norb))
            ham = {"h0": 0.0, "h1": jnp.array([h, h]), "chol": jnp.array(Lz.reshape(1, -1))}
            trial = wavefunctions.rhf(norb, ne) if kind == "rhf" else wavefunctions.uhf(norb, ne)
            c0 = np.eye(norb)
            wd = {"mo_coeff": jnp.array(c0[:, :ne[0]])} if kind == "rhf" else {"mo_coeff": [jnp.array(c0[:, :ne[0]]), jnp.array(c0[:, :ne[1]])]}
            O = systems.sym(systems.dyadic(rng, (norb, norb), 3))

            def dens(x):
                hd = dict(ham)
                hd["h1"] = ham["h1"] + x * jnp.array([O, O])
                out = trial.optimize(hd, dict(wd))
                c = out["mo_coeff"] if kind == "rhf" else out["mo_coeff"][0]
                return c @ c.T
            val, tan = jax.jvp(dens, (0.0,), (1.0,))
            evals += 1
            if not (np.isfinite(np.array(val)).all() and np.isfinite(np.array(tan)).all()):
                spec_fail.append((f"{kind}.optimize", "the derivative taken through the optimisation stays finite (no NaN/inf) when eigenvalues coincide",
                                  {"levels": lev, "nelec": ne, "nan_in_value": bool(not np.isfinite(np.array(val)).all()), "nan_in_derivative": bool(not np.isfinite(np.array(tan)).all())}))
        except Exception as ex:
            spec_fail.append((f"{kind}.optimize", "differentiation through the optimisation runs", {"error": repr(ex)[:300]}))
    # ---- a converged broken-symmetry solution handed over together with the density kept for the mean-field shift
    # (wave_data["rdm1"], here the spin-averaged one): the converged orbitals must still be a fixed point
    for nsite, ne, u in (((6, (3, 3), 4.0),) if ctx.tier == "quick" else ((6, (3, 3), 4.0), (4, (2, 2), 6.0), (6, (4, 3), 4.0))):
        try:
            K = np.zeros((nsite, nsite))
            for i in range(nsite - 1):
                K[i, i + 1] = K[i + 1, i] = -1.0
            L = np.zeros((nsite, nsite, nsite))
            for i in range(nsite):
                L[i, i, i] = np.sqrt(u)
            h1 = np.array([K, K])
            # antiferromagnetic start
            da = np.diag([0.9 if i % 2 == 0 else 0.1 for i in range(nsite)]) * (ne[0] / (nsite / 2.0)) * 0.5
            db = np.diag([0.1 if i % 2 == 0 else 0.9 for i in range(nsite)]) * (ne[1] / (nsite / 2.0)) * 0.5
            dm = independent_scf(h1, L, ne, [da, db], iters=2000)
            D = dm[0] + dm[1]
            J = sum(np.sum(l * D) * l for l in L)
            cs = []
            for sp in (0, 1):
                Kx = sum(l @ dm[sp] @ l for l in L)
                w, v = np.linalg.eigh(h1[sp] + J - Kx)
                cs.append(v[:, :ne[sp]])
            conv = max(np.abs(cs[sp] @ cs[sp].T - dm[sp]).max() for sp in (0, 1))
            polar = float(np.abs(dm[0] - dm[1]).max())
            if conv > 1e-9 or polar < 0.05:
                continue            # not a converged broken-symmetry solution: nothing to test here
            ham = {"h0": 0.0, "h1": jnp.array(h1), "chol": jnp.array(L.reshape(nsite, -1))}
            trial = wavefunctions.uhf(nsite, ne)
            avg = 0.5 * (dm[0] + dm[1])
            wd = {"mo_coeff": [jnp.array(cs[0]), jnp.array(cs[1])], "rdm1": jnp.array([avg, avg])}
            out = trial.optimize(dict(ham), dict(wd))
            co = [np.array(out["mo_coeff"][0]), np.array(out["mo_coeff"][1])]
            drift = max(np.abs(co[sp] @ co[sp].T - dm[sp]).max() for sp in (0, 1))
            evals += 1
            if drift > 1e-6:
                spec_fail.append(("uhf.optimize", "leaves a converged Hartree-Fock solution unchanged (same occupied space)",
                                  {"system": f"{nsite}-site Hubbard chain U={u}", "nelec": ne, "projector_drift": float(drift), "spin_polarisation": polar,
                                   "energy_before": hf_energy(0.0, h1, L, dm), "energy_after": hf_energy(0.0, h1, L, [co[0] @ co[0].T, co[1] @ co[1].T]),
                                   "note": "wave_data also carries the spin-averaged rdm1 used for the mean-field shift"}))
        except Exception as ex:
            spec_fail.append(("uhf.optimize", "broken-symmetry fixed-point run executes", {"error": repr(ex)[:300]}))
    ctx.cov["evaluations"] = evals + len(refs)
    ctx.cov["distinct_nontrivial"] = evals
    ctx.cov["rule"] = ("symmetric matrices of size 2-5 with non-degenerate, exactly degenerate and nearly degenerate (gaps 1e-9..3e-6) spectra and dyadic symmetric "
                       "tangents through jax.jvp(_eigh); F entries recovered from dV = V (F o B) vs the Lean decision logic; gapped random Hamiltonians "
                       "(closed and open shells, spin-dependent h1 for uhf) through rhf/uhf.optimize from perturbed and core-Hamiltonian guesses")
    ctx.cov["samples"] = (lines[:2] or ["-"]) + [json.dumps(dist)]
    ctx.cov["distribution"] = dist
    ctx.cov["correspondence"] = {"F_entries_compared": len(refs), "mismatches": len(mism)}
    ctx.assumptions += ["jnp.linalg.eigh returns an orthonormal eigenbasis with ascending eigenvalues (the theorem's hypotheses)",
                        "convergence of 30 Roothaan iterations from a reasonable guess is compared with an independent solver, not proved"]
    if mism:
        ctx.broken.append({"kind": "correspondence", "first": mism[:3], "count": len(mism)})
    seen = set()
    for name, clause, det in spec_fail:
        if (name, clause) in seen:
            continue
        seen.add((name, clause))
        if common.known_match("C18", name, clause):
            ctx.known_finding(f"{name}: {clause}")
        else:
            ctx.violation({"where": name, "clause": clause, "detail": det})


def replay(path):
    r = json.load(open(path))
    print(json.dumps(r, indent=1)[:3000])
    return 1
