"""C08 — cached overlaps coherent at every propagate: translator-tied proof + dynamic validation.

1. translate sampling.py / driver.py into Machine.Prog terms (Generated/SamplerProg.lean), build and
   audit Props/C08.lean (check_sound instantiated with the generated `by decide` facts);
2. validate the translator: run the real sampler / driver eagerly (jax.disable_jit) with recording
   wrappers and compare the dynamic operation trace with `flatten` of the generated program;
3. evaluate the property itself on the implementation: at every propagate entry the cached overlaps
   are compared with overlaps recomputed from the current walkers (failing-input search), and the
   jitted sampler is compared with a step-by-step replay with explicit refreshes.
"""
import contextlib
import io
import json
import os
import random

import numpy as np

import common
import systems
import translate_sampler

LEVEL = "proof"


class _TS:
    def __init__(self):
        self.ops, self.resid, self.depth = [], [], 0


class Trace:
    """per-thread operation trace (the multi-rank search runs one rank per thread)"""

    def __init__(self):
        self._t = {}
        self.prop = None

    def _s(self):
        import threading
        return self._t.setdefault(threading.get_ident(), _TS())

    ops = property(lambda self: self._s().ops)
    resid = property(lambda self: self._s().resid)

    @property
    def depth(self):
        return self._s().depth

    @depth.setter
    def depth(self, v):
        self._s().depth = v

    def all_resid(self):
        return [r for t in self._t.values() for r in t.resid]


@contextlib.contextmanager
def recording(tr, trial, wave_data):
    from ad_afqmc import propagation, wavefunctions
    import jax.numpy as jnp
    P = propagation.propagator
    WF = wavefunctions.wave_function
    saved = []

    def patch(cls, name, make):
        orig = cls.__dict__[name]
        saved.append((cls, name, orig))
        setattr(cls, name, make(orig))

    def bound(orig, self):
        return orig.__get__(self, type(self)) if hasattr(orig, "__get__") else (lambda *a, **k: orig(self, *a, **k))

    def mk_prop(orig):
        def w(self, trial_, ham_data, prop_data, fields, wave_data_):
            if tr.depth == 0:
                tr.depth += 1
                try:
                    cached = np.array(prop_data["overlaps"])
                    fresh = np.array(trial_.calc_overlap(prop_data["walkers"], wave_data_))
                    r = float(np.max(np.abs(cached - fresh) / np.maximum(np.abs(fresh), 1e-300)))
                finally:
                    tr.depth -= 1
                tr.ops.append("propagate")
                tr.resid.append(r)
            tr.depth += 1
            try:
                return bound(orig, self)(trial_, ham_data, prop_data, fields, wave_data_)
            finally:
                tr.depth -= 1
        return w

    def mk_simple(opname):
        def make(orig):
            def w(self, *a, **k):
                if tr.depth == 0:
                    tr.ops.append(opname)
                tr.depth += 1
                try:
                    return bound(orig, self)(*a, **k)
                finally:
                    tr.depth -= 1
            return w
        return make

    patch(P, "propagate", mk_prop)
    for cls in {type(p) for p in [trial]}:
        pass
    seen = set()
    for cls in type(tr.prop).__mro__:
        for name, opname in (("orthonormalize_walkers", "qr"), ("stochastic_reconfiguration_local", "srLocal"),
                             ("stochastic_reconfiguration_global", "srGlobal")):
            if name in cls.__dict__ and (cls, name) not in seen and not getattr(cls.__dict__[name], "__isabstractmethod__", False):
                seen.add((cls, name))
                patch(cls, name, mk_simple(opname))
    patch(WF, "calc_overlap", mk_simple("refresh"))
    patch(WF, "calc_energy", mk_simple("measure"))
    # jax.checkpoint (rematerialisation) traces its argument even under disable_jit; it does not change
    # what is computed, so it is replaced by the identity while recording
    from ad_afqmc import sampling as _sampling
    ck = _sampling.checkpoint
    _sampling.checkpoint = lambda f, *a, **k: f
    try:
        yield
    finally:
        _sampling.checkpoint = ck
        for cls, name, orig in reversed(saved):
            setattr(cls, name, orig)


ENTRY_ARGS = {
    "propagate_phaseless": "plain",
    "propagate_phaseless_ad": "ad", "propagate_phaseless_ad_nosr": "ad", "propagate_phaseless_ad_norot": "ad",
    "propagate_phaseless_ad_nosr_norot": "ad",
}


def make_stale(pd, seed):
    """the state in which the driver hands walkers back to the sampler: the walker matrices have been changed (QR, global
    reconfiguration) since the cache was written, so the cached overlaps are off by walker-dependent determinant factors"""
    import jax.numpy as jnp
    r = np.random.RandomState(seed)

    def mix(w):
        w = np.array(w)
        R = np.array([1.3 * np.eye(w.shape[2]) + 0.2 * r.randn(w.shape[2], w.shape[2]) for _ in range(w.shape[0])])
        return jnp.array(np.einsum("wij,wjk->wik", w, R))
    pd["walkers"] = [mix(x) for x in pd["walkers"]] if isinstance(pd["walkers"], list) else mix(pd["walkers"])
    return pd


def call_entry(name, smp, S, coupling=0.0, stale=None):
    import jax.numpy as jnp
    pd = systems.copy_prop_data(S["prop_data"])
    if stale is not None:
        pd = make_stale(pd, stale)
    hd = dict(S["ham_data"])
    if ENTRY_ARGS[name] == "plain":
        return getattr(smp, name)(S["ham"], hd, S["prop"], pd, S["trial"], S["wave_data"])
    obs = 0.0 * jnp.array(S["ham_data"]["h1"])
    return getattr(smp, name)(S["ham"], hd, coupling, obs, S["prop"], pd, S["trial"], dict(S["wave_data"]))


def dynamic_trace(name, S, params):
    import jax
    from ad_afqmc import sampling
    smp = sampling.sampler(n_prop_steps=params["n_prop_steps"], n_ene_blocks=params["n_ene_blocks"],
                           n_sr_blocks=params["n_sr_blocks"], n_blocks=1)
    tr = Trace()
    tr.prop = S["prop"]
    with jax.disable_jit():
        with recording(tr, S["trial"], S["wave_data"]):
            call_entry(name, smp, S, stale=params.get("stale"))
    return tr


def replay_compare(S, params, rng):
    """the jitted sampler vs single public propagation steps with an explicit refresh after every
    walker modification, same jax.random fields (the 'equivalently' clause, on the implementation)"""
    import jax
    import jax.numpy as jnp
    from jax import random as jr
    from ad_afqmc import sampling
    smp = sampling.sampler(n_prop_steps=params["n_prop_steps"], n_ene_blocks=params["n_ene_blocks"],
                           n_sr_blocks=params["n_sr_blocks"], n_blocks=1)
    e_s, pd_s = call_entry("propagate_phaseless", smp, S)
    trial, prop, hd, wd = S["trial"], S["prop"], S["ham_data"], S["wave_data"]
    pd = systems.copy_prop_data(S["prop_data"])
    pd["overlaps"] = trial.calc_overlap(pd["walkers"], wd)
    pd["n_killed_walkers"] = 0
    pd["pop_control_ene_shift"] = pd["e_estimate"]
    be, bw = [], []
    for _ in range(params["n_sr_blocks"]):
        for _ in range(params["n_ene_blocks"]):
            pd["key"], sub = jr.split(pd["key"])
            fields = jr.normal(sub, shape=(params["n_prop_steps"], prop.n_walkers, hd["chol"].shape[0]))
            for t in range(params["n_prop_steps"]):
                pd = prop.propagate(trial, hd, pd, fields[t], wd)
            pd = prop.orthonormalize_walkers(pd)
            pd["overlaps"] = trial.calc_overlap(pd["walkers"], wd)      # explicit refresh
            es = jnp.real(trial.calc_energy(pd["walkers"], hd, wd))
            es = jnp.where(jnp.abs(es - pd["e_estimate"]) > jnp.sqrt(2.0 / prop.dt), pd["e_estimate"], es)
            w = jnp.sum(pd["weights"])
            e = jnp.sum(es * pd["weights"]) / w
            pd["pop_control_ene_shift"] = 0.9 * pd["pop_control_ene_shift"] + 0.1 * e
            be.append(float(e))
            bw.append(float(w))
        pd = prop.stochastic_reconfiguration_local(pd)
        pd["overlaps"] = trial.calc_overlap(pd["walkers"], wd)          # explicit refresh
    e_r = float(np.sum(np.array(be) * np.array(bw)) / np.sum(bw))

    def flat(w):
        return np.concatenate([np.array(x).ravel() for x in w]) if isinstance(w, list) else np.array(w).ravel()
    dw = float(np.max(np.abs(flat(pd["walkers"]) - flat(pd_s["walkers"]))))
    dwt = float(np.max(np.abs(np.array(pd["weights"]) - np.array(pd_s["weights"]))))
    de = abs(float(e_s) - e_r)
    return {"d_walkers": dw, "d_weights": dwt, "d_energy": de, "energy": float(e_s)}


def run_driver(S, options, smp, workdir):
    import jax
    from ad_afqmc import driver, config
    tr = Trace()
    tr.prop = S["prop"]
    cwd = os.getcwd()
    os.chdir(workdir)
    try:
        with jax.disable_jit():
            with recording(tr, S["trial"], S["wave_data"]):
                with contextlib.redirect_stdout(io.StringIO()):
                    driver.afqmc(dict(S["ham_data"]), S["ham"], S["prop"], S["trial"], dict(S["wave_data"]), smp, None,
                                 options, config.not_MPI())
    finally:
        os.chdir(cwd)
    return tr


def multirank_run(seed, R, workdir):
    """one complete driver.afqmc run over R fake MPI ranks, eager, coherence residual at every propagate"""
    import jax
    from ad_afqmc import driver, sampling
    import fakempi
    rs = random.Random(seed)
    S = systems.make_system(rs, "uhf", "unrestricted", norb=3, nelec=(2, 1), nchol=2, n_walkers=4, dt=0.1,
                            seed=seed, l_scale=1.0)
    options = {"seed": seed, "n_ene_blocks_eql": 1, "n_sr_blocks_eql": 1, "n_eql": 3, "ad_mode": None,
               "orbital_rotation": True, "do_sr": True, "save_walkers": False}
    smp = sampling.sampler(n_prop_steps=10, n_ene_blocks=1, n_sr_blocks=1, n_blocks=3)
    tr = Trace()
    tr.prop = S["prop"]
    cwd = os.getcwd()
    os.chdir(workdir)
    try:
        with recording(tr, S["trial"], S["wave_data"]):
            with contextlib.redirect_stdout(io.StringIO()):
                def fn(comm, r):
                    with jax.disable_jit():   # thread-local setting
                        with np.errstate(all="ignore"):
                            driver.afqmc(dict(S["ham_data"]), S["ham"], S["prop"], S["trial"], dict(S["wave_data"]), smp, None,
                                         dict(options), fakempi.FakeMPI(comm))
                fakempi.run_ranks(R, fn, seed=seed)
    finally:
        os.chdir(cwd)
    return tr.all_resid(), options


def search_multirank(ctx, rng, budget_s=240):
    """failing-input search used when a proof obligation / the translator tie breaks: complete driver
    runs over 2-3 fake MPI ranks (global SR really moves walkers between iterations)"""
    import time
    t0 = time.time()
    tried = 0
    while time.time() - t0 < budget_s:
        R = rng.choice([2, 3])
        seed = rng.randrange(1 << 20)
        tried += 1
        try:
            res, options = multirank_run(seed, R, ctx.work)
        except Exception as ex:
            return {"error": repr(ex)[:300], "tried": tried}
        bad = [x for x in res if not (x <= 1e-9)]
        if bad:
            return {"ranks": R, "seed": seed, "options": options, "sampler": [10, 1, 1, 3], "worst_residual": max(bad),
                    "incoherent_entries": len(bad), "entries": len(res), "tried": tried}
    return {"tried": tried, "found": False}


def run(ctx):
    systems.setup_jax()
    rng = random.Random(ctx.seed)
    t = translate_sampler.main(common.REPO, common.VERIF)
    ctx.cov["translator_issues"] = t.issues
    proofs_ok = ctx.build_and_audit()

    cfgs = []
    entries = list(ENTRY_ARGS)
    grid = [(1, 1, 1), (2, 1, 1), (1, 2, 1), (1, 1, 2), (2, 2, 2), (3, 2, 1)]
    if ctx.tier == "thorough":
        grid += [(1, 3, 2), (4, 1, 3), (2, 3, 3)]
    for name in entries:
        for wt, tk, nelec in (("unrestricted", "uhf", (2, 1)), ("restricted", "rhf", (2, 2))):
            for g in (grid if name == "propagate_phaseless" else grid[:3] + [grid[rng.randrange(len(grid))]]):
                cfgs.append((name, wt, tk, nelec, dict(n_prop_steps=g[0], n_ene_blocks=g[1], n_sr_blocks=g[2])))
        # restricted container with an open shell (the down determinant is the leading columns of the same matrix)
        for g in ([(1, 2, 1), (2, 2, 2)] if name == "propagate_phaseless" else [(1, 2, 1)]):
            cfgs.append((name, "restricted", "uhf", (2, 1), dict(n_prop_steps=g[0], n_ene_blocks=g[1], n_sr_blocks=g[2])))
    # orbital energies with a large common offset (h1 + mu): the un-normalised walkers, hence their overlaps, shrink by orders of
    # magnitude between two re-orthonormalisations - the algorithm is scale-invariant, the cache must stay exact at any magnitude
    for wt, tk, nelec in (("unrestricted", "uhf", (2, 1)), ("restricted", "rhf", (2, 2))):
        cfgs.append(("propagate_phaseless", wt, tk, nelec, dict(n_prop_steps=4, n_ene_blocks=1, n_sr_blocks=1, mu=40.0)))
    lines, dyn = [], []
    spec_fail = []
    worst = 0.0
    nprop = 0
    for name, wt, tk, nelec, params in cfgs:
        S = systems.make_system(rng, tk, wt, norb=3, nelec=nelec, nchol=2, n_walkers=3, dt=0.05, seed=rng.randrange(1 << 30))
        if params.get("mu"):
            import jax.numpy as jnp
            hd = {k: v for k, v in S["ham_data"].items() if k in ("h0", "h1", "chol", "ene0")}
            hd["h1"] = jnp.array(np.array(hd["h1"]) + params["mu"] * np.eye(3))
            hd = S["ham"].build_measurement_intermediates(hd, S["trial"], S["wave_data"])
            hd = S["ham"].build_propagation_intermediates(hd, S["prop"], S["trial"], S["wave_data"])
            key = S["prop_data"]["key"]
            S["ham_data"] = hd
            S["prop_data"] = S["prop"].init_prop_data(S["trial"], S["wave_data"], hd)
            S["prop_data"]["key"] = key
        params = dict(params, stale=rng.randrange(1 << 20))
        try:
            tr = dynamic_trace(name, S, params)
        except Exception as ex:
            spec_fail.append((name, "entry point runs", {"walker_type": wt, "params": params, "error": repr(ex)[:300]}))
            continue
        dyn.append(tr)
        lines.append(f"flatten {name} - " + " ".join(f"{k}={v}" for k, v in params.items() if k not in ("stale", "mu")))
        nprop += len(tr.resid)
        if tr.resid:
            worst = max(worst, max(tr.resid))
            bad = [i for i, r in enumerate(tr.resid) if not (r <= 1e-9)]
            if bad:
                spec_fail.append((name, "stored overlap equals the overlap recomputed from the walker at every propagate entry",
                                  {"walker_type": wt, "trial": tk, "params": params, "first_bad_propagate": bad[0],
                                   "residual": tr.resid[bad[0]], "ops_before": tr.ops[:40]}))
    # the shortest history of all: the propagator's own initialiser, from supplied walkers, followed directly by a step
    for wt, tk, nelec in (("unrestricted", "uhf", (2, 1)), ("restricted", "rhf", (2, 2))):
        try:
            import jax.numpy as jnp
            import wf as _wf
            S = systems.make_system(rng, tk, wt, norb=3, nelec=nelec, nchol=2, n_walkers=3, dt=0.05, seed=rng.randrange(1 << 30))
            ws = _wf.walkers(random.Random(rng.randrange(1 << 30)), 3, nelec, 3, restricted=(wt == "restricted"))
            pd0 = S["prop"].init_prop_data(S["trial"], S["wave_data"], S["ham_data"], init_walkers=ws)
            fresh = np.array(S["trial"].calc_overlap(pd0["walkers"], S["wave_data"]))
            r0 = float(np.max(np.abs(np.array(pd0["overlaps"]) - fresh) / np.abs(fresh)))
            nprop += 1
            worst = max(worst, r0)
            if not (r0 <= 1e-9):
                spec_fail.append((f"propagator_{wt}.init_prop_data", "stored overlap equals the overlap recomputed from the walker at every propagate entry",
                                  {"walker_type": wt, "trial": tk, "history": "init_prop_data(init_walkers=W) followed directly by propagate", "residual": r0}))
        except Exception as ex:
            spec_fail.append((f"propagator_{wt}.init_prop_data", "initialiser runs on supplied walkers", {"error": repr(ex)[:300]}))
    # driver
    dlines, ddyn = [], []
    try:
        from ad_afqmc import sampling
        S = systems.make_system(rng, "uhf", "unrestricted", norb=3, nelec=(2, 1), nchol=2, n_walkers=3, dt=0.05, seed=rng.randrange(1 << 30))
        options = {"seed": 3, "n_ene_blocks_eql": 1, "n_sr_blocks_eql": 2, "n_eql": 2, "ad_mode": None,
                   "orbital_rotation": True, "do_sr": True, "save_walkers": False}
        smp = sampling.sampler(n_prop_steps=50, n_ene_blocks=1, n_sr_blocks=2, n_blocks=2)
        tr = run_driver(S, options, smp, ctx.work)
        ddyn.append(tr)
        # branch path for ad_mode None: the innermost else of the if/elif chain
        dlines.append("flatten driver 000 n_prop_steps=50 n_ene_blocks=1 n_sr_blocks=2 sampler_eq.n_blocks=2 sampler.n_blocks=2")
        nprop += len(tr.resid)
        if tr.resid:
            worst = max(worst, max(tr.resid))
            bad = [i for i, r in enumerate(tr.resid) if not (r <= 1e-9)]
            if bad:
                spec_fail.append(("driver.afqmc", "stored overlap equals the recomputed overlap at every propagate entry",
                                  {"first_bad_propagate": bad[0], "residual": tr.resid[bad[0]]}))
    except Exception as ex:
        spec_fail.append(("driver.afqmc", "driver runs", {"error": repr(ex)[:400]}))

    model = None
    if proofs_ok or os.path.exists(os.path.join(common.LEAN, "AfqmcVerif", "Generated", "SamplerProg.lean")):
        try:
            model = common.lean_run("C08", lines + dlines)
        except Exception as ex:
            ctx.broken.append({"kind": "driver", "error": str(ex)[-1500:]})
    mism = []
    if model is not None:
        for k, tr in enumerate(dyn + ddyn):
            # init_prop_data (driver) recomputes overlaps / energies itself: drop the prefix before the first
            # sampler refresh by aligning on the model's trace (which starts at the first machine op)
            want = model[k].split() if k < len(model) else None
            got = list(tr.ops)
            if k >= len(dyn):
                # drop set-up calls of the driver before the first loop iteration (init_prop_data etc.)
                want = [w for w in want if not w.startswith("clobber")]
                n = len(want)
                got = got[len(got) - n:] if len(got) >= n else got
            if want != got:
                mism.append({"case": (lines + dlines)[k], "model": " ".join(want or [])[:400], "impl": " ".join(got)[:400]})
    # explicit-refresh replay on the implementation (jitted)
    rep = []
    for wt, tk, nelec in (("unrestricted", "uhf", (2, 1)), ("restricted", "rhf", (2, 2)), ("unrestricted", "uhf", (2, 2)), ("restricted", "uhf", (2, 1))):
        for g in grid[:3] if ctx.tier == "quick" else grid:
            S = systems.make_system(rng, tk, wt, norb=4, nelec=nelec, nchol=2, n_walkers=4, dt=0.02, seed=rng.randrange(1 << 30))
            params = dict(n_prop_steps=g[0], n_ene_blocks=g[1], n_sr_blocks=g[2])
            try:
                r = replay_compare(S, params, rng)
                rep.append(r)
                if not (r["d_walkers"] <= 1e-8 and r["d_weights"] <= 1e-8 and r["d_energy"] <= 1e-8):
                    spec_fail.append(("sampler.propagate_phaseless", "sampler blocks = step-by-step replay with explicit refreshes",
                                      {"walker_type": wt, "params": params, **r}))
            except Exception as ex:
                spec_fail.append(("sampler.propagate_phaseless", "replay runs", {"walker_type": wt, "params": params, "error": repr(ex)[:300]}))

    ctx.cov["evaluations"] = len(cfgs) + len(ddyn) + len(rep)
    ctx.cov["distinct_nontrivial"] = len({json.dumps([c[0], c[1], c[4]]) for c in cfgs if sum(c[4].values()) > 3}) + len(rep)
    ctx.cov["rule"] = ("every sampler entry point x {uhf trial + unrestricted walkers (2,1), rhf trial + restricted walkers (2,2), uhf trial + restricted walkers (2,1)} x a grid of "
                       "(n_prop_steps, n_ene_blocks, n_sr_blocks), each entered with a STALE cache (walker matrices changed since the cache was written, as after the driver's QR + global SR); executed eagerly with recording wrappers; dynamic op trace compared with "
                       "`flatten` of the generated program; coherence residual max|cached - recomputed|/|recomputed| measured at every propagate "
                       "entry; one complete driver.afqmc run (2 equilibration + 2 sampling iterations); jitted sampler vs explicit-refresh replay; "
                       "non-trivial = more than one block or step")
    ctx.cov["samples"] = lines[:2] + [" ".join(dyn[0].ops)[:300] if dyn else ""]
    ctx.cov["propagate_entries_checked"] = nprop
    ctx.cov["worst_coherence_residual"] = worst
    ctx.cov["correspondence"] = {"traces_compared": len(dyn) + len(ddyn), "mismatches": len(mism), "replays": len(rep)}
    ctx.assumptions += ["Python/JAX control-flow semantics of lax.scan, jit static arguments and checkpoint (translator models scan as iteration)",
                        "eager execution (jax.disable_jit) performs the same operation sequence as the jitted program",
                        "operations are modelled as arbitrary functions: the theorem holds for every implementation of them"]
    if t.issues:
        ctx.broken.append({"kind": "translator", "issues": t.issues})
    if mism:
        ctx.broken.append({"kind": "translator-vs-dynamic-trace", "first": mism[:3], "count": len(mism)})
    if ctx.broken and not spec_fail:
        found = search_multirank(ctx, rng)
        ctx.cov["failing_input_search"] = found
        if found.get("worst_residual") is not None:
            spec_fail.append(("driver.afqmc (multi-rank)", "stored overlap equals the recomputed overlap at every propagate entry", found))
    seen = set()
    for name, clause, det in spec_fail:
        if (name, clause) in seen:
            continue
        seen.add((name, clause))
        if common.known_match("C08", name, clause):
            ctx.known_finding(f"{name}: {clause}")
        else:
            ctx.violation({"entry": name, "clause": clause, "detail": det})


def replay(path):
    systems.setup_jax()
    r = json.load(open(path))
    d = r.get("detail")
    if d and "ranks" in d:
        import tempfile
        with tempfile.TemporaryDirectory() as td:
            res, _ = multirank_run(d["seed"], d["ranks"], td)
        bad = [x for x in res if not (x <= 1e-9)]
        print(f"{len(res)} propagate entries over {d['ranks']} ranks, {len(bad)} incoherent, worst residual {max(res) if res else 0}")
        return 1 if bad else 0
    if not d or "params" not in d:
        print(json.dumps(r, indent=1)[:3000])
        return 1
    rng = random.Random(0)
    wt = d.get("walker_type", "unrestricted")
    tk = "rhf" if wt == "restricted" else "uhf"
    S = systems.make_system(rng, tk, wt, norb=3, nelec=(2, 2) if tk == "rhf" else (2, 1), nchol=2, n_walkers=3, dt=0.05)
    name = r["entry"] if r["entry"] in ENTRY_ARGS else "propagate_phaseless"
    tr = dynamic_trace(name, S, d["params"])
    bad = [x for x in tr.resid if not (x <= 1e-9)]
    print("coherence residuals at propagate entries:", tr.resid)
    return 1 if bad else 0
