"""C10 — CPMC step samples the discrete Hubbard–Stratonovich propagator without bias.

Lean: rank-one / rank-two determinant ratios, Sherman–Morrison Green's-function update, the
Hubbard–Stratonovich identity on occupation numbers, site-wise unbiasedness (all dimensions).
Tie: (a) calc_overlap_ratio / update_greens_function vs from-scratch values for every ordered pair of
spin-orbitals and several update constants (uhf_cpmc and ghf_cpmc); (b) HS constants monitor;
(c) fast vs slow propagators (on-site and nearest-neighbour) on the same random numbers;
(d) exhaustive sum over the 2^n field configurations of one step (branch probabilities measured on the
implementation by bisection) vs exp(-dt K/2) prod_i exp(-dt U n_up n_dn) exp(-dt K/2) on the Fock space."""
import itertools
import json
import math
import random

import numpy as np

import common
import systems
import wf

LEVEL = "proof"


def from_scratch(trial, wd, up, dn):
    import jax.numpy as jnp
    g = np.array(trial.calc_full_green(jnp.array(up), jnp.array(dn), wd))
    ov = complex(trial.calc_overlap([jnp.array([up]), jnp.array([dn])], wd)[0])
    return g, ov


def pair_checks(rng, kind, norb, ne, spec_fail):
    """all ordered pairs (same spin i != j, opposite spin any i, j) x update constants"""
    import jax.numpy as jnp
    S = systems.make_hubbard(rng, systems.chain_adjacency(norb), 4.0, ne, kind, "cpmc", dt=0.05, n_walkers=2)
    trial, wd = S["trial"], S["wave_data"]
    up = np.array(S["prop_data"]["walkers"][0][0]).real + np.array([[rng.randint(-4, 4) / 32.0 for _ in range(ne[0])] for _ in range(norb)])
    dn = np.array(S["prop_data"]["walkers"][1][0]).real + np.array([[rng.randint(-4, 4) / 32.0 for _ in range(ne[1])] for _ in range(norb)])
    g0, ov0 = from_scratch(trial, wd, up, dn)
    n = 0
    for (si, i), (sj, j) in itertools.product([(s, p) for s in (0, 1) for p in range(norb)], repeat=2):
        if si == sj and i == j:
            continue
        c = np.array([rng.choice([0.3, -0.2, 0.75, 1.5]), rng.choice([0.3, -0.4, 0.5, -0.15])])
        w = [up.copy(), dn.copy()]
        w[si][i, :] *= (1 + c[0])
        w[sj][j, :] *= (1 + c[1])
        g1, ov1 = from_scratch(trial, wd, w[0], w[1])
        idx = jnp.array([[si, i], [sj, j]])
        ratio = complex(trial.calc_overlap_ratio(jnp.array(g0), idx, jnp.array(c)))
        n += 1
        if not wf.close(ratio, ov1 / ov0, 1e-9, 1e-12):
            spec_fail.append((kind, "incrementally computed overlap ratio equals the from-scratch ratio",
                              {"pair": [[si, i], [sj, j]], "constants": c.tolist(), "got": str(ratio), "want": str(ov1 / ov0)}))
            continue
        gu = np.array(trial.update_greens_function(jnp.array(g0), ratio, idx, jnp.array(c)))
        if np.abs(gu - g1).max() > 1e-9 * max(1.0, np.abs(g1).max()):
            spec_fail.append((kind, "incrementally updated Green's function equals the from-scratch one (" + ("same spin" if si == sj else "opposite spin") + ")",
                              {"pair": [[si, i], [sj, j]], "constants": c.tolist(), "max_error": float(np.abs(gu - g1).max())}))
    return n


def model_update_cases(rng, n_cases):
    """update_greens_function of both CPMC trials on ARBITRARY dyadic matrices (the Lean theorem holds for any
    matrix) -> protocol lines for the Lean model `greenCode` and the implementation's outputs"""
    import jax.numpy as jnp
    from fractions import Fraction
    from ad_afqmc import wavefunctions
    lines, refs = [], []
    for k in range(n_cases):
        kind = ("ghf_cpmc", "uhf_cpmc")[k % 2]
        norb = rng.choice([2, 3])
        m = 2 * norb
        G = np.array([[rng.randint(-16, 16) / 16.0 for _ in range(m)] for _ in range(m)])
        if kind == "uhf_cpmc":
            G[:norb, norb:] = 0.0
            G[norb:, :norb] = 0.0
        (si, i), (sj, j) = rng.sample([(s, p) for s in (0, 1) for p in range(norb)], 2)
        c = [rng.choice([0.25, -0.25, 0.75, 1.5, -0.5]), rng.choice([0.5, -0.375, 0.125, -0.75])]
        I, J = i + si * norb, j + sj * norb
        ratio = (1 + c[0] * G[I, I]) * (1 + c[1] * G[J, J]) - c[0] * c[1] * G[I, J] * G[J, I]
        if abs(ratio) < 0.05:
            continue
        idx = jnp.array([[si, i], [sj, j]])
        if kind == "ghf_cpmc":
            trial = wavefunctions.ghf_cpmc(norb, (1, 1))
            out = np.array(trial.update_greens_function(jnp.array(G), ratio, idx, jnp.array(c)))
        else:
            trial = wavefunctions.uhf_cpmc(norb, (1, 1))
            g2 = jnp.array([G[:norb, :norb], G[norb:, norb:]])
            o2 = np.array(trial.update_greens_function(g2, ratio, idx, jnp.array(c)))
            out = np.zeros((m, m))
            out[:norb, :norb], out[norb:, norb:] = o2[0], o2[1]
        fr = lambda x: (lambda q: str(q.numerator) if q.denominator == 1 else f"{q.numerator}/{q.denominator}")(Fraction(float(x)))
        lines.append(f"green {m} {I} {J} {fr(c[0])} {fr(c[1])} " + " ".join(fr(x) for x in G.ravel()))
        refs.append((kind, out, {"kind": kind, "norb": norb, "pair": [[si, i], [sj, j]], "constants": c, "G": G.tolist()}))
    return lines, refs


def fast_vs_slow(rng, kind, nn, spec_fail, nsteps=3):
    import jax.numpy as jnp
    from jax import random as jr
    # rings (as many bonds as sites) and open chains (fewer bonds than sites)
    adj = rng.choice([systems.chain_adjacency(4), systems.grid_adjacency(2, 2), systems.chain_adjacency(4, periodic=False),
                      systems.chain_adjacency(5, periodic=False)])
    u, u1 = rng.choice([2.0, 4.0, 8.0]), rng.choice([0.25, 0.5, 1.0])
    ne = rng.choice([(2, 2), (2, 1)])
    dt = rng.choice([0.01, 0.05])
    seed = rng.randrange(1 << 30)
    fast, slow = ("cpmc_nn", "cpmc_nn_slow") if nn else ("cpmc", "cpmc_slow")
    Sf = systems.make_hubbard(random.Random(seed), adj, u, ne, kind, fast, dt=dt, n_walkers=4, u1=u1, seed=seed)
    Ss = systems.make_hubbard(random.Random(seed), adj, u, ne, kind, slow, dt=dt, n_walkers=4, u1=u1, seed=seed)
    pf, ps = Sf["prop_data"], Ss["prop_data"]
    key = jr.PRNGKey(seed)
    for t in range(nsteps):
        key, sub = jr.split(key)
        f = jr.normal(sub, (4, adj.shape[0]))
        pf = Sf["prop"].propagate(Sf["trial"], Sf["ham_data"], pf, f, Sf["wave_data"])
        ps = Ss["prop"].propagate(Ss["trial"], Ss["ham_data"], ps, f, Ss["wave_data"])
        for name in ("weights", "overlaps"):
            a, b = np.array(pf[name]), np.array(ps[name])
            if np.abs(a - b).max() > 1e-8 * max(1.0, np.abs(b).max()):
                spec_fail.append((f"propagator_{fast} vs {slow} ({kind})", f"fast and slow propagators give the same {name}",
                                  {"u": u, "u_1": u1, "dt": dt, "nelec": ne, "step": t, "fast": a.tolist(), "slow": b.tolist(), "seed": seed}))
                return 1
        for s in (0, 1):
            if np.abs(np.array(pf["walkers"][s]) - np.array(ps["walkers"][s])).max() > 1e-8:
                spec_fail.append((f"propagator_{fast} vs {slow} ({kind})", "fast and slow propagators give the same walkers", {"step": t, "seed": seed}))
                return 1
    return 1


def gauss_for_uniform(u):
    """gaussian number g with (erf(g/sqrt2)+1)/2 = u"""
    from scipy.special import erfinv
    return float(math.sqrt(2.0) * erfinv(2.0 * u - 1.0))


def enumerate_step(rng, kind, spec_fail, uniform_density, chol_onsite=True):
    """sum over all 2^n configurations of one step of propagator_cpmc, single walker"""
    import jax.numpy as jnp
    import fock
    import trials
    adj = rng.choice([systems.chain_adjacency(3), systems.chain_adjacency(4), systems.grid_adjacency(2, 2)])
    n = adj.shape[0]
    u, dt = rng.choice([2.0, 4.0]), rng.choice([0.02, 0.05])
    ne = rng.choice([(1, 1), (2, 1), (2, 2)]) if n > 3 else rng.choice([(1, 1), (2, 1)])
    S = systems.make_hubbard(rng, adj, u, ne, kind, "cpmc", dt=dt, n_walkers=1, uniform_trial=uniform_density, chol_onsite=chol_onsite)
    prop, trial, hd, wd = S["prop"], S["trial"], S["ham_data"], S["wave_data"]
    pd0 = S["prop_data"]
    up0, dn0 = np.array(pd0["walkers"][0][0]).real, np.array(pd0["walkers"][1][0]).real
    ov0 = float(np.real(pd0["overlaps"][0]))
    shift = float(np.real(pd0["pop_control_ene_shift"]))
    sec = fock.Sector(2 * n, ne[0] + ne[1])

    def run(us):
        g = jnp.array([[gauss_for_uniform(min(max(x, 1e-12), 1 - 1e-12)) for x in us]])
        return prop.propagate(trial, hd, systems.copy_prop_data(pd0), g, wd)

    c_plus = float(np.array(pd0["hs_constant"])[0, 0])

    def branch(out, site):
        # which field was chosen at `site`: row `site` of the up walker was multiplied by hs[x][0]
        return None

    total = np.zeros(sec.dim, dtype=complex)
    psum = 0.0
    constraint_active = False
    for config in itertools.product([0, 1], repeat=n):
        # determine the uniform cell of this configuration by bisection, site by site
        us = [0.5] * n
        prob = 1.0
        ok = True
        for i in range(n):
            # prob_0 at site i given earlier choices (encoded by us[:i] placed inside their cells)
            lo, hi = 0.0, 1.0
            ref_lo = run(us[:i] + [1e-9] + [0.5] * (n - i - 1))
            ref_hi = run(us[:i] + [1 - 1e-9] + [0.5] * (n - i - 1))
            row_lo = np.array(ref_lo["walkers"][0][0])
            row_hi = np.array(ref_hi["walkers"][0][0])
            if np.allclose(row_lo, row_hi):
                p0 = 1.0 if True else 0.0   # both ends give the same branch: probability 0 or 1
                same = True
            else:
                same = False
                for _ in range(40):
                    mid = (lo + hi) / 2
                    o = run(us[:i] + [mid] + [0.5] * (n - i - 1))
                    if np.allclose(np.array(o["walkers"][0][0]), row_lo):
                        lo = mid
                    else:
                        hi = mid
                p0 = (lo + hi) / 2
            if same:
                # only one branch reachable: the other has zero probability (constraint active)
                constraint_active = True
                ok = False
                break
            if config[i] == 0:
                us[i] = p0 / 2
                prob *= p0
            else:
                us[i] = (1 + p0) / 2
                prob *= (1 - p0)
        if not ok:
            continue
        out = run(us)
        w = float(np.array(out["weights"])[0])
        ov = complex(np.array(out["overlaps"])[0])
        if w == 0.0:
            constraint_active = True
        phi = sec.slater(fock.walker_so(np.array(out["walkers"][0][0]), np.array(out["walkers"][1][0])))
        total += prob * w * phi / ov
        psum += prob
    if constraint_active or abs(psum - 1.0) > 1e-6:
        return 0, {"skipped": "constraint active"}
    # reference: exp(-dt K/2) prod_i exp(-dt U n_up n_dn) exp(-dt K/2) |phi_0> / ov0 * exp(dt shift)
    from scipy.linalg import expm
    K = -1.0 * adj
    E1 = expm(-dt * K / 2)
    v = sec.slater(fock.walker_so(E1 @ up0, E1 @ dn0))
    kappa = math.exp(-dt * u)
    for k, s in enumerate(sec.subsets):
        docc = sum(1 for p in range(n) if p in s and (n + p) in s)
        v[k] *= kappa ** docc
    v = trials.lift(sec, fock.spin_block(E1, E1), v)
    want = v / ov0 * math.exp(dt * shift)
    err = np.abs(total - want).max() / max(1e-300, np.abs(want).max())
    # the same with the one-body factor the implementation actually uses (to separate the two clauses)
    Ea, Eb = np.array(hd["exp_h1"][0]), np.array(hd["exp_h1"][1])
    v2 = sec.slater(fock.walker_so(Ea @ up0, Eb @ dn0))
    for k, s in enumerate(sec.subsets):
        docc = sum(1 for p in range(n) if p in s and (n + p) in s)
        v2[k] *= kappa ** docc
    v2 = trials.lift(sec, fock.spin_block(Ea, Eb), v2)
    want2 = v2 / ov0 * math.exp(dt * shift)
    err2 = np.abs(total - want2).max() / max(1e-300, np.abs(want2).max())
    det = {"lattice_sites": n, "nelec": ne, "u": u, "dt": dt, "trial": kind, "uniform_trial_density": uniform_density,
           "cholesky_vectors_in_ham_data": chol_onsite,
           "rel_error_vs_exp(-dt K/2)": float(err), "rel_error_vs_implementation_one_body_factor": float(err2)}
    if err2 > 1e-7:
        spec_fail.append((f"propagator_cpmc ({kind})", "sum over all 2^n field configurations reproduces the two-body propagator prod_i exp(-dt U n_up n_dn) (given the one-body factor used)", det))
    elif err > 1e-7 and chol_onsite:
        spec_fail.append((f"propagator_cpmc ({kind})", "one-body factor is exp(-dt K/2) with K the kinetic operator of the lattice Hamiltonian", det))
    elif err > 1e-7:
        spec_fail.append((f"propagator_cpmc ({kind})", "sum over all 2^n configurations reproduces exp(-dt K/2) prod_i exp(-dt U n_up n_dn) exp(-dt K/2) (no Cholesky vectors in ham_data)", det))
    return 1, det


def run(ctx):
    systems.setup_jax()
    rng = random.Random(ctx.seed)
    proofs_ok = ctx.build_and_audit(modules=["AfqmcVerif.Props.C10", "AfqmcVerif.Base.RatIO"])
    spec_fail = []
    evals = 0
    # (a)
    for kind in ("uhf_cpmc", "ghf_cpmc"):
        for norb, ne in ((3, (2, 1)), (4, (2, 2))) if ctx.tier == "quick" else ((3, (2, 1)), (4, (2, 2)), (4, (3, 1)), (3, (1, 1))):
            try:
                evals += pair_checks(rng, kind, norb, ne, spec_fail)
            except Exception as ex:
                spec_fail.append((kind, "pair update checks run", {"error": repr(ex)[:300]}))
    # (a') the update routine vs the Lean model of its formula, on arbitrary matrices
    mism = []
    try:
        from fractions import Fraction
        lines, refs = model_update_cases(rng, 24 if ctx.tier == "quick" else 120)
        model = common.lean_run("C10", lines) if lines else []
        for k, (kind, out, det) in enumerate(refs):
            got = model[k] if k < len(model) else None
            if got in (None, "bad-op", "singular"):
                mism.append({**det, "model": got})
                continue
            want = np.array([float(Fraction(x)) for x in got.split()]).reshape(out.shape)
            mask = np.ones_like(out, dtype=bool)
            if kind == "uhf_cpmc":      # the per-spin code stores the two diagonal blocks only
                nb = det["norb"]
                mask[:nb, nb:] = False
                mask[nb:, :nb] = False
            if np.abs(out - want)[mask].max() > 1e-10 * max(1.0, np.abs(want).max()):
                mism.append({**det, "max_diff": float(np.abs(out - want)[mask].max())})
        evals += len(refs)
        model_cases = len(refs)
    except Exception as ex:
        ctx.broken.append({"kind": "driver", "error": str(ex)[-1500:]})
        model_cases = 0
    if mism:
        ctx.broken.append({"kind": "correspondence", "what": "update_greens_function vs Lean greenCode", "first": mism[:2], "count": len(mism)})
    # (b) HS constants
    for u, dt in ((4.0, 0.05), (8.0, 0.01), (1.0, 0.5)):
        S = systems.make_hubbard(rng, systems.chain_adjacency(3), u, (1, 1), "uhf_cpmc", "cpmc", dt=dt, n_walkers=1)
        hs = np.array(S["prop_data"]["hs_constant"])
        evals += 1
        if abs(hs[0, 0] + hs[0, 1] - 2.0) > 1e-10 or abs(hs[0, 0] * hs[0, 1] - math.exp(-dt * u)) > 1e-10 or abs(hs[1, 0] - hs[0, 1]) > 1e-14:
            ctx.broken.append({"kind": "assumption-monitor", "what": "HS constants: c+ + c- = 2, c+ c- = exp(-dt U)", "hs": hs.tolist()})
    # (c)
    nfs = 2 if ctx.tier == "quick" else 8
    for kind in ("uhf_cpmc", "ghf_cpmc"):
        for nn in (False, True):
            for _ in range(nfs):
                try:
                    evals += fast_vs_slow(rng, kind, nn, spec_fail)
                except Exception as ex:
                    spec_fail.append((kind, "fast/slow comparison runs", {"nn": nn, "error": repr(ex)[:300]}))
    # (d)
    nen = 4 if ctx.tier == "quick" else 12
    enum_stats = []
    for kind in ("uhf_cpmc", "ghf_cpmc"):
        for k in range(nen):
            try:
                n, det = enumerate_step(rng, kind, spec_fail, uniform_density=(k % 2 == 0), chol_onsite=(k % 4 < 2))
                evals += n
                enum_stats.append(det)
            except Exception as ex:
                spec_fail.append((kind, "2^n enumeration runs", {"error": repr(ex)[:400]}))
    ctx.cov["evaluations"] = evals
    ctx.cov["distinct_nontrivial"] = evals
    ctx.cov["rule"] = ("(a) every ordered pair of spin-orbitals (same spin i != j, opposite spin any i, j) with random update constants for uhf_cpmc and "
                       "ghf_cpmc trials on 3-4 sites; (b) HS constants; (c) fast vs slow on-site and nearest-neighbour propagators for 3 steps on the same "
                       "random numbers; (d) all 2^n configurations of one propagator_cpmc step on 3-4 site chains / 2x2 grid, uniform and non-uniform "
                       "trial density, branch probabilities measured on the implementation by bisection of the uniform numbers")
    ctx.cov["samples"] = [json.dumps(enum_stats[:2])]
    ctx.cov["enumerations"] = enum_stats
    ctx.cov["correspondence"] = {"evaluations": evals, "lean_model_update_cases": model_cases, "mismatches": len(mism)}
    ctx.assumptions += ["jsp.linalg.expm, erf (uniform numbers from gaussians), arccosh/exp for the HS constants (monitored)",
                        "theorems are stated for one block of spin-orbitals (the generalised layout); the per-spin layout of uhf_cpmc is its block-diagonal case"]
    seen = set()
    for name, clause, det in spec_fail:
        if (name, clause) in seen:
            continue
        seen.add((name, clause))
        k = common.known_match("C10", name.split(" (")[0], clause)
        if k:
            ctx.known_finding(f"{name}: {clause} [{det.get('rel_error_vs_exp(-dt K/2)', '')}]")
        else:
            ctx.violation({"where": name, "clause": clause, "detail": det})


def replay(path):
    r = json.load(open(path))
    print(json.dumps(r, indent=1)[:3000])
    return 1
