"""C13 — orthonormalisation and initial walkers never change the represented state.

Lean: for any W = Q R (R invertible): overlap factorises with det R (= prod diag R for triangular R),
Green's function / force bias / energy unchanged (all dimensions).  Tie: T3 monitor of jnp.linalg.qr
on the actual call sites (Q R = W, Q^H Q = 1, R upper triangular), prop.orthonormalize_walkers and
qr_vmap(_uhf) on complex full-rank batches (orthonormality, span, overlap x norm, invariance of
energy / force bias for several trial kinds; overlap(Q) x norm vs the Lean model's exact overlap of W),
get_init_walkers for every trial kind (shape, count, orthonormality, overlap bounded away from zero or
an explicit error, variational energy for single-determinant trials)."""
import json
import random

import numpy as np

import common
import systems
import wf

LEVEL = "proof"


def run(ctx):
    systems.setup_jax()
    import jax.numpy as jnp
    import trials
    import fock
    from ad_afqmc import linalg_utils, propagation
    rng = random.Random(ctx.seed)
    proofs_ok = ctx.build_and_audit()
    spec_fail, lines, refs = [], [], []
    evals = 0
    dist = {}
    nbatch = 3
    # ---- QR on batches
    for kind, norb, ne in [("rhf", 4, (2, 2)), ("uhf", 4, (2, 1)), ("uhf", 3, (2, 2)), ("noci", 4, (2, 1)), ("ghf", 3, (2, 1)),
                           ("multislater", 4, (2, 1)), ("UCISD", 3, (2, 1)), ("cisd", 4, (2, 2))]:
        if not trials.supported(kind, norb, ne):
            continue
        trial, wd, desc = trials.make(kind, rng, norb, ne, **wf.make_opts(kind, rng))
        ham, plain = trials.make_ham(rng, norb, nchol=2)
        ham = trial._build_measurement_intermediates(dict(ham), wd)
        ronly = kind in trials.RESTRICTED_ONLY
        restricted = ronly or (kind == "rhf" and rng.random() < 0.5)
        dist[kind] = dist.get(kind, 0) + 1
        if restricted:
            W = jnp.array([wf.complex_walker(rng, norb, ne[0]) for _ in range(nbatch)])
            prop = propagation.propagator_restricted(n_walkers=nbatch)
            Q = prop.orthonormalize_walkers({"walkers": W})["walkers"]
            Q2, norms = linalg_utils.qr_vmap(W)
            blocks = [(np.array(W), np.array(Q))]
            nf = np.array(norms) ** 2      # both spin blocks share the factor
        else:
            W = [jnp.array([wf.complex_walker(rng, norb, ne[0]) for _ in range(nbatch)]),
                 jnp.array([wf.complex_walker(rng, norb, ne[1]) for _ in range(nbatch)])]
            prop = propagation.propagator_unrestricted(n_walkers=nbatch)
            Q = prop.orthonormalize_walkers({"walkers": [W[0], W[1]]})["walkers"]
            Q2, norms = linalg_utils.qr_vmap_uhf([W[0], W[1]])
            blocks = [(np.array(W[0]), np.array(Q[0])), (np.array(W[1]), np.array(Q[1]))]
            nf = np.array(norms[0]) * np.array(norms[1])
        evals += 1
        for Wb, Qb in blocks:
            for i in range(nbatch):
                q, w = Qb[i], Wb[i]
                if q.shape[1] == 0:
                    continue
                if np.abs(q.conj().T @ q - np.eye(q.shape[1])).max() > 1e-10:
                    spec_fail.append(("orthonormalize_walkers", "returned walkers have orthonormal columns", {"kind": kind, "error": float(np.abs(q.conj().T @ q - np.eye(q.shape[1])).max())}))
                if np.abs(q @ (q.conj().T @ w) - w).max() > 1e-9:
                    spec_fail.append(("orthonormalize_walkers", "returned walkers span the same space", {"kind": kind}))
        try:
            ov_w = np.array(trial.calc_overlap(W, wd))
            ov_q = np.array(trial.calc_overlap(Q, wd))
            for i in range(nbatch):
                if not wf.close(ov_w[i], ov_q[i] * nf[i], 1e-9):
                    spec_fail.append((kind, "overlap(original) = overlap(orthonormal) x norm factor", {"norb": norb, "nelec": ne, "original": str(ov_w[i]), "orthonormal_x_norm": str(ov_q[i] * nf[i])}))
                    break
            tol = 1e-9 if kind in ("rhf", "uhf", "ghf", "noci") else (5e-4 if kind in ("cisd", "ucisd") else 2e-5)
            e_w, e_q = np.array(trial.calc_energy(W, ham, wd)), np.array(trial.calc_energy(Q, ham, wd))
            f_w, f_q = np.array(trial.calc_force_bias(W, ham, wd)), np.array(trial.calc_force_bias(Q, ham, wd))
            if not all(wf.close(a, b, tol, tol) for a, b in zip(e_w, e_q)):
                spec_fail.append((kind, "local energy unchanged by re-orthonormalisation", {"norb": norb, "nelec": ne, "before": [str(x) for x in e_w], "after": [str(x) for x in e_q]}))
            if not all(wf.close(a, b, 1e-8, 1e-8) for a, b in zip(f_w.ravel(), f_q.ravel())):
                spec_fail.append((kind, "force bias unchanged by re-orthonormalisation", {"norb": norb, "nelec": ne}))
        except Exception as ex:
            spec_fail.append((kind, "measurements on orthonormalised walkers run", {"error": repr(ex)[:300]}))
        # Lean model: exact overlap of the *original* dyadic walker vs implementation overlap(Q) x norm
        if kind in ("rhf", "uhf"):
            for i in range(nbatch):
                if kind == "rhf":
                    C = np.array(wd["mo_coeff"])
                    if restricted:
                        lines.append(wf.sd_line_rhfr(plain, C, np.array(W)[i]))
                    else:
                        lines.append(wf.sd_line_uhf(plain, C, C, np.array(W[0])[i], np.array(W[1])[i]))
                else:
                    lines.append(wf.sd_line_uhf(plain, np.array(wd["mo_coeff"][0]), np.array(wd["mo_coeff"][1]), np.array(W[0])[i], np.array(W[1])[i]))
                refs.append((kind, complex(ov_q[i] * nf[i]), complex(e_q[i])))
    # ---- restricted container, open shell: the down determinant is the leading n_dn columns of the same matrix, so
    # re-orthonormalisation must keep the span of every leading block of columns (what a triangular factor does)
    for kind, norb, ne in [("uhf", 4, (2, 1)), ("uhf", 4, (3, 2)), ("multislater", 4, (3, 1)), ("UCISD", 3, (2, 1))]:
        if not trials.supported(kind, norb, ne):
            continue
        try:
            trial, wd, desc = trials.make(kind, rng, norb, ne, **wf.make_opts(kind, rng))
            ham, plain = trials.make_ham(rng, norb, nchol=2)
            ham = trial._build_measurement_intermediates(dict(ham), wd)
            W = jnp.array([wf.complex_walker(rng, norb, ne[0]) for _ in range(nbatch)])
            prop = propagation.propagator_restricted(n_walkers=nbatch)
            Q = prop.orthonormalize_walkers({"walkers": W})["walkers"]
            try:
                e_w, e_q = np.array(trial.calc_energy(W, ham, wd)), np.array(trial.calc_energy(Q, ham, wd))
                f_w, f_q = np.array(trial.calc_force_bias(W, ham, wd)), np.array(trial.calc_force_bias(Q, ham, wd))
            except NotImplementedError:
                continue
            evals += 1
            dist[kind + " (restricted open shell)"] = dist.get(kind + " (restricted open shell)", 0) + 1
            tol = 1e-9 if kind == "uhf" else 2e-5
            for i in range(nbatch):
                w, q = np.array(W)[i][:, :ne[1]], np.array(Q)[i][:, :ne[1]]
                if np.abs(q @ (q.conj().T @ w) - w).max() > 1e-9:
                    spec_fail.append(("orthonormalize_walkers (restricted container, open shell)", "the leading n_dn columns (the down determinant) span the same space after re-orthonormalisation",
                                      {"kind": kind, "norb": norb, "nelec": ne, "residual": float(np.abs(q @ (q.conj().T @ w) - w).max())}))
                    break
            if not all(wf.close(a, b, tol, tol) for a, b in zip(e_w, e_q)):
                spec_fail.append((kind + " (restricted container, open shell)", "local energy unchanged by re-orthonormalisation",
                                  {"norb": norb, "nelec": ne, "before": [str(x) for x in e_w], "after": [str(x) for x in e_q]}))
            if not all(wf.close(a, b, 1e-7, 1e-7) for a, b in zip(f_w.ravel(), f_q.ravel())):
                spec_fail.append((kind + " (restricted container, open shell)", "force bias unchanged by re-orthonormalisation", {"norb": norb, "nelec": ne}))
        except Exception as ex:
            spec_fail.append((kind, "restricted open-shell re-orthonormalisation runs", {"error": repr(ex)[:300]}))
    mism = []
    try:
        model = common.lean_run("SD", lines) if lines else []
        for k, (kind, ovq, eq) in enumerate(refs):
            d = wf.parse_line(model[k]) if k < len(model) else {}
            if "overlap" not in d or not wf.close(ovq, wf.parse_qi(d["overlap"]), 1e-9) or not wf.close(eq, wf.parse_qi(d["energy"]), 1e-8):
                mism.append({"kind": kind, "impl_overlapQ_x_norm": str(ovq), "model_overlap_W": d.get("overlap"), "impl_energy_Q": str(eq), "model_energy_W": d.get("energy")})
    except Exception as ex:
        ctx.broken.append({"kind": "driver", "error": str(ex)[-1500:]})
    # ---- T3: qr specification on the call-site routine
    qr_cases = 0
    for _ in range(6):
        n, k = rng.choice([(3, 2), (4, 2), (4, 3), (5, 1)])
        w = wf.complex_walker(rng, n, k)
        q, r = np.array(jnp.linalg.qr(jnp.array(w))[0]), np.array(jnp.linalg.qr(jnp.array(w))[1])
        qr_cases += 1
        if np.abs(q @ r - w).max() > 1e-10 or np.abs(q.conj().T @ q - np.eye(k)).max() > 1e-10 or np.abs(np.tril(r, -1)).max() > 1e-12:
            ctx.broken.append({"kind": "assumption-monitor", "what": "jnp.linalg.qr specification (Q R = W, Q^H Q = 1, R upper triangular)"})
            break
    # ---- initial walkers
    init_cases = 0
    extra = [(k, 4, (3, 2)) for k in ("uhf", "noci", "ghf", "multislater", "UCISD") if trials.supported(k, 4, (3, 2))]
    for kind, norb, ne in wf.cases(rng, list(trials.KINDS), ctx.tier) + extra:
        for restricted in (False, True):
            if ne[1] == 0 and restricted:
                continue
            try:
                trial, wd, desc = trials.make(kind, rng, norb, ne, **wf.make_opts(kind, rng))
                if kind in ("rhf", "uhf", "ghf"):
                    # orthonormal trial orbitals, so that the trial has a well-defined variational energy
                    import props.c01 as c01
                    trial, wd, desc = c01.rdm_trial(kind, rng, norb, ne)
                    desc = None
                sec, psi = trials.state(kind, trial, wd, desc)
                if "rdm1" not in wd:
                    try:
                        wd["rdm1"] = trial.get_rdm1(wd)
                    except NotImplementedError:
                        # the library needs an rdm1 for these kinds: use the reference determinant's
                        wd["rdm1"] = jnp.array([np.diag([1.0] * ne[0] + [0.0] * (norb - ne[0])), np.diag([1.0] * ne[1] + [0.0] * (norb - ne[1]))])
            except Exception as ex:
                spec_fail.append((kind, "trial can be constructed", {"error": repr(ex)[:300]}))
                continue
            n = 3
            init_cases += 1
            try:
                w0 = trial.get_init_walkers(wd, n, restricted=restricted)
            except ValueError as ex:
                continue   # explicit refusal is allowed by the property
            except Exception as ex:
                spec_fail.append((kind, "get_init_walkers returns or refuses with an explicit error", {"norb": norb, "nelec": ne, "restricted": restricted, "error": repr(ex)[:300]}))
                continue
            try:
                if restricted:
                    arr = np.array(w0)
                    shape_ok = arr.shape == (n, norb, ne[0])
                    blocks = [arr]
                    ups, dns = arr[:, :, :ne[0]], arr[:, :, :ne[1]]
                else:
                    shape_ok = isinstance(w0, (list, tuple)) and np.array(w0[0]).shape == (n, norb, ne[0]) and np.array(w0[1]).shape == (n, norb, ne[1])
                    blocks = [np.array(w0[0]), np.array(w0[1])]
                    ups, dns = blocks
                if not shape_ok:
                    spec_fail.append((kind, "initial walkers have the requested shape and count", {"norb": norb, "nelec": ne, "restricted": restricted}))
                    continue
                for b in blocks:
                    for i in range(n):
                        q = b[i]
                        if q.shape[1] and np.abs(q.conj().T @ q - np.eye(q.shape[1])).max() > 1e-9:
                            spec_fail.append((kind, "initial walkers are orthonormal", {"norb": norb, "nelec": ne, "restricted": restricted}))
                            break
                ov = trials.spec_overlap(sec, psi, ups[0], dns[0])
                rel = abs(ov) / max(1e-300, np.linalg.norm(psi))
                if rel < 1e-3:
                    spec_fail.append((kind, "initial walkers have a trial overlap bounded away from zero (or the generator refuses)",
                                      {"norb": norb, "nelec": ne, "restricted": restricted, "relative_overlap": float(rel)}))
                if kind in ("rhf", "uhf", "ghf") and (not restricted or ne[0] == ne[1]) and kind != "ghf":
                    ham, plain = trials.make_ham(rng, norb, nchol=2)
                    H = fock.hamiltonian(sec, plain["h0"], plain["h1"], plain["chol"])
                    evar = np.vdot(psi, H @ psi) / np.vdot(psi, psi)
                    hm = trial._build_measurement_intermediates(dict(ham), wd)
                    e = complex(np.array(trial.calc_energy(w0, hm, wd))[0])
                    if rel > 0.999 and not wf.close(e, evar, 1e-8, 1e-8):
                        spec_fail.append((kind, "initial walkers of a single-determinant trial reproduce its variational energy",
                                          {"norb": norb, "nelec": ne, "restricted": restricted, "got": str(e), "want": str(evar)}))
                    if (kind == "uhf" and not restricted) or (kind == "rhf"):
                        if rel < 0.999:
                            spec_fail.append((kind, "initial walkers of a single-determinant trial have |overlap| = 1",
                                              {"norb": norb, "nelec": ne, "restricted": restricted, "relative_overlap": float(rel)}))
            except Exception as ex:
                spec_fail.append((kind, "initial-walker checks run", {"norb": norb, "nelec": ne, "restricted": restricted, "error": repr(ex)[:300]}))

    # a determinant list with ONE determinant is a single-determinant trial: its own density matrix (no "rdm1" supplied) must give
    # initial walkers that ARE that determinant (|overlap| = 1, variational energy), open shells and non-aufbau references included
    for norb, ne, reference in ((4, (2, 1), "aufbau"), (4, (2, 1), "top"), (4, (3, 2), "aufbau"), (5, (3, 1), "top"), (4, (2, 2), "top")):
        if not trials.supported("multislater", norb, ne):
            continue
        try:
            trial, wd, desc = trials.make("multislater", rng, norb, ne, reference=reference, single=True)
            wd = {k: v for k, v in wd.items() if k != "rdm1"}
            sec, psi = trials.state("multislater", trial, wd, desc)
            init_cases += 1
            try:
                w0 = trial.get_init_walkers(wd, 2, restricted=False)
            except ValueError:
                continue
            up, dn = np.array(w0[0])[0], np.array(w0[1])[0]
            rel = abs(trials.spec_overlap(sec, psi, up, dn)) / max(1e-300, np.linalg.norm(psi))
            if not (rel > 0.999):
                spec_fail.append(("multislater (one determinant)", "initial walkers of a single-determinant trial have |overlap| = 1",
                                  {"norb": norb, "nelec": ne, "reference": reference, "determinant": [list(map(int, d)) for d in desc["dets"][0][:2]],
                                   "relative_overlap": float(rel)}))
                continue
            ham, plain = trials.make_ham(rng, norb, nchol=2)
            H = fock.hamiltonian(sec, plain["h0"], plain["h1"], plain["chol"])
            evar = np.vdot(psi, H @ psi) / np.vdot(psi, psi)
            hm = trial._build_measurement_intermediates(dict(ham), wd)
            e = complex(np.array(trial.calc_energy(w0, hm, wd))[0])
            if not wf.close(e, evar, 5e-6, 5e-6):
                spec_fail.append(("multislater (one determinant)", "initial walkers of a single-determinant trial reproduce its variational energy",
                                  {"norb": norb, "nelec": ne, "reference": reference, "got": str(e), "want": str(evar)}))
        except Exception as ex:
            spec_fail.append(("multislater (one determinant)", "initial-walker checks run", {"norb": norb, "nelec": ne, "reference": reference, "error": repr(ex)[:300]}))

    # spin-broken trial density matrices in a closed shell, restricted walkers: Neel-type product states (up and down orbitals
    # on disjoint or partly disjoint sites - exactly orthogonal pairs) and generic ones; the generator must return a walker with
    # overlap bounded away from zero or refuse
    from ad_afqmc import wavefunctions as _wfm
    for up_sites, dn_sites, norb in (((0, 2), (1, 3), 4), ((0, 1, 2), (0, 3, 4), 5), ((0, 1), (0, 2), 4), ((0, 1), (2, 3), 4)):
        try:
            k = len(up_sites)
            eye = np.eye(norb)
            ca, cb = eye[:, list(up_sites)], eye[:, list(dn_sites)]
            trial = _wfm.uhf(norb, (k, k))
            wd = {"mo_coeff": [jnp.array(ca), jnp.array(cb)], "rdm1": jnp.array([ca @ ca.T, cb @ cb.T])}
            init_cases += 1
            try:
                w0 = trial.get_init_walkers(wd, 2, restricted=True)
            except ValueError:
                continue            # explicit refusal
            W = np.array(w0)[0]
            ov = abs(np.linalg.det(ca.T @ W) * np.linalg.det(cb.T @ W))
            if not np.isfinite(ov) or ov < 1e-3:
                spec_fail.append(("uhf (spin-broken density matrix, restricted walkers)",
                                  "initial walkers have a trial overlap bounded away from zero (or the generator refuses)",
                                  {"norb": norb, "up_sites": list(up_sites), "dn_sites": list(dn_sites), "overlap": float(ov)}))
        except Exception as ex:
            spec_fail.append(("uhf (spin-broken density matrix, restricted walkers)", "initial-walker generation runs or refuses with ValueError",
                              {"up_sites": list(up_sites), "dn_sites": list(dn_sites), "error": repr(ex)[:300]}))

    # orthonormalisation inside free projection, over consecutive steps: the accumulated norm factors x the stored
    # orthonormal walker must stay the un-normalised state, and the stored overlaps its overlap (shared with C05)
    from props import c05
    fp_steps = 0
    for norb, ne in ((4, (2, 1)), (4, (2, 2))) if ctx.tier == "quick" else ((4, (2, 1)), (4, (2, 2)), (3, (2, 1)), (5, (3, 2))):
        fp_steps += c05.multistep(rng.randrange(1 << 30), norb, ne, 2, 0.02, 3 if ctx.tier == "quick" else 5, spec_fail)
    ctx.cov["correspondence_free_projection_steps"] = fp_steps
    ctx.cov["evaluations"] = evals + len(refs) + qr_cases + init_cases + fp_steps
    ctx.cov["distinct_nontrivial"] = len(dist) + init_cases
    ctx.cov["rule"] = ("complex full-column-rank batches for 8 trial kinds (restricted and unrestricted containers) through prop.orthonormalize_walkers and "
                       "qr_vmap(_uhf); implementation overlap(Q) x norm and energy(Q) vs the Lean model's exact overlap / energy of the original W (rhf, uhf); "
                       "qr specification monitored; get_init_walkers for all 12 classes x supported electron counts x {unrestricted, restricted}")
    ctx.cov["samples"] = [(lines[0][:300] if lines else "-"), json.dumps(dist)]
    ctx.cov["distribution"] = dist
    ctx.cov["correspondence"] = {"lean_model_cases": len(refs), "mismatches": len(mism), "qr_monitor_cases": qr_cases, "init_walker_cases": init_cases}
    ctx.assumptions += ["jnp.linalg.qr / eigh meet their specification (monitored on the actual return values)"]
    if mism:
        ctx.broken.append({"kind": "correspondence", "first": mism[:3], "count": len(mism)})
    seen = set()
    for name, clause, det in spec_fail:
        if (name, clause) in seen:
            continue
        seen.add((name, clause))
        if common.known_match("C13", name, clause):
            ctx.known_finding(f"{name}: {clause}")
        else:
            ctx.violation({"kind": name, "clause": clause, "detail": det})


def replay(path):
    r = json.load(open(path))
    print(json.dumps(r, indent=1)[:3000])
    return 1
