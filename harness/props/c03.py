"""C03 — force bias = <psi_T|L_g|phi>/<psi_T|phi>.

Lean: D1-based theorems for rhf/uhf (all dimensions; restricted = unrestricted on equal blocks; first
order coefficient of the overlap along 1 + x L).  Tie: (a) rhf/uhf force biases of the real code vs
the Lean model at Q(i); (b) every trial kind, both entry points, vs the Fock-space mixed expectation;
(c) forward-mode and finite-difference logarithmic derivative of the overlap along exp(x L_g) agree
with the reported (reverse-mode or hand-coded) value."""
import json
import random

import numpy as np

import common
import systems
import wf

LEVEL = "proof"
TOL = 1e-8


def run(ctx):
    systems.setup_jax()
    import jax
    import jax.numpy as jnp
    import jax.scipy as jsp
    import trials
    import fock
    rng = random.Random(ctx.seed)
    proofs_ok = ctx.build_and_audit()
    spec_fail, lines, refs = [], [], []
    skipped_singular = [0]
    pub = [0]
    dist = {}
    evals = 0
    nw = 2 if ctx.tier == "quick" else 5
    for kind in ("rhf", "uhf"):
        for norb, ne in ((3, (1, 1)), (3, (2, 2)), (4, (2, 2)), (4, (2, 1)), (3, (2, 0))):
            if not trials.supported(kind, norb, ne):
                continue
            trial, wd, desc = trials.make(kind, rng, norb, ne, complex_mo=True)
            ham, plain = trials.make_ham(rng, norb, nchol=3)
            ham = trial._build_measurement_intermediates(dict(ham), wd)
            if kind == "rhf":
                Ca = Cb = np.array(wd["mo_coeff"])
            else:
                Ca, Cb = np.array(wd["mo_coeff"][0]), np.array(wd["mo_coeff"][1])
            for _ in range(nw):
                Wa, Wb = wf.complex_walker(rng, norb, ne[0]), wf.complex_walker(rng, norb, ne[1])
                fb = np.array(trial._calc_force_bias(jnp.array(Wa), jnp.array(Wb), ham, wd))
                lines.append(wf.sd_line_uhf(plain, Ca, Cb, Wa, Wb))
                refs.append((kind + " unrestricted", fb, {"norb": norb, "nelec": ne}))
                if kind == "rhf":
                    fbr = np.array(trial._calc_force_bias_restricted(jnp.array(Wa), ham, wd))
                    lines.append(wf.sd_line_rhfr(plain, Ca, Wa))
                    refs.append((kind + " restricted", fbr, {"norb": norb, "nelec": ne}))
    # ghf: the same Lean model in the doubled (spin-orbital) space, second spin block empty
    # (the interpreted exact model costs ~k! per determinant: two electrons in the quick tier, three in the thorough one)
    for norb, ne in (((3, (1, 1)), (2, (1, 1))) if ctx.tier == "quick" else ((3, (1, 1)), (2, (1, 1)), (3, (2, 1)))):
        try:
            trial, wd, desc = trials.make("ghf", rng, norb, ne)
            hamg0, plaing = trials.make_ham(rng, norb, nchol=2, spin_dependent=True)
            hamg = trial._build_measurement_intermediates(dict(hamg0), wd)
            for _ in range(2):
                Wa, Wb = wf.complex_walker(rng, norb, ne[0]), wf.complex_walker(rng, norb, ne[1])
                val = np.array(trial._calc_force_bias(jnp.array(Wa), jnp.array(Wb), hamg, wd))
                lines.append(wf.ghf_as_doubled(plaing, np.array(wd["mo_coeff"]), Wa, Wb))
                refs.append(("ghf unrestricted", val, {"norb": norb, "nelec": ne}))
        except Exception as ex:
            spec_fail.append(("ghf", "ghf model case can be built", {"error": repr(ex)[:300]}))
    mism = []
    try:
        model = common.lean_run("SD", lines)
        for k, (name, fb, det) in enumerate(refs):
            d = wf.parse_line(model[k]) if k < len(model) else {}
            want = wf.parse_list(d["fb"]) if "fb" in d else None
            if want is None or len(want) != len(fb) or not all(wf.close(a, b, 1e-9) for a, b in zip(fb, want)):
                mism.append({"entry": name, "impl": [str(x) for x in fb], "model": d.get("fb"), **det})
                # the Lean model is PROVED equal to the mixed estimator: a disagreement on a concrete input is a concrete failing input
                spec_fail.append((name, "implementation equals the proved closed form of the mixed estimator on this input (theorem + exact evaluation at Q(i))",
                                  {**det, "impl": str(mism[-1].get("impl"))[:300], "model": str(mism[-1].get("model"))[:300], "protocol_line": lines[k][:4000]}))
    except Exception as ex:
        ctx.broken.append({"kind": "driver", "error": str(ex)[-1500:]})
    colrep_done = {}
    for kind, norb, ne in wf.cases(rng, list(trials.KINDS), ctx.tier):
        if ne[1] == 0 and not trials.SUPPORTED[kind]["n_dn_zero_energy"]:
            continue
        for reference in (("aufbau",) if kind != "multislater" else ("aufbau",)):
            try:
                trial, wd, desc = trials.make(kind, rng, norb, ne, **wf.make_opts(kind, rng))
                sec, psi = trials.state(kind, trial, wd, desc)
                ham, plain = trials.make_ham(rng, norb, nchol=3)
                ham = trial._build_measurement_intermediates(dict(ham), wd)
            except Exception as ex:
                spec_fail.append((kind, "trial and intermediates can be built", {"norb": norb, "nelec": ne, "error": repr(ex)[:300]}))
                continue
            dist[kind] = dist.get(kind, 0) + 1
            ronly = kind in trials.RESTRICTED_ONLY
            ref = wf.reference_state(kind, trial, wd, desc)
            if dist[kind] <= (2 if ctx.tier == "quick" else 99):
                f2, n2 = wf.public_rebuild_batch(kind, trial, wd, desc, sec, psi, rng, norb, ne, "force_bias", TOL, nchol=3)
                spec_fail.extend(f2)
                evals += n2
                pub[0] += n2
            for _ in range(nw):
                Wa = wf.complex_walker(rng, norb, ne[0])
                Wb = Wa if (ronly or (ne[0] == ne[1] and rng.random() < 0.4)) else wf.complex_walker(rng, norb, ne[1])
                if not wf.admissible(ref, sec, Wa, Wb):
                    skipped_singular[0] += 1
                    continue
                ov = trials.spec_overlap(sec, psi, Wa, Wb)
                if abs(ov) < 0.05 * max(1.0, float(np.abs(psi).max())):
                    continue
                want = trials.spec_force_bias(sec, psi, plain["chol"], Wa, Wb)
                evals += 1
                try:
                    got = trials.lib_force_bias(kind, trial, ham, wd, jnp.array(Wa), jnp.array(Wb))
                except Exception as ex:
                    spec_fail.append((kind, "force-bias entry point runs", {"norb": norb, "nelec": ne, "error": repr(ex)[:300]}))
                    break
                if len(got) != len(want) or not all(wf.close(a, b, TOL, TOL) for a, b in zip(got, want)):
                    spec_fail.append((kind + (" (restricted entry)" if ronly else " (unrestricted entry)"),
                                      "force bias equals <psi_T|L_g|phi>/<psi_T|phi>",
                                      {"norb": norb, "nelec": ne, "got": [str(x) for x in got], "want": [str(x) for x in want]}))
                    break
                if not ronly and ne[0] == ne[1] and np.array_equal(Wa, Wb) and kind != "multislater":
                    try:
                        r = np.asarray(trial._calc_force_bias_restricted(jnp.array(Wa), ham, wd))
                        if not all(wf.close(a, b, TOL, TOL) for a, b in zip(r, want)):
                            spec_fail.append((kind + " (restricted entry)", "restricted and unrestricted force biases agree on equal spin blocks",
                                              {"norb": norb, "nelec": ne, "restricted": [str(x) for x in r], "want": [str(x) for x in want]}))
                    except NotImplementedError:
                        pass
                    except Exception as ex:
                        spec_fail.append((kind + " (restricted entry)", "restricted force bias runs", {"norb": norb, "nelec": ne, "error": repr(ex)[:300]}))
                # (b') the theorem's right-hand side (auto_force_bias_is_mixed_expectation: column replacements) with the class's OWN overlap
                if not ronly and not colrep_done.get(kind, 0) >= 2:
                    colrep_done[kind] = colrep_done.get(kind, 0) + 1
                    try:
                        ovl = lambda a, b: trials.lib_overlap(kind, trial, wd, jnp.array(a), jnp.array(b))
                        _, fb_cr = wf.column_replacement_estimators(ovl, {"h0": 0.0, "h1": plain["h1"], "chol": plain["chol"]}, Wa, Wb)
                        if len(fb_cr) != len(got) or not all(wf.close(a, b, 1e-7, 1e-7) for a, b in zip(got, fb_cr)):
                            spec_fail.append((kind + " (unrestricted entry)", "force bias equals the column-replacement mixed expectation of the class's own overlap",
                                              {"norb": norb, "nelec": ne, "got": [str(x) for x in got], "want": [str(x) for x in fb_cr]}))
                    except Exception as ex:
                        spec_fail.append((kind, "column-replacement expectation can be evaluated", {"norb": norb, "nelec": ne, "error": repr(ex)[:300]}))
                # (c) logarithmic derivative of the library's own overlap along exp(x L_g): forward mode and finite differences
                if not ronly and ne[1] > 0 and rng.random() < 0.5:   # (jvp of a 0x0 determinant is not supported by JAX)
                    L = np.asarray(plain["chol"]).reshape(-1, norb, norb)
                    g = rng.randrange(L.shape[0])

                    def ov_x(x):
                        e = jsp.linalg.expm(x * jnp.array(L[g]))
                        return trial._calc_overlap(e @ jnp.array(Wa), e @ jnp.array(Wb), wd)
                    try:
                        val, fwd = jax.jvp(ov_x, (0.0 + 0.0j,), (1.0 + 0.0j,))
                        h = 1e-5
                        fd = (complex(ov_x(h)) - complex(ov_x(-h))) / (2 * h)
                        for nm, dv in (("forward-mode", complex(fwd)), ("finite-difference", fd)):
                            if not wf.close(dv / complex(val), got[g], 1e-6, 1e-7):
                                spec_fail.append((kind, f"{nm} logarithmic derivative of the overlap along exp(x L_g) equals the force bias",
                                                  {"norb": norb, "nelec": ne, "g": g, "derivative": str(dv / complex(val)), "force_bias": str(got[g])}))
                    except Exception as ex:
                        spec_fail.append((kind, "logarithmic-derivative cross-check runs", {"error": repr(ex)[:300]}))

    ctx.cov["evaluations"] = evals + len(refs)
    ctx.cov["distinct_nontrivial"] = sum(dist.values()) + len(refs)
    ctx.cov["rule"] = ("(a) rhf (both entry points) / uhf with complex trial orbitals, 3 Cholesky matrices vs the Lean model at Q(i) (1e-9, every component); "
                       "(b) all 12 classes x supported (norb, nelec) vs the Fock-space mixed expectation of every L_g on complex walkers (1e-8), restricted "
                       "entry on equal blocks; (c) forward-mode jvp and central finite difference of the library's overlap along expm(x L_g); (d) public build_measurement_intermediates on an "
                       "already prepared dictionary, then batched calc_force_bias with n_batch in {1,2,3} on 6 distinct walkers")
    ctx.cov["samples"] = [lines[0][:300], json.dumps(dist)]
    ctx.cov["distribution"] = dist
    ctx.cov["skipped"] = {"walkers_with_vanishing_reference_overlap": skipped_singular[0]}
    ctx.cov["correspondence"] = {"lean_model_cases": len(refs), "mismatches": len(mism), "spec_evaluations": evals, "public_rebuilt_batched_evaluations": pub[0],
                                 "column_replacement_expectation_cases": sum(colrep_done.values())}
    ctx.assumptions += ["jax.vjp / jax.jvp return derivatives of the traced function", "theorem layer covers rhf/uhf; other kinds validated against the Fock-space expectation"]
    if mism:
        ctx.broken.append({"kind": "correspondence", "first": mism[:3], "count": len(mism)})
    seen = set()
    for name, clause, det in spec_fail:
        if (name, clause) in seen:
            continue
        seen.add((name, clause))
        if common.known_match("C03", name, clause):
            ctx.known_finding(f"{name}: {clause}")
        else:
            ctx.violation({"kind": name, "clause": clause, "detail": det})


def replay(path):
    r = json.load(open(path))
    print(json.dumps(r, indent=1)[:3000])
    return 1
