"""C07 — stochastic reconfiguration comb: exact correspondence of index vectors (implementation vs
Lean model at K = Q), MPI variants through a thread-based fake communicator with a random
schedule replayed through the model's transition system, and the property itself evaluated on
the implementation with exact rational arithmetic (failing-input search)."""
import json
import math
import random
from fractions import Fraction

import numpy as np

import common
import fakempi

LEVEL = "proof"
TAG2 = 1000.0


def fr(x):
    return Fraction(float(x))


def rs(q):
    q = Fraction(q)
    return str(q.numerator) if q.denominator == 1 else f"{q.numerator}/{q.denominator}"


# ---------------------------------------------------------------- generators
def gen_weights(rng, n, kind):
    def dy(lo=-6, hi=6, bits=6):
        return rng.randint(1, 2 ** bits) * 2.0 ** rng.randint(lo, hi)
    if kind == "ones":
        return [1.0] * n
    if kind == "positive":
        return [dy(-3, 3) for _ in range(n)]
    if kind == "zeros":
        w = [dy(-3, 3) if rng.random() < 0.6 else 0.0 for _ in range(n)]
    elif kind == "negative":
        w = [dy(-3, 3) * rng.choice([1, -1]) for _ in range(n)]
    elif kind == "wild":
        w = [dy(-40, 40, 3) * rng.choice([1, 1, -1]) if rng.random() < 0.9 else 0.0 for _ in range(n)]
    elif kind == "single":
        w = [0.0] * n
        w[rng.randrange(n)] = dy()
    elif kind == "tiny":
        # the whole population at a tiny (or huge) overall scale: the comb depends on ratios only
        sc = 2.0 ** rng.choice([-34, -40, -47, -60, 45])
        w = [sc * (dy(-3, 3) if rng.random() < 0.7 else 0.0) * rng.choice([1, 1, 1, -1]) for _ in range(n)]
    elif kind == "nearly_equal":
        # weights equal up to a relative 2^-20 .. 2^-30 (a well-equilibrated population), optionally at a tiny scale
        sc = 2.0 ** rng.choice([0, 0, -36])
        e = 2.0 ** -rng.choice([20, 24, 30])
        w = [sc * (1.0 + rng.randint(-8, 8) * e) for _ in range(n)]
    else:
        raise ValueError(kind)
    if all(x == 0 for x in w):
        w[rng.randrange(n)] = 1.0 if kind != "tiny" else 2.0 ** -40
    return w


def gen_zeta(rng):
    b = rng.choice([1, 2, 3, 5, 8, 12, 20])
    return rng.randint(1, 2 ** b - 1) / 2.0 ** b


KINDS = ["ones", "positive", "zeros", "negative", "wild", "single", "tiny", "nearly_equal"]


# ---------------------------------------------------------------- implementation side
def tagged(n):
    """walker k has every entry equal to k + (2k+1)i: complex, as phaseless walkers are, so that a routine which
    returns anything but an exact copy of an existing walker (e.g. drops the imaginary part) is seen"""
    import jax.numpy as jnp
    k = jnp.arange(n, dtype=jnp.float64).reshape(n, 1, 1)
    return (k + 1j * (2 * k + 1)) * jnp.ones((n, 2, 1))


def tags(a):
    a = np.array(a)
    t = a[:, 0, 0]
    if not (a == t.reshape(-1, 1, 1)).all():
        return None
    out = []
    for x in t:
        x = complex(x)
        idx = x.real % TAG2
        if idx != round(idx) or x.imag != 2 * idx + 1:
            return None      # not a copy of an existing walker
        out.append(int(round(x.real)))
    return out


def impl_variants(w, zeta, rng, mpi_ranks):
    """returns dict variant -> (idx list or error string, new weights list)"""
    import jax.numpy as jnp
    from ad_afqmc import sr, config
    n = len(w)
    out = {}
    wj = jnp.array(w, dtype=jnp.float64)

    def guard(name, f):
        try:
            out[name] = f()
        except Exception as e:  # error kinds are compared too
            out[name] = ("error:" + type(e).__name__ + ":" + str(e)[:80], None)

    def jit_r():
        wk, wt = sr.stochastic_reconfiguration(tagged(n), wj, zeta)
        return tags(wk), [float(x) for x in wt]

    def jit_u():
        (up, dn), wt = sr.stochastic_reconfiguration_uhf([tagged(n), tagged(n) + TAG2], wj, zeta)
        tu, td = tags(up), tags(dn)
        if tu is None or td is None or [x + int(TAG2) for x in tu] != td:
            return ("unpaired", tu, td), [float(x) for x in wt]
        return tu, [float(x) for x in wt]

    def np_r():
        wk, wt = sr.stochastic_reconfiguration_np(tagged(n), wj, zeta)
        return tags(wk), [float(x) for x in wt]

    def mpi1_r():
        wk, wt = sr.stochastic_reconfiguration_mpi(tagged(n), wj, zeta, config.not_a_comm())
        return tags(wk), [float(x) for x in wt]

    def mpi1_u():
        (up, dn), wt = sr.stochastic_reconfiguration_mpi_uhf([tagged(n), tagged(n) + TAG2], wj, zeta, config.not_a_comm())
        tu, td = tags(up), tags(dn)
        if tu is None or td is None or [x + int(TAG2) for x in tu] != td:
            return ("unpaired", tu, td), [float(x) for x in wt]
        return tu, [float(x) for x in wt]

    guard("jit", jit_r)
    guard("jit_uhf", jit_u)
    guard("numpy", np_r)
    guard("mpi1", mpi1_r)
    guard("mpi1_uhf", mpi1_u)
    sched = {}
    for R in mpi_ranks:
        if n % R != 0 or R == 1:
            continue
        loc = n // R
        allw = tagged(n)

        def fn_r(comm, r):
            wk, wt = sr.stochastic_reconfiguration_mpi(allw[r * loc:(r + 1) * loc], wj[r * loc:(r + 1) * loc], zeta, comm)
            return tags(wk), [float(x) for x in wt]

        def fn_u(comm, r):
            (up, dn), wt = sr.stochastic_reconfiguration_mpi_uhf(
                [allw[r * loc:(r + 1) * loc], allw[r * loc:(r + 1) * loc] + TAG2], wj[r * loc:(r + 1) * loc], zeta, comm)
            tu, td = tags(up), tags(dn)
            if tu is None or td is None or [x + int(TAG2) for x in tu] != td:
                return ("unpaired", tu, td), [float(x) for x in wt]
            return tu, [float(x) for x in wt]

        for name, fn in ((f"mpi{R}", fn_r), (f"mpi{R}_uhf", fn_u)):
            try:
                res, arrivals = fakempi.run_ranks(R, fn, seed=rng.randrange(1 << 30))
                idx = []
                wts = []
                for (t, ww) in res:
                    idx += list(t) if isinstance(t, list) else [t]
                    wts += ww
                out[name] = (idx, wts)
                sched[name] = arrivals
            except Exception as e:
                out[name] = ("error:" + type(e).__name__ + ":" + str(e)[:80], None)
    return out, sched


def prop_variants(w, rng):
    """prop.stochastic_reconfiguration_local/global: zeta comes from prop_data['key']"""
    import jax.numpy as jnp
    from jax import random as jr
    from ad_afqmc import propagation, config
    n = len(w)
    res = {}
    seed_ = rng.randrange(1 << 30)
    key = jr.PRNGKey(seed_)
    _, sub = jr.split(key)
    zeta = float(jr.uniform(sub))
    for name, cls, uhf in (("prop_restricted", propagation.propagator_restricted, False),
                           ("prop_unrestricted", propagation.propagator_unrestricted, True)):
        prop = cls(n_walkers=n)
        for where in ("local", "global"):
            pd = {"key": key, "weights": jnp.array(w, dtype=jnp.float64),
                  "walkers": [tagged(n), tagged(n) + TAG2] if uhf else tagged(n)}
            try:
                if where == "local":
                    pd = prop.stochastic_reconfiguration_local(pd)
                else:
                    pd = prop.stochastic_reconfiguration_global(pd, config.not_a_comm())
                if uhf:
                    tu, td = tags(pd["walkers"][0]), tags(pd["walkers"][1])
                    t = tu if (tu is not None and td is not None and [x + int(TAG2) for x in tu] == td) else ("unpaired", tu, td)
                else:
                    t = tags(pd["walkers"])
                res[f"{name}_{where}"] = (t, [float(x) for x in pd["weights"]])
            except Exception as e:
                res[f"{name}_{where}"] = ("error:" + type(e).__name__ + ":" + str(e)[:80], None)
        # the propagator's global routine over several (fake) ranks, one propagator object per rank with the LOCAL population size
        # (down to one walker per rank): the ranks together must perform the serial comb on the rank-ordered population
        for R in (2, 3):
            if n % R != 0:
                continue
            loc = n // R
            allw = tagged(n)

            def fn(comm, r, cls=cls, uhf=uhf, loc=loc):
                pr = cls(n_walkers=loc)
                wk = allw[r * loc:(r + 1) * loc]
                pd = {"key": key, "weights": jnp.array(w[r * loc:(r + 1) * loc], dtype=jnp.float64),
                      "walkers": [wk, wk + TAG2] if uhf else wk}
                pd = pr.stochastic_reconfiguration_global(pd, comm)
                if uhf:
                    tu, td = tags(pd["walkers"][0]), tags(pd["walkers"][1])
                    t = tu if (tu is not None and td is not None and [x + int(TAG2) for x in tu] == td) else ("unpaired", tu, td)
                else:
                    t = tags(pd["walkers"])
                return t, [float(x) for x in pd["weights"]]
            try:
                out, _ = fakempi.run_ranks(R, fn, seed=rng.randrange(1 << 30))
                idx, wts, bad = [], [], None
                for (t, ww) in out:
                    if isinstance(t, tuple):
                        bad = t
                    idx += list(t) if isinstance(t, list) else [t]
                    wts += ww
                res[f"{name}_global_mpi{R}"] = (bad if bad is not None else idx, wts)
            except Exception as e:
                res[f"{name}_global_mpi{R}"] = ("error:" + type(e).__name__ + ":" + str(e)[:80], None)
    return zeta, res


# ---------------------------------------------------------------- exact spec on the implementation
def spec_check(w, zeta, idx, wnew, margin_ok):
    """the property's clauses evaluated exactly (Fractions) on one implementation output"""
    bad = []
    n = len(w)
    if not isinstance(idx, list) or len(idx) != n or any((not isinstance(k, int)) or k < 0 or k >= n for k in idx):
        return [("population replaced by copies of existing walkers only", {"idx": str(idx)[:200]})]
    aw = [abs(fr(x)) for x in w]
    W = sum(aw)
    if wnew is None or len(wnew) != n:
        return [("every survivor gets a weight", {})]
    if any(x != wnew[0] for x in wnew):
        bad.append(("every survivor gets the same weight", {"weights": wnew[:8]}))
    tot = sum(fr(x) for x in wnew)
    if abs(tot - W) > Fraction(1, 10 ** 10) * W:
        bad.append(("total absolute weight conserved", {"got": float(tot), "want": float(W)}))
    counts = [idx.count(k) for k in range(n)]
    for k in range(n):
        if aw[k] == 0 and counts[k] != 0:
            bad.append(("zero-weight walkers are never selected", {"k": k, "count": counts[k]}))
            break
    if margin_ok:
        for k in range(n):
            x = n * aw[k] / W
            if counts[k] not in (math.floor(x), math.ceil(x)):
                bad.append(("walker i selected floor or ceil of N|w_i|/W times", {"k": k, "count": counts[k], "x": float(x)}))
                break
    if idx != sorted(idx):
        bad.append(("comb copies walkers in order", {"idx": idx[:20]}))
    return bad


def expectation_check(w, rng):
    """integrate the implementation's copy counts exactly over the offset: breakpoints of every
    count are the fractional parts of N c_k / W; evaluate at the midpoint of every interval"""
    import jax.numpy as jnp
    from ad_afqmc import sr
    n = len(w)
    aw = [abs(fr(x)) for x in w]
    W = sum(aw)
    c, cum = [], Fraction(0)
    for x in aw:
        cum += x
        c.append(cum)
    bps = sorted({(n * ck / W) % 1 for ck in c} | {Fraction(0), Fraction(1)})
    acc = [Fraction(0)] * n
    wj = jnp.array(w, dtype=jnp.float64)
    for a, b in zip(bps[:-1], bps[1:]):
        if b - a < Fraction(1, 10 ** 7):
            continue  # interval below float resolution of the tooth positions: negligible measure
        mid = float((a + b) / 2)
        wk, _ = sr.stochastic_reconfiguration(tagged(n), wj, mid)
        t = tags(wk)
        for k in range(n):
            acc[k] += (b - a) * t.count(k)
    for k in range(n):
        x = n * aw[k] / W
        if abs(acc[k] - x) > Fraction(1, 10 ** 5):
            return [("selected exactly N|w_i|/W times on average over the offset", {"k": k, "mean": float(acc[k]), "want": float(x)})]
    return []


# ---------------------------------------------------------------- run
def schedule_tokens(arrivals, R):
    """turn the fake communicator's observed arrival order into a model event list"""
    ev = []
    sent = [r for (what, r) in arrivals if what == "gather"]
    seen = []
    for r in sent:
        if r not in seen:
            seen.append(r)
    ev += [f"s{r}" for r in seen[:R]]
    ev.append("c")
    deliv = [r for (what, r) in arrivals if what == "scatter"]
    seen = []
    for r in deliv[-R * 10:]:
        if r not in seen:
            seen.append(r)
    for r in range(R):
        if r not in seen:
            seen.append(r)
    ev += [f"d{r}" for r in seen[:R]]
    return ev


def run(ctx):
    import jax
    jax.config.update("jax_enable_x64", True)
    rng = random.Random(ctx.seed)
    proofs_ok = ctx.build_and_audit()
    ncase = 60 if ctx.tier == "quick" else 400
    nmax = 16 if ctx.tier == "quick" else 48
    cases = []
    corpus = [([1.0, -2.0, 0.0, 5.0], 1 / 3), ([0.0, 0.0, 2.0 ** -30, 2.0 ** 30], 0.5), ([1.0], 0.25),
              ([-1.0, -1.0, -1.0, 3.0, 0.0, 0.0], 0.75)]
    for w, z in corpus:
        cases.append((w, z, "corpus"))
    for i in range(ncase):
        kind = KINDS[i % len(KINDS)]
        n = rng.choice([1, 2, 3, 4, 6, 8, 12]) if rng.random() < 0.7 else rng.randint(1, nmax)
        cases.append((gen_weights(rng, n, kind), gen_zeta(rng), kind))
    lines, impl, scheds = [], [], []
    for w, z, kind in cases:
        lines.append("comb " + rs(fr(z)) + " " + " ".join(rs(fr(x)) for x in w))
        o, s = impl_variants(w, z, rng, (2, 3, 4))
        impl.append(o)
        scheds.append(s)
    # prop-level entry points (zeta drawn from the key)
    pcases = []
    for i in range(6 if ctx.tier == "quick" else 40):
        n = (2, 3, 4, 6, 8, 5)[i % 6]
        w = gen_weights(rng, n, KINDS[(i * 5 + 1) % len(KINDS)])
        zeta, res = prop_variants(w, rng)
        pcases.append((w, zeta, res))
        lines.append("comb " + rs(fr(zeta)) + " " + " ".join(rs(fr(x)) for x in w))
    # MPI schedules through the model's transition system
    mpi_lines, mpi_ref = [], []
    for (w, z, kind), o, s in zip(cases, impl, scheds):
        for name, arr in s.items():
            R = int(name[3])
            ev = schedule_tokens(arr, R)
            mpi_lines.append(f"mpi {R} {len(w) // R} {rs(fr(z))} " + " ".join(rs(fr(x)) for x in w) + " " + " ".join(ev))
            mpi_ref.append((w, z, name, o[name], ev))
    try:
        model = common.lean_run("C07", lines + mpi_lines)
    except Exception as e:
        model = None
        ctx.broken.append({"kind": "driver", "error": str(e)[-1500:]})

    def parse(line):
        d = {}
        for tok in line.split(" "):
            if "=" in tok:
                k, v = tok.split("=", 1)
                d[k] = v
        return d

    mism, spec_fail, skipped = [], [], 0
    dist = {}
    nontrivial = set()
    compared = 0
    allcases = [(w, z, kind, o) for (w, z, kind), o in zip(cases, impl)] + [(w, z, "prop", res) for (w, z, res) in pcases]
    for k, (w, z, kind, o) in enumerate(allcases):
        dist[kind] = dist.get(kind, 0) + 1
        W = sum(abs(fr(x)) for x in w)
        m = parse(model[k]) if model is not None and k < len(model) else None
        margin_ok = True
        if m is not None and "margin" in m:
            margin_ok = Fraction(m["margin"]) > Fraction(1, 10 ** 9) * W
        if not margin_ok:
            skipped += 1
        if len(set(w)) > 1 and len(w) > 1:
            nontrivial.add(json.dumps([w, z]))
        ref_idx = json.loads(m["idx"]) if m is not None and "idx" in m else None
        for name, (idx, wnew) in o.items():
            if isinstance(idx, str) and idx.startswith("error"):
                spec_fail.append((name, "population control runs without error", {"w": w, "zeta": z, "error": idx}))
                continue
            if isinstance(idx, tuple) and idx and idx[0] == "unpaired":
                spec_fail.append((name, "up and down blocks of a walker are copied together", {"w": w, "zeta": z, "up": str(idx[1])[:100], "dn": str(idx[2])[:100]}))
                continue
            for clause, det in spec_check(w, z, idx, wnew, margin_ok):
                det.update({"w": w, "zeta": z})
                spec_fail.append((name, clause, det))
            if margin_ok and ref_idx is not None:
                compared += 1
                wn_ok = wnew is not None and all(abs(fr(x) - Fraction(m["wnew"])) <= Fraction(1, 10 ** 12) * W for x in wnew)
                if idx != ref_idx or not wn_ok:
                    mism.append({"variant": name, "w": w, "zeta": z, "impl_idx": idx, "model_idx": ref_idx,
                                 "impl_w": (wnew or [None])[0], "model_w": m["wnew"]})
                    # the Lean comb is the serial comb of the property (its clauses are theorems): a different index vector at a
                    # concrete (weights, offset) is a concrete failing input
                    spec_fail.append((name, "performs exactly the serial comb at its offset (all implementations agree)",
                                      {"w": w, "zeta": z, "selected": idx, "serial_comb": ref_idx, "weight": (wnew or [None])[0], "serial_weight": m["wnew"]}))
    # MPI: model run with the observed schedule
    if model is not None:
        for j, (w, z, name, (idx, wnew), ev) in enumerate(mpi_ref):
            line = model[len(lines) + j] if len(lines) + j < len(model) else ""
            W = sum(abs(fr(x)) for x in w)
            m = parse(line)
            if "margin" in m and Fraction(m["margin"]) <= Fraction(1, 10 ** 9) * W:
                continue
            want = []
            ranks = line.split(" ")[0][len("ranks=["):-1] if line.startswith("ranks=") else ""
            for part in ranks.split("],["):
                part = part.strip("[]")
                if ":" in part:
                    ix = part.split(":")[0].strip("[]")
                    want += [int(x) for x in ix.split(",") if x != ""]
            compared += 1
            if isinstance(idx, list) and idx != want:
                mism.append({"variant": name + " (model transition system, observed schedule)", "w": w, "zeta": z,
                             "impl_idx": idx, "model_idx": want, "schedule": ev})
    # expectation over the offset, integrated exactly over its breakpoints (implementation)
    nexp = 6 if ctx.tier == "quick" else 40
    for i in range(nexp):
        n = rng.choice([2, 3, 4, 5, 7])
        w = gen_weights(rng, n, KINDS[i % len(KINDS)])
        for clause, det in expectation_check(w, rng):
            det.update({"w": w})
            spec_fail.append(("jit", clause, det))

    ctx.cov["evaluations"] = sum(len(o) for (_, _, _, o) in allcases) + len(mpi_ref) + nexp
    ctx.cov["distinct_nontrivial"] = len(nontrivial)
    ctx.cov["rule"] = ("weight vectors of 6 kinds (ones, positive, with zeros, with negative signs, magnitudes 2^-40..2^40, single non-zero), "
                       "N in 1..16 (48 thorough), dyadic offsets in (0,1); every variant (jitted, jitted UHF, NumPy, MPI with not_a_comm, "
                       "MPI over 2-4 fake ranks with random arrival order, prop.stochastic_reconfiguration_local/global) on index-tagged walkers; "
                       "index vectors compared exactly with the Lean model at K=Q; cases whose tooth is within 1e-9*W of a cumulative weight are "
                       "skipped (counted); non-trivial = N>1 and not all weights equal")
    ctx.cov["samples"] = lines[:2] + mpi_lines[:1] + [json.dumps({k: str(v[0])[:60] for k, v in impl[0].items()})]
    ctx.cov["distribution"] = dist
    ctx.cov["skipped"] = {"near_tie_cases": skipped}
    ctx.cov["correspondence"] = {"compared_outputs": compared, "mismatches": len(mism), "mpi_schedules": len(mpi_ref),
                                 "expectation_integrals": nexp}
    ctx.assumptions += ["real MPI semantics (no libmpi here): collectives modelled as gather-by-rank-slot / scatter-by-slice; "
                        "driven through harness/fakempi.py threads with randomised arrival order",
                        "jax.random.uniform returns a value in [0,1); zeta = 0 exactly is outside the property's open interval",
                        "float cumsum/searchsorted agree with exact arithmetic away from ties (margin rule)"]
    if mism:
        ctx.broken.append({"kind": "correspondence", "first": mism[:3], "count": len(mism)})
    seen = set()
    for name, clause, det in spec_fail:
        key = (name, clause)
        if key in seen:
            continue
        seen.add(key)
        if common.known_match("C07", name, clause):
            ctx.known_finding(f"{name}: {clause}")
        else:
            ctx.violation({"variant": name, "clause": clause, "detail": det})
    # a correspondence mismatch whose implementation output also breaks the comb definition
    # has been reported above; otherwise finish() reports no-failing-input-found


def replay(path):
    import jax
    jax.config.update("jax_enable_x64", True)
    r = json.load(open(path))
    if "detail" not in r:
        print("no concrete input in this replay:", json.dumps(r, indent=1)[:3000])
        return 1
    w, z = r["detail"]["w"], r["detail"].get("zeta", 0.5)
    rng = random.Random(0)
    if "average" in r["clause"]:
        f = expectation_check(w, rng)
        print("FAILS:" if f else "holds now:", f)
        return 1 if f else 0
    o, _ = impl_variants(w, z, rng, (2, 3, 4))
    fails = []
    for name, (idx, wnew) in o.items():
        if isinstance(idx, list):
            fails += [(name, c) for c, _ in spec_check(w, z, idx, wnew, True)]
        else:
            fails.append((name, str(idx)[:200]))
    print("w =", w, "zeta =", z)
    for f in fails:
        print("FAILS:", f)
    if not fails:
        print("property holds on this input now")
    return 1 if fails else 0
