"""C11 — determinant-list trials mean what they say; an exact trial gives zero variance.

Lean: byte-format round trip (all sizes), `parity` = sign of the permutation sorting the in-place
replaced reference string (every size, every reference), eigenvector => constant local energy => constant
block energy.  Tie: parity / hole-particle extraction and read_dets vs the Lean model (exact);
multislater overlap / force bias / energy vs the explicit sum_i c_i |D_i> for random order, reference
and cut-off; exact eigenvectors (own diagonalisation and pyscf FCI) => local energies and sampler block
energies equal the eigenvalue."""
import json
import os
import random
import struct

import numpy as np

import common
import systems
import wf

LEVEL = "proof"


def bitstr(v):
    return "".join("1" if x else "0" for x in v)


def write_dets(path, norb, dets, ndets_header=None):
    with open(path, "wb") as f:
        f.write(struct.pack("i", len(dets) if ndets_header is None else ndets_header))
        f.write(struct.pack("i", norb))
        for c, chars in dets:
            f.write(struct.pack("d", c))
            f.write(chars.encode("latin1"))


def exact_trial(rng, norb, ne, trials, fock, via_pyscf=False):
    """exact ground state of a random Hamiltonian as a determinant list"""
    import jax.numpy as jnp
    from ad_afqmc import pyscf_interface, wavefunctions
    ham, plain = trials.make_ham(rng, norb, nchol=2)
    sec = trials.sector_for(norb, ne)
    H = fock.hamiltonian(sec, plain["h0"], plain["h1"], plain["chol"])
    H = (H + H.conj().T) / 2
    # ground state inside the (n_alpha, n_beta) block (H conserves both)
    idx = [i for i, s in enumerate(sec.subsets) if sum(1 for p in s if p < norb) == ne[0]]
    w, v = np.linalg.eigh(H.real[np.ix_(idx, idx)])
    E = w[0]
    psi = np.zeros(sec.dim)
    psi[idx] = v[:, 0]
    state = {}
    if via_pyscf:
        from pyscf import fci
        L = np.asarray(plain["chol"]).reshape(-1, norb, norb)
        eri = np.einsum("gpq,grs->pqrs", L, L)
        cis = fci.direct_spin1.FCI()
        e, ci = cis.kernel(plain["h1"][0], eri, norb, ne, ecore=plain["h0"], conv_tol=1e-13, max_cycle=400)
        cis.ci, cis.norb, cis.nelec = ci, norb, ne
        state = pyscf_interface.get_fci_state(cis, tol=1e-14)
        E = e
    else:
        order = np.argsort(-np.abs(psi))
        for i in order:
            if i not in idx:
                continue
            s = sec.subsets[i]
            a = tuple(1 if p in s else 0 for p in range(norb))
            b = tuple(1 if (norb + p) in s else 0 for p in range(norb))
            state[(a, b)] = float(psi[i])
    return ham, plain, sec, H, E, state


def multislater_from_state(state, norb, ne, max_excitation=None):
    import jax.numpy as jnp
    from ad_afqmc import pyscf_interface, wavefunctions
    mx = max_excitation if max_excitation is not None else ne[0] + ne[1]
    Acre, Ades, Bcre, Bdes, coeff, ref_det = pyscf_interface.get_excitations(state=state, max_excitation=mx, ndets=len(state))
    wd = {"Acre": Acre, "Ades": Ades, "Bcre": Bcre, "Bdes": Bdes, "coeff": coeff, "ref_det": ref_det}
    trial = wavefunctions.multislater(norb, ne, max_excitation=mx)
    return trial, wd


def state_vector(sec, state, norb, fock):
    psi = np.zeros(sec.dim, dtype=complex)
    for (a, b), c in state.items():
        psi += c * fock.det_state(sec, [i for i in range(norb) if a[i]], [i for i in range(norb) if b[i]])
    return psi


def run(ctx):
    systems.setup_jax()
    import jax.numpy as jnp
    import trials
    import fock
    from ad_afqmc import pyscf_interface
    rng = random.Random(ctx.seed)
    proofs_ok = ctx.build_and_audit()
    spec_fail, lines, refs = [], [], []
    evals = 0
    # ---- (a) parity / holes / particles vs the Lean model
    npar = 60 if ctx.tier == "quick" else 400
    for _ in range(npar):
        n = rng.randint(2, 9)
        k = rng.randint(1, n - 1)
        d0 = [1] * k + [0] * (n - k)
        rng.shuffle(d0)
        d = list(d0)
        rng.shuffle(d)
        d0a, da = np.array(d0), np.array(d)
        cre, des = np.nonzero((d0a - da) > 0), np.nonzero((d0a - da) < 0)
        p = pyscf_interface.parity(d0a, cre, des)
        lines.append(f"excit {bitstr(d0)} {bitstr(d)}")
        refs.append(("parity", (int(p), [int(x) for x in cre[0]], [int(x) for x in des[0]]), (d0, d)))
    # ---- (b) read_dets vs the Lean decoder (incl. malformed occupation characters)
    nfiles = 6 if ctx.tier == "quick" else 30
    for fidx in range(nfiles):
        norb = rng.randint(1, 7)
        nd = rng.randint(1, 5)
        alphabet = "0ab2" if fidx % 3 else "0ab2xA1 "
        dets = [(rng.randint(-64, 64) / 64.0, "".join(rng.choice(alphabet) for _ in range(norb))) for _ in range(nd)]
        # the same path is rewritten every time (the usual "dets.bin" regenerated for the next system): a read must return
        # what is in the file now
        path = os.path.join(ctx.work, "dets.bin")
        write_dets(path, norb, dets)
        try:
            norbs, state, ndall = pyscf_interface.read_dets(path)
            evals += 1
            if norbs != norb or ndall != nd:
                spec_fail.append(("read_dets", "header (number of determinants, number of orbitals) is read back", {"want": [nd, norb], "got": [ndall, norbs]}))
            # later duplicates overwrite earlier ones in the dictionary: compare per distinct key
            for (c, chars) in dets:
                lines.append(f"decode {chars.replace(' ', '_')}")
                refs.append(("decode", (chars, c), state))
        except Exception as ex:
            spec_fail.append(("read_dets", "a well-formed file is read without error", {"error": repr(ex)[:200]}))
    mism = []
    try:
        model = common.lean_run("C11", lines)
        for k, (what, val, inp) in enumerate(refs):
            d = wf.parse_line(model[k]) if k < len(model) else {}
            if what == "parity":
                p, cre, des = val
                ok = d.get("parity") == str(p) and json.loads(d.get("holes", "null")) == cre and json.loads(d.get("particles", "null")) == des
                if not ok:
                    mism.append({"what": "parity/holes/particles", "d0": bitstr(inp[0]), "d": bitstr(inp[1]), "impl": val, "model": d})
                if d.get("parity") != d.get("sortsign"):
                    mism.append({"what": "model: parity vs sorting sign", "d0": bitstr(inp[0]), "d": bitstr(inp[1]), "model": d})
            else:
                chars, c = val
                key = (tuple(1 if ch == "1" else 0 for ch in d.get("alpha", "")), tuple(1 if ch == "1" else 0 for ch in d.get("beta", "")))
                if key not in inp:
                    mism.append({"what": "read_dets occupation decoding", "chars": chars, "model": d, "impl_keys": [str(x) for x in list(inp)[:3]]})
    except Exception as ex:
        ctx.broken.append({"kind": "driver", "error": str(ex)[-1500:]})
    # ---- (c) sum_i c_i |D_i>: random lists, order, reference, cut-off
    nlist = 10 if ctx.tier == "quick" else 60
    dist = {"aufbau_reference": 0, "other_reference": 0}
    for i in range(nlist):
        norb, ne = rng.choice([(3, (2, 1)), (4, (2, 2)), (4, (2, 1)), (3, (1, 1)), (4, (3, 1)), (4, (3, 2))])
        sec = trials.sector_for(norb, ne)
        alld = []
        for s in sec.subsets:
            a = tuple(1 if p in s else 0 for p in range(norb))
            b = tuple(1 if (norb + p) in s else 0 for p in range(norb))
            if sum(a) == ne[0] and sum(b) == ne[1]:
                alld.append((a, b))
        nd = rng.randint(2, min(8, len(alld)))
        chosen = rng.sample(alld, nd)
        aufbau = (tuple([1] * ne[0] + [0] * (norb - ne[0])), tuple([1] * ne[1] + [0] * (norb - ne[1])))
        ref_mode = ("aufbau", "other", "top")[i % 3]
        if ref_mode == "aufbau":
            chosen = [aufbau] + [d for d in chosen if d != aufbau]
        elif ref_mode == "top":
            # reference on the highest orbitals, aufbau determinant in the list: all electrons move down (nested patterns)
            top = (tuple([0] * (norb - ne[0]) + [1] * ne[0]), tuple([0] * (norb - ne[1]) + [1] * ne[1]))
            chosen = [top] + ([aufbau] if aufbau != top else []) + [d for d in chosen if d not in (aufbau, top)]
            ref_mode = "other"
        else:
            chosen = [d for d in chosen if d != aufbau]
            if not chosen:
                continue
        state = {d: rng.choice([-1, 1]) * rng.randint(1, 16) / 16.0 for d in chosen}
        dist[ref_mode + "_reference"] += 1
        psi = state_vector(sec, state, norb, fock)
        try:
            trial, wd = multislater_from_state(state, norb, ne)
        except Exception as ex:
            spec_fail.append(("get_excitations", "a determinant list can be turned into a trial", {"error": repr(ex)[:300]}))
            continue
        for _ in range(3):
            Wa, Wb = wf.complex_walker(rng, norb, ne[0]), wf.complex_walker(rng, norb, ne[1])
            want = trials.spec_overlap(sec, psi, Wa, Wb)
            try:
                got = complex(trial._calc_overlap(jnp.array(Wa), jnp.array(Wb), wd))
            except Exception as ex:
                spec_fail.append(("multislater._calc_overlap", "overlap of a determinant-list trial can be evaluated",
                                  {"reference": ref_mode, "norb": norb, "nelec": ne, "dets": [[bitstr(a), bitstr(b), c] for (a, b), c in state.items()], "error": repr(ex)[:200]}))
                break
            evals += 1
            if not wf.close(got, want, 1e-9, 1e-10):
                spec_fail.append(("multislater._calc_overlap", "trial represents sum_i c_i |D_i> (alpha-string x beta-string) for any reference and order",
                                  {"reference": ref_mode, "norb": norb, "nelec": ne, "dets": [[bitstr(a), bitstr(b), c] for (a, b), c in state.items()],
                                   "got": str(got), "want": str(want)}))
                break
        # restricted entry point on equal spin blocks (the reference may still have different alpha / beta strings)
        if ne[0] == ne[1]:
            W = wf.complex_walker(rng, norb, ne[0])
            want = trials.spec_overlap(sec, psi, W, W)
            try:
                got = complex(trial._calc_overlap_restricted(jnp.array(W), wd))
                evals += 1
                if not wf.close(got, want, 1e-9, 1e-10):
                    spec_fail.append(("multislater._calc_overlap_restricted", "restricted entry represents the same sum_i c_i |D_i> on equal spin blocks",
                                      {"reference": ref_mode, "norb": norb, "nelec": ne, "dets": [[bitstr(a), bitstr(b), c] for (a, b), c in state.items()],
                                       "got": str(got), "want": str(want)}))
            except Exception as ex:
                spec_fail.append(("multislater._calc_overlap_restricted", "restricted overlap can be evaluated", {"error": repr(ex)[:200]}))
        # order independence (same reference) and cut-off independence
        if ref_mode == "aufbau" and len(chosen) > 2:
            rest = list(state.items())[1:]
            rng.shuffle(rest)
            state2 = dict([list(state.items())[0]] + rest)
            t2, wd2 = multislater_from_state(state2, norb, ne, max_excitation=ne[0] + ne[1] + 1)
            Wa, Wb = wf.complex_walker(rng, norb, ne[0]), wf.complex_walker(rng, norb, ne[1])
            o1 = complex(trial._calc_overlap(jnp.array(Wa), jnp.array(Wb), wd))
            o2 = complex(t2._calc_overlap(jnp.array(Wa), jnp.array(Wb), wd2))
            evals += 1
            if not wf.close(o1, o2, 1e-9, 1e-10):
                spec_fail.append(("multislater._calc_overlap", "independent of the order of the list and of an admissible excitation-rank cut-off",
                                  {"norb": norb, "nelec": ne, "first": str(o1), "reordered": str(o2)}))
    # ---- (d) exact trial: every local energy, and every block energy of a run, is the eigenvalue
    nexact = 2 if ctx.tier == "quick" else 6
    for i in range(nexact):
        norb, ne = (3, (2, 1)) if i % 2 == 0 else (3, (1, 1))
        try:
            ham, plain, sec, H, E, state = exact_trial(rng, norb, ne, trials, fock, via_pyscf=(i % 2 == 1))
            trial, wd = multislater_from_state(state, norb, ne)
            hm = trial._build_measurement_intermediates(dict(ham), wd)
            worst = 0.0
            for _ in range(4):
                Wa, Wb = wf.complex_walker(rng, norb, ne[0]), wf.complex_walker(rng, norb, ne[1])
                psi = state_vector(sec, state, norb, fock)
                if abs(trials.spec_overlap(sec, psi, Wa, Wb)) < 0.05:
                    continue
                e = complex(trial._calc_energy(jnp.array(Wa), jnp.array(Wb), hm, wd))
                worst = max(worst, abs(e - E))
                evals += 1
            if worst > 2e-5:
                spec_fail.append(("multislater._calc_energy", "with the exact eigenvector as trial the local energy of every walker equals the eigenvalue",
                                  {"norb": norb, "nelec": ne, "via_pyscf_fci": i % 2 == 1, "eigenvalue": float(E), "max_deviation": worst}))
            # a short sampler run
            from ad_afqmc import hamiltonian, propagation, sampling
            from jax import random as jr
            hobj = hamiltonian.hamiltonian(norb)
            prop = propagation.propagator_unrestricted(dt=0.01, n_walkers=4)
            wd["rdm1"] = jnp.array([np.diag([1.0] * ne[0] + [0.0] * (norb - ne[0])), np.diag([1.0] * ne[1] + [0.0] * (norb - ne[1]))])
            hm2 = hobj.build_measurement_intermediates(dict(ham, ene0=0.0), trial, wd)
            hm2 = hobj.build_propagation_intermediates(hm2, prop, trial, wd)
            pd = prop.init_prop_data(trial, wd, hm2)
            pd["key"] = jr.PRNGKey(rng.randrange(1 << 30))
            smp = sampling.sampler(n_prop_steps=3, n_ene_blocks=2, n_sr_blocks=2, n_blocks=1)
            eb, pd = smp.propagate_phaseless(hobj, hm2, prop, pd, trial, wd)
            evals += 1
            if abs(float(np.real(eb)) - float(E)) > 5e-5:
                spec_fail.append(("sampler.propagate_phaseless", "with an exact trial every block energy equals the exact eigenvalue",
                                  {"norb": norb, "nelec": ne, "eigenvalue": float(E), "block_energy": float(np.real(eb))}))
        except Exception as ex:
            spec_fail.append(("exact trial", "exact-eigenvector run executes", {"error": repr(ex)[:400]}))

    ctx.cov["evaluations"] = evals + len(refs)
    ctx.cov["distinct_nontrivial"] = len(refs) + sum(dist.values())
    ctx.cov["rule"] = ("(a) random reference/determinant pairs over 2-9 orbitals: pyscf_interface.parity and hole/particle lists vs the Lean model (exact), and the "
                       "model's parity vs its sorting sign beyond the proved range; (b) binary determinant files incl. malformed occupation characters through "
                       "read_dets vs the Lean decoder; (c) random determinant lists (2-8 dets, open/closed shell, aufbau and non-aufbau reference, shuffled order, "
                       "larger cut-off) vs sum_i c_i |D_i> on the Fock space; (d) exact eigenvectors (own diagonalisation and pyscf FCI via get_fci_state): local "
                       "energies of complex walkers and block energy of a sampler run vs the eigenvalue")
    ctx.cov["samples"] = lines[:2] + [json.dumps(dist)]
    ctx.cov["distribution"] = dist
    ctx.cov["correspondence"] = {"model_cases": len(refs), "mismatches": len(mism)}
    ctx.assumptions += ["det of a row-permuted matrix = sign x det (Matrix.det_permute) links the sorting sign to the determinant - not formalised here",
                        "finite-difference local energy of the multislater class (eps = 1e-4): tolerance 2e-5", "pyscf FCI solver as an external oracle"]
    if mism:
        ctx.broken.append({"kind": "correspondence", "first": mism[:3], "count": len(mism)})
    seen = set()
    for name, clause, det in spec_fail:
        if (name, clause) in seen:
            continue
        seen.add((name, clause))
        k = common.known_match("C11", name, clause)
        if k and det.get("reference") == "other":
            ctx.known_finding(f"{name}: {clause} (non-aufbau reference)")
        else:
            ctx.violation({"function": name, "clause": clause, "detail": det})


def replay(path):
    systems.setup_jax()
    import jax.numpy as jnp
    import trials
    import fock
    r = json.load(open(path))
    d = r.get("detail", {})
    if "dets" not in d:
        print(json.dumps(r, indent=1)[:3000])
        return 1
    norb, ne = d["norb"], tuple(d["nelec"])
    state = {(tuple(int(c) for c in a), tuple(int(c) for c in b)): c for a, b, c in d["dets"]}
    sec = trials.sector_for(norb, ne)
    psi = state_vector(sec, state, norb, fock)
    trial, wd = multislater_from_state(state, norb, ne)
    rng = random.Random(0)
    bad = 0
    for _ in range(5):
        Wa, Wb = wf.complex_walker(rng, norb, ne[0]), wf.complex_walker(rng, norb, ne[1])
        want = trials.spec_overlap(sec, psi, Wa, Wb)
        got = complex(trial._calc_overlap(jnp.array(Wa), jnp.array(Wb), wd))
        print("library", got, " sum_i c_i <D_i|phi>", want)
        bad += not wf.close(got, want, 1e-9, 1e-10)
    return 1 if bad else 0
