"""C01 — trial overlap = <psi_T|phi>.

Lean: Cauchy–Binet based theorems for the single-determinant kinds (all dimensions).
Tie: (a) rhf / uhf overlaps of the real code vs the Lean model executed at Q(i) on the same dyadic
complex inputs; (b) every trial kind vs the explicit Fock-space state (spec): unrestricted entry,
restricted entry on equal blocks, batched evaluation in walker order for every batch count, the
density matrix of single-determinant / NOCI trials vs <a+ a> of that state."""
import json
import random

import numpy as np

import common
import systems
import wf

LEVEL = "proof"
TOL = 1e-9


def run(ctx):
    systems.setup_jax()
    import jax.numpy as jnp
    import trials
    import fock
    rng = random.Random(ctx.seed)
    proofs_ok = ctx.build_and_audit()
    spec_fail = []
    skipped_singular = [0]
    lines, refs = [], []
    dist = {}
    evals = 0
    nw = 3 if ctx.tier == "quick" else 6
    # ---- (a) single-determinant kinds vs the Lean model
    for kind in ("rhf", "uhf"):
        for norb, ne in ((3, (1, 1)), (3, (2, 2)), (4, (2, 2)), (4, (2, 1)), (3, (2, 0))):
            if not trials.supported(kind, norb, ne):
                continue
            trial, wd, desc = trials.make(kind, rng, norb, ne, complex_mo=True)
            ham, plain = trials.make_ham(rng, norb, nchol=1)
            if kind == "rhf":
                C = np.array(wd["mo_coeff"])
                Ca, Cb = C, C
            else:
                Ca, Cb = np.array(wd["mo_coeff"][0]), np.array(wd["mo_coeff"][1])
            for _ in range(nw):
                Wa, Wb = wf.complex_walker(rng, norb, ne[0]), wf.complex_walker(rng, norb, ne[1])
                ov = complex(trial._calc_overlap(jnp.array(Wa), jnp.array(Wb), wd))
                lines.append(wf.sd_line_uhf(plain, Ca, Cb, Wa, Wb))
                refs.append((kind + " unrestricted", ov, {"norb": norb, "nelec": ne}))
                if kind == "rhf":
                    ovr = complex(trial._calc_overlap_restricted(jnp.array(Wa), wd))
                    lines.append(wf.sd_line_rhfr(plain, Ca, Wa))
                    refs.append((kind + " restricted", ovr, {"norb": norb, "nelec": ne}))
    # ghf: the same Lean model in the doubled (spin-orbital) space, second spin block empty
    # (the interpreted exact model costs ~k! per determinant: two electrons in the quick tier, three in the thorough one)
    for norb, ne in (((3, (1, 1)), (2, (1, 1))) if ctx.tier == "quick" else ((3, (1, 1)), (2, (1, 1)), (3, (2, 1)))):
        try:
            trial, wd, desc = trials.make("ghf", rng, norb, ne)
            hamg0, plaing = trials.make_ham(rng, norb, nchol=2, spin_dependent=True)
            hamg = trial._build_measurement_intermediates(dict(hamg0), wd)
            for _ in range(2):
                Wa, Wb = wf.complex_walker(rng, norb, ne[0]), wf.complex_walker(rng, norb, ne[1])
                val = complex(trial._calc_overlap(jnp.array(Wa), jnp.array(Wb), wd))
                lines.append(wf.ghf_as_doubled(plaing, np.array(wd["mo_coeff"]), Wa, Wb))
                refs.append(("ghf unrestricted", val, {"norb": norb, "nelec": ne}))
        except Exception as ex:
            spec_fail.append(("ghf", "ghf model case can be built", {"error": repr(ex)[:300]}))
    mism = []
    try:
        model = common.lean_run("SD", lines)
        for k, (name, ov, det) in enumerate(refs):
            d = wf.parse_line(model[k]) if k < len(model) else {}
            if "overlap" not in d or not wf.close(ov, wf.parse_qi(d["overlap"]), TOL):
                mism.append({"entry": name, "impl": str(ov), "model": d.get("overlap"), **det, "line": lines[k][:300]})
                # the Lean model is PROVED equal to the mixed estimator: a disagreement on a concrete input is a concrete failing input
                spec_fail.append((name, "implementation equals the proved closed form of the mixed estimator on this input (theorem + exact evaluation at Q(i))",
                                  {**det, "impl": str(mism[-1].get("impl"))[:300], "model": str(mism[-1].get("model"))[:300], "protocol_line": lines[k][:4000]}))
    except Exception as ex:
        ctx.broken.append({"kind": "driver", "error": str(ex)[-1500:]})
    # ---- (b) every kind vs the explicit Fock-space state
    kinds = list(trials.KINDS)
    for kind, norb, ne in wf.cases(rng, kinds, ctx.tier):
        try:
            trial, wd, desc = trials.make(kind, rng, norb, ne, **wf.make_opts(kind, rng))
            sec, psi = trials.state(kind, trial, wd, desc)
        except Exception as ex:
            spec_fail.append((kind, "trial can be constructed", {"norb": norb, "nelec": ne, "error": repr(ex)[:300]}))
            continue
        dist[kind] = dist.get(kind, 0) + 1
        ronly = kind in trials.RESTRICTED_ONLY
        scale = max(1.0, float(np.abs(psi).max()))
        ref = wf.reference_state(kind, trial, wd, desc)
        for _ in range(nw):
            Wa = wf.complex_walker(rng, norb, ne[0])
            Wb = Wa if (ronly or (ne[0] == ne[1] and rng.random() < 0.3)) else wf.complex_walker(rng, norb, ne[1])
            if not wf.admissible(ref, sec, Wa, Wb):
                skipped_singular[0] += 1
                continue
            want = trials.spec_overlap(sec, psi, Wa, Wb)
            evals += 1
            try:
                got = trials.lib_overlap(kind, trial, wd, jnp.array(Wa), jnp.array(Wb))
            except Exception as ex:
                spec_fail.append((kind, "overlap entry point runs", {"norb": norb, "nelec": ne, "error": repr(ex)[:300]}))
                break
            if not wf.close(got, want, TOL * scale):
                spec_fail.append((kind, "reported overlap equals <psi_T|phi> (state written out in second quantisation)",
                                  {"norb": norb, "nelec": ne, "got": str(got), "want": str(want), "desc_keys": sorted(desc)[:8]}))
                break
            # restricted entry on equal blocks = unrestricted entry
            if ne[0] == ne[1] and not ronly and np.array_equal(Wa, Wb):
                try:
                    r = complex(trial._calc_overlap_restricted(jnp.array(Wa), wd))
                    if not wf.close(r, want, TOL * scale):
                        spec_fail.append((kind, "restricted and unrestricted entry points agree when the spin blocks coincide",
                                          {"norb": norb, "nelec": ne, "restricted": str(r), "unrestricted": str(got)}))
                except Exception as ex:
                    spec_fail.append((kind, "restricted entry point runs", {"norb": norb, "nelec": ne, "error": repr(ex)[:300]}))
        # batched evaluation: walker order, every batch count
        n = 4
        try:
            if ronly:
                ws = jnp.array([wf.complex_walker(rng, norb, ne[0]) for _ in range(n)])
                single = [complex(trial._calc_overlap_restricted(ws[i], wd)) for i in range(n)]
            else:
                ws = [jnp.array([wf.complex_walker(rng, norb, ne[0]) for _ in range(n)]),
                      jnp.array([wf.complex_walker(rng, norb, ne[1]) for _ in range(n)])]
                single = [complex(trial._calc_overlap(ws[0][i], ws[1][i], wd)) for i in range(n)]
            for nb in (1, 2, 4):
                tb = type(trial)(**{**trial.__dict__, "n_batch": nb})
                got = np.array(tb.calc_overlap(ws, wd))
                evals += 1
                if not all(wf.close(got[i], single[i], TOL * scale) for i in range(n)):
                    spec_fail.append((kind, "batched evaluation returns per-walker values in walker order for every batch count",
                                      {"norb": norb, "nelec": ne, "n_batch": nb, "batched": [str(x) for x in got], "single": [str(x) for x in single]}))
                    break
        except Exception as ex:
            spec_fail.append((kind, "batched overlap runs", {"norb": norb, "nelec": ne, "error": repr(ex)[:300]}))
    # ---- density matrix of single-determinant and NOCI trials (orthonormal orbitals)
    for kind in ("rhf", "uhf", "ghf", "noci"):
        for norb, ne in ((3, (2, 2)), (4, (2, 1)), (3, (1, 1))):
            if not trials.supported(kind, norb, ne):
                continue
            try:
                trial, wd, desc = rdm_trial(kind, rng, norb, ne)
                sec, psi = trials.state(kind, trial, wd, None)
                rdm = np.array(trial.get_rdm1({k: v for k, v in wd.items() if k != "rdm1"}))
                nrm = np.vdot(psi, psi)
                evals += 1
                worst = 0.0
                for s in (0, 1):
                    for p in range(norb):
                        for q in range(norb):
                            o = np.zeros((2 * norb, 2 * norb))
                            o[s * norb + q, s * norb + p] = 1.0       # a+_q a_p
                            val = np.vdot(psi, sec.one_body(o) @ psi) / nrm
                            worst = max(worst, abs(val - rdm[s][p, q]), abs(val - rdm[s][q, p].conj()) if False else 0.0)
                if worst > 1e-9:
                    spec_fail.append((kind, "reported one-particle density matrix is <a+ a> of the trial state",
                                      {"norb": norb, "nelec": ne, "max_error": worst}))
            except NotImplementedError:
                pass
            except Exception as ex:
                spec_fail.append((kind, "density matrix runs", {"norb": norb, "nelec": ne, "error": repr(ex)[:300]}))

    # determinant lists in a closed shell whose reference determinant has different alpha and beta occupations: restricted entry
    # (single array of walkers) = unrestricted entry on equal blocks = the explicit sum
    for norb, ne in ((4, (2, 2)), (3, (1, 1)), (4, (1, 1))):
        try:
            trial, wd, desc = trials.make("multislater", rng, norb, ne, reference="split")
            sec, psi = trials.state("multislater", trial, wd, desc)
            scale = max(1.0, float(np.abs(psi).max()))
            ws = [wf.complex_walker(rng, norb, ne[0]) for _ in range(3)]
            for W in ws:
                want = trials.spec_overlap(sec, psi, W, W)
                r = complex(trial._calc_overlap_restricted(jnp.array(W), wd))
                u = complex(trial._calc_overlap(jnp.array(W), jnp.array(W), wd))
                evals += 2
                if not wf.close(r, want, TOL * scale) or not wf.close(u, want, TOL * scale):
                    spec_fail.append(("multislater", "restricted and unrestricted entry points agree when the spin blocks coincide",
                                      {"norb": norb, "nelec": ne, "reference": [list(map(int, d)) for d in desc["dets"][0][:2]], "restricted": str(r), "unrestricted": str(u), "want": str(want)}))
                    break
            b = np.array(trial.calc_overlap(jnp.array(ws), wd))
            single = [trials.spec_overlap(sec, psi, W, W) for W in ws]
            if not all(wf.close(complex(x), y, TOL * scale) for x, y in zip(b, single)):
                spec_fail.append(("multislater", "batched restricted overlaps equal <psi_T|phi> in walker order",
                                  {"norb": norb, "nelec": ne, "reference": [list(map(int, d)) for d in desc["dets"][0][:2]]}))
        except Exception as ex:
            spec_fail.append(("multislater", "split-reference determinant list can be evaluated", {"norb": norb, "nelec": ne, "error": repr(ex)[:300]}))
    ctx.cov["evaluations"] = evals + len(refs)
    ctx.cov["distinct_nontrivial"] = sum(dist.values()) + len(refs)
    ctx.cov["rule"] = ("(a) rhf/uhf with complex non-orthonormal trial orbitals and complex walkers, norb 3-4, incl. n_dn=0, compared with the "
                       "Lean model at Q(i) (tol 1e-9); (b) all 12 trial classes x supported (norb, nelec) incl. open shells: unrestricted entry, "
                       "restricted entry on equal blocks, batched calc_overlap for n_batch in {1,2,4}, against the explicit Fock-space state; "
                       "(c) get_rdm1 of rhf/uhf/ghf/noci with orthonormal orbitals vs <a+_q a_p> of that state")
    ctx.cov["samples"] = [lines[0][:300]] + [json.dumps(dist)]
    ctx.cov["distribution"] = dist
    ctx.cov["skipped"] = {"walkers_with_vanishing_reference_overlap (outside the CI formulas' domain)": skipped_singular[0]}
    ctx.cov["correspondence"] = {"lean_model_cases": len(refs), "mismatches": len(mism), "spec_evaluations": evals}
    ctx.assumptions += ["floating-point det/inv of the implementation (compared at 1e-9 on well-conditioned dyadic inputs)",
                        "CI / NOCI / determinant-list kinds: the theorem layer covers single determinants and linear combinations; their "
                        "expansion coefficients are validated against the Fock-space spec, not proved"]
    if mism:
        ctx.broken.append({"kind": "correspondence", "first": mism[:3], "count": len(mism)})
    seen = set()
    for name, clause, det in spec_fail:
        if (name, clause) in seen:
            continue
        seen.add((name, clause))
        k = common.known_match("C01", name, clause)
        if k:
            ctx.known_finding(f"{name}: {clause}")
        else:
            ctx.violation({"kind": name, "clause": clause, "detail": det})


def rdm_trial(kind, rng, norb, ne):
    """trial with orthonormal orbitals (the density-matrix statement needs them)"""
    import jax.numpy as jnp
    import trials
    trial, wd, desc = trials.make(kind, rng, norb, ne, **wf.make_opts(kind, rng))
    if kind == "rhf":
        c = systems.orthonormal(rng, norb, ne[0])
        wd["mo_coeff"] = jnp.array(c)
        desc = dict(desc)
        desc["mo_coeff"] = c
    elif kind == "uhf":
        ca, cb = systems.orthonormal(rng, norb, ne[0]), systems.orthonormal(rng, norb, ne[1])
        wd["mo_coeff"] = [jnp.array(ca), jnp.array(cb)]
        desc = dict(desc)
        desc["mo_coeff"] = [ca, cb]
    elif kind == "ghf":
        c = systems.orthonormal(rng, 2 * norb, ne[0] + ne[1])
        wd["mo_coeff"] = jnp.array(c)
        desc = dict(desc)
        desc["mo_coeff"] = c
    wd.pop("rdm1", None)
    return trial, wd, desc


def replay(path):
    r = json.load(open(path))
    print(json.dumps(r, indent=1)[:3000])
    return 1
