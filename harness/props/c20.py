"""C20 — lattices: correspondence (implementation vs Lean model, exact integers), translator-tied
round-trip obligation, and the direct spec check on the implementation (failing-input search)."""
import dataclasses
import json
import random

import numpy as np

import common
import translate_lattices

LEVEL = "proof"


# ---------------------------------------------------------------- implementation side
def build(cfg):
    from ad_afqmc import lattices as L
    kind = cfg["kind"]
    kw = cfg.get("kw", {})
    if kind == "chain":
        return L.one_dimensional_chain(cfg["sides"][0], **kw)
    if kind == "grid2":
        return L.two_dimensional_grid(*cfg["sides"], **kw)
    if kind == "tri":
        return L.triangular_grid(*cfg["sides"], open_x=bool(cfg.get("open", 0)), **kw)
    if kind == "grid3":
        return L.three_dimensional_grid(*cfg["sides"], **kw)
    raise ValueError(kind)


def dims(cfg):
    """(height, width) tests used by create_adjacency_matrix's bounds check"""
    s = cfg["sides"]
    if cfg["kind"] == "grid2":
        return (s[1], s[0])
    if cfg["kind"] == "tri":
        return (s[0], s[1])
    if cfg["kind"] == "grid3":
        return (s[2], s[1], s[0])
    return (s[0],)


def nbrs_of(lat, site):
    return [tuple(int(x) for x in np.atleast_1d(np.array(r))) for r in np.array(lat.get_nearest_neighbors(site))]


def adjacency(lat, cfg):
    if hasattr(lat, "create_adjacency_matrix"):
        return np.array(lat.create_adjacency_matrix())
    # three_dimensional_grid has no create_adjacency_matrix: the same generic loop (DESIGN C20)
    n = lat.n_sites
    h = np.zeros((n, n), dtype=int)
    bounds = dims(cfg)
    for i, site in enumerate(lat.sites):
        for q in nbrs_of(lat, site):
            if all(0 <= q[k] < bounds[k] for k in range(len(bounds))):
                j = int(lat.get_site_num(q))
                h[i, j] = 1
                h[j, i] = 1
    return h


def fmt_pos(p):
    p = tuple(int(x) for x in p)
    return str(p[0]) if len(p) == 1 else "(" + ",".join(str(x) for x in p) + ")"


def impl_dump(cfg):
    try:
        lat = build(cfg)
    except Exception as e:  # construction must succeed for sides >= 2
        return "error:" + type(e).__name__, None
    sites = [tuple(s) for s in lat.sites]
    n = len(sites)
    nums = [int(lat.get_site_num(s)) for s in sites]
    nb = [nbrs_of(lat, s) for s in sites]
    adj_error = None
    try:
        adj = adjacency(lat, cfg)
    except Exception as e:      # e.g. a site number outside range(n): reported as a failing input, never a crash
        adj = np.zeros((n, n), dtype=int)
        adj_error = repr(e)[:200]
    rs = [int(x) for x in adj.sum(axis=1)]
    L = lambda f, xs: "[" + ",".join(f(x) for x in xs) + "]"
    line = (f"n={n} sites={L(fmt_pos, sites)} nums={L(str, nums)} "
            f"nbrs={L(lambda r: L(fmt_pos, r), nb)} "
            f"adj={L(lambda r: L(lambda x: str(int(x)), r), adj)} rowsum={L(str, rs)}")
    return line, dict(lat=lat, sites=sites, nums=nums, nbrs=nb, adj=adj, adj_error=adj_error)


def proto_line(cfg):
    s = cfg["sides"]
    if cfg["kind"] == "tri":
        return f"lat tri {s[0]} {s[1]} {int(cfg.get('open', 0))}"
    return "lat " + cfg["kind"] + " " + " ".join(str(x) for x in s)


# ---------------------------------------------------------------- the property, checked on the implementation
def spec_check(cfg, d):
    """returns list of (clause, detail) that FAIL on the implementation"""
    bad = []
    lat, sites, nums, nb, adj = d["lat"], d["sites"], d["nums"], d["nbrs"], d["adj"]
    if d.get("adj_error"):
        bad.append(("the adjacency matrix can be built from the neighbour relation and the site numbering", {"error": d["adj_error"], "nums": nums}))
    n = len(sites)
    sides = cfg["sides"]
    periodic = not cfg.get("open", 0)
    if nums != list(range(n)) or len(set(sites)) != n or int(lat.n_sites) != n:
        bad.append(("site list and numbering are inverse bijections", {"nums": nums[:20]}))
    pos2idx = {s: i for i, s in enumerate(sites)}
    bounds = dims(cfg)
    inb = lambda q: all(0 <= q[k] < bounds[k] for k in range(len(bounds)))
    symmetric_expected = periodic or sides[0] % 2 == 0
    if symmetric_expected:
        for i, s in enumerate(sites):
            for q in nb[i]:
                if not inb(q):
                    if periodic:
                        bad.append(("neighbour out of range on a periodic lattice", {"site": s, "nbr": q}))
                    continue
                if q not in pos2idx or s not in nb[pos2idx[q]]:
                    bad.append(("neighbour relation symmetric", {"site": s, "nbr": q}))
                    break
    if min(sides) >= 3:
        for i, s in enumerate(sites):
            if s in nb[i]:
                bad.append(("neighbour relation irreflexive", {"site": s}))
                break
    if not (adj == adj.T).all():
        bad.append(("adjacency symmetric", {}))
    if np.diag(adj).any():
        bad.append(("adjacency zero diagonal", {"diag": [int(x) for x in np.diag(adj)]}))
    if set(np.unique(adj)) - {0, 1}:
        bad.append(("adjacency entries are 0/1", {}))
    cn = int(lat.coord_num)
    rs = adj.sum(axis=1)
    if periodic and min(sides) >= 3 and not (rs == cn).all():
        bad.append(("periodic lattice regular with degree coord_num", {"rowsum": [int(x) for x in rs], "coord_num": cn}))
    if not periodic and sides[0] % 2 == 0 and (rs > cn).any():
        bad.append(("open boundary: no site exceeds coord_num", {"rowsum": [int(x) for x in rs], "coord_num": cn}))
    return bad


def roundtrip_check(cfg):
    """flatten/unflatten (and a jitted identity) preserve every attribute; returns failures"""
    import jax
    bad = []
    lat = build(cfg)
    rts = []
    leaves, td = jax.tree_util.tree_flatten(lat)
    rts.append(("tree_unflatten(tree_flatten)", jax.tree_util.tree_unflatten(td, leaves)))
    try:
        rts.append(("jit identity", jax.jit(lambda x: x)(lat)))
    except Exception as e:
        bad.append(("lattice passes through a jitted function", {"error": type(e).__name__ + ": " + str(e)[:200]}))
    for how, rt in rts:
        for f in dataclasses.fields(lat):
            a, b = getattr(lat, f.name), getattr(rt, f.name)
            if a != b or type(a) is not type(b):
                bad.append((f"round trip preserves attribute {f.name}", {"how": how, "before": repr(a)[:80], "after": repr(b)[:80]}))
        if not (rt == lat):
            bad.append(("round trip preserves equality", {"how": how}))
        if hash(rt) != hash(lat):
            bad.append(("round trip preserves hash", {"how": how}))
        if not (adjacency(rt, cfg) == adjacency(lat, cfg)).all():
            bad.append(("round trip preserves the adjacency matrix", {"how": how}))
    return bad


# ---------------------------------------------------------------- case generation
def configs(tier, rng):
    hi = 5 if tier == "quick" else 8
    hi3 = 3 if tier == "quick" else 5
    cfgs = [{"kind": "chain", "sides": [n]} for n in range(2, 2 * hi + 1)]
    for a in range(2, hi + 1):
        for b in range(2, hi + 1):
            cfgs.append({"kind": "grid2", "sides": [a, b]})
            # lattices that differ only in the boundary condition, built one after the other in the same process, in both orders
            # (the matrices are functions of the lattice alone, whatever was built before)
            first = (a + b) % 2
            cfgs.append({"kind": "tri", "sides": [a, b], "open": first})
            cfgs.append({"kind": "tri", "sides": [a, b], "open": 1 - first})
    for a in range(2, hi3 + 1):
        for b in range(2, hi3 + 1):
            for c in range(2, hi3 + 1):
                cfgs.append({"kind": "grid3", "sides": [a, b, c]})
    # seeded extra sizes beyond the grid
    for _ in range(4 if tier == "quick" else 16):
        k = rng.choice(["chain", "grid2", "tri", "tri", "grid3"])
        if k == "chain":
            cfgs.append({"kind": k, "sides": [rng.randint(2, 40)]})
        elif k == "grid3":
            cfgs.append({"kind": k, "sides": [rng.randint(2, 6) for _ in range(3)]})
        else:
            c = {"kind": k, "sides": [rng.randint(2, 11), rng.randint(2, 11)]}
            if k == "tri":
                c["open"] = rng.randint(0, 1)
            cfgs.append(c)
    return cfgs


def rt_configs(tier, rng):
    out = []
    for n in (2, 3, 5):
        out.append({"kind": "chain", "sides": [n]})
        out.append({"kind": "chain", "sides": [n], "kw": {"hop_signs": (2.0, 3.0)}})
        out.append({"kind": "chain", "sides": [n], "kw": {"coord_num": 3}})
    for s in ([2, 2], [3, 2], [2, 3], [3, 4], [4, 4]):
        out.append({"kind": "grid2", "sides": s})
        out.append({"kind": "grid2", "sides": s, "kw": {"hop_signs": (1.0, 1.0, 1.0, 1.0)}})
        out.append({"kind": "grid2", "sides": s, "kw": {"coord_num": 5}})
        out.append({"kind": "tri", "sides": s, "open": 0})
        out.append({"kind": "tri", "sides": s, "open": 1})
        out.append({"kind": "tri", "sides": s, "open": 1, "kw": {"coord_num": 5}})
    for s in ([2, 2, 2], [2, 3, 4], [3, 3, 3]):
        out.append({"kind": "grid3", "sides": s})
        out.append({"kind": "grid3", "sides": s, "kw": {"coord_num": 7}})
    if tier == "thorough":
        for _ in range(20):
            out.append({"kind": "tri", "sides": [rng.randint(2, 9), rng.randint(2, 9)], "open": rng.randint(0, 1)})
    return out


# ---------------------------------------------------------------- run
def run(ctx):
    rng = random.Random(ctx.seed)
    info = translate_lattices.main(common.REPO, common.VERIF)
    ctx.cov["generated"] = {k: {x: v[x] for x in ("decl", "flat", "computed", "reads")} for k, v in info.items()}
    proofs_ok = ctx.build_and_audit()

    cfgs = configs(ctx.tier, rng)
    impl = [impl_dump(c) for c in cfgs]
    try:
        model = common.lean_run("C20", [proto_line(c) for c in cfgs])
    except Exception as e:
        model = None
        ctx.broken.append({"kind": "driver", "error": str(e)[-1500:]})
    mism = []
    nontrivial = set()
    dist = {}
    spec_fail = []
    for k, c in enumerate(cfgs):
        line, d = impl[k]
        dist[c["kind"]] = dist.get(c["kind"], 0) + 1
        if d is None:
            spec_fail.append((c, "every lattice with all side lengths >= 2 can be constructed", {"error": line}))
        else:
            for clause, det in spec_check(c, d):
                spec_fail.append((c, clause, det))
            if len(d["sites"]) > 2:
                nontrivial.add(json.dumps(c, sort_keys=True))
        if model is not None and (k >= len(model) or model[k] != line):
            mism.append({"cfg": c, "impl": line[:600], "model": (model[k][:600] if k < len(model) else None)})
    rcfgs = rt_configs(ctx.tier, rng)
    for c in rcfgs:
        try:
            for clause, det in roundtrip_check(c):
                spec_fail.append((c, clause, det))
        except Exception as e:
            spec_fail.append((c, "lattice can be constructed and round-tripped", {"error": type(e).__name__ + ": " + str(e)[:200]}))

    ctx.cov["evaluations"] = len(cfgs) + len(rcfgs)
    ctx.cov["distinct_nontrivial"] = len(nontrivial) + len({json.dumps(c, sort_keys=True) for c in rcfgs})
    ctx.cov["rule"] = ("every lattice class x side lengths on a full grid (2..5 quick / 2..8 thorough; 3D 2..3 / 2..5), "
                       "open and periodic triangular, plus seeded larger sizes; all outputs compared exactly as integers "
                       "(site list, numbering, neighbour lists, adjacency matrix, row sums); non-trivial = more than 2 sites; "
                       "round-trip cases use default and non-default attributes")
    ctx.cov["samples"] = [proto_line(c) for c in cfgs[:3]] + [impl[5][0][:300]] + [json.dumps(rcfgs[1])]
    ctx.cov["distribution"] = dist
    ctx.cov["correspondence"] = {"cases": len(cfgs), "mismatches": len(mism), "roundtrip_cases": len(rcfgs)}
    ctx.cov["exhaustive"] = False
    ctx.assumptions += [
        "get_nearest_neighbors is called with concrete Python ints (as create_adjacency_matrix does)",
        "three_dimensional_grid has no create_adjacency_matrix; its matrix is built by the same generic loop",
        "__post_init__ is a deterministic function of the attributes it reads (Python semantics)",
    ]
    if mism:
        ctx.broken.append({"kind": "correspondence", "first": mism[:3], "count": len(mism)})
    # failing inputs of the property itself on the implementation
    seen = set()
    for c, clause, det in spec_fail:
        key = (c["kind"], clause)
        if key in seen:
            continue
        seen.add(key)
        k = common.known_match("C20", c["kind"], clause)
        if k:
            ctx.known_finding(f"{c['kind']}: {clause} ({k.get('what_fails', '')})")
        else:
            ctx.violation({"cfg": c, "clause": clause, "detail": det,
                           "replay": "./check C20 --replay <this file>"})
    if not proofs_ok and not spec_fail:
        pass  # reported by finish() as no-failing-input-found


def replay(path):
    common.setup_repo_path()
    r = json.load(open(path))
    if "cfg" not in r:
        print("replay names a broken theorem/correspondence, no concrete input:", json.dumps(r.get("broken"), indent=1)[:3000])
        return 1
    c = r["cfg"]
    line, d = impl_dump(c)
    fails = []
    if d is None:
        fails.append(("construction", line))
    else:
        fails += spec_check(c, d)
        fails += roundtrip_check(c)
    print("config:", c)
    for f in fails:
        print("FAILS:", f)
    if not fails:
        print("property holds on this input now")
    return 1 if fails else 0
