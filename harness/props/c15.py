"""C15 — covariance under orthogonal orbital rotations.

Lean: rotate_orbs modelled as the congruence U^T X U; for real orthogonal U overlaps, force biases and
local energies of the single-determinant kinds are unchanged (all dimensions).  Tie: ham.rotate_orbs on
random *exactly* orthogonal rational matrices (products of Pythagorean Givens rotations) and on
invertible ones (congruence clause), trial orbitals and walkers rotated with the same matrix; energies,
force biases, overlaps before/after for rhf, uhf, ghf, noci; rotated problem vs the Lean model at Q(i)."""
import json
import random
from fractions import Fraction

import numpy as np

import common
import systems
import wf

LEVEL = "proof"
TRIPLES = [(3, 4, 5), (5, 12, 13), (8, 15, 17), (7, 24, 25), (20, 21, 29)]


def exact_orthogonal(rng, n):
    """product of Givens rotations with rational cos/sin: exactly orthogonal over Q (entries are exact in
    floating point only approximately; orthogonality defect ~1e-16)"""
    U = np.eye(n)
    for _ in range(n + 2):
        i, j = rng.sample(range(n), 2)
        a, b, c = rng.choice(TRIPLES)
        cs, sn = a / c, b / c
        if rng.random() < 0.5:
            sn = -sn
        G = np.eye(n)
        G[i, i] = cs
        G[j, j] = cs
        G[i, j] = -sn
        G[j, i] = sn
        U = U @ G
    return U


def rotate_wave_data(kind, wd, U):
    import jax.numpy as jnp
    out = dict(wd)
    if kind == "rhf":
        out["mo_coeff"] = jnp.array(U.T @ np.array(wd["mo_coeff"]))
    elif kind == "uhf":
        out["mo_coeff"] = [jnp.array(U.T @ np.array(wd["mo_coeff"][0])), jnp.array(U.T @ np.array(wd["mo_coeff"][1]))]
    elif kind == "ghf":
        n = U.shape[0]
        UU = np.zeros((2 * n, 2 * n))
        UU[:n, :n] = U
        UU[n:, n:] = U
        out["mo_coeff"] = jnp.array(UU.T @ np.array(wd["mo_coeff"]))
    elif kind == "noci":
        c, d = wd["ci_coeffs_dets"]
        out["ci_coeffs_dets"] = [c, [jnp.array(np.einsum("pq,dpk->dqk", U, np.array(d[0]))), jnp.array(np.einsum("pq,dpk->dqk", U, np.array(d[1])))]]
    out.pop("rdm1", None)
    return out


def run(ctx):
    systems.setup_jax()
    import jax.numpy as jnp
    import trials
    from ad_afqmc import hamiltonian
    rng = random.Random(ctx.seed)
    proofs_ok = ctx.build_and_audit()
    spec_fail, lines, refs = [], [], []
    evals = 0
    dist = {}
    reps = 2 if ctx.tier == "quick" else 8
    nonsym = [0]
    for kind, norb, ne in [("rhf", 3, (1, 1)), ("rhf", 4, (2, 2)), ("uhf", 4, (2, 1)), ("uhf", 3, (2, 2)), ("ghf", 3, (2, 1)),
                           ("noci", 4, (2, 1)), ("noci", 3, (2, 2)), ("uhf", 3, (2, 0))]:
        for _ in range(reps):
            trial, wd, desc = trials.make(kind, rng, norb, ne)
            ham, plain = trials.make_ham(rng, norb, nchol=2, spin_dependent=(kind != "rhf"))
            if _ % 2 == 1:
                # "every Hamiltonian": a one-body matrix with an antisymmetric part (the repository's own tests use such matrices)
                anti = np.array([[rng.randint(-8, 8) / 16.0 for _j in range(norb)] for _i in range(norb)])
                anti = anti - anti.T
                h_ns = np.array(plain["h1"]) + np.array([anti, anti if kind == "rhf" else -0.5 * anti])
                plain = dict(plain, h1=h_ns)
                ham = dict(ham, h1=jnp.array(h_ns))
                nonsym[0] += 1
            hobj = hamiltonian.hamiltonian(norb)
            U = exact_orthogonal(rng, norb)
            dist[kind] = dist.get(kind, 0) + 1
            # congruence clause, any invertible C
            Cinv = np.array([[rng.randint(-8, 8) / 4.0 for _ in range(norb)] for _ in range(norb)]) + 2 * np.eye(norb)
            for M, label in ((U, "orthogonal"), (Cinv, "invertible")):
                hin = {k: (jnp.array(v) if hasattr(v, "shape") else v) for k, v in ham.items()}
                L = np.array(plain["chol"]).reshape(-1, norb, norb)
                if label == "invertible":
                    # the congruence clause holds for each matrix as it is: non-symmetric Cholesky matrices too
                    L = L + np.array([[[rng.randint(-8, 8) / 16.0 for _j in range(norb)] for _i in range(norb)] for _g in range(L.shape[0])])
                    hin["chol"] = jnp.array(L.reshape(L.shape[0], -1))
                rot = hobj.rotate_orbs(hin, jnp.array(M))
                evals += 1
                ok = (np.abs(np.array(rot["h1"][0]) - M.T @ plain["h1"][0] @ M).max() < 1e-10 and
                      np.abs(np.array(rot["h1"][1]) - M.T @ plain["h1"][1] @ M).max() < 1e-10 and
                      np.abs(np.array(rot["chol"]).reshape(-1, norb, norb) - np.einsum("qi,gij,jp->gqp", M.T, L, M)).max() < 1e-10)
                if not ok:
                    spec_fail.append(("hamiltonian.rotate_orbs", "the rotation routine is the congruence C^T X C on each one-body and Cholesky matrix",
                                      {"norb": norb, "matrix": label, "h1_0_error": float(np.abs(np.array(rot["h1"][0]) - M.T @ plain["h1"][0] @ M).max()),
                                       "h1_1_error": float(np.abs(np.array(rot["h1"][1]) - M.T @ plain["h1"][1] @ M).max())}))
            # covariance under the orthogonal rotation
            rot = hobj.rotate_orbs({k: (jnp.array(v) if hasattr(v, "shape") else v) for k, v in ham.items()}, jnp.array(U))
            wd_r = rotate_wave_data(kind, wd, U)
            hm = trial._build_measurement_intermediates(dict(ham), wd)
            hm_r = trial._build_measurement_intermediates(dict(rot), wd_r)
            Wa, Wb = wf.complex_walker(rng, norb, ne[0]), wf.complex_walker(rng, norb, ne[1])
            if kind == "rhf" and rng.random() < 0.5:
                Wb = Wa
            Wa_r, Wb_r = U.T @ Wa, U.T @ Wb
            try:
                o1 = complex(trial._calc_overlap(jnp.array(Wa), jnp.array(Wb), wd))
                o2 = complex(trial._calc_overlap(jnp.array(Wa_r), jnp.array(Wb_r), wd_r))
                e1 = complex(trial._calc_energy(jnp.array(Wa), jnp.array(Wb), hm, wd))
                e2 = complex(trial._calc_energy(jnp.array(Wa_r), jnp.array(Wb_r), hm_r, wd_r))
                f1 = np.array(trial._calc_force_bias(jnp.array(Wa), jnp.array(Wb), hm, wd))
                f2 = np.array(trial._calc_force_bias(jnp.array(Wa_r), jnp.array(Wb_r), hm_r, wd_r))
                evals += 1
                if not wf.close(o1, o2, 1e-9):
                    spec_fail.append((kind, "overlaps are multiplied by the factor 1 under an orthogonal rotation", {"norb": norb, "nelec": ne, "before": str(o1), "after": str(o2)}))
                if not wf.close(e1, e2, 1e-9, 1e-9):
                    spec_fail.append((kind, "local energies are unchanged by an orthogonal orbital rotation", {"norb": norb, "nelec": ne, "before": str(e1), "after": str(e2)}))
                if not all(wf.close(a, b, 1e-9, 1e-9) for a, b in zip(f1, f2)):
                    spec_fail.append((kind, "force biases are unchanged by an orthogonal orbital rotation", {"norb": norb, "nelec": ne}))
                if kind == "rhf":
                    # the restricted-walker entry points of the same trial
                    r1 = (complex(trial._calc_overlap_restricted(jnp.array(Wa), wd)), complex(trial._calc_energy_restricted(jnp.array(Wa), hm, wd)),
                          np.array(trial._calc_force_bias_restricted(jnp.array(Wa), hm, wd)))
                    r2 = (complex(trial._calc_overlap_restricted(jnp.array(Wa_r), wd_r)), complex(trial._calc_energy_restricted(jnp.array(Wa_r), hm_r, wd_r)),
                          np.array(trial._calc_force_bias_restricted(jnp.array(Wa_r), hm_r, wd_r)))
                    evals += 1
                    if not wf.close(r1[0], r2[0], 1e-9):
                        spec_fail.append((kind + " (restricted entry)", "overlaps are multiplied by the factor 1 under an orthogonal rotation",
                                          {"norb": norb, "nelec": ne, "before": str(r1[0]), "after": str(r2[0])}))
                    if not wf.close(r1[1], r2[1], 1e-9, 1e-9) or not all(wf.close(a, b, 1e-9, 1e-9) for a, b in zip(r1[2], r2[2])):
                        spec_fail.append((kind + " (restricted entry)", "local energies and force biases are unchanged by an orthogonal orbital rotation",
                                          {"norb": norb, "nelec": ne, "before": str(r1[1]), "after": str(r2[1])}))
                # the route a run takes: the dictionary already holds the intermediates of the unrotated problem when it is rotated
                hm_p = hobj.rotate_orbs({k: (jnp.array(v) if hasattr(v, "shape") else v) for k, v in hm.items()}, jnp.array(U))
                hm_p = hobj.build_measurement_intermediates(hm_p, trial, wd_r)
                e3 = complex(trial._calc_energy(jnp.array(Wa_r), jnp.array(Wb_r), hm_p, wd_r))
                f3 = np.array(trial._calc_force_bias(jnp.array(Wa_r), jnp.array(Wb_r), hm_p, wd_r))
                evals += 1
                if not wf.close(e1, e3, 1e-9, 1e-9) or not all(wf.close(a, b, 1e-9, 1e-9) for a, b in zip(f1, f3)):
                    spec_fail.append((kind, "local energies and force biases are unchanged when an already prepared Hamiltonian dictionary is rotated and re-prepared",
                                      {"norb": norb, "nelec": ne, "energy_before": str(e1), "energy_after": str(e3),
                                       "max_force_bias_change": float(np.abs(f1 - f3).max())}))
                if kind in ("rhf", "uhf") and _ % 2 == 0:      # (the Lean model is the estimator of a symmetric Hamiltonian)
                    plain_r = {"h0": plain["h0"], "h1": np.array([U.T @ plain["h1"][0] @ U, U.T @ plain["h1"][1] @ U]),
                               "chol": np.einsum("qi,gij,jp->gqp", U.T, np.array(plain["chol"]).reshape(-1, norb, norb), U).reshape(-1, norb * norb)}
                    if kind == "rhf":
                        Ca = Cb = np.array(wd_r["mo_coeff"])
                    else:
                        Ca, Cb = np.array(wd_r["mo_coeff"][0]), np.array(wd_r["mo_coeff"][1])
                    lines.append(wf.sd_line_uhf(plain_r, Ca, Cb, Wa_r, Wb_r))
                    refs.append((kind, o1, e1, f1))
            except Exception as ex:
                spec_fail.append((kind, "rotated measurements run", {"error": repr(ex)[:300]}))
    mism = []
    try:
        model = common.lean_run("SD", lines) if lines else []
        for k, (kind, o, e, f) in enumerate(refs):
            d = wf.parse_line(model[k]) if k < len(model) else {}
            # the Lean model evaluated on the *rotated* problem must reproduce the implementation's *unrotated* values
            if "overlap" not in d or not wf.close(o, wf.parse_qi(d["overlap"]), 1e-8) or not wf.close(e, wf.parse_qi(d["energy"]), 1e-8, 1e-8):
                mism.append({"kind": kind, "impl_unrotated": [str(o), str(e)], "model_rotated": [d.get("overlap"), d.get("energy")]})
    except Exception as ex:
        ctx.broken.append({"kind": "driver", "error": str(ex)[-1500:]})
    ctx.cov["evaluations"] = evals + len(refs)
    ctx.cov["distinct_nontrivial"] = sum(dist.values())
    ctx.cov["rule"] = ("rhf, uhf (incl. n_dn = 0), ghf, noci with spin-dependent h1 (except rhf), 2 Cholesky matrices; rotation matrices: products of "
                       "Pythagorean Givens rotations (orthogonal over Q) and random invertible matrices for the congruence clause; walkers and trial "
                       "orbitals rotated with the same matrix; implementation before vs after (1e-9) and Lean model on the rotated problem vs the "
                       "implementation on the unrotated one")
    ctx.cov["samples"] = [(lines[0][:300] if lines else "-"), json.dumps(dist)]
    ctx.cov["distribution"] = dist
    ctx.cov["correspondence"] = {"lean_model_cases": len(refs), "mismatches": len(mism)}
    ctx.assumptions += ["theorem layer: single-determinant kinds; NOCI follows by linearity of the overlap and is validated here"]
    if mism:
        ctx.broken.append({"kind": "correspondence", "first": mism[:3], "count": len(mism)})
    seen = set()
    for name, clause, det in spec_fail:
        if (name, clause) in seen:
            continue
        seen.add((name, clause))
        if common.known_match("C15", name, clause):
            ctx.known_finding(f"{name}: {clause}")
        else:
            ctx.violation({"kind": name, "clause": clause, "detail": det})


def replay(path):
    r = json.load(open(path))
    print(json.dumps(r, indent=1)[:3000])
    return 1
