"""C05 — free projection: field average and exact norm bookkeeping.

Lean: minors of Q R = det R x minors of Q, induction over any number of steps (accumulated norm x
orthonormal walker = un-normalised product), stored overlap = overlap of the un-normalised state,
per-spin constants.  Tie: (a) one real propagate_free step on tensor Gauss–Hermite nodes: average of
norms x walker vs expm(-dt (H - ene0)) on the Fock space over a dt ladder; (b) 1..k consecutive steps:
norms x orthonormal walker and the stored overlap vs the un-normalised product built from the
library's own Trotter kernel without re-orthonormalisation; (c) truncated exponential vs expm within
its Taylor remainder; qr monitor."""
import json
import math
import random

import numpy as np

import common
import systems
import wf
import quadrature as qd

LEVEL = "proof"


def init_free(S, walkers, n):
    import jax.numpy as jnp
    ov = S["trial"].calc_overlap(walkers, S["wave_data"])
    return {"walkers": walkers, "weights": jnp.ones(n), "overlaps": ov, "normed_overlaps": ov, "norms": jnp.ones(n) + 0.0j,
            "e_estimate": jnp.array(0.0), "pop_control_ene_shift": jnp.array(0.0)}


def one_average(seed, norb, ne, nchol, dt, ene0):
    import jax.numpy as jnp
    from scipy.linalg import expm
    import fock
    import trials
    rng = random.Random(seed)
    nodes, wts = qd.gh_nodes(nchol, 10 if nchol <= 2 else 8)
    n = len(wts)
    # the propagator's own batching is part of the step: batch counts 1, 2, 4 or one walker per batch, by seed
    pb = [b for b in (1, 2, 4, n) if n % b == 0][seed % len([b for b in (1, 2, 4, n) if n % b == 0])]
    S = qd.build(rng, "uhf", "unrestricted", norb, ne, nchol, dt, True, n, prop_batch=pb)
    # ene0 enters the free-projection constants through ham_data["ene0"]
    hd = dict(S["ham_data"])
    hd["ene0"] = ene0
    hd = S["ham"].build_propagation_intermediates(hd, S["prop"], S["trial"], S["wave_data"])
    Wa, Wb = wf.complex_walker(rng, norb, ne[0]), wf.complex_walker(rng, norb, ne[1])
    walkers = [jnp.array([Wa] * n), jnp.array([Wb] * n)]
    pd = init_free(S, walkers, n)
    out = S["prop"].propagate_free(S["trial"], hd, pd, jnp.array(nodes), S["wave_data"])
    sec = trials.sector_for(norb, ne)
    H = fock.hamiltonian(sec, S["plain"]["h0"], S["plain"]["h1"], S["plain"]["chol"])
    norms = np.array(out["norms"])
    acc = np.zeros(sec.dim, dtype=complex)
    acc_ov = 0.0
    for k in range(n):
        acc += wts[k] * norms[k] * qd.fock_state(sec, out["walkers"], k, False)
        acc_ov += wts[k] * complex(np.array(out["overlaps"])[k])
    phi0 = sec.slater(fock.walker_so(Wa, Wb))
    target = expm(-dt * (H - ene0 * np.eye(sec.dim))) @ phi0
    res = float(np.linalg.norm(acc - target) / np.linalg.norm(target))
    # stored overlaps average to the overlap of the averaged state
    psi = trials.state("uhf", S["trial"], S["wave_data"], S["desc"])[1]
    res_ov = abs(acc_ov - np.vdot(psi, target)) / abs(np.vdot(psi, target))
    return res, float(res_ov)


def multistep(seed, norb, ne, nchol, dt, nsteps, spec_fail):
    """norm bookkeeping over consecutive steps vs the un-normalised product (no QR)"""
    import jax.numpy as jnp
    from jax import random as jr
    import fock
    import trials
    rng = random.Random(seed)
    n = (3, 4, 6)[seed % 3]
    S = qd.build(rng, "uhf", "unrestricted", norb, ne, nchol, dt, True, n, prop_batch=(1, 2, 3)[seed % 3])
    prop, trial, hd, wd = S["prop"], S["trial"], S["ham_data"], S["wave_data"]
    Wa = [wf.complex_walker(rng, norb, ne[0]) for _ in range(n)]
    Wb = [wf.complex_walker(rng, norb, ne[1]) for _ in range(n)]
    walkers = [jnp.array(Wa), jnp.array(Wb)]
    pd = init_free(S, walkers, n)
    raw = [jnp.array(Wa), jnp.array(Wb)]
    sec = trials.sector_for(norb, ne)
    psi = trials.state("uhf", trial, wd, S["desc"])[1]
    key = jr.PRNGKey(seed)
    for t in range(nsteps):
        key, sub = jr.split(key)
        f = jr.normal(sub, (n, nchol))
        pd = prop.propagate_free(trial, hd, pd, f, wd)
        # un-normalised product from the library's own kernel and constants
        shift_term = jnp.einsum("wg,sg->sw", f, hd["mf_shifts_fp"])
        constants = jnp.einsum("sw,s->sw", jnp.exp(-jnp.sqrt(dt) * shift_term), jnp.exp(dt * jnp.array(hd["h0_prop_fp"])))
        raw = prop._apply_trotprop(hd, raw, f)
        raw = prop._multiply_constant(raw, constants)
        for k in range(n):
            a = np.array(pd["norms"])[k] * qd.fock_state(sec, pd["walkers"], k, False)
            b = qd.fock_state(sec, raw, k, False)
            if np.linalg.norm(a - b) > 1e-9 * max(1.0, np.linalg.norm(b)):
                spec_fail.append(("propagator_unrestricted.propagate_free", "accumulated norm x orthonormal walker reproduces the un-normalised product of propagators",
                                  {"step": t + 1, "walker": k, "rel_error": float(np.linalg.norm(a - b) / np.linalg.norm(b)), "seed": seed}))
                return t + 1
            ovs = complex(np.array(pd["overlaps"])[k])
            if abs(ovs - np.vdot(psi, b)) > 1e-9 * max(1.0, abs(ovs)):
                spec_fail.append(("propagator_unrestricted.propagate_free", "stored overlap is the overlap of the un-normalised state",
                                  {"step": t + 1, "walker": k, "stored": str(ovs), "want": str(np.vdot(psi, b)), "seed": seed}))
                return t + 1
            q = [np.array(pd["walkers"][0])[k], np.array(pd["walkers"][1])[k]]
            for blk in q:
                if blk.shape[1] and np.abs(blk.conj().T @ blk - np.eye(blk.shape[1])).max() > 1e-9:
                    spec_fail.append(("propagator_unrestricted.propagate_free", "walkers are re-orthonormalised inside the step", {"step": t + 1}))
                    return t + 1
            nov = complex(np.array(pd["normed_overlaps"])[k])
            if abs(nov - trials.spec_overlap(sec, psi, q[0], q[1])) > 1e-9:
                spec_fail.append(("propagator_unrestricted.propagate_free", "normed_overlaps is the overlap of the orthonormal walker", {"step": t + 1}))
                return t + 1
    return nsteps


def taylor_check(rng, spec_fail):
    import jax.numpy as jnp
    from scipy.linalg import expm
    from ad_afqmc import propagation
    n = 0
    for nexp in (2, 4, 6, 8):
        norb = 3
        prop = propagation.propagator_unrestricted(dt=0.01, n_walkers=1, n_exp_terms=nexp)
        A = systems.sym(systems.dyadic(rng, (norb, norb), 4, 0.5)) * 1j
        w = wf.complex_walker(rng, norb, 2)
        got = np.array(prop._apply_trotprop_det(jnp.eye(norb) + 0.0j, jnp.array(A), jnp.array(w)))
        want = expm(A) @ w
        na = np.linalg.norm(A, 2)
        bound = na ** nexp / math.factorial(nexp) * math.exp(na) * np.linalg.norm(w, 2)
        n += 1
        if np.linalg.norm(got - want, 2) > bound * (1 + 1e-9) + 1e-13:
            spec_fail.append(("propagator._apply_trotprop_det", "truncated exponential agrees with the exact matrix exponential within its Taylor remainder",
                              {"n_exp_terms": nexp, "error": float(np.linalg.norm(got - want, 2)), "bound": float(bound)}))
        # and it IS the truncated series
        series = sum(np.linalg.matrix_power(A, j) @ w / math.factorial(j) for j in range(nexp))
        if np.linalg.norm(got - series) > 1e-12:
            spec_fail.append(("propagator._apply_trotprop_det", "the loop computes sum_{n<K} A^n phi / n!", {"n_exp_terms": nexp}))
    return n


def run(ctx):
    systems.setup_jax()
    rng = random.Random(ctx.seed)
    proofs_ok = ctx.build_and_audit()
    spec_fail = []
    ladder = [0.04, 0.02, 0.01, 0.005]
    cases = [(3, (2, 1), 2), (3, (1, 1), 1), (3, (1, 2), 2), (4, (2, 1), 2), (3, (2, 2), 3)]
    if ctx.tier == "quick":
        cases = cases[:1] + rng.sample(cases[1:4], 2)
    stats, evals = [], 0
    for norb, ne, nchol in cases:
        seed = rng.randrange(1 << 30)
        ene0 = rng.randint(-8, 8) / 4.0
        try:
            res, res_ov = [], []
            for dt in ladder:
                r, ro = one_average(seed, norb, ne, nchol, dt, ene0)
                res.append(r)
                res_ov.append(ro)
                evals += 1
            ratios = [res[i] / res[i + 1] for i in range(len(res) - 1)]
            det = {"norb": norb, "nelec": ne, "nchol": nchol, "ene0": ene0, "seed": seed, "dt_ladder": ladder, "residuals": res, "ratios": ratios,
                   "overlap_residuals": res_ov}
            stats.append(det)
            if not all(x >= 3.0 for x in ratios) or res[-1] > 5e-3:
                spec_fail.append(("propagator_unrestricted.propagate_free", "field average of norm x walker equals exp(-dt (H - ene0)) up to an O(dt^2) residual", det))
            # the overlap residual is a scalar projection of the state residual: its leading dt^2 coefficient can be accidentally small,
            # so that at the coarse end of the ladder higher orders dominate and a halving gains less than 2.5 although the residual is
            # far below the state's own (which passed the >= 3 test).  Only a halving that gains too little while the overlap residual is
            # comparable to the state residual contradicts "O(dt^2)".
            elif res_ov[-1] > 5e-3 or not all(res_ov[i] / max(res_ov[i + 1], 1e-300) >= 2.5 or res_ov[i] <= 0.5 * res[i]
                                              for i in range(len(res_ov) - 1) if res_ov[i + 1] > 1e-10):
                spec_fail.append(("propagator_unrestricted.propagate_free", "field average of the stored overlaps equals the overlap of the averaged state", det))
        except Exception as ex:
            spec_fail.append(("propagator_unrestricted.propagate_free", "quadrature run executes", {"error": repr(ex)[:400]}))
    nms = 3 if ctx.tier == "quick" else 12
    steps_done = 0
    for i in range(nms):
        norb, ne, nchol = rng.choice([(3, (2, 1), 2), (4, (2, 2), 3), (3, (1, 2), 1)])
        steps_done += multistep(rng.randrange(1 << 30), norb, ne, nchol, rng.choice([0.01, 0.05]), rng.randint(1, 5), spec_fail)
    evals += steps_done
    evals += taylor_check(rng, spec_fail)
    ctx.cov["evaluations"] = evals
    ctx.cov["distinct_nontrivial"] = len(stats) * len(ladder) + nms
    ctx.cov["rule"] = ("uhf trial, unrestricted walkers with both spins present (incl. n_dn > n_up), spin-dependent h1, 1-3 Cholesky matrices, arbitrary rdm1 for "
                       "the shift, random ene0; (a) Gauss-Hermite average of norms x walker vs expm(-dt (H - ene0)) over the dt ladder; (b) 1-5 consecutive "
                       "steps: norms x orthonormal walker, stored overlap and normed overlap vs the un-normalised product built from the library's own kernel; "
                       "(c) truncated exponential for n_exp_terms in {2,4,6,8}")
    ctx.cov["samples"] = [json.dumps(stats[0])[:600] if stats else "-"]
    ctx.cov["ladders"] = stats
    ctx.cov["correspondence"] = {"quadrature_runs": len(stats) * len(ladder), "bookkeeping_steps": steps_done}
    ctx.assumptions += ["jnp.linalg.qr meets its specification (monitored in C13)", "order clause validated by the ladder, not proved",
                        "the un-normalised reference product uses the library's own _apply_trotprop / _multiply_constant (tests the bookkeeping, not the kernel)"]
    seen = set()
    for name, clause, det in spec_fail:
        if (name, clause) in seen:
            continue
        seen.add((name, clause))
        if common.known_match("C05", name, clause):
            ctx.known_finding(f"{name}: {clause}")
        else:
            ctx.violation({"where": name, "clause": clause, "detail": det})


def replay(path):
    systems.setup_jax()
    r = json.load(open(path))
    d = r.get("detail", {})
    if "dt_ladder" not in d:
        print(json.dumps(r, indent=1)[:3000])
        return 1
    res = [one_average(d["seed"], d["norb"], tuple(d["nelec"]), d["nchol"], dt, d["ene0"])[0] for dt in d["dt_ladder"]]
    ratios = [res[i] / res[i + 1] for i in range(len(res) - 1)]
    print("residuals", res, "ratios", ratios)
    return 0 if all(x >= 3.0 for x in ratios) else 1
