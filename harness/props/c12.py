"""C12 — sampler entry points: translator-tied equalities (Lean) + option-matrix run of the real code.

Lean side: the generated programs of the entry points coincide after erasing operations that are
the identity under the stated hypothesis (`optimize` on a converged trial, rebuilding intermediates
at zero coupling); arity of every call matches its callee (callability); estimator theorems.
Python side: every entry point is called for the option matrix, the energies that the theorems
equate are compared, the single-block energy is compared with the exact Lean estimator evaluated on
the returned walkers, plus reproducibility and batch independence."""
import json
import random
from fractions import Fraction

import numpy as np

import common
import systems
import translate_sampler

LEVEL = "proof"


def rs(q):
    q = Fraction(q)
    return str(q.numerator) if q.denominator == 1 else f"{q.numerator}/{q.denominator}"


def fr(x):
    return Fraction(float(x))


def call(name, smp, S, coupling=0.0, obs=None, wave_data=None, prop_data=None):
    import jax.numpy as jnp
    pd = systems.copy_prop_data(prop_data if prop_data is not None else S["prop_data"])
    hd = dict(S["ham_data"])
    wd = dict(wave_data if wave_data is not None else S["wave_data"])
    if name == "propagate_phaseless":
        return getattr(smp, name)(S["ham"], hd, S["prop"], pd, S["trial"], wd)
    if name == "propagate_phaseless_ad_1":
        norb = S["ham"].norb
        chol = np.array(hd["chol"])
        eri = jnp.array((chol.T @ chol).reshape(norb, norb, norb, norb))
        return getattr(smp, name)(S["ham"], hd, 1.0, eri, S["prop"], pd, S["trial"], wd)
    if obs is None:
        obs = 0.0 * jnp.array(hd["h1"])
    return getattr(smp, name)(S["ham"], hd, coupling, obs, S["prop"], pd, S["trial"], wd)


def converge_trial(S, n=3):
    wd = dict(S["wave_data"])
    for _ in range(n):
        wd = S["trial"].optimize(dict(S["ham_data"]), wd)
    return wd


def complex_walkers(rng, norb, nelec, n, restricted):
    import jax.numpy as jnp

    def one(k):
        a = systems.dyadic(rng, (norb, k), 3) + 1j * systems.dyadic(rng, (norb, k), 3) + np.eye(norb)[:, :k]
        q, _ = np.linalg.qr(a)
        return q
    if restricted:
        return jnp.array([one(nelec[0]) for _ in range(n)])
    return [jnp.array([one(nelec[0]) for _ in range(n)]), jnp.array([one(nelec[1]) for _ in range(n)])]


def run(ctx):
    systems.setup_jax()
    import jax.numpy as jnp
    from ad_afqmc import sampling
    rng = random.Random(ctx.seed)
    t = translate_sampler.main(common.REPO, common.VERIF)
    ctx.cov["translator_issues"] = t.issues
    proofs_ok = ctx.build_and_audit()
    spec_fail = []
    lines, refs = [], []
    evals = 0
    combos = set()
    tol = 1e-9
    wts = [("restricted", "rhf", (2, 2)), ("unrestricted", "uhf", (2, 1))]
    grids = [(2, 1, 1), (1, 2, 2)] if ctx.tier == "quick" else [(2, 1, 1), (1, 2, 2), (3, 1, 2), (1, 3, 1), (2, 2, 3)]
    entry_all = ["propagate_phaseless", "propagate_phaseless_ad", "propagate_phaseless_ad_nosr",
                 "propagate_phaseless_ad_norot", "propagate_phaseless_ad_nosr_norot", "propagate_phaseless_ad_1"]
    cap_diff_cases = 0
    skipped_scf = [0]
    for wt, tk, nelec in wts:
        for nb in ((1, 2) if ctx.tier == "quick" else (1, 2, 4)):
            for g in (grids if nb == 1 else grids[:1]):
                seed = rng.randrange(1 << 30)
                rs_ = random.Random(seed)
                S = systems.make_system(rs_, tk, wt, norb=4, nelec=nelec, nchol=2, n_walkers=4, dt=0.05,
                                        n_batch=nb, prop_batch=nb, seed=seed, converge=0, h_scale=1.5, l_scale=0.3)
                # converged by a solver that shares no code with trial.optimize
                S = systems.converge_independent(S)
                if S["scf_residual"] > 1e-11:
                    skipped_scf[0] += 1
                    continue
                smp = sampling.sampler(n_prop_steps=g[0], n_ene_blocks=g[1], n_sr_blocks=g[2], n_blocks=1)
                wdc = S["wave_data"]
                desc = {"walker_type": wt, "trial": tk, "n_batch": nb, "grid": g, "seed": seed}
                res = {}
                for name in entry_all:
                    try:
                        e, pd = call(name, smp, S, wave_data=wdc)
                        res[name] = (float(np.real(e)), pd)
                        evals += 1
                        combos.add(json.dumps([name, wt, nb, g]))
                        if not np.isfinite(float(np.real(e))):
                            spec_fail.append((name, "entry point returns a finite energy", {**desc}))
                    except Exception as ex:
                        spec_fail.append((name, "entry point is callable for this option combination", {**desc, "error": repr(ex)[:300]}))
                # the incoming cached overlaps are not an input: every entry point recomputes them from the walkers
                # (the driver hands over states whose cache is stale after stochastic reconfiguration)
                if nb == 1:
                    for name in entry_all:
                        if name not in res:
                            continue
                        try:
                            pdg = systems.copy_prop_data(S["prop_data"])
                            pdg["overlaps"] = jnp.array(np.array(pdg["overlaps"]) * (0.3 + 0.4j) + (0.1 * np.arange(1, len(np.array(pdg["overlaps"])) + 1)))
                            eg, _ = call(name, smp, S, wave_data=wdc, prop_data=pdg)
                            evals += 1
                            if abs(float(np.real(eg)) - res[name][0]) > tol * max(1.0, abs(res[name][0])):
                                spec_fail.append((name, "the returned energy does not depend on the overlaps cached in the incoming state (all entry points agree for the same walkers, weights and seed)",
                                                  {**desc, "with_consistent_cache": res[name][0], "with_stale_cache": float(np.real(eg))}))
                        except Exception as ex:
                            spec_fail.append((name, "entry point is callable on a state with a stale overlap cache", {**desc, "error": repr(ex)[:300]}))
                # the two ways the driver calls the AD entry points both mean "unperturbed Hamiltonian": forward mode passes coupling 0 with
                # the real observable, reverse mode coupling 1 with a zero observable; the primal energy must be the same in both
                if nb == 1:
                    O1 = systems.sym(systems.dyadic(random.Random(seed + 7), (4, 4), 3))
                    obs1 = jnp.array([O1, O1])
                    for name in entry_all:
                        if name not in res or name == "propagate_phaseless":
                            continue
                        for how, cpl, ob in (("forward-mode call (coupling 0, non-zero observable)", 0.0, obs1), ("reverse-mode call (coupling 1, zero observable)", 1.0, None)):
                            try:
                                ef, _ = call(name, smp, S, coupling=cpl, obs=ob, wave_data=wdc)
                                evals += 1
                                if abs(float(np.real(ef)) - res[name][0]) > 1e-9 * max(1.0, abs(res[name][0])):
                                    spec_fail.append((name, "the primal energy at zero effective perturbation does not depend on how the driver passes coupling and observable",
                                                      {**desc, "call": how, "energy": float(np.real(ef)), "energy_zero_coupling_zero_observable": res[name][0]}))
                            except Exception as ex:
                                spec_fail.append((name, "entry point is callable the way the driver calls it", {**desc, "call": how, "error": repr(ex)[:300]}))
                g_ = lambda n: res.get(n, (None, None))[0]

                def same(a, b, clause, tl=tol):
                    if g_(a) is not None and g_(b) is not None and abs(g_(a) - g_(b)) > tl * max(1.0, abs(g_(a))):
                        spec_fail.append((a + " vs " + b, clause, {**desc, a: g_(a), b: g_(b)}))
                same("propagate_phaseless_ad", "propagate_phaseless_ad_norot", "with/without orbital relaxation agree for a converged trial", 1e-7)
                same("propagate_phaseless_ad_nosr", "propagate_phaseless_ad_nosr_norot", "with/without orbital relaxation agree for a converged trial", 1e-7)
                same("propagate_phaseless", "propagate_phaseless_ad_norot", "AD primal energy equals the plain sampler at zero coupling")
                # nosr with k energy blocks = ad with (1, k)
                if g[2] == 1:
                    same("propagate_phaseless_ad_nosr_norot", "propagate_phaseless_ad_norot", "same block structure: with/without reconfiguration return the same energy")
                # reproducibility
                try:
                    e2, _ = call("propagate_phaseless", smp, S, wave_data=wdc)
                    if g_("propagate_phaseless") is not None and float(np.real(e2)) != g_("propagate_phaseless"):
                        spec_fail.append(("propagate_phaseless", "bit-reproducible for a given seed", {**desc, "first": g_("propagate_phaseless"), "second": float(np.real(e2))}))
                except Exception:
                    pass
                # batch independence against n_batch = 1 with the same seed
                if nb > 1:
                    S1 = systems.make_system(random.Random(seed), tk, wt, norb=4, nelec=nelec, nchol=2, n_walkers=4, dt=0.05,
                                             n_batch=1, prop_batch=1, seed=seed, converge=0, h_scale=1.5, l_scale=0.3)
                    S1 = systems.converge_independent(S1)
                    try:
                        e1, _ = call("propagate_phaseless", smp, S1)
                        if g_("propagate_phaseless") is not None and abs(float(np.real(e1)) - g_("propagate_phaseless")) > tol:
                            spec_fail.append(("propagate_phaseless", "independent of how walkers are split into batches",
                                              {**desc, "n_batch_1": float(np.real(e1)), "n_batch_k": g_("propagate_phaseless")}))
                    except Exception as ex:
                        spec_fail.append(("propagate_phaseless", "callable with n_batch = 1", {**desc, "error": repr(ex)[:300]}))
    # single energy block: returned energy = model estimator on the returned walkers
    nsingle = 12 if ctx.tier == "quick" else 60
    for i in range(nsingle):
        wt, tk, nelec = wts[i % 2]
        dt = [0.01, 0.3, 0.5][i % 3]
        steps = 1 if i % 4 == 3 else 0      # 0 steps: the block measures the (orthonormal) initial walkers themselves
        seed = rng.randrange(1 << 30)
        rs_ = random.Random(seed)
        try:
            # pool of random complex walkers; prefer those whose local energy is inside the window in its
            # real part but outside in modulus (large imaginary part) so that the cap's real-part rule is exercised
            S0 = systems.make_system(random.Random(seed), tk, wt, norb=4, nelec=nelec, nchol=2, n_walkers=4, dt=dt, seed=seed,
                                     h_scale=2.0, l_scale=1.0)
            pool = complex_walkers(rs_, 4, nelec, 24, wt == "restricted")
            t24 = type(S0["trial"])(4, nelec, n_batch=1)
            el0 = np.array(t24.calc_energy(pool, S0["ham_data"], S0["wave_data"]))
            e0 = float(np.real(S0["prop_data"]["e_estimate"]))
            b = float(np.sqrt(2.0 / dt))
            score = [(0 if (abs(el0[k].real - e0) <= b < abs(el0[k] - e0)) else 1, k) for k in range(24)]
            pick = [k for _, k in sorted(score)[:2]] + [k for _, k in sorted(score)[-2:]]
            iw = pool[np.array(pick)] if wt == "restricted" else [pool[0][np.array(pick)], pool[1][np.array(pick)]]
            S = systems.make_system(random.Random(seed), tk, wt, norb=4, nelec=nelec, nchol=2, n_walkers=4, dt=dt, seed=seed,
                                    h_scale=2.0, l_scale=1.0, init_walkers=iw)
            # keep the running estimate of the reference system so that the window is where the pool was scored
            S["prop_data"]["e_estimate"] = S0["prop_data"]["e_estimate"]
            S["prop_data"]["pop_control_ene_shift"] = S0["prop_data"]["e_estimate"]
            smp = sampling.sampler(n_prop_steps=steps, n_ene_blocks=1, n_sr_blocks=1, n_blocks=1)
            e, pd = call("propagate_phaseless_ad_nosr_norot", smp, S)
            el = np.array(S["trial"].calc_energy(pd["walkers"], S["ham_data"], S["wave_data"]))
            w = np.array(pd["weights"])
            e_est = float(np.real(S["prop_data"]["e_estimate"]))
            bound2 = fr(2.0) / fr(dt)
            evals += 1
            if float(np.sum(w)) == 0.0:
                continue
            if any(w[k] > 0 and abs(el[k].real - e_est) <= b < abs(el[k] - e_est) for k in range(len(w))):
                cap_diff_cases += 1
            lines.append(f"block {rs(fr(e_est))} {rs(bound2)} {len(w)} " + " ".join(rs(fr(x)) for x in w) + " " + " ".join(rs(fr(x.real)) for x in el))
            refs.append((float(np.real(e)), {"walker_type": wt, "dt": dt, "seed": seed, "steps": steps, "e_estimate": e_est,
                                             "weights": w.tolist(), "re_local_energies": el.real.tolist(), "im_local_energies": el.imag.tolist()}))
        except Exception as ex:
            spec_fail.append(("propagate_phaseless_ad_nosr_norot", "single-block call runs", {"walker_type": wt, "dt": dt, "seed": seed, "error": repr(ex)[:300]}))
    mism, skipped = [], 0
    if lines:
        try:
            model = common.lean_run("C12", lines)
            for k, (e, det) in enumerate(refs):
                d = dict(tok.split("=", 1) for tok in model[k].split(" ") if "=" in tok) if k < len(model) else {}
                if "energy" not in d:
                    continue
                if Fraction(d.get("margin", "1")) < Fraction(1, 10 ** 8):
                    skipped += 1
                    continue
                want = float(Fraction(d["energy"]))
                if abs(e - want) > 1e-9 * max(1.0, abs(want)):
                    spec_fail.append(("propagate_phaseless_ad_nosr_norot",
                                      "single energy block: energy = weight-averaged real local energy of the returned walkers, outliers replaced by the estimate",
                                      {**det, "returned": e, "estimator": want, "capped": d.get("capped")}))
        except Exception as ex:
            ctx.broken.append({"kind": "driver", "error": str(ex)[-1500:]})

    ctx.cov["evaluations"] = evals
    ctx.cov["distinct_nontrivial"] = len(combos) + len(refs)
    ctx.cov["rule"] = ("option matrix: 6 entry points (plain, AD with/without SR, with/without orbital rotation, 2-RDM variant) x walker_type "
                       "{restricted+rhf, unrestricted+uhf} x n_batch {1,2(,4)} x (n_prop_steps, n_ene_blocks, n_sr_blocks) grid, converged trial; "
                       "single-block runs start from random complex walkers at dt in {0.01,0.3,0.5} so that the outlier cap and large imaginary "
                       "local energies occur; the returned energy is compared with the exact Lean estimator on the returned walkers")
    ctx.cov["samples"] = (lines[:1] or ["-"]) + [json.dumps(sorted(combos)[:3])]
    ctx.cov["branches"] = {"single_block_cases": len(refs), "cases_where_cap_differs_between_real_and_complex_test": cap_diff_cases,
                           "near_tie_skipped": skipped}
    ctx.cov["skipped"] = {"option_combinations_whose_plain_Roothaan_iteration_did_not_settle (no converged trial to test with)": skipped_scf[0]}
    ctx.cov["correspondence"] = {"estimator_cases": len(refs), "entry_point_calls": evals}
    ctx.assumptions += ["hypotheses of the equalities: optimize is the identity on a converged trial; rebuilding intermediates at zero coupling reproduces them",
                        "Python call semantics (arity check is static, on the AST)", "jax.random determinism for a fixed key"]
    if t.issues:
        ctx.broken.append({"kind": "translator", "issues": t.issues})
    seen = set()
    for name, clause, det in spec_fail:
        if (name, clause) in seen:
            continue
        seen.add((name, clause))
        if common.known_match("C12", name, clause):
            ctx.known_finding(f"{name}: {clause}")
        else:
            ctx.violation({"entry": name, "clause": clause, "detail": det})


def replay(path):
    systems.setup_jax()
    from ad_afqmc import sampling
    r = json.load(open(path))
    d = r.get("detail", {})
    if "seed" not in d:
        print(json.dumps(r, indent=1)[:3000])
        return 1
    seed = d["seed"]
    rs_ = random.Random(seed)
    wt = d["walker_type"]
    tk, nelec = ("rhf", (2, 2)) if wt == "restricted" else ("uhf", (2, 1))
    if "dt" in d:
        # re-run the same single-block case (same seed => same pool, same selection)
        class _C:  # minimal ctx stand-in
            pass
        el = np.array(d["re_local_energies"]); w = np.array(d["weights"]); e_est = d["e_estimate"]
        capped = np.where(np.abs(el - e_est) > np.sqrt(2.0 / d["dt"]), e_est, el)
        want = float(np.sum(w * capped) / np.sum(w))
        print("recorded: returned", d.get("returned"), "estimator on the returned walkers", want,
              "max |Im E_L|", max(abs(x) for x in d["im_local_energies"]))
        return 1 if abs(d.get("returned", want) - want) > 1e-9 * max(1, abs(want)) else 0
    print(json.dumps(r, indent=1)[:3000])
    return 1
