"""C17 — modified Cholesky: correspondence of the returned vectors with the exact square-root-free Lean
model (K = Q), element-wise reconstruction bound on the implementation, exactness of the JAX routine at
nchol = rank, and jvp vs finite differences / identity."""
import json
import os
import math
import random
from fractions import Fraction

import numpy as np

import common
import systems

LEVEL = "proof"
EPS_NP = Fraction(1e-10)


def rs(q):
    q = Fraction(q)
    return str(q.numerator) if q.denominator == 1 else f"{q.numerator}/{q.denominator}"


def fr(x):
    return Fraction(float(x))


# ---------------------------------------------------------------- generators (exactly PSD, dyadic)
def gen_psd(rng, kind):
    n = rng.choice([1, 2, 3, 4, 5, 6])
    if kind == "rank_one":
        r = 1
    elif kind == "full":
        r = n + rng.choice([0, 1])
    elif kind == "low":
        r = max(1, n - rng.choice([1, 2, 3]))
    else:
        r = rng.randint(1, n)
    B = np.array([[rng.randint(-8, 8) / 4.0 for _ in range(r)] for _ in range(n)])
    if kind == "integer":
        B = np.array([[float(rng.randint(-3, 3)) for _ in range(r)] for _ in range(n)])
    M = B @ B.T
    if kind == "scaled":
        D = np.diag([2.0 ** rng.randint(-10, 10) for _ in range(n)])
        M = D @ M @ D
    if kind == "repeated":
        # equal diagonal entries (tied pivots): c*I + a*J restricted
        c, a = rng.randint(1, 8) / 2.0, rng.randint(0, 4) / 4.0
        M = c * np.eye(n) + a * np.ones((n, n))
    if not M.any():
        M[0, 0] = 1.0
    rank = np.linalg.matrix_rank(M)
    return M, int(rank)


KINDS = ["low", "full", "rank_one", "scaled", "repeated", "any", "integer"]


def model_vecs(line):
    d = {}
    head, vecs = line.split(" vecs=")
    for tok in head.split(" "):
        if "=" in tok:
            k, v = tok.split("=", 1)
            d[k] = v
    import re
    out = []
    for m in re.finditer(r"(\d+);([^;\[\]]+);\[([^\]]*)\]", vecs):
        out.append((int(m.group(1)), Fraction(m.group(2)), [Fraction(x) for x in m.group(3).split(",") if x != ""]))
    return d, out


def pivot_margin(M, vecs):
    """exact gap between the chosen pivot's |residual diagonal| and the runner-up, relative, minimum over steps"""
    n = M.shape[0]
    diag = [fr(M[i, i]) for i in range(n)]
    worst = Fraction(10)
    for (piv, d, u) in vecs:
        top = abs(diag[piv])
        others = [abs(diag[i]) for i in range(n) if i != piv]
        if top != 0 and others:
            worst = min(worst, (top - max(others)) / top)
        if d != 0:
            diag = [diag[i] - u[i] * u[i] / d for i in range(n)]
    return worst


def compare_vecs(L, vecs, tol=1e-6):
    if L.shape[0] != len(vecs):
        return f"number of vectors: impl {L.shape[0]} model {len(vecs)}"
    for g, (piv, d, u) in enumerate(vecs):
        if d <= 0:
            return None
        want = np.array([float(x) for x in u]) / math.sqrt(float(d))
        scale = max(1e-300, np.abs(want).max())
        if np.abs(L[g] - want).max() > tol * scale + 1e-12:
            return f"vector {g}: impl {L[g][:6]} model {want[:6]}"
    return None


def run(ctx):
    import jax
    jax.config.update("jax_enable_x64", True)
    import jax.numpy as jnp
    from ad_afqmc import pyscf_interface as pi
    from ad_afqmc import linalg_utils as lu
    rng = random.Random(ctx.seed)
    proofs_ok = ctx.build_and_audit()
    ncase = 48 if ctx.tier == "quick" else 300
    lines, refs = [], []
    spec_fail = []
    dist = {}
    nontrivial = set()
    for i in range(ncase):
        kind = KINDS[i % len(KINDS)]
        M, rank = gen_psd(rng, kind)
        n = M.shape[0]
        dist[kind] = dist.get(kind, 0) + 1
        if n > 1:
            nontrivial.add(M.tobytes())
        err = rng.choice([1e-2, 1e-4, 1e-6, 1e-8])
        # --- NumPy routine
        try:
            L = np.array(pi.modified_cholesky(M.copy(), err))
            rec = L.T @ L
            e = np.abs(rec - M).max()
            scale = np.abs(M).max()
            if not np.isfinite(L).all() or e > err + 3e-10 + 1e-13 * scale:
                spec_fail.append(("pyscf_interface.modified_cholesky", "Gram matrix reproduces the input to within the threshold (element-wise)",
                                  {"M": M.tolist(), "max_error": err, "got_error": float(e), "nvec": int(L.shape[0]), "rank": rank, "kind": kind}))
        except Exception as ex:
            L = None
            spec_fail.append(("pyscf_interface.modified_cholesky", "routine returns", {"M": M.tolist(), "max_error": err, "error": repr(ex)[:200]}))
        lines.append(f"numpy {rs(EPS_NP)} {rs(fr(err))} {n} " + " ".join(rs(fr(x)) for x in M.flatten()))
        refs.append(("numpy", M, err, L, rank))
        # --- the same matrix handed over with an integer dtype when it is integer-valued (lattice interaction matrices are
        # routinely built that way): the factorisation is a statement about the matrix, not about its storage type
        if L is not None and np.all(M == np.round(M)) and n > 1:
            try:
                Li = np.array(pi.modified_cholesky(M.astype(np.int64), err), dtype=float)
                ei = np.abs(Li.T @ Li - M).max()
                dist["integer_dtype"] = dist.get("integer_dtype", 0) + 1
                if not np.isfinite(Li).all() or ei > err + 3e-10 + 1e-13 * np.abs(M).max():
                    spec_fail.append(("pyscf_interface.modified_cholesky", "Gram matrix reproduces an integer-typed input to within the threshold (element-wise)",
                                      {"M": M.astype(int).tolist(), "dtype": "int64", "max_error": err, "got_error": float(ei), "nvec": int(Li.shape[0])}))
            except Exception as ex:
                spec_fail.append(("pyscf_interface.modified_cholesky", "routine returns for an integer-typed input", {"M": M.tolist(), "error": repr(ex)[:200]}))
        # --- JAX routine at nchol = rank
        try:
            Lj = np.array(lu.modified_cholesky(jnp.array(M), n, rank))
            e = np.abs(Lj.T @ Lj - M).max()
            if not np.isfinite(Lj).all() or e > 1e-9 * max(1.0, np.abs(M).max()):
                spec_fail.append(("linalg_utils.modified_cholesky", "exact when asked for as many vectors as the rank",
                                  {"M": M.tolist(), "nchol": rank, "got_error": float(e), "kind": kind}))
        except Exception as ex:
            Lj = None
            spec_fail.append(("linalg_utils.modified_cholesky", "routine returns", {"M": M.tolist(), "nchol": rank, "error": repr(ex)[:200]}))
        lines.append(f"jax {rank} {n} " + " ".join(rs(fr(x)) for x in M.flatten()))
        refs.append(("jax", M, rank, Lj, rank))
    try:
        model = common.lean_run("C17", lines)
    except Exception as ex:
        model = None
        ctx.broken.append({"kind": "driver", "error": str(ex)[-1500:]})
    mism, skipped, compared = [], 0, 0
    if model is not None:
        for k, (what, M, par, L, rank) in enumerate(refs):
            if L is None or k >= len(model) or " vecs=" not in model[k]:
                if L is not None:
                    mism.append({"routine": what, "M": M.tolist(), "model": (model[k][:200] if k < len(model) else None)})
                continue
            d, vecs = model_vecs(model[k])
            if pivot_margin(M, vecs) < Fraction(1, 10 ** 6):
                skipped += 1
                # the number of vectors does not depend on which of two tied pivots is taken first only
                # for exactly symmetric ties; not compared
                continue
            compared += 1
            # threshold decision margin (NumPy loop exit): residual maxima close to max_error
            if what == "numpy":
                dm = abs(Fraction(d.get("deltamax", "0")))
                if abs(dm - fr(par)) < Fraction(1, 10 ** 9) + fr(par) / 1000:
                    skipped += 1
                    continue
            msg = compare_vecs(L, vecs)
            if msg:
                mism.append({"routine": what, "M": M.tolist(), "param": par, "detail": msg})
                # the model's vectors are the ones whose reconstruction bounds are theorems (pivot and threshold decisions are
                # away from ties here): different vectors on a concrete matrix are a concrete failing input
                spec_fail.append((("linalg_utils" if what == "jax" else "pyscf_interface") + ".modified_cholesky",
                                  "the vectors are those of the pivoted Cholesky recursion (exact at the rank, element-wise bound at the threshold)",
                                  {"M": M.tolist(), "parameter": par, "difference": msg[:400]}))

    # ---- differentiability of the JAX routine (implementation vs identity / finite differences)
    nder = 8 if ctx.tier == "quick" else 60
    der_cases = 0
    for i in range(nder):
        n = rng.choice([2, 3, 4])
        B = np.array([[rng.randint(-8, 8) / 4.0 for _ in range(n + 1)] for _ in range(n)])
        M = B @ B.T + np.diag([rng.randint(1, 4) / 2.0 for _ in range(n)])
        full = rng.random() < 0.6
        k = n if full else rng.randint(1, n - 1) if n > 1 else 1
        T = np.array([[rng.randint(-4, 4) / 4.0 for _ in range(n)] for _ in range(n)])
        T = (T + T.T) / 2
        if rng.random() < 0.4:
            T = np.diag(np.diag(T)) + (0 if rng.random() < 0.5 else 0.25 * np.eye(n))  # purely diagonal directions
        f = lambda A: (lambda Lx: Lx.T @ Lx)(lu.modified_cholesky(A, n, k))
        try:
            val, tan = jax.jvp(f, (jnp.array(M),), (jnp.array(T),))
            tan = np.array(tan)
            h = 1e-5
            fd = (np.array(f(jnp.array(M + h * T))) - np.array(f(jnp.array(M - h * T)))) / (2 * h)
            der_cases += 1
            if not np.isfinite(tan).all():
                spec_fail.append(("linalg_utils.modified_cholesky", "finite derivatives", {"M": M.tolist(), "T": T.tolist(), "nchol": k}))
            elif np.abs(tan - fd).max() > 1e-5 * max(1.0, np.abs(fd).max()):
                spec_fail.append(("linalg_utils.modified_cholesky", "derivatives match finite differences of the reconstructed matrix",
                                  {"M": M.tolist(), "T": T.tolist(), "nchol": k, "jvp": tan.tolist(), "fd": fd.tolist()}))
            elif full and np.abs(tan - T).max() > 1e-8 * max(1.0, np.abs(T).max()):
                spec_fail.append(("linalg_utils.modified_cholesky", "full rank: reconstruct(chol(M)) = M, so the derivative is the tangent itself",
                                  {"M": M.tolist(), "T": T.tolist(), "jvp": tan.tolist()}))
        except Exception as ex:
            spec_fail.append(("linalg_utils.modified_cholesky", "jvp runs", {"M": M.tolist(), "error": repr(ex)[:200]}))

    # ---- shell-chunked variant on small molecules (needs pyscf)
    mol_cases = 0
    try:
        from pyscf import gto
        mols = [("H 0 0 0; H 0 0 0.74", "sto-3g"), ("H 0 0 0; H 0 0 0.9; H 0 0 1.9; H 0 0 2.8", "sto-3g"), ("H 0 0 0; H 0 0 0.8", "6-31g")]
        if ctx.tier == "thorough":
            mols += [("Li 0 0 0; H 0 0 1.6", "sto-3g"), ("H 0 0 0; H 0 1.1 0; H 1.2 0 0", "sto-3g")]
        for atom, basis in mols:
            mol = gto.M(atom=atom, basis=basis, verbose=0, spin=(1 if atom.count("H") % 2 == 1 and "Li" not in atom else 0))
            nao = mol.nao_nr()
            eri = mol.intor("int2e_sph").reshape(nao * nao, nao * nao)
            for err in (1e-3, 1e-6):
                Lc = pi.chunked_cholesky(mol, max_error=err)
                e = np.abs(Lc.T @ Lc - eri).max()
                mol_cases += 1
                if e > err + 1e-9:
                    spec_fail.append(("pyscf_interface.chunked_cholesky", "Gram matrix reproduces the ERI matrix to within the threshold",
                                      {"atom": atom, "basis": basis, "max_error": err, "got_error": float(e), "nvec": int(Lc.shape[0])}))
            # the same routine as the interface reaches it: generate_integrals with the user's threshold
            # (identity basis, so the bound stays element-wise on the ERI matrix itself)
            for err in (1e-3, 1e-8, 1e-10):
                _, Lg, _, _ = pi.generate_integrals(mol, mol.intor("int1e_kin") + mol.intor("int1e_nuc"), np.eye(nao), chol_cut=err)
                Lg = np.asarray(Lg).reshape(-1, nao * nao)
                e = np.abs(Lg.T @ Lg - eri).max()
                mol_cases += 1
                if e > err + 1e-12:
                    spec_fail.append(("pyscf_interface.generate_integrals", "Cholesky vectors produced for a requested threshold reproduce the ERI matrix to within that threshold",
                                      {"atom": atom, "basis": basis, "chol_cut": err, "got_error": float(e), "nvec": int(Lg.shape[0])}))
        # the call site of the JAX routine: the 2-RDM entry point of the sampler re-factorises the two-body operator it is handed; the
        # vectors it then works with must reproduce that operator (as many vectors as the Hamiltonian carries, also when that is more
        # than norb (norb - 1) / 2)
        try:
            import jax
            import jax.numpy as jnp
            from ad_afqmc import sampling as _sampling, linalg_utils as _lu
            for norb2, ne2, nch in ((2, (1, 1), 3), (3, (1, 1), 5)):
                sd = rng.randrange(1 << 30)
                S = systems.make_system(random.Random(sd), "rhf", "restricted", norb=norb2, nelec=ne2, nchol=nch, n_walkers=2, dt=0.01, seed=sd)
                chol = np.array(S["ham_data"]["chol"]).reshape(nch, -1)
                eri = jnp.array(chol.T @ chol).reshape(norb2, norb2, norb2, norb2)
                rec = []
                orig = _lu.modified_cholesky

                def spy(mat, *a, **k):
                    out = orig(mat, *a, **k)
                    rec.append((np.array(mat), np.array(out)))
                    return out
                _lu.modified_cholesky = spy
                try:
                    with jax.disable_jit():
                        smp2 = _sampling.sampler(n_prop_steps=1, n_ene_blocks=1, n_sr_blocks=1, n_blocks=1)
                        smp2.propagate_phaseless_ad_1(S["ham"], dict(S["ham_data"]), 1.0, eri, S["prop"], systems.copy_prop_data(S["prop_data"]), S["trial"], dict(S["wave_data"]))
                finally:
                    _lu.modified_cholesky = orig
                mol_cases += 1
                if not rec:
                    spec_fail.append(("sampler.propagate_phaseless_ad_1", "the 2-RDM entry point factorises the operator it is handed", {"norb": norb2, "nchol": nch}))
                for mat, L in rec:
                    L = L.reshape(L.shape[0], -1)
                    e = float(np.abs(L.T @ L - mat).max())
                    if not e <= 1e-8:
                        spec_fail.append(("sampler.propagate_phaseless_ad_1", "Cholesky vectors used by the 2-RDM entry point reproduce the two-body operator it was handed",
                                          {"norb": norb2, "nchol_of_hamiltonian": nch, "vectors_returned": int(L.shape[0]), "reconstruction_error": e, "seed": sd}))
                        break
        except Exception as ex:
            spec_fail.append(("sampler.propagate_phaseless_ad_1", "2-RDM entry point runs", {"error": repr(ex)[:300]}))
        # the user-supplied-integrals route of prep_afqmc: the same two-electron integrals handed over in each layout pyscf produces
        # (4-index, 4-fold packed matrix, 8-fold packed vector, full norb^2 x norb^2 matrix) must be written as Cholesky vectors
        # that reproduce them to within chol_cut
        import contextlib, io, tempfile
        import molecules as M
        from pyscf import ao2mo
        for nsite, ne in ((3, (2, 1)), (4, (2, 2))):
            rl = random.Random(rng.randrange(1 << 30))
            mol, mf, ints = M.lattice_mf(rl, nsite, ne, 2.0)
            Bs = [systems.sym(systems.dyadic(rl, (nsite, nsite), 3, 0.5)) for _ in range(nsite + 1)]
            eri4 = sum(np.einsum("ij,kl->ijkl", b, b) for b in Bs)        # 8-fold symmetric, positive semi-definite, not diagonal
            full = eri4.reshape(nsite * nsite, nsite * nsite)
            layouts = {"4-index": eri4, "4-fold packed matrix": ao2mo.restore(4, eri4, nsite), "8-fold packed vector": ao2mo.restore(8, eri4, nsite),
                       "full norb^2 x norb^2 matrix": full}
            for name, h2 in layouts.items():
                cwd = os.getcwd()
                try:
                    with tempfile.TemporaryDirectory() as td:
                        os.chdir(td)
                        with contextlib.redirect_stdout(io.StringIO()):
                            pi.prep_afqmc(mf, basis_coeff=np.eye(nsite), chol_cut=1e-8, integrals={"h0": 0.0, "h1": np.array(ints["h1"]), "h2": np.array(h2)})
                        _, _, _, chol, _ = M.read_fcidump("FCIDUMP_chol")
                    os.chdir(cwd)
                    Lw = chol.reshape(-1, nsite * nsite)
                    e = float(np.abs(Lw.T @ Lw - full).max())
                    mol_cases += 1
                    if not e <= 1e-8 + 1e-12:
                        spec_fail.append(("pyscf_interface.prep_afqmc (user-supplied integrals)", "Cholesky vectors written for supplied two-electron integrals reproduce them to within chol_cut",
                                          {"norb": nsite, "layout": name, "chol_cut": 1e-8, "got_error": e, "nvec": int(Lw.shape[0])}))
                except Exception as ex:
                    os.chdir(cwd)
                    spec_fail.append(("pyscf_interface.prep_afqmc (user-supplied integrals)", "preparation from supplied integrals runs",
                                      {"norb": nsite, "layout": name, "error": repr(ex)[:300]}))
    except ImportError:
        ctx.notes.append("pyscf not importable: chunked_cholesky not exercised")

    ctx.cov["evaluations"] = len(refs) + der_cases + mol_cases
    ctx.cov["distinct_nontrivial"] = len(nontrivial)
    ctx.cov["rule"] = ("exactly PSD dyadic matrices B B^T of 6 kinds (low rank, full rank, rank one, badly scaled diagonals 2^-10..2^10, "
                       "repeated pivots c I + a J, any), n = 1..6, thresholds 1e-2..1e-8; NumPy routine and JAX routine at nchol = rank compared "
                       "vector by vector with the exact model (cases with a pivot choice within 1e-6 of a tie or a loop exit within 0.1% of the "
                       "threshold are skipped and counted); reconstruction bound, exactness, jvp = finite differences (= tangent at full rank) and "
                       "the shell-chunked variant on small molecules are checked on the implementation; non-trivial = n > 1")
    ctx.cov["samples"] = [lines[0][:300], lines[1][:300]]
    ctx.cov["distribution"] = dist
    ctx.cov["skipped"] = {"pivot_tie_or_threshold_tie": skipped}
    ctx.cov["correspondence"] = {"compared": compared, "mismatches": len(mism), "derivative_cases": der_cases, "molecule_cases": mol_cases}
    ctx.assumptions += ["sqrt and IEEE rounding (model is square-root free and exact)",
                        "jax.jvp / lax.scan differentiation (the AD clause is compared with finite differences and with the identity, not proved)",
                        "pyscf integrals for the shell-chunked variant"]
    if mism:
        ctx.broken.append({"kind": "correspondence", "first": mism[:3], "count": len(mism)})
    seen = set()
    for name, clause, det in spec_fail:
        if (name, clause) in seen:
            continue
        seen.add((name, clause))
        if common.known_match("C17", name, clause):
            ctx.known_finding(f"{name}: {clause}")
        else:
            ctx.violation({"routine": name, "clause": clause, "detail": det})


def replay(path):
    import jax
    jax.config.update("jax_enable_x64", True)
    import jax.numpy as jnp
    from ad_afqmc import pyscf_interface as pi
    from ad_afqmc import linalg_utils as lu
    r = json.load(open(path))
    d = r.get("detail")
    if not d or "M" not in d:
        print(json.dumps(r, indent=1)[:3000])
        return 1
    M = np.array(d["M"])
    if "max_error" in d:
        L = np.array(pi.modified_cholesky(M.copy(), d["max_error"]))
        e = np.abs(L.T @ L - M).max()
        print("vectors", L.shape[0], "reconstruction error", e, "threshold", d["max_error"])
        return 1 if e > d["max_error"] + 3e-10 else 0
    if "T" in d:
        n = M.shape[0]
        k = d.get("nchol", n)
        f = lambda A: (lambda Lx: Lx.T @ Lx)(lu.modified_cholesky(A, n, k))
        _, tan = jax.jvp(f, (jnp.array(M),), (jnp.array(d["T"]),))
        h = 1e-5
        T = np.array(d["T"])
        fd = (np.array(f(jnp.array(M + h * T))) - np.array(f(jnp.array(M - h * T)))) / (2 * h)
        e = np.abs(np.array(tan) - fd).max()
        print("jvp vs finite differences:", e)
        return 1 if e > 1e-5 * max(1.0, np.abs(fd).max()) else 0
    print(json.dumps(r, indent=1)[:2000])
    return 1
