"""C14 — walkers evolve independently; batching and storage format change nothing.

Lean: per-walker routines are maps (permutation equivariance, batch independence for every split),
the shift depends on the symmetric weight sum, restricted = unrestricted per-walker quantities on
equal blocks.  Tie: every batched measurement routine and prop.propagate / _apply_trotprop under
random permutations and every divisor batch count; rhf+restricted vs uhf+unrestricted trajectories
through propagate and through the sampler with the same seed."""
import json
import random

import numpy as np

import common
import systems
import wf

LEVEL = "proof"


def permute(x, p):
    import jax.numpy as jnp
    if isinstance(x, list):
        return [jnp.array(np.array(b)[p]) for b in x]
    return jnp.array(np.array(x)[p])


def flat(w):
    return np.concatenate([np.array(b).ravel() for b in w]) if isinstance(w, list) else np.array(w).ravel()


def run(ctx):
    systems.setup_jax()
    import jax.numpy as jnp
    from jax import random as jr
    import trials
    from ad_afqmc import sampling
    rng = random.Random(ctx.seed)
    proofs_ok = ctx.build_and_audit()
    spec_fail = []
    evals = 0
    dist = {}
    n = 6
    kinds = [("rhf", 4, (2, 2)), ("uhf", 4, (2, 1)), ("ghf", 3, (2, 1)), ("noci", 3, (1, 1)), ("multislater", 4, (2, 1)),
             ("cisd", 4, (2, 2)), ("UCISD", 3, (2, 1)), ("GCISD", 3, (1, 1)), ("CISD", 3, (1, 1))]
    if ctx.tier == "quick":
        kinds = kinds[:3] + rng.sample(kinds[3:], 3)
    for kind, norb, ne in kinds:
        trial, wd, desc = trials.make(kind, rng, norb, ne, **wf.make_opts(kind, rng))
        ham, plain = trials.make_ham(rng, norb, nchol=2)
        ham = trial._build_measurement_intermediates(dict(ham), wd)
        ronly = kind in trials.RESTRICTED_ONLY
        ws = wf.walkers(rng, norb, ne, n, restricted=ronly or (kind == "rhf" and rng.random() < 0.5))
        dist[kind] = dist.get(kind, 0) + 1
        perm = list(range(n))
        rng.shuffle(perm)
        perm = np.array(perm)
        base = {}
        for nb in (1, 2, 3, 6):
            tb = type(trial)(**{k: v for k, v in trial.__dict__.items() if k not in ("n_batch", "eps")}, n_batch=nb)
            try:
                out = {"overlap": np.array(tb.calc_overlap(ws, wd)), "force_bias": np.array(tb.calc_force_bias(ws, ham, wd)),
                       "energy": np.array(tb.calc_energy(ws, ham, wd))}
                outp = {"overlap": np.array(tb.calc_overlap(permute(ws, perm), wd)), "force_bias": np.array(tb.calc_force_bias(permute(ws, perm), ham, wd)),
                        "energy": np.array(tb.calc_energy(permute(ws, perm), ham, wd))}
            except Exception as ex:
                spec_fail.append((kind, "batched measurement routines run for every divisor batch count", {"n_batch": nb, "error": repr(ex)[:300]}))
                continue
            evals += 6
            for name in out:
                tol = 1e-10 if name != "energy" else (1e-10 if kind in ("rhf", "uhf", "ghf", "noci") else 1e-6)
                if nb == 1:
                    base[name] = out[name]
                elif name in base and np.abs(out[name] - base[name]).max() > tol * max(1.0, np.abs(base[name]).max()):
                    spec_fail.append((kind, f"changing the number of batches changes no output ({name})",
                                      {"norb": norb, "nelec": ne, "n_batch": nb, "max_diff": float(np.abs(out[name] - base[name]).max())}))
                if np.abs(outp[name] - out[name][perm]).max() > tol * max(1.0, np.abs(out[name]).max()):
                    spec_fail.append((kind, f"permuting the walkers permutes the outputs in the same way ({name})",
                                      {"norb": norb, "nelec": ne, "n_batch": nb, "max_diff": float(np.abs(outp[name] - out[name][perm]).max())}))
    # ---- storage format at the public entry points: array W vs list [W, W] for every kind that offers both
    fmt_cases = 0
    for kind, norb, ne in [("rhf", 4, (2, 2)), ("uhf", 4, (2, 2)), ("noci", 3, (1, 1)), ("multislater", 4, (2, 2)), ("multislater", 3, (1, 1)),
                           ("UCISD", 3, (1, 1)), ("ucisd", 4, (2, 2)), ("ghf", 3, (1, 1))]:
        if not trials.supported(kind, norb, ne) or kind in trials.RESTRICTED_ONLY:
            continue
        try:
            trial, wd, desc = trials.make(kind, rng, norb, ne, **wf.make_opts(kind, rng))
            ham, plain = trials.make_ham(rng, norb, nchol=2)
            ham = trial._build_measurement_intermediates(dict(ham), wd)
            W = wf.walkers(rng, norb, ne, 4, restricted=True)
            for name, fn in (("overlap", lambda w: trial.calc_overlap(w, wd)), ("force_bias", lambda w: trial.calc_force_bias(w, ham, wd)),
                             ("energy", lambda w: trial.calc_energy(w, ham, wd))):
                try:
                    a = np.array(fn(W))
                except NotImplementedError:
                    continue
                b = np.array(fn([W, W]))
                fmt_cases += 1
                tol = 1e-9 if (name != "energy" or kind in ("rhf", "uhf", "ghf", "noci")) else (5e-4 if kind == "ucisd" else 1e-5)
                if a.shape != b.shape or np.abs(a - b).max() > tol * max(1.0, np.abs(b).max()):
                    spec_fail.append((kind, f"restricted walkers W and unrestricted walkers [W, W] give the same {name}",
                                      {"norb": norb, "nelec": ne, "max_diff": float(np.abs(a - b).max()) if a.shape == b.shape else None,
                                       "max_excitation": getattr(trial, "max_excitation", None)}))
        except NotImplementedError:
            continue
        except Exception as ex:
            spec_fail.append((kind, "both storage formats can be evaluated", {"norb": norb, "nelec": ne, "error": repr(ex)[:300]}))
    evals += fmt_cases
    # ---- global (gather/scatter) reconfiguration: both storage formats, same key, equal spin blocks
    from ad_afqmc import config, propagation
    for rep in range(3):
        try:
            norb, k, n = 4, 2, 6
            W = wf.walkers(rng, norb, (k, k), n, restricted=True)
            wts = jnp.array([rng.choice([0.25, 0.5, 1.0, 2.0, 3.5]) for _ in range(n)])
            key = jr.PRNGKey(rng.randrange(1 << 30))
            pr = propagation.propagator_restricted(n_walkers=n)
            pu = propagation.propagator_unrestricted(n_walkers=n)
            # the jitted local routine first
            lr = pr.stochastic_reconfiguration_local({"walkers": W, "weights": wts, "key": key})
            lu = pu.stochastic_reconfiguration_local({"walkers": [W, W], "weights": wts, "key": key})
            evals += 2
            if np.abs(np.array(lu["walkers"][0]) - np.array(lr["walkers"])).max() > 0 or np.abs(np.array(lu["walkers"][1]) - np.array(lr["walkers"])).max() > 0 \
                    or np.abs(np.array(lu["weights"]) - np.array(lr["weights"])).max() > 1e-12:
                spec_fail.append(("stochastic_reconfiguration_local", "restricted and unrestricted containers select the same walkers with the same weights (both spin blocks of a walker together)",
                                  {"weights": [float(x) for x in wts], "up_equals_restricted": bool(np.abs(np.array(lu["walkers"][0]) - np.array(lr["walkers"])).max() == 0),
                                   "dn_equals_restricted": bool(np.abs(np.array(lu["walkers"][1]) - np.array(lr["walkers"])).max() == 0)}))
            dr = pr.stochastic_reconfiguration_global({"walkers": W, "weights": wts, "key": key}, config.not_a_comm())
            du = pu.stochastic_reconfiguration_global({"walkers": [W, W], "weights": wts, "key": key}, config.not_a_comm())
            evals += 2
            same_key = np.array_equal(np.array(jr.key_data(dr["key"]) if hasattr(jr, "key_data") else dr["key"]),
                                      np.array(jr.key_data(du["key"]) if hasattr(jr, "key_data") else du["key"]))
            if not same_key:
                spec_fail.append(("stochastic_reconfiguration_global", "restricted and unrestricted containers leave the run in the same random-number state",
                                  {"restricted_key": np.array(dr["key"]).tolist(), "unrestricted_key": np.array(du["key"]).tolist()}))
            if np.abs(np.array(du["walkers"][0]) - np.array(dr["walkers"])).max() > 0 or np.abs(np.array(du["walkers"][1]) - np.array(dr["walkers"])).max() > 0 \
                    or np.abs(np.array(du["weights"]) - np.array(dr["weights"])).max() > 0:
                spec_fail.append(("stochastic_reconfiguration_global", "restricted and unrestricted containers select the same walkers with the same weights", {}))
            if np.array_equal(np.array(dr["key"]), np.array(key)) or np.array_equal(np.array(du["key"]), np.array(key)):
                spec_fail.append(("stochastic_reconfiguration_global", "the random-number state advances (the same comb offset is never reused)", {}))
        except Exception as ex:
            spec_fail.append(("stochastic_reconfiguration_global", "global reconfiguration runs for both containers", {"error": repr(ex)[:300]}))
    # ---- initialisation from a user-supplied, heterogeneous population (a restart): the initial energy estimate / shift is a
    # symmetric function of the population and the same for both containers
    for rep in range(2):
        try:
            seed = rng.randrange(1 << 30)
            Sr = systems.make_system(random.Random(seed), "rhf", "restricted", norb=4, nelec=(2, 2), nchol=2, n_walkers=4, dt=0.05, seed=seed, converge=3)
            Su = systems.make_system(random.Random(seed), "uhf_same", "unrestricted", norb=4, nelec=(2, 2), nchol=2, n_walkers=4, dt=0.05, seed=seed)
            c = Sr["wave_data"]["mo_coeff"]
            Su["wave_data"]["mo_coeff"] = [c, c]
            Su["ham_data"] = Su["ham"].build_measurement_intermediates(dict(Su["ham_data"]), Su["trial"], Su["wave_data"])
            W = wf.walkers(rng, 4, (2, 2), 4, restricted=True)
            perm = np.array([2, 0, 3, 1])
            er = complex(Sr["prop"].init_prop_data(Sr["trial"], Sr["wave_data"], Sr["ham_data"], W)["e_estimate"])
            eu = complex(Su["prop"].init_prop_data(Su["trial"], Su["wave_data"], Su["ham_data"], [W, W])["e_estimate"])
            eup = complex(Su["prop"].init_prop_data(Su["trial"], Su["wave_data"], Su["ham_data"], [W[perm], W[perm]])["e_estimate"])
            erp = complex(Sr["prop"].init_prop_data(Sr["trial"], Sr["wave_data"], Sr["ham_data"], W[perm])["e_estimate"])
            evals += 4
            if abs(er - eu) > 1e-9 * max(1.0, abs(er)):
                spec_fail.append(("init_prop_data", "restricted and unrestricted containers start from the same energy estimate for the same heterogeneous population",
                                  {"seed": seed, "restricted": str(er), "unrestricted": str(eu)}))
            if abs(eu - eup) > 1e-9 * max(1.0, abs(eu)) or abs(er - erp) > 1e-9 * max(1.0, abs(er)):
                spec_fail.append(("init_prop_data", "the initial energy estimate is a symmetric function of the population (unchanged by permuting the walkers)",
                                  {"seed": seed, "unrestricted": [str(eu), str(eup)], "restricted": [str(er), str(erp)]}))
        except Exception as ex:
            spec_fail.append(("init_prop_data", "initialisation from supplied walkers runs", {"error": repr(ex)[:300]}))
    # ---- propagate / _apply_trotprop: permutation and batch count
    for wt, tk, ne in (("restricted", "rhf", (2, 2)), ("unrestricted", "uhf", (2, 1))):
        seed = rng.randrange(1 << 30)
        outs = {}
        for nb in (1, 2, 3):
            S = systems.make_system(random.Random(seed), tk, wt, norb=4, nelec=ne, nchol=2, n_walkers=6, dt=0.05, n_batch=nb, prop_batch=nb, seed=seed)
            ws = wf.walkers(random.Random(seed + 1), 4, ne, 6, restricted=(wt == "restricted"))
            pd = systems.copy_prop_data(S["prop_data"])
            pd["walkers"] = ws
            pd["overlaps"] = S["trial"].calc_overlap(ws, S["wave_data"])
            pd["weights"] = jnp.array([1.0, 0.5, 2.0, 1.5, 0.25, 1.0])
            fields = jr.normal(jr.PRNGKey(seed), (6, 2))
            out = S["prop"].propagate(S["trial"], S["ham_data"], systems.copy_prop_data(pd), fields, S["wave_data"])
            tp = S["prop"]._apply_trotprop(S["ham_data"], ws, fields)
            evals += 2
            perm = np.array(random.Random(seed + nb).sample(range(6), 6))
            pdp = systems.copy_prop_data(pd)
            pdp["walkers"] = permute(ws, perm)
            pdp["overlaps"] = jnp.array(np.array(pd["overlaps"])[perm])
            pdp["weights"] = jnp.array(np.array(pd["weights"])[perm])
            outp = S["prop"].propagate(S["trial"], S["ham_data"], pdp, jnp.array(np.array(fields)[perm]), S["wave_data"])
            for key in ("weights", "overlaps"):
                if np.abs(np.array(outp[key]) - np.array(out[key])[perm]).max() > 1e-10:
                    spec_fail.append((f"propagator_{wt}.propagate", f"permuting walkers with their fields, weights and overlaps permutes {key}",
                                      {"n_batch": nb, "max_diff": float(np.abs(np.array(outp[key]) - np.array(out[key])[perm]).max())}))
            if np.abs(flat(outp["walkers"]) - flat(permute(out["walkers"], perm))).max() > 1e-10:
                spec_fail.append((f"propagator_{wt}.propagate", "permuting the walkers permutes the propagated walkers", {"n_batch": nb}))
            if abs(complex(outp["pop_control_ene_shift"]) - complex(out["pop_control_ene_shift"])) > 1e-10:
                spec_fail.append((f"propagator_{wt}.propagate", "the population-control shift is a symmetric function of the weights",
                                  {"n_batch": nb, "before": str(out["pop_control_ene_shift"]), "after": str(outp["pop_control_ene_shift"])}))
            outs[nb] = (np.array(out["weights"]), flat(out["walkers"]), flat(tp))
        for nb in (2, 3):
            if np.abs(outs[nb][0] - outs[1][0]).max() > 1e-10 or np.abs(outs[nb][1] - outs[1][1]).max() > 1e-10:
                spec_fail.append((f"propagator_{wt}.propagate", "changing the number of batches changes no output", {"n_batch": nb}))
            if np.abs(outs[nb][2] - outs[1][2]).max() > 1e-10:
                spec_fail.append((f"propagator_{wt}._apply_trotprop", "changing the number of batches changes no output", {"n_batch": nb}))
    # ---- independence probe: with the incoming shift, walkers, fields and overlaps fixed, what a step does to one walker (its new
    # matrix, its new weight - window and cap included) must not depend on the OTHER walkers' weights; small and large populations
    for wt, tk, ne in (("restricted", "rhf", (2, 2)), ("unrestricted", "uhf", (2, 1))):
        for n in (6, 128):
            try:
                seed = rng.randrange(1 << 30)
                S = systems.make_system(random.Random(seed), tk, wt, norb=4, nelec=ne, nchol=2, n_walkers=n, dt=0.05, seed=seed)
                ws = wf.walkers(random.Random(seed + 1), 4, ne, n, restricted=(wt == "restricted"))
                base = systems.copy_prop_data(S["prop_data"])
                base["walkers"] = ws
                base["overlaps"] = S["trial"].calc_overlap(ws, S["wave_data"])
                fields = jr.normal(jr.PRNGKey(seed), (n, 2))
                probes = {0: 60.0, 1: 1.0, 2: 0.25}      # one heavy walker (below the absolute cap of 100), two ordinary ones
                res = {}
                for tag, other in (("a", 0.5), ("b", 0.01), ("c", 20.0)):
                    pd = systems.copy_prop_data(base)
                    w = np.full(n, other)
                    for k, v in probes.items():
                        w[k] = v
                    pd["weights"] = jnp.array(w)
                    out = S["prop"].propagate(S["trial"], S["ham_data"], pd, fields, S["wave_data"])
                    res[tag] = (np.array(out["weights"]), out["walkers"])
                    evals += 1
                for tag in ("b", "c"):
                    for k in probes:
                        dw = abs(res[tag][0][k] - res["a"][0][k])
                        fa = flat(permute(res["a"][1], np.array([k])))
                        fb = flat(permute(res[tag][1], np.array([k])))
                        if dw > 1e-9 or np.abs(fa - fb).max() > 1e-10:
                            spec_fail.append((f"propagator_{wt}.propagate", "what a step does to one walker does not depend on the other walkers' weights (incoming shift fixed)",
                                              {"n_walkers": n, "probe": k, "probe_weight_in": probes[k], "others_weight": {"a": 0.5, "b": 0.01, "c": 20.0}[tag],
                                               "probe_weight_out_reference": float(res["a"][0][k]), "probe_weight_out": float(res[tag][0][k])}))
                            break
            except Exception as ex:
                spec_fail.append((f"propagator_{wt}.propagate", "independence probe runs", {"n_walkers": n, "error": repr(ex)[:300]}))
    # ---- restricted vs unrestricted storage format: identical trajectories
    nrep = 2 if ctx.tier == "quick" else 6
    for r in range(nrep):
        seed = rng.randrange(1 << 30)
        Sr = systems.make_system(random.Random(seed), "rhf", "restricted", norb=4, nelec=(2, 2), nchol=2, n_walkers=4, dt=0.05, seed=seed, converge=3)
        Su = systems.make_system(random.Random(seed), "uhf_same", "unrestricted", norb=4, nelec=(2, 2), nchol=2, n_walkers=4, dt=0.05, seed=seed)
        # same trial orbitals in both
        c = Sr["wave_data"]["mo_coeff"]
        Su["wave_data"]["mo_coeff"] = [c, c]
        Su["wave_data"]["rdm1"] = Sr["wave_data"]["rdm1"]
        Su["ham_data"] = Su["ham"].build_measurement_intermediates(dict(Su["ham_data"]), Su["trial"], Su["wave_data"])
        Su["ham_data"] = Su["ham"].build_propagation_intermediates(Su["ham_data"], Su["prop"], Su["trial"], Su["wave_data"])
        w0 = Sr["prop_data"]["walkers"]
        Su["prop_data"] = Su["prop"].init_prop_data(Su["trial"], Su["wave_data"], Su["ham_data"], [w0, w0])
        Su["prop_data"]["key"] = Sr["prop_data"]["key"]
        g = rng.choice([(2, 1, 1), (1, 2, 2), (3, 2, 1)])
        smp = sampling.sampler(n_prop_steps=g[0], n_ene_blocks=g[1], n_sr_blocks=g[2], n_blocks=1)
        try:
            er, pr = smp.propagate_phaseless(Sr["ham"], dict(Sr["ham_data"]), Sr["prop"], systems.copy_prop_data(Sr["prop_data"]), Sr["trial"], Sr["wave_data"])
            eu, pu = smp.propagate_phaseless(Su["ham"], dict(Su["ham_data"]), Su["prop"], systems.copy_prop_data(Su["prop_data"]), Su["trial"], Su["wave_data"])
            evals += 2
            if abs(float(np.real(er)) - float(np.real(eu))) > 1e-9:
                spec_fail.append(("sampler.propagate_phaseless", "restricted and unrestricted walkers (equal spin blocks, same trial, same seed) report identical energies",
                                  {"seed": seed, "grid": g, "restricted": float(np.real(er)), "unrestricted": float(np.real(eu))}))
            if np.abs(np.array(pr["weights"]) - np.array(pu["weights"])).max() > 1e-9 or \
                    np.abs(np.array(pr["walkers"]) - np.array(pu["walkers"][0])).max() > 1e-9 or \
                    np.abs(np.array(pu["walkers"][0]) - np.array(pu["walkers"][1])).max() > 1e-9:
                spec_fail.append(("sampler.propagate_phaseless", "restricted and unrestricted runs follow identical trajectories", {"seed": seed, "grid": g}))
        except Exception as ex:
            spec_fail.append(("sampler.propagate_phaseless", "restricted / unrestricted comparison runs", {"error": repr(ex)[:300]}))
    ctx.cov["evaluations"] = evals
    ctx.cov["distinct_nontrivial"] = sum(dist.values()) + 6 + nrep
    ctx.cov["rule"] = ("calc_overlap / calc_force_bias / calc_energy of 6-9 trial kinds on 6 complex walkers: every divisor batch count {1,2,3,6} and a random "
                       "permutation; prop.propagate and _apply_trotprop (restricted, unrestricted) with n_batch in {1,2,3} and permuted populations incl. their "
                       "fields, weights and overlaps; rhf + restricted propagator vs uhf (same orbitals) + unrestricted propagator on [w,w] through the sampler")
    ctx.cov["samples"] = [json.dumps(dist)]
    ctx.cov["distribution"] = dist
    ctx.cov["correspondence"] = {"evaluations": evals}
    ctx.assumptions += ["vmap / lax.scan / reshape semantics of JAX (modelled as map over chunks)"]
    seen = set()
    for name, clause, det in spec_fail:
        if (name, clause) in seen:
            continue
        seen.add((name, clause))
        if common.known_match("C14", name, clause):
            ctx.known_finding(f"{name}: {clause}")
        else:
            ctx.violation({"kind": name, "clause": clause, "detail": det})


def replay(path):
    r = json.load(open(path))
    print(json.dumps(r, indent=1)[:3000])
    return 1
