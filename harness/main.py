"""Entry point: ./check <Cxx> [--tier quick|thorough] [--replay file]"""
import argparse
import importlib
import os
import sys
import traceback

sys.path.insert(0, os.path.dirname(os.path.abspath(__file__)))
import common


def replay(a, mod):
    """Re-run the recorded failing input.  Property modules that can rebuild the single input do so (exit 1 =
    it still fails, 0 = it passes now); otherwise the whole run is repeated with the recorded seed and tier
    (all inputs derive from them) and the recorded clause is looked for among the violations found."""
    import json
    rec = json.load(open(a.replay))
    rc = mod.replay(a.replay)
    if rc == 0 or "_run" not in rec:
        return rc
    key = rec.get("clause") or rec.get("what")
    os.environ["VERIF_SEED"] = str(rec["_run"]["seed"])
    ctx = common.Ctx(a.pid, rec["_run"]["tier"], mod.LEVEL)
    ctx.replaying = True
    try:
        mod.run(ctx)
    except Exception:
        traceback.print_exc()
        return 2
    again = []
    for path, _ in ctx.violations:
        try:
            r2 = json.load(open(path))
        except Exception:
            continue
        if (r2.get("clause") or r2.get("what")) == key:
            again.append(path)
    print(f"replay: run repeated with seed={rec['_run']['seed']} tier={rec['_run']['tier']}; "
          f"recorded clause {'REPRODUCED' if again else 'not reproduced'}: {key}")
    return 1 if again else 0


def main():
    ap = argparse.ArgumentParser()
    ap.add_argument("pid")
    ap.add_argument("--tier", default=os.environ.get("VERIF_TIER", "quick"), choices=["quick", "thorough"])
    ap.add_argument("--replay", default=None)
    a = ap.parse_args()
    common.setup_repo_path()
    mod = importlib.import_module(f"props.{a.pid.lower()}")
    if a.replay:
        sys.exit(replay(a, mod))
    ctx = common.Ctx(a.pid, a.tier, mod.LEVEL)
    try:
        mod.run(ctx)
    except Exception:
        # infrastructure failure: never a verdict
        traceback.print_exc()
        print(f"ERROR property={a.pid} infrastructure failure (exit 2, not a verdict)")
        sys.exit(2)
    sys.exit(ctx.finish())


if __name__ == "__main__":
    main()
