"""Entry point: ./check <Cxx> [--tier quick|thorough] [--replay file]"""
import argparse
import importlib
import os
import sys
import traceback

sys.path.insert(0, os.path.dirname(os.path.abspath(__file__)))
import common


def main():
    ap = argparse.ArgumentParser()
    ap.add_argument("pid")
    ap.add_argument("--tier", default=os.environ.get("VERIF_TIER", "quick"), choices=["quick", "thorough"])
    ap.add_argument("--replay", default=None)
    a = ap.parse_args()
    common.setup_repo_path()
    mod = importlib.import_module(f"props.{a.pid.lower()}")
    if a.replay:
        sys.exit(mod.replay(a.replay))
    ctx = common.Ctx(a.pid, a.tier, mod.LEVEL)
    try:
        mod.run(ctx)
    except Exception:
        # infrastructure failure: never a verdict
        traceback.print_exc()
        print(f"ERROR property={a.pid} infrastructure failure (exit 2, not a verdict)")
        sys.exit(2)
    sys.exit(ctx.finish())


if __name__ == "__main__":
    main()
