"""Translator (T2) for the pytree round trip of the lattice dataclasses (C20).

Parses ad_afqmc/lattices.py with `ast` and emits lean/AfqmcVerif/Generated/LatticeFields.lean:
for every lattice class the dataclass field order, the aux_data tuple of tree_flatten, the
attributes assigned / read by __post_init__, the attributes entering __hash__, and whether
tree_unflatten is `cls(*aux_data)`.  The generated file closes with `by decide` obligations
`rtCheck <cls>Spec = true`, which `Props/C20.lean` feeds to the round-trip theorem.
"""
import ast
import os
import sys

CLASSES = ["one_dimensional_chain", "two_dimensional_grid", "triangular_grid", "three_dimensional_grid"]
LEAN_NAME = {"one_dimensional_chain": "chain", "two_dimensional_grid": "grid2",
             "triangular_grid": "tri", "three_dimensional_grid": "grid3"}


def self_attr(node):
    return isinstance(node, ast.Attribute) and isinstance(node.value, ast.Name) and node.value.id == "self"


def extract(path):
    tree = ast.parse(open(path).read())
    out = {}
    for node in tree.body:
        if not (isinstance(node, ast.ClassDef) and node.name in CLASSES):
            continue
        info = {"decl": [], "defaults": {}, "flat": None, "computed": [], "reads": [], "hashed": [],
                "positional": False, "children_empty": False, "is_dataclass": False}
        for d in node.decorator_list:
            name = d.id if isinstance(d, ast.Name) else (d.func.id if isinstance(d, ast.Call) and isinstance(d.func, ast.Name) else None)
            if name == "dataclass":
                info["is_dataclass"] = True
        for st in node.body:
            if isinstance(st, ast.AnnAssign) and isinstance(st.target, ast.Name):
                info["decl"].append(st.target.id)
                if st.value is not None:
                    info["defaults"][st.target.id] = ast.unparse(st.value)
            if isinstance(st, ast.FunctionDef) and st.name == "__post_init__":
                assigned = []
                # walk in source order
                events = []
                for sub in ast.walk(st):
                    if self_attr(sub):
                        events.append((sub.lineno, sub.col_offset, isinstance(sub.ctx, ast.Store), sub.attr))
                # stores take effect after the right-hand side: order loads on the same line first
                events.sort(key=lambda e: (e[0], e[2], e[1]))
                for _, _, is_store, attr in events:
                    if is_store:
                        if attr not in assigned:
                            assigned.append(attr)
                    else:
                        if attr not in assigned and attr not in info["reads"]:
                            info["reads"].append(attr)
                info["computed"] = assigned
            if isinstance(st, ast.FunctionDef) and st.name == "tree_flatten":
                ret = [s for s in ast.walk(st) if isinstance(s, ast.Return)]
                if len(ret) == 1 and isinstance(ret[0].value, ast.Tuple) and len(ret[0].value.elts) == 2:
                    children, aux = ret[0].value.elts
                    info["children_empty"] = isinstance(children, ast.Tuple) and len(children.elts) == 0
                    if isinstance(aux, ast.Tuple) and all(self_attr(e) for e in aux.elts):
                        info["flat"] = [e.attr for e in aux.elts]
            if isinstance(st, ast.FunctionDef) and st.name == "tree_unflatten":
                ret = [s for s in ast.walk(st) if isinstance(s, ast.Return)]
                if len(ret) == 1 and isinstance(ret[0].value, ast.Call):
                    c = ret[0].value
                    argnames = [a.arg for a in st.args.args]
                    if (isinstance(c.func, ast.Name) and c.func.id == argnames[0] and len(c.args) == 1
                            and isinstance(c.args[0], ast.Starred) and isinstance(c.args[0].value, ast.Name)
                            and c.args[0].value.id == argnames[1] and not c.keywords):
                        info["positional"] = True
            if isinstance(st, ast.FunctionDef) and st.name == "__hash__":
                for sub in ast.walk(st):
                    if self_attr(sub) and sub.attr not in info["hashed"]:
                        info["hashed"].append(sub.attr)
        out[node.name] = info
    return out


def lean_list(xs):
    return "[" + ", ".join('"%s"' % x for x in xs) + "]"


def emit(info, dest):
    lines = ["/- GENERATED on every run by harness/translate_lattices.py from ad_afqmc/lattices.py — do not edit. -/",
             "import AfqmcVerif.Model.Dataclass", "namespace AfqmcVerif.Generated.LatticeFields",
             "open AfqmcVerif.Dataclass", ""]
    for cls in CLASSES:
        i = info.get(cls)
        n = LEAN_NAME[cls]
        if i is None or i["flat"] is None:
            # the translator could not read the class: emit an obligation that cannot be discharged
            lines.append(f"def {n}Spec : Spec := {{ decl := [\"<untranslatable>\"], flat := [], computed := [], reads := [], hashed := [] }}")
            lines.append(f"def {n}Positional : Bool := false")
        else:
            lines.append(f"def {n}Spec : Spec :=\n  {{ decl := {lean_list(i['decl'])},\n    flat := {lean_list(i['flat'])},\n"
                         f"    computed := {lean_list(i['computed'])},\n    reads := {lean_list(i['reads'])},\n"
                         f"    hashed := {lean_list(i['hashed'])} }}")
            ok = i["positional"] and i["children_empty"] and i["is_dataclass"]
            lines.append(f"def {n}Positional : Bool := {'true' if ok else 'false'}")
        lines.append(f"theorem {n}Spec_ok : rtCheck {n}Spec = true := by decide")
        lines.append(f"theorem {n}Positional_ok : {n}Positional = true := by decide")
        lines.append("")
    lines.append("end AfqmcVerif.Generated.LatticeFields")
    text = "\n".join(lines) + "\n"
    old = open(dest).read() if os.path.exists(dest) else None
    if old != text:
        with open(dest, "w") as f:
            f.write(text)
    return text


def main(repo, verif):
    info = extract(os.path.join(repo, "ad_afqmc", "lattices.py"))
    dest = os.path.join(verif, "lean", "AfqmcVerif", "Generated", "LatticeFields.lean")
    emit(info, dest)
    return info


if __name__ == "__main__":
    repo = sys.argv[1] if len(sys.argv) > 1 else "/repo"
    verif = os.path.dirname(os.path.dirname(os.path.abspath(__file__)))
    import json
    print(json.dumps(main(repo, verif), indent=1))
