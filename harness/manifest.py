"""Writes /verif/MANIFEST.json from the table below (kept in one place so it stays valid)."""
import json
import os

VERIF = os.path.dirname(os.path.dirname(os.path.abspath(__file__)))
BASELINE = ("cd /repo && env -u ANKIT76_AD_AFQMC_VERIF /venv/bin/python -m pytest -ra -q -p no:cacheprovider "
            "--timeout=900 --continue-on-collection-errors --junitxml=/tmp/verif_baseline.junit.xml")

TB = ("Lean 4.33.0 kernel + Mathlib v4.33.0; axioms propext/Classical.choice/Quot.sound only (audited each run, "
      "no sorry/native_decide/bv_decide/own axioms); hand-written Lean models tied to /repo by the per-run "
      "correspondence (differential, bounded by its generators) and, where stated, by a translator from the Python "
      "AST; Python/JAX/XLA/IEEE-754 runtime modelled, not verified.")

COMMON_NOTE = (" The theorem layer covers the single-determinant kinds (rhf, uhf, each NOCI determinant) at the first-quantised level "
               "(Slater coefficients = minors, one-body operators = column derivations; DESIGN §10 fallback); for the multi-determinant / CI kinds the overlap formulas are proved (C01, C11); the energies and force biases of the AD / finite-difference kinds (multislater, CISD, UCISD, GCISD, CISD_THC) are proved for every bra that is a combination of products of minors (C02 auto_energy_is_mixed_estimator, C03 auto_force_bias_is_mixed_expectation; the AD engine itself is trusted), while the hand-coded CI energies / force biases (cisd, cisd_faster, ucisd) are "
               "validated against an explicit Fock-space state (harness/trials.py + fock.py) and against the column-replacement estimator of their own overlap, not proved. Walkers with vanishing reference "
               "overlap (outside the CI formulas' domain) and exact pivot ties (JAX det defect) are avoided and counted.")

CLAIMED = {
    "C20": dict(
        category="proof",
        text=("Lean theorems for every side length: site list/numbering inverse bijections, neighbour relation symmetric "
              "and irreflexive, adjacency symmetric with zero diagonal, periodic sides>=3 regular of degree coord_num, "
              "open boundary with even rows degree<=6, and a generic dataclass/pytree round-trip theorem whose side "
              "condition is regenerated from lattices.py by an AST translator and re-proved by `decide` on every run. "
              "Tied to the code by exact integer correspondence of all outputs for every class and side on a grid, plus "
              "the property itself evaluated on the implementation (failing-input search)."),
        design_ref="DESIGN.md §5/C20",
        technique="Lean 4 proof (omega after eliminating variable moduli; generic graph lemmas) + AST translator + exact correspondence",
        note=TB + " get_nearest_neighbors modelled for concrete integer positions; three_dimensional_grid has no adjacency method (generic loop used).",
    ),
    "C07": dict(
        category="proof",
        text=("Lean theorems over any linearly ordered field, every N, every weight vector with W>0, every offset in (0,1): "
              "indices < N (only existing walkers), equal new weights summing to W, copies(k) = floor(b-z)-floor(a-z) in "
              "{floor x, ceil x} with x = N|w_k|/W, zero weight never selected, copies sum to N, indices monotone, NumPy = jitted, indices unchanged under a common positive rescaling of the weights (comb_scale_invariant), "
              "UHF blocks indexed together, integral over the offset of copies(k) = x exactly (real weights), and an MPI "
              "gather/compute/scatter transition system: every interleaving delivers the slices of the serial comb, no deadlock. "
              "Tied to the code by exact comparison of index vectors for all variants (incl. 2-4 fake MPI ranks with random "
              "arrival order replayed through the model) and by the property evaluated exactly on the implementation."),
        design_ref="DESIGN.md §5/C07",
        technique="Lean 4 proof (floor counting via Int.card_Ioc, interval integral of a floor, invariant induction over event lists) + exact correspondence at K=Q",
        note=TB + " Real MPI is not available (no libmpi): collectives are modelled; the code runs against harness/fakempi.py. searchsorted/cumsum float behaviour trusted away from ties (near-ties skipped by exact margin and counted).",
    ),
    "C19": dict(
        category="proof",
        text=("Lean theorems over any linearly ordered field, every series length and admitted block size: mean = sum(we)/sum(w); "
              "mean and every per-size error^2 invariant under w -> c w; mean shifts with and errors ignore an added constant; the single-pass E[x^2]-E[x]^2 form equals the two-pass form in exact arithmetic (blockErr2_single_pass: the two differ by rounding only, which the tie's large-offset series decide); constant "
              "data give error 0 at every size and the plateau search returns None; every admitted size leaves >= 2 blocks; block size 1 "
              "= unbiased weighted-variance formula over n-1; jackknife estimates = brute-force leave-one-out ratios; outlier mask = "
              "|x_i - med| < m (MAD + eps). Tied to the code by comparison with the exact rational model (means, error^2, plateau "
              "decision, kept mask) and by the clauses evaluated on the implementation; i.i.d. ensemble agreement with the true standard "
              "error is a seeded statistical test, labelled as such. The AR(1) 'grow towards and plateau' clause is not a theorem."),
        design_ref="DESIGN.md §5/C19",
        technique="Lean 4 proof (Finset sum algebra over an ordered field) + exact rational correspondence",
        note=TB + " sqrt/IEEE rounding outside the model (error^2 carried exactly; decisions within 1e-7 of a tie skipped and counted); np.median convention modelled; ensemble clauses are tests.",
    ),
    "C17": dict(
        category="proof",
        text=("Lean theorems over any linearly ordered field and any size: the code's loop state is the Schur-complement residual "
              "R_k = M - sum L L^T (invariant: symmetric, PSD, divisor >= pivot, delta_max = largest residual diagonal), PSD entries are "
              "bounded by the diagonal (Cauchy-Schwarz for PSD forms), hence on the threshold exit of the NumPy routine every element of "
              "M - sum L_g L_g^T is <= max_error for any eps >= 0, any rank; the JAX routine's residual is bounded by delta_max and the "
              "factorisation is exact once delta_max = 0 (as many vectors as the rank); the driver's array-based run is proved equal to the "
              "model's loop. Tied to the code by vector-by-vector comparison with the exact square-root-free model and by the reconstruction "
              "bound / exactness / jvp-vs-finite-difference checks on the implementation (incl. shell-chunked variant on small molecules). "
              "The differentiability clause is validated (jvp = FD = tangent at full rank), not proved."),
        design_ref="DESIGN.md §5/C17",
        technique="Lean 4 proof (loop invariant + PSD Schur complement + Cauchy-Schwarz) + exact rational correspondence",
        note=TB + " sqrt, IEEE rounding, lax.scan/jvp and pyscf integrals are outside the model; pivot/threshold near-ties are skipped by exact margin and counted.",
    ),
    "C08": dict(
        category="proof",
        text=("The sampler methods and the driver loop are translated from the Python AST into programs over the abstract AFQMC machine on "
              "every run; a verified decision procedure (check_sound, by induction over programs and scan iterations) shows that, for every "
              "implementation of the operations, every number of steps/blocks/iterations, every option branch and every initial state, each "
              "propagate is entered with overlaps = map overlap walkers; the generated file re-proves `check p stale` for each entry point and "
              "the driver by `decide`.  The 'equivalently' clause is the theorem explicit_equiv (run = run with an explicit refresh after every "
              "walker modification).  The translator is validated against the dynamic operation trace of the real code (eager execution with "
              "recording wrappers) and the property is measured directly: coherence residual at every propagate entry, and jitted sampler vs "
              "explicit-refresh replay.  When an obligation breaks, complete driver runs over 2-3 fake MPI ranks search for an incoherent entry."),
        design_ref="DESIGN.md §5/C08",
        technique="Lean 4 proof (sound abstract interpretation over a generated program) + AST translator + dynamic trace validation",
        note=TB + " lax.scan/jit/checkpoint control-flow semantics and eager = jitted operation order are trusted; real MPI replaced by harness/fakempi.py.",
    ),
    "C12": dict(
        category="proof",
        text=("On the programs regenerated from sampling.py: the AD entry points with and without orbital relaxation are the same program once "
              "`optimize` is erased, and the AD entry point without relaxation is the plain sampler once the intermediate rebuilds are erased "
              "(generated `decide` obligations), and erasing operations that act as the identity does not change any run (run_eraseTags, for every "
              "implementation, history and option branch) - hence equal energies for a converged trial / at zero coupling. Every call to a "
              "sampler/hamiltonian/propagator/trial method matches the callee's signature (static arity check = callability). Estimator theorems: "
              "cap semantics, no-outlier case = weighted mean, constant local energy, batched = map for every batch split, single block; the reduction over the (n_sr_blocks, n_ene_blocks) array is the total-weight average = group averages weighted by group weight for every grouping (combine_grouped; an unweighted second stage differs: two_stage_unweighted_differs). "
              "Tied to the code by running all six entry points over the option matrix (walker type x n_batch x block structure) and comparing the "
              "equated energies, reproducibility, batch independence, the two ways the driver passes coupling and observable, and the single-block energy with the exact Lean estimator on the returned walkers."),
        design_ref="DESIGN.md §5/C12",
        technique="Lean 4 proof over translator-generated programs (erasure soundness, decide obligations) + exact estimator correspondence",
        note=TB + " Equalities hold under the stated hypotheses (optimize = id on a converged trial; rebuild = id at zero coupling), which the run instantiates; Python dispatch beyond arity is covered by actually calling every entry point.",
    ),
    "C09": dict(
        category="proof",
        text=("Lean theorems on IEEE-like values (finite rationals, +-inf, NaN with IEEE comparison semantics): for every raw importance factor "
              "the applied factor is 0 or inside [1e-3,100]; one phaseless step preserves 'finite real in [0,100]' and keeps a dead walker dead; by "
              "induction any history does; killed count <= population; the CPMC clip as originally written lets NaN through (kernel-checked witness, "
              "replayed on the real code and repaired by a fix: commit), the NaN-safe form preserves the invariant for every raw ratio. Tied to the "
              "code by driving the real propagate into every value class of the raw factor (via the stored overlaps) and comparing weights with the "
              "model, and by monitored histories of all seven propagators with hostile time steps, interactions, trials and injected extreme fields."),
        design_ref="DESIGN.md §5/C09",
        technique="Lean 4 proof (case analysis on IEEE-like values, induction over histories) + value-class correspondence + monitored histories",
        note=TB + " exp/log/cos/angle and rounding are outside the model (raw factor taken as data); CPMC two-body internals are covered by the monitored histories only.",
    ),
    "C01": dict(
        category="proof",
        text=("Lean theorems for every dimension: Cauchy-Binet (proved here; not in Mathlib) gives det(C^H W) = sum over occupation strings of "
              "conj(minor C) minor W, i.e. the rhf/uhf overlap is the many-body inner product for every complex non-orthonormal walker and trial; "
              "restricted = unrestricted on equal blocks; linear combinations (NOCI); batched = per-walker map for every batch split; C C^H of an "
              "orthonormal determinant is <a+_q a_p>. determinant lists (multislater): the Wick-type formula equals sum_i c_i <D_i|phi> for every list, reference and excitation rank (Props/C11 multislater_overlap); GHF: the stacked matrix is C^T diag(W_up, W_dn), spin-pure GHF = UHF. Restricted CISD (CISD, cisd, cisd_faster): the closed form (1 + 2 o1 + o2) o0 equals the explicit expansion over reference, single and double in-place excitations for every amplitude tensor (cisd_overlap_is_manybody); unrestricted CISD (UCISD, ucisd) likewise for same-spin amplitudes antisymmetric in the virtual indices (ucisd_overlap_is_manybody); generalised CISD (GCISD) with no symmetry assumption (gcisd_overlap_is_manybody); THC-factorised CISD (CISD_THC) = CISD for the contracted tensor (cisd_thc_overlap_is_manybody) - so the overlap formula of every one of the 12 trial classes is a theorem; single-determinant overlaps and their linear combinations are bras, i.e. linear combinations of products of one minor per walker block (uhf_overlap_is_bra, bra_add, bra_smul), the class of functionals for which C02/C03/C13 are proved without looking at the trial. Tied to the code by rhf/uhf overlaps vs the same Lean definitions executed at Q(i), and for all "
              "12 trial classes (both entry points, batched order, density matrices) against the explicit second-quantised state."),
        design_ref="DESIGN.md §5/C01",
        technique="Lean 4 proof (Cauchy-Binet over increasing strings) + exact Q(i) correspondence + Fock-space spec comparison",
        note=TB + COMMON_NOTE,
    ),
    "C02": dict(
        category="proof",
        text=("Lean theorems for every dimension: with the column calculus D1 (sum of single column replacements = tr(adj M N)) and D2 (ordered pairs "
              "of distinct columns = det M (tr tr - tr of product), proved via det(1 + U V) = det(1 + V U)), the Green's-function energy formula of "
              "uhf equals the mixed estimator written with explicit column replacements, including spin-dependent h1; rhf with restricted walkers "
              "equals the unrestricted formula on [W, W] and sees exactly the spin average of h1. NOCI's sum_d c_d ov_d E_d / sum_d c_d ov_d is the mixed estimator of the combined bra (linearity). Central second differences of any polynomial p satisfy p(e) - 2p(0) + p(-e) = e^2 (2 p_2 + e^2 q(e)) with q a polynomial (the 'converges quadratically in the step' clause of the finite-difference kinds, whose differenced overlaps are polynomials in the step). GHF is the same formula in the doubled space (ghf_energy_is_mixed_estimator). The AD / finite-difference kinds (wave_function_auto): for EVERY bra that is a linear combination of products of minors, every walker (singular sub-blocks included) and every dimension, x -> <psi|(1 + xO)phi> and x -> <psi|(1 + xL + x^2 L^2/2)phi> are polynomials whose linear / quadratic coefficients are <psi|O|phi> and half of <psi|L^2|phi> in column-replacement form (auto_one_body_path, auto_two_body_path; by multilinearity of det alone), and h0 + (dx1 + sum d2/2)/overlap with the normal-ordering shift v0 IS the mixed estimator (auto_energy_is_mixed_estimator; restricted entry: auto_energy_restricted; on one determinant it coincides with the Green's-function formula: auto_energy_eq_uhf_energy). Tied to the code by rhf/uhf energies vs the Lean "
              "model at Q(i) and by all 12 classes / entry points vs the Fock-space estimator (spin-dependent h1 where the property lists it), plus "
              "the eps^2 convergence of the finite-difference kinds, plus the theorem's right-hand side (column replacements) evaluated with each class's own overlap function vs the class's energy."),
        design_ref="DESIGN.md §5/C02",
        technique="Lean 4 proof (determinant column calculus D1/D2) + exact Q(i) correspondence + Fock-space spec comparison",
        note=TB + COMMON_NOTE + " Hand-coded cisd/ucisd use single-precision intermediates (tolerance 5e-4); hand-coded ucisd with spin-dependent h1 is outside the property's quantifier.",
    ),
    "C03": dict(
        category="proof",
        text=("Lean theorems for every dimension: each uhf force-bias component is the mixed expectation of the spin-summed one-body operator L_g for "
              "the product bra (D1 + trace cyclicity), rhf restricted = unrestricted on [W, W], and the one-body numerator over the overlap is "
              "tr((C^H W)^-1 C^H O W), the first-order coefficient along 1 + xO. NOCI's overlap-weighted combination is the mixed expectation for the combined bra. As a statement about the function of r: <psi|(1 + rO)phi> = <psi|phi>(1 + r tr((C^H W)^-1 C^H O W) + r^2 Q(r)) with Q a polynomial, so the force bias is the logarithmic derivative of the overlap along the generator (overlap_along_generator). GHF in the doubled space likewise; for the AD kinds the differentiated function is a polynomial whose linear coefficient is <psi|L_g|phi> for every bra that is a combination of products of minors (auto_force_bias_is_mixed_expectation). Tied to the code by every component vs the Lean model at Q(i), by all "
              "12 classes / entry points vs the Fock-space expectation, and by forward-mode and finite-difference logarithmic derivatives of the "
              "library's own overlap along expm(x L_g)."),
        design_ref="DESIGN.md §5/C03",
        technique="Lean 4 proof (D1, trace cyclicity) + exact Q(i) correspondence + Fock-space spec comparison",
        note=TB + COMMON_NOTE + " jax.vjp/jvp are trusted to differentiate the traced function (cross-checked, not proved).",
    ),
    "C13": dict(
        category="proof",
        text=("Lean theorems for every dimension: for any W = Q R with R invertible, overlap(W) = overlap(Q) det R (= product of the diagonal for a "
              "triangular factor), and the Green's function - hence force bias and local energy - of W equals that of Q (restricted and unrestricted); "
              "an orthonormal basis of the trial's occupied space has overlap det U. For EVERY trial kind at once: a bra that is a linear functional of products of minors (which all 12 kinds are) has overlap(Qa Ra, Qb Rb) = overlap(Qa, Qb) det Ra det Rb, and every mixed estimator whose operator is a combination of one-body group elements (how the AD kinds evaluate force bias and energy) is unchanged. Tied to the code by a monitor of jnp.linalg.qr's specification on "
              "the call-site routine, by orthonormality / span / overlap x norm / invariance of energy and force bias on complex batches for 8 trial "
              "kinds, by the implementation's overlap(Q) x norm and energy(Q) vs the Lean model's exact values for the original W, and by "
              "get_init_walkers for all classes (shape, count, orthonormality, overlap bounded away from zero or explicit refusal, variational energy)."),
        design_ref="DESIGN.md §5/C13",
        technique="Lean 4 proof (det_mul, mul_inv_rev; single-determinant models) + qr assumption monitor + Q(i) correspondence",
        note=TB + " qr/eigh are assumed to meet their specification (monitored); the CI kinds are covered by the any-bra theorems under the (validated, C01-C03) premise that the library evaluates them as mixed estimators; 'bounded away from zero' is checked as relative overlap > 1e-3.",
    ),
    "C14": dict(
        category="proof",
        text=("Lean theorems: a per-walker routine commutes with every permutation of the population (also with per-walker fields/weights/overlaps), "
              "batched evaluation equals the plain map for every batch split, hence any two splits agree; the weight sum is permutation invariant; the "
              "restricted per-walker overlap, force bias and local energy equal the unrestricted ones on [w, w] (from C01-C03), which makes the two "
              "storage formats bisimilar. Tied to the code by permuting / re-batching every measurement routine for 6-9 trial kinds and both propagators' "
              "propagate and _apply_trotprop, and by rhf+restricted vs uhf+unrestricted sampler runs with the same seed."),
        design_ref="DESIGN.md §5/C14",
        technique="Lean 4 proof (map/permutation/chunking lemmas + C01-C03 equalities) + differential runs under permutations and batch counts",
        note=TB + " vmap/scan/reshape are modelled as map over chunks; the trajectory-level bisimulation is validated on runs, the theorem gives the per-walker equalities it rests on.",
    ),
    "C15": dict(
        category="proof",
        text=("Lean theorems for every dimension: rotate_orbs is modelled as the congruence U^T X U (congruences compose, any matrix); for real "
              "orthogonal U, with trial orbitals and walkers rotated by U^T, the Gram matrix C^H W, hence overlaps (factor 1), every Green's-function "
              "contraction, force biases and local energies of the single-determinant kinds are unchanged. Tied to the code by ham.rotate_orbs on exactly "
              "orthogonal rational Givens products and on invertible matrices (congruence clause), before/after comparison for rhf/uhf/ghf/noci with "
              "spin-dependent h1, and the Lean model on the rotated problem vs the implementation on the unrotated one."),
        design_ref="DESIGN.md §5/C15",
        technique="Lean 4 proof (matrix algebra on the single-determinant models) + exact-orthogonal differential runs + Q(i) correspondence",
        note=TB + " NOCI/GHF covariance is validated (linearity / block structure), the theorems are stated for the rhf/uhf models.",
    ),
    "C11": dict(
        category="proof",
        text=("Lean theorems: the Dice byte format round-trips through the reader for every number of orbitals; the `parity` loop equals the sign of "
              "the permutation that sorts the reference string with holes replaced in place by their particles - for ANY reference, any excitation rank and ANY number "
              "of orbitals (replacing one value of a duplicate-free list changes the inversion parity by the number of entries strictly between; the loop's evolving occupation "
              "vector and the evolving list describe the same set; sequential = simultaneous replacement) - the per-run correspondence compares parity with the "
              "model's sorting sign); the meaning of one list entry, for every size, reference and excitation rank (determinant_entry): the minor of the walker on the occupied orbitals of D = parity(ref, D) x reference minor x det of the block Theta[particles, hole positions] of Theta = W W_ref^-1 (complementary-minor identity in the in-place ordering via a two-block triangular determinant; row-order sign = product over out-of-order pairs = Perm.sign of the sorting permutation, Mathlib's sign_eq_prod_prod_Ioi) - which is term by term what multislater._calc_overlap sums; an eigenvector of a symmetric (Hermitian) H used as trial gives <psi|H|phi> = E <psi|phi> for every phi, hence "
              "every block energy equals E whatever the weights. Tied to the code by parity/hole/particle lists and read_dets (incl. malformed bytes) "
              "vs the Lean model, multislater overlaps (both entry points) vs the explicit sum_i c_i |D_i> for random order, reference and cut-off, and "
              "exact eigenvectors (own diagonalisation and pyscf FCI) -> local energies and sampler block energies equal the eigenvalue."),
        design_ref="DESIGN.md §5/C11",
        technique="Lean 4 proof (round trip by induction, sign lemma and complementary-minor identity for every size, eigenvector algebra) + exact correspondence + Fock-space spec",
        note=TB + " The whole multislater overlap is proved too (multislater_overlap: reference overlap x sum over the list of coefficient x parities x alpha block x beta block = sum_i c_i <D_i|phi>, every list, reference and rank, walkers with non-vanishing reference overlap); the library's grouping of the list by excitation rank and its array code are tied by the comparison with sum_i c_i |D_i>; the multislater energy is a finite difference (tolerance 2e-5); pyscf FCI is an external oracle.",
    ),
    "C10": dict(
        category="proof",
        text=("Lean theorems for every dimension: det(C^T (1+D) W) = det(C^T W) det(1 + D P) for any diagonal row scaling (Weinstein-Aronszajn), "
              "hence the rank-one ratio 1 + c P_ii and the rank-two ratio (1+c_i P_ii)(1+c_j P_jj) - c_i c_j P_ij P_ji of calc_overlap_ratio; the "
              "Hubbard-Stratonovich identity (c+ + c- = 2, c+ c- = kappa => the field average multiplies an occupation state by kappa^{n_up n_dn}); "
              "row scaling multiplies a minor by the constants of the rows its string contains; site-wise probability x weight / new overlap = 1/(2 old "
              "overlap); the updated Green's function satisfies P'(1 + D P) = (1 + D)P for any set of scaled rows, and the code's rank-two update formula (update_greens_function) satisfies the same equation for ANY matrix, hence equals the Green's function of the rescaled walker whenever the overlap ratio is non-zero. Tied to the code by ratio and Green's-function updates vs from-scratch values for every ordered pair of spin-orbitals (uhf and "
              "ghf trials), an HS-constant monitor, fast vs slow propagators (on-site and nearest-neighbour), and the exhaustive sum over all 2^n field "
              "configurations of a real propagate step (branch probabilities measured by bisection) vs exp(-dt K/2) prod exp(-dt U n n) exp(-dt K/2) on "
              "the Fock space. One recorded finding: with Cholesky vectors in ham_data the one-body factor is not exp(-dt K/2)."),
        design_ref="DESIGN.md §5/C10",
        technique="Lean 4 proof (det(1+UV)=det(1+VU) reductions, scalar HS identity) + exhaustive 2^n enumeration on the implementation",
        note=TB + " The rank-two Green's-function update is proved for the generalised (one block of spin-orbitals) layout; uhf_cpmc's per-spin code is its block-diagonal case and is tied by the from-scratch comparison; expm/erf/arccosh are library calls (HS constants monitored).",
    ),
    "C04": dict(
        category="proof",
        text=("Lean theorems: (i) the new trial overlap cancels from importance factor x walker / new overlap (any field, any state space); (ii) the "
              "completing-the-square identity behind h0_prop / mf_shifts / h1_mod in any algebra; (iii) the force-bias shift identity for real shifts "
              "(translation invariance of the Gaussian integral; the complex contour shift is NOT proved - stated as _partial); (v) projection logic: a "
              "non-positive |I| cos(theta) is zeroed, values in the window are kept (IEEE-like values, with C09). The O(dt^2) order clause is validated, "
              "not proved: one real prop.propagate on a batch whose fields are the tensor Gauss-Hermite nodes, the field average of I x walker / overlap "
              "vs expm(-dt(H - E_shift)) on the Fock space over a dt ladder (residual must shrink >= 3x per halving), restricted and unrestricted "
              "propagators, rhf/uhf/ghf/noci trials, spin-dependent h1, arbitrary rdm1 for the shift; applied weight vs |I| max(0, cos theta)."),
        design_ref="DESIGN.md §5/C04",
        technique="Lean 4 proof (algebraic identities, real-shift Gaussian identity, decision logic) + Gauss-Hermite quadrature of the real propagate step against the Fock-space exponential",
        note=TB + " Partial: the complex force-bias shift and the order in dt rest on the quadrature ladder (a test of the implementation against the exact operator exponential), not on a theorem. The importance factor is reconstructed from public quantities by the formula in the property.",
    ),
    "C05": dict(
        category="proof",
        text=("Lean theorems for every dimension and every number of steps: each minor of Q R is det R times the minor of Q; by induction over a list of "
              "steps with arbitrary valid factorisations, accumulated norm x every occupation-string coefficient of the stored orthonormal walker equals "
              "that of the un-normalised product of propagators, and the stored overlap is the overlap of the un-normalised state; scaling a block by c "
              "multiplies minors by c^k; the per-spin constants exp(a/(2 N_s)) multiply to exp(a) when both spins are present. Tied to the code by "
              "Gauss-Hermite averages of norms x walker (and of stored overlaps) vs expm(-dt(H - ene0)) over a dt ladder, 1-5 consecutive real steps vs "
              "the un-normalised product, and the truncated exponential vs expm within its Taylor remainder."),
        design_ref="DESIGN.md §5/C05",
        technique="Lean 4 proof (induction over steps with an existential triangular factor) + Gauss-Hermite quadrature of the real propagate_free step",
        note=TB + " Partial: the O(dt^2) order and the Taylor-remainder bound are validated on the implementation, not proved; qr is assumed to meet its specification (monitored in C13).",
    ),
    "C06": dict(
        category="proof",
        text=("Partial. Lean theorems (single-determinant model, every dimension): shifting h1[s] by lambda*1 shifts the local energy of every walker by "
              "lambda*N_s (per-spin trace of the AD density matrix with one energy block); without two-body term the local energy is "
              "h0 + sum_s tr((C^H W)^-1 C^H h W) and equals h0 + sum_occ eps_i for walkers spanning eigenvectors; Hellmann-Feynman: the product-rule "
              "derivative of tr(C^T h C) along any first-order orthonormality-preserving orbital change is tr(rho O) (with C18's theorem that the "
              "library's eigh rule is such a change). The derivative clauses themselves are statements about JAX's AD engine and are validated on the "
              "implementation, not proved: jvp/vjp of sampler.propagate_phaseless_ad* exactly as driver.afqmc calls them vs central finite differences "
              "at h=1e-3,1e-4,1e-5 of the same seeded function with NON-symmetric observable matrices, vjp contraction vs jvp, primal vs plain sampler, "
              "analytic one-body limit, per-spin traces, 2-RDM gradient vs finite difference."),
        design_ref="DESIGN.md §5/C06",
        technique="Lean 4 proof of the closed forms (symmetry, one-body limit, Hellmann-Feynman) + differential validation of the AD entry points (forward vs reverse vs finite difference)",
        note=TB + " The AD engine (jvp, vjp, checkpoint, custom_jvp wiring, lax.scan transposition) is outside the model: a theorem cannot exhibit its failures; they are searched for by finite differences.",
    ),
    "C16": dict(
        category="proof",
        text=("Partial. Lean theorems for every input: the FCIDUMP header written by prep_afqmc is inverted by _prep_afqmc's nelec_sp to (n_a - n_f, n_b - n_f) "
              "for every n_f <= n_b <= n_a (swapped for negative ms; the interface's guard 2 n_f < n_a + n_b is shown weaker); the triangular index of the "
              "custom-integral unpacking is a bijection onto [0, N(N+1)/2) and the unpacked matrix is symmetric; QR phase fix: if basis^T S mo is orthogonal, "
              "any Q R factorisation has R diagonal +-1 and Q diag(sign r_ii) returns the matrix itself (the written ROHF/UHF coefficients carry pyscf's MO "
              "phases, the gauge of the UCCSD amplitudes); amplitude conversion closed forms and (anti)symmetries. Tied to the code exactly (header, nelec_sp, "
              "unpacked vectors with identity basis, converted amplitudes for injected dyadic t1/t2 through the real prep_afqmc) and by the property on the "
              "implementation for random small molecules: trial energy via _prep_afqmc + init_prop_data vs pyscf (RHF/ROHF +- frozen core, UHF, density "
              "fitting, custom basis, Hubbard rings via custom integrals), exact ground state of the written Hamiltonian vs pyscf's integrals with the same "
              "dense solver, CISD/UCISD mixed energy vs CCSD/UCCSD energies in randomly re-phased MO gauges, written coefficients vs basis^T S mo."),
        design_ref="DESIGN.md §5/C16",
        technique="Lean 4 proof of the bookkeeping / phase-fix / conversion logic + exact correspondence + differential validation against pyscf on random molecules",
        note=TB + " SCF, integral evaluation, Cholesky numerics (C17 covers the loop), CC theory (mixed energy = CC energy) and FCI are not modelled: pyscf is the trusted reference.",
    ),
    "C18": dict(
        category="proof",
        text=("Lean theorems: for every size, with A V = V diag(w), V V^T = 1 and F_ij = 1/(w_j - w_i) off the diagonal, the rule's dV = V (F o V^T A' V), "
              "dw = diag(V^T A' V) satisfy the linearised eigen-equation A dV + A' V = dV diag(w) + V diag(dw) and V^T dV is antisymmetric (the standard "
              "derivative for a non-degenerate spectrum); the decision logic of F gives |F_ij| <= 1/thresh + 1 for EVERY pair of eigenvalues (exactly "
              "degenerate: 0 / 1; nearly degenerate: 1/big; separated: 1/(w_j - w_i)), so the derivative is finite; selecting distinct columns of an "
              "orthogonal matrix and flipping signs gives orthonormal columns. The jit cache in front of optimize is transparent for every history of calls iff objects that compare equal are traced to the same function (jit_transparent; its hypothesis is checked on the classes). Convergence of the Roothaan iteration is not a theorem. Tied to the code by "
              "jax.jvp(_eigh) on non-degenerate / exactly / nearly degenerate spectra (finite, first-order equations, eigenvalue derivative vs finite "
              "differences, F entries recovered from dV vs the Lean logic) and rhf/uhf.optimize (orthonormal output for every input, fixed point at "
              "convergence, energy vs an independent Roothaan solver; closed and open shells, spin-dependent h1)."),
        design_ref="DESIGN.md §5/C18",
        technique="Lean 4 proof (Hadamard-product algebra for the JVP rule, case analysis of the regularised denominators) + jvp / SCF differential runs",
        note=TB + " eigh's specification and SCF convergence are assumptions / validated; 'reasonable guess' = core-Hamiltonian orbitals on gapped problems.",
    ),
}

NOT_YET = {}


def main():
    props = [json.loads(l) for l in open(os.path.join(VERIF, "properties.jsonl"))]
    checks = []
    na = []
    for p in props:
        pid = p["id"]
        if pid in CLAIMED:
            c = CLAIMED[pid]
            checks.append({
                "property_id": pid,
                "quick_cmd": f"./check {pid} --tier quick",
                "thorough_cmd": f"./check {pid} --tier thorough",
                "evidence_file": f"/verif/evidence/{pid}.json",
                "replay_cmd_template": f"./check {pid} --replay {{path}}",
                "engine": "lean4-proof+correspondence",
                "level_claimed": {"category": c["category"], "text": c["text"], "design_ref": c["design_ref"]},
                "level_note": c["note"],
                "technique": c["technique"],
            })
        else:
            na.append({"property_id": pid, "reason": NOT_YET.get(pid, "check not built yet in this round (in-family model planned, see DESIGN.md §5); not claimed")})
    m = {
        "version": 1,
        "setup_cmd": "cd /verif && /venv/bin/python harness/setup.py",
        "hooks": {
            "guard": "ANKIT76_AD_AFQMC_VERIF",
            "enable": "export ANKIT76_AD_AFQMC_VERIF=1 (set by ./check; the harness imports ad_afqmc from /repo's working tree via PYTHONPATH)",
            "baseline_off_cmd": BASELINE,
            "source_commits": HOOK_COMMITS,
            "add_only": True,
        },
        "engines": [{
            "name": "lean4-proof+correspondence", "path": "/verif/check",
            "serves_properties": sorted(CLAIMED),
            "kind_free_text": "Lean 4 theorems about executable models (lean/AfqmcVerif), AST translators (harness/translate_*.py), line-protocol correspondence against the real Python (harness/props/*.py)",
        }],
        "checks": checks,
        "not_applicable": na,
        "notes": "See DESIGN.md. Exit 2 from a check = infrastructure failure/timeout, never a verdict.",
    }
    with open(os.path.join(VERIF, "MANIFEST.json"), "w") as f:
        json.dump(m, f, indent=1)


HOOK_COMMITS = []

if __name__ == "__main__":
    main()
