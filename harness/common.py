"""Shared machinery of the checks: Lean build / audit / driver, evidence, findings, verdicts.

Every check follows DESIGN.md §1.5:
  1. regenerate Generated/*.lean from /repo (translator), build the property's Lean modules,
     audit axioms and forbidden tokens;
  2. run the correspondence (implementation vs executable Lean model) and the monitors;
  3. if a proof obligation or the correspondence breaks, search the *implementation* for a
     concrete failing input against the executable specification of the property;
  4. write evidence/<id>.json; print VIOLATION / KNOWN-FINDING lines; exit 0/1 (2 = infrastructure).
"""
import fcntl
import hashlib
import json
import os
import re
import subprocess
import sys
import time

VERIF = os.path.dirname(os.path.dirname(os.path.abspath(__file__)))
LEAN = os.path.join(VERIF, "lean")
REPO = os.environ.get("VERIF_REPO", "/repo")
GUARD = "ANKIT76_AD_AFQMC_VERIF"
ALLOWED_AXIOMS = {"propext", "Classical.choice", "Quot.sound"}
FORBIDDEN = re.compile(
    r"\bsorry\b|\badmit\b|^\s*axiom\s|native_decide|bv_decide|implemented_by|\bunsafe\s|maxHeartbeats\s+0\b"
)
TRUSTED_BASE = [
    "Lean 4.33.0 kernel; Mathlib v4.33.0 as installed",
    "axioms: propext, Classical.choice, Quot.sound only (audited by #print axioms on every run)",
    "hand-written executable models in lean/AfqmcVerif/Model, tied to /repo by the correspondence of this run",
    "translators harness/translate_*.py (Python ast -> Generated/*.lean), validated against dynamic behaviour on every run",
    "Python semantics of the code outside the modelled core; IEEE-754/XLA/JAX runtime (modelled, not verified)",
]


def setup_repo_path():
    os.environ[GUARD] = "1"
    if REPO not in sys.path:
        sys.path.insert(0, REPO)
    os.environ.setdefault("JAX_PLATFORMS", "cpu")
    os.environ.setdefault("XLA_FLAGS", "--xla_force_host_platform_device_count=1")


def seed():
    try:
        return int(os.environ.get("VERIF_SEED", "0"))
    except ValueError:
        return 0


class Lock:
    def __init__(self, path):
        self.path = path

    def __enter__(self):
        self.f = open(self.path, "w")
        fcntl.flock(self.f, fcntl.LOCK_EX)
        return self

    def __exit__(self, *a):
        fcntl.flock(self.f, fcntl.LOCK_UN)
        self.f.close()


def _clean(out):
    return "\n".join(l for l in out.splitlines() if "WARNING" not in l or "conda" not in l.lower())


def lake_build(modules, timeout=3000):
    """Build the given modules (and their imports).  Returns (ok, log)."""
    args = ["lake", "build"] + ["+" + m for m in modules]
    with Lock(os.path.join(LEAN, ".lake.lock")):
        try:
            p = subprocess.run(args, cwd=LEAN, capture_output=True, text=True, timeout=timeout)
        except subprocess.TimeoutExpired:
            return False, "TIMEOUT in lake build"
    return p.returncode == 0, _clean(p.stdout + p.stderr)


def leanchecker(modules, timeout=1800):
    """Independent re-check of the compiled .olean files of the given modules (thorough tier)."""
    with Lock(os.path.join(LEAN, ".lake.lock")):
        try:
            p = subprocess.run(["lake", "env", "leanchecker"] + list(modules), cwd=LEAN, capture_output=True, text=True, timeout=timeout)
        except subprocess.TimeoutExpired:
            return False, "TIMEOUT in leanchecker"
        except FileNotFoundError:
            return None, "leanchecker not on PATH"
    return p.returncode == 0, _clean(p.stdout + p.stderr)


def lean_file(path, timeout=1800):
    """Elaborate one Lean file inside the lake environment; returns (ok, output)."""
    try:
        p = subprocess.run(["lake", "env", "lean", path], cwd=LEAN, capture_output=True, text=True,
                           timeout=timeout)
    except subprocess.TimeoutExpired:
        return False, "TIMEOUT"
    return p.returncode == 0, _clean(p.stdout + p.stderr)


def lean_run(driver, lines, timeout=1500):
    """Pipe protocol lines through a driver (lean/Drive/<driver>.lean); returns output lines."""
    inp = "\n".join(lines) + "\n"
    try:
        p = subprocess.run(["lake", "env", "lean", "--run", f"Drive/{driver}.lean"], cwd=LEAN, input=inp,
                           capture_output=True, text=True, timeout=timeout)
    except subprocess.TimeoutExpired:
        # a time-out is an infrastructure failure, never a verdict
        print(f"ERROR driver {driver} timed out after {timeout}s (exit 2, not a verdict)")
        sys.stdout.flush()
        os._exit(2)
    out = [l for l in p.stdout.splitlines() if l.strip() != "" and not re.match(r"^Drive/\S+\.lean:\d+:\d+: (warning|info)", l)
           and not l.startswith("Note:") and not l.startswith("Hint:")]
    if p.returncode != 0:
        raise RuntimeError(f"driver {driver} failed: {p.stderr[-2000:]} {p.stdout[-500:]}")
    return out


def strip_comments(src):
    # remove /- ... -/ (nested) and -- comments
    out, i, depth = [], 0, 0
    while i < len(src):
        if src.startswith("/-", i):
            depth += 1
            i += 2
        elif depth and src.startswith("-/", i):
            depth -= 1
            i += 2
        elif depth:
            if src[i] == "\n":
                out.append("\n")
            i += 1
        elif src.startswith("--", i):
            while i < len(src) and src[i] != "\n":
                i += 1
        else:
            out.append(src[i])
            i += 1
    return "".join(out)


def lean_sources():
    res = []
    for root, _, files in os.walk(os.path.join(LEAN, "AfqmcVerif")):
        for f in files:
            if f.endswith(".lean"):
                res.append(os.path.join(root, f))
    for f in os.listdir(os.path.join(LEAN, "Drive")):
        if f.endswith(".lean"):
            res.append(os.path.join(LEAN, "Drive", f))
    return sorted(res)


def forbidden_tokens():
    hits = []
    for f in lean_sources():
        body = strip_comments(open(f).read())
        for n, line in enumerate(body.splitlines(), 1):
            if FORBIDDEN.search(line):
                hits.append(f"{os.path.relpath(f, LEAN)}:{n}: {line.strip()[:120]}")
    return hits


def prop_theorems(pid):
    """names of the theorems in Props/<pid>.lean (namespace AfqmcVerif.Props.<pid>)"""
    src = strip_comments(open(os.path.join(LEAN, "AfqmcVerif", "Props", f"{pid}.lean")).read())
    return re.findall(r"^theorem\s+([A-Za-z0-9_'.]+)", src, flags=re.M)


def audit(pid, workdir):
    """#print axioms for every theorem of Props/<pid>.lean.  Returns dict name -> list of axioms
    (None if the theorem is unknown / output could not be parsed)."""
    names = prop_theorems(pid)
    path = os.path.join(workdir, f"Audit_{pid}.lean")
    with open(path, "w") as f:
        f.write(f"import AfqmcVerif.Props.{pid}\nopen AfqmcVerif.Props.{pid}\n")
        for n in names:
            f.write(f"#print axioms {n}\n")
    ok, out = lean_file(path)
    res = {n: None for n in names}
    # output: 'name' depends on axioms: [a, b]   |   'name' does not depend on any axioms
    flat = re.sub(r"\s+", " ", out)
    for m in re.finditer(r"'([^']+)' depends on axioms: \[([^\]]*)\]", flat):
        short = m.group(1).split(".")[-1]
        for n in names:
            if n == m.group(1) or n.split(".")[-1] == short:
                res[n] = [a.strip() for a in m.group(2).split(",") if a.strip()]
    for m in re.finditer(r"'([^']+)' does not depend on any axioms", flat):
        short = m.group(1).split(".")[-1]
        for n in names:
            if n == m.group(1) or n.split(".")[-1] == short:
                res[n] = []
    return res, out


class Ctx:
    """state of one check run"""

    def __init__(self, pid, tier, level):
        self.pid = pid
        self.tier = tier
        self.level = level
        self.seed = seed()
        self.t0 = time.time()
        self.work = os.path.join(VERIF, ".work", f"{pid}-{os.getpid()}")
        os.makedirs(self.work, exist_ok=True)
        os.makedirs(os.path.join(VERIF, "replays"), exist_ok=True)
        os.makedirs(os.path.join(VERIF, "evidence"), exist_ok=True)
        self.cov = {
            "evaluations": 0, "distinct_nontrivial": 0, "rule": "", "samples": [],
            "obligations": 0, "discharged": 0,
            "checker_cmd": "cd /verif/lean && lake build +AfqmcVerif.Props.%s && lake env lean <Audit_%s.lean with #print axioms>" % (pid, pid),
            "trusted_base": list(TRUSTED_BASE),
            "theorems": [], "correspondence": {}, "distribution": {}, "skipped": {},
        }
        self.assumptions = []
        self.violations = []      # list of (replay_path, suffix)
        self.known = []           # list of strings
        self.broken = []          # names of theorems / correspondences that no longer check
        self.notes = []

    # ---- Lean side
    def build_and_audit(self, modules=None, generated_ok=True):
        pid = self.pid
        modules = modules or [f"AfqmcVerif.Props.{pid}"]
        ok, log = lake_build(modules)
        self.cov["lean_build_ok"] = ok
        if not ok:
            self.broken.append({"kind": "lean-build", "modules": modules, "log": log[-3000:]})
            self.cov["obligations"] = max(1, len(prop_theorems(pid)))
            self.cov["discharged"] = 0
            return False
        res, out = audit(pid, self.work)
        names = list(res)
        bad = []
        for n, ax in res.items():
            if ax is None or not set(ax) <= ALLOWED_AXIOMS:
                bad.append((n, ax))
        hits = forbidden_tokens()
        self.cov["obligations"] = len(names)
        self.cov["discharged"] = len(names) - len(bad)
        self.cov["theorems"] = [{"name": n, "axioms": res[n]} for n in names]
        self.cov["forbidden_token_hits"] = hits
        if bad or hits or not names:
            self.broken.append({"kind": "audit", "bad_axioms": bad, "forbidden": hits, "log": out[-2000:]})
            return False
        if self.tier == "thorough":
            t0 = time.time()
            okc, logc = leanchecker([m for m in modules if m.startswith("AfqmcVerif.Props.")] or modules)
            self.cov["leanchecker"] = {"ok": okc, "seconds": round(time.time() - t0, 1), "modules": modules}
            if okc is False:
                self.broken.append({"kind": "leanchecker", "log": logc[-2000:]})
                return False
        return True

    # ---- verdicts
    def replay_path(self, obj):
        h = hashlib.sha1(json.dumps(obj, sort_keys=True, default=str).encode()).hexdigest()[:10]
        p = os.path.join(VERIF, "replays", f"{self.pid}-{h}.json")
        with open(p, "w") as f:
            json.dump(obj, f, indent=1, default=str)
        return p

    def violation(self, obj, no_input=False):
        obj = dict(obj)
        obj["property"] = self.pid
        # every random choice of a run derives from (seed, tier): recording them makes the replay exact
        obj["_run"] = {"seed": self.seed, "tier": self.tier}
        p = self.replay_path(obj)
        self.violations.append((p, " no-failing-input-found" if no_input else ""))

    def known_finding(self, text):
        self.known.append(text)

    def finish(self):
        # a broken proof obligation / correspondence without a concrete failing input is still
        # reported (the property is no longer shown to hold)
        if self.broken and not self.violations:
            self.violation({"what": "proof obligation / correspondence no longer checks",
                            "broken": self.broken}, no_input=True)
        cov = self.cov
        cov["broken"] = self.broken
        if cov.get("discharged", 0) < 1 or cov.get("obligations", 0) < 1:
            # schema: proof keys need >= 1; a run whose Lean build broke reports through the generic keys
            cov["discharged_count"] = cov.pop("discharged", 0)
            cov["obligations_count"] = cov.pop("obligations", 0)
        cov["known_findings_reported"] = self.known
        ev = {
            "property_id": self.pid, "tier": self.tier, "seed": self.seed, "level": self.level,
            "coverage": cov, "assumptions": self.assumptions + self.notes,
            "wall_s": round(time.time() - self.t0, 2), "violations": len(self.violations),
        }
        with open(os.path.join(VERIF, "evidence", f"{self.pid}.json"), "w") as f:
            json.dump(ev, f, indent=1, default=str)
        self.violations = self.violations[:8]
        for k in self.known:
            print(f"KNOWN-FINDING: property={self.pid} {k}")
        for p, suf in self.violations:
            print(f"VIOLATION property={self.pid} replay={p}{suf}")
        try:
            import shutil
            shutil.rmtree(self.work, ignore_errors=True)
        except Exception:
            pass
        sys.stdout.flush()
        return 1 if self.violations else 0


def load_known():
    path = os.path.join(VERIF, "known_findings.jsonl")
    res = []
    if os.path.exists(path):
        for l in open(path):
            l = l.strip()
            if l and not l.startswith("#"):
                res.append(json.loads(l))
    return res


def known_match(pid, call_site, input_class):
    for k in load_known():
        if k.get("status") == "known" and k.get("property") == pid and \
                k.get("call_site") == call_site and k.get("input_class") == input_class:
            return k
    return None
