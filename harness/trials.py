"""Random admissible trial wave functions for every trial class of ad_afqmc.wavefunctions, together with
the explicit many-electron state each of them *denotes*, written out from its second-quantised
definition on the brute-force Fock space of fock.py (never through the library's overlap code).

    trial, wave_data, desc = make(kind, rng, norb, nelec, **options)
    sector, vector         = state(kind, trial, wave_data, desc)

contract to be checked against the library (see test_trials.py):

    lib_overlap(kind, trial, wave_data, up, dn) == np.vdot(vector, sector.slater(fock.walker_so(up, dn)))

i.e. <psi_T|Phi(walker)> with the conjugate on the bra.  `rng` is a random.Random; every random number is a
dyadic rational k/2^m drawn from it (exactly representable, so the same inputs can be handed to an exact
model).  `desc` is a plain description (python ints / numpy arrays, no jax) of the parameters, sufficient to
rebuild the state; wave_data is exactly what the library class expects (jax arrays).

Conventions (spin-orbital index p + norb*sigma, alpha block first; |S> = a+_{s1}..a+_{sN}|0>, s1<s2<..):

rhf          wave_data["mo_coeff"] = C (norb, n), nelec=(n,n).  |psi> = prod_k a+(C_k,alpha) prod_k a+(C_k,beta)|0>
             = sector.slater(walker_so(C, C)).  The library uses C.T.conj(), so C may be complex
             (option complex_mo=True) and the bra is conjugated, as in np.vdot.
uhf          wave_data["mo_coeff"] = [Ca (norb,na), Cb (norb,nb)].  |psi> = slater(walker_so(Ca, Cb)); C.T.conj()
             as for rhf.  uhf_cpmc has the same state.
ghf          wave_data["mo_coeff"] = C (2 norb, na+nb) REAL (library uses plain .T).  |psi> = slater(C): the first
             na+nb columns are the occupied spin-orbitals.  ghf_cpmc has the same state.
noci         wave_data["ci_coeffs_dets"] = [c (ndets,), [A (ndets,norb,na), B (ndets,norb,nb)]], all REAL.
             |psi> = sum_d c_d slater(walker_so(A_d, B_d)).
multislater  built from an explicit list [(occ_a, occ_b, c_d)] through pyscf_interface.get_excitations (state
             dictionary {(occvec_a, occvec_b): c_d}, first key = reference).  |psi> = sum_d c_d |D_d> with
             |D_d> = prod_{i in occ_a, increasing} a+_{i alpha} prod_{j in occ_b, increasing} a+_{j beta}|0>
             (alpha-string x beta-string, the pyscf FCI convention).  The library is only right when the first
             determinant is the aufbau one (reference="aufbau", default); reference="random" puts another
             determinant first (known to give wrong library overlaps - kept for failing-input search).
CISD, cisd,  wave_data["ci1"] (nocc,nvirt), ["ci2"] (nocc,nvirt,nocc,nvirt) with ci2[i,a,j,b]=ci2[j,b,i,a]; REAL.
cisd_faster  |psi> = (1 + sum_ia ci1[i,a] E_ai + 1/2 sum_iajb ci2[i,a,j,b] E_ai E_bj)|ref>, E_ai = sum_sigma
             a+_{nocc+a,sigma} a_{i,sigma}, |ref> = first nocc orbitals doubly occupied.  Restricted entry only.
CISD_THC     as CISD with ci2[i,a,j,b] = sum_PQ Xocc[P,i] Xvirt[P,a] VKL[P,Q] Xocc[Q,j] Xvirt[Q,b]
             (wave_data "ci1","Xocc" (nP,nocc),"Xvirt" (nP,nvirt),"VKL" (nP,nP) symmetric).
UCISD, ucisd wave_data "ci1A" (na,nva), "ci1B" (nb,nvb), "ci2AA" (na,nva,na,nva), "ci2BB", "ci2AB" (na,nva,nb,nvb),
             "mo_coeff" (2,norb,norb) = [1, MB], all REAL.  ci2AA[i,a,j,b] is antisymmetric under i<->j and
             under a<->b (the class drops the exchange contraction, so this is REQUIRED).
             |psi_0> = (1 + sum ci1A E^A_ai + sum ci1B E^B_ai + 1/4 sum ci2AA E^A_ai E^A_bj + 1/4 sum ci2BB E^B E^B
                        + sum ci2AB[i,a,j,b] E^A_ai E^B_bj)|ref>     (E^s_ai = a+_{n_s+a,s} a_{i,s})
             is written in the alpha orbital basis for alpha and in the beta MO basis for beta; the beta MOs are the
             columns of MB (in the alpha = working basis):  |psi> = Lambda(1 (+) MB)|psi_0>, i.e. every
             b+_q in |psi_0> is replaced by sum_p MB[p,q] b+_p.  mo_coeff[0] is IGNORED by the library (the
             alpha basis must be the working basis).  The hand-coded ucisd energy/force bias need MB orthogonal.
GCISD        wave_data "ci1" (N,2norb-N), "ci2" (N,nv,N,nv), "mo_coeff" M (2norb,2norb) REAL, N=na+nb.
             |psi_0> = (1 + sum ci1[i,a] c+_{N+a} c_i + 1/4 sum ci2[i,a,j,b] c+_{N+a} c+_{N+b} c_j c_i)|0..N-1>
             in GHF-MO spin-orbitals; MO q has AO spin-orbital components M[:,q]: |psi> = Lambda(M)|psi_0>.

Lambda(M) is the N-particle lift of the one-particle map M: Lambda(M)|S> = slater(M[:, S]).  It is well
defined for non-orthogonal M (CI expansion over non-orthogonal determinants), which is what the library's
"rotate the walker with M.T, then use the formula of the orthonormal case" computes.

Caveats found while testing (see test_trials.py):
  * jnp.linalg.det of JAX 0.11.1 returns the wrong SIGN for ~1.5% of complex 3x3 matrices whose pivot candidates tie
    (e.g. two rows equal in the first two columns; the closed-form 3x3 path under jit).  Every 3-electron
    determinant of the library goes through it.  mo="orthogonal" (entries 0, +-1/2, +-1) together with
    block-structured walkers produces such ties systematically for GCISD with na+nb = 3; use mo="qr" there when a
    flaky sign is not what is being looked for.
  * SUPPORTED records which nelec each kind accepts (rhf and the restricted CISD kinds: closed shell only;
    multislater: nb >= 1; UCISD: nb = 0 only for the overlap).

Options of make(): complex_mo (rhf/uhf), ndets (noci/multislater), reference, max_excitation (multislater),
mo = "identity" | "orthogonal" (exactly orthogonal dyadic) | "qr" (float-orthogonal) | "generic" (non-orthogonal,
well conditioned) for UCISD/ucisd/GCISD (default "orthogonal"), antisym (GCISD, default True), nthc (CISD_THC).
"""
import itertools
import os
import random  # noqa: F401  (rng arguments are random.Random instances)
import sys

import numpy as np

import jax

jax.config.update("jax_enable_x64", True)
import jax.numpy as jnp  # noqa: E402

sys.path.insert(0, os.path.dirname(os.path.abspath(__file__)))
import fock  # noqa: E402

from ad_afqmc import pyscf_interface, wavefunctions  # noqa: E402

KINDS = ["rhf", "uhf", "ghf", "noci", "multislater", "CISD", "UCISD", "GCISD", "CISD_THC",
         "cisd", "cisd_faster", "ucisd"]

# kinds whose _calc_overlap raises NotImplementedError: only _calc_*_restricted(walker, ...) exists
RESTRICTED_ONLY = ("CISD", "CISD_THC", "cisd", "cisd_faster")

# same state as the base class (only CPMC Green's function bookkeeping is added)
ALIASES = {"uhf_cpmc": "uhf", "ghf_cpmc": "ghf"}

# What each kind accepts (established by running the library, see test_trials.py):
#   open_shell : na != nb allowed;  n_dn_zero : nb = 0 allowed for the overlap;  n_dn_zero_energy : nb = 0 also
#   allowed for _calc_energy;  entry : "both" or "restricted" (only _calc_*_restricted exists)
SUPPORTED = {
    "rhf": dict(open_shell=False, n_dn_zero=False, n_dn_zero_energy=False, entry="both",
                note="__post_init__ asserts nelec[0] == nelec[1]"),
    "uhf": dict(open_shell=True, n_dn_zero=True, n_dn_zero_energy=True, entry="both", note=""),
    "ghf": dict(open_shell=True, n_dn_zero=True, n_dn_zero_energy=True, entry="both", note=""),
    "noci": dict(open_shell=True, n_dn_zero=True, n_dn_zero_energy=True, entry="both", note=""),
    "multislater": dict(open_shell=True, n_dn_zero=False, n_dn_zero_energy=False, entry="both",
                        note="nb=0: TypeError while tracing (the placeholder index arrays Bcre/Bdes gather row 0 "
                             "of an empty (0,norb) Green's function); the restricted entry assumes "
                             "ref_det[0]==ref_det[1]"),
    "CISD": dict(open_shell=False, n_dn_zero=False, n_dn_zero_energy=False, entry="restricted",
                 note="nocc = walker.shape[1] for both spins: closed shell only"),
    "CISD_THC": dict(open_shell=False, n_dn_zero=False, n_dn_zero_energy=False, entry="restricted", note="as CISD"),
    "cisd": dict(open_shell=False, n_dn_zero=False, n_dn_zero_energy=False, entry="restricted", note="as CISD"),
    "cisd_faster": dict(open_shell=False, n_dn_zero=False, n_dn_zero_energy=False, entry="restricted", note="as CISD"),
    "UCISD": dict(open_shell=True, n_dn_zero=True, n_dn_zero_energy=False, entry="both",
                  note="nb=0: overlap fine; AD energy/force bias raise IndexError (jvp of the determinant of a "
                       "0x0 matrix in jax.numpy.linalg.det)"),
    "ucisd": dict(open_shell=True, n_dn_zero=True, n_dn_zero_energy=True, entry="both", note=""),
    "GCISD": dict(open_shell=True, n_dn_zero=True, n_dn_zero_energy=True, entry="both", note=""),
}


def supported(kind, norb, nelec):
    """can `kind` be constructed / evaluated for this (norb, nelec)?"""
    kind = ALIASES.get(kind, kind)
    na, nb = nelec
    s = SUPPORTED[kind]
    if na < 1 or nb < 0 or na > norb or nb > norb:
        return False
    if na != nb and not s["open_shell"]:
        return False
    if nb == 0 and not s["n_dn_zero"]:
        return False
    return True


# ------------------------------------------------------------------ dyadic random numbers
def dy(rng, kmax=16, den=16, nonzero=False):
    """k/den with k uniform in [-kmax, kmax] (den a power of two)"""
    while True:
        k = rng.randint(-kmax, kmax)
        if k or not nonzero:
            return k / den


def dy_array(rng, shape, kmax=16, den=16):
    n = int(np.prod(shape)) if len(shape) else 1
    return np.array([dy(rng, kmax, den) for _ in range(n)], dtype=float).reshape(shape)


def dy_orbitals(rng, n, k, smin=None, cplx=False):
    """generic non-orthonormal (n, k) matrix with dyadic entries and smallest singular value >= smin"""
    if k == 0:
        return np.zeros((n, 0), dtype=complex if cplx else float)
    if smin is None:
        smin = 0.2 if n == k else 0.3
    for _ in range(100000):
        m = dy_array(rng, (n, k))
        if cplx:
            m = m + 1j * dy_array(rng, (n, k))
        if np.linalg.svd(m, compute_uv=False)[-1] >= smin:
            return m
    raise RuntimeError("no well conditioned matrix found")


def dy_orthogonal(rng, n):
    """exactly orthogonal matrix with dyadic entries: signed permutation times Householder reflections
    1 - v v^T / 2 with v in {+-1}^4 on random 4-subsets (only signed permutations exist for n < 4)"""
    perm = list(range(n))
    rng.shuffle(perm)
    q = np.zeros((n, n))
    for c, r in enumerate(perm):
        q[r, c] = rng.choice((-1.0, 1.0))
    if n >= 4:
        for _ in range(3):
            idx = rng.sample(range(n), 4)
            v = np.zeros(n)
            for i in idx:
                v[i] = rng.choice((-1.0, 1.0))
            q = q @ (np.eye(n) - np.outer(v, v) / 2.0)
    assert np.array_equal(q.T @ q, np.eye(n))
    return q


def _basis(rng, n, mode):
    if mode == "identity":
        return np.eye(n)
    if mode == "orthogonal":
        return dy_orthogonal(rng, n)
    if mode == "qr":
        q, r = np.linalg.qr(dy_orbitals(rng, n, n))
        return q * np.sign(np.diag(r))
    if mode == "generic":
        return dy_orbitals(rng, n, n)
    raise ValueError(mode)


def _antisym_doubles(rng, no, nv, kmax=4):
    """c[i,a,j,b] = -c[j,a,i,b] = -c[i,b,j,a] = c[j,b,i,a] with dyadic entries"""
    t = dy_array(rng, (no, no, nv, nv), kmax=kmax)
    t = t - t.transpose(1, 0, 2, 3)
    t = t - t.transpose(0, 1, 3, 2)
    return np.ascontiguousarray(t.transpose(0, 2, 1, 3))


def _sym_doubles(rng, no, nv, kmax=4):
    """c[i,a,j,b] = c[j,b,i,a] with dyadic entries"""
    t = dy_array(rng, (no, nv, no, nv), kmax=kmax)
    return t + t.transpose(2, 3, 0, 1)


def thc_ci2(xocc, xvirt, vkl):
    return np.einsum("Pi,Pa,PQ,Qj,Qb->iajb", xocc, xvirt, vkl, xocc, xvirt)


def occ_vector(norb, occ):
    v = [0] * norb
    for i in occ:
        v[i] = 1
    return tuple(v)


# ------------------------------------------------------------------ construction
def make(kind, rng, norb, nelec, **opt):
    """-> (trial, wave_data, desc); see the module docstring"""
    kind0 = kind
    kind = ALIASES.get(kind, kind)
    nelec = (int(nelec[0]), int(nelec[1]))
    na, nb = nelec
    if not supported(kind, norb, nelec):
        raise ValueError(f"{kind} does not support norb={norb} nelec={nelec}: {SUPPORTED[kind]['note']}")
    desc = {"kind": kind, "norb": norb, "nelec": nelec}
    J = jnp.array

    if kind == "rhf":
        c = dy_orbitals(rng, norb, na, cplx=opt.get("complex_mo", False))
        trial = wavefunctions.rhf(norb, nelec)
        wave_data = {"mo_coeff": J(c)}
        desc["mo_coeff"] = c

    elif kind == "uhf":
        cplx = opt.get("complex_mo", False)
        ca, cb = dy_orbitals(rng, norb, na, cplx=cplx), dy_orbitals(rng, norb, nb, cplx=cplx)
        trial = getattr(wavefunctions, kind0)(norb, nelec)
        wave_data = {"mo_coeff": [J(ca), J(cb)]}
        desc["mo_coeff"] = [ca, cb]

    elif kind == "ghf":
        c = dy_orbitals(rng, 2 * norb, na + nb)
        trial = getattr(wavefunctions, kind0)(norb, nelec)
        wave_data = {"mo_coeff": J(c)}
        desc["mo_coeff"] = c

    elif kind == "noci":
        nd = opt.get("ndets", 3)
        coeffs = np.array([dy(rng, nonzero=True) for _ in range(nd)])
        da = np.array([dy_orbitals(rng, norb, na) for _ in range(nd)]).reshape(nd, norb, na)
        db = np.array([dy_orbitals(rng, norb, nb) for _ in range(nd)]).reshape(nd, norb, nb)
        trial = wavefunctions.noci(norb, nelec, nd)
        wave_data = {"ci_coeffs_dets": [J(coeffs), [J(da), J(db)]]}
        desc.update(ci_coeffs=coeffs, dets_up=da, dets_dn=db)

    elif kind == "multislater":
        alldets = [(a, b) for a in itertools.combinations(range(norb), na)
                   for b in itertools.combinations(range(norb), nb)]
        aufbau = (tuple(range(na)), tuple(range(nb)))
        others = [d for d in alldets if d != aufbau]
        nd = min(opt.get("ndets", 6), len(alldets))
        chosen = rng.sample(others, nd - 1)
        reference = opt.get("reference", "aufbau")
        if reference == "aufbau":
            dets = [aufbau] + chosen
        elif reference == "random":
            if not chosen:
                raise ValueError("no non-aufbau determinant available")
            dets = chosen[:1] + [aufbau] + chosen[1:]  # a non-aufbau determinant comes first
        elif reference == "top":
            # the reference occupies the HIGHEST orbitals and the aufbau determinant is in the list: every electron
            # moves downwards (nested hole/particle patterns, the hardest case for the sign bookkeeping)
            top = (tuple(range(norb - na, norb)), tuple(range(norb - nb, norb)))
            if top == aufbau:
                dets = [aufbau] + chosen
            else:
                dets = [top, aufbau] + [d for d in chosen if d != top][: max(0, nd - 2)]
        elif reference == "split":
            # the reference has DIFFERENT alpha and beta occupations although the electron counts are equal (an open-shell-singlet
            # leading determinant): nothing that is computed for one spin may be reused for the other
            cand = [d for d in others if d[0] != d[1]]
            if na != nb or not cand:
                raise ValueError("no split reference available")
            d0 = rng.choice(cand)
            dets = [d0, aufbau] + [d for d in chosen if d != d0][: max(0, nd - 2)]
        else:
            raise ValueError(reference)
        if opt.get("single"):
            dets = dets[:1]          # a one-element determinant list: the trial IS its reference determinant
        coeffs = [dy(rng, nonzero=True) for _ in dets]
        d0 = dets[0]
        rank = max(len(set(d0[0]) - set(a)) + len(set(d0[1]) - set(b)) for a, b in dets)
        mx = opt.get("max_excitation", max(rank, 1))
        st = {}
        for (a, b), c in zip(dets, coeffs):
            st[(occ_vector(norb, a), occ_vector(norb, b))] = c
        acre, ades, bcre, bdes, coeff, ref_det = pyscf_interface.get_excitations(state=st, max_excitation=mx)
        trial = wavefunctions.multislater(norb, nelec, max_excitation=mx)
        wave_data = {
            "Acre": {k: J(np.asarray(v, dtype=int)) for k, v in acre.items()},
            "Ades": {k: J(np.asarray(v, dtype=int)) for k, v in ades.items()},
            "Bcre": {k: J(np.asarray(v, dtype=int)) for k, v in bcre.items()},
            "Bdes": {k: J(np.asarray(v, dtype=int)) for k, v in bdes.items()},
            "coeff": {k: J(np.asarray(v, dtype=float)) for k, v in coeff.items()},
            "ref_det": J(np.asarray(ref_det, dtype=int)),
        }
        desc.update(dets=[(tuple(a), tuple(b), c) for (a, b), c in zip(dets, coeffs)],
                    reference=reference, max_excitation=mx, state_dict=st)

    elif kind in ("CISD", "cisd", "cisd_faster"):
        no, nv = na, norb - na
        ci1 = dy_array(rng, (no, nv), kmax=8)
        ci2 = _sym_doubles(rng, no, nv)
        trial = getattr(wavefunctions, kind)(norb, nelec)
        wave_data = {"ci1": J(ci1), "ci2": J(ci2)}
        desc.update(ci1=ci1, ci2=ci2)

    elif kind == "CISD_THC":
        no, nv = na, norb - na
        nthc = opt.get("nthc", 3)
        ci1 = dy_array(rng, (no, nv), kmax=8)
        xocc = dy_array(rng, (nthc, no), kmax=4, den=4)
        xvirt = dy_array(rng, (nthc, nv), kmax=4, den=4)
        v = dy_array(rng, (nthc, nthc), kmax=4, den=16)
        vkl = v + v.T
        trial = wavefunctions.CISD_THC(norb, nelec)
        wave_data = {"ci1": J(ci1), "Xocc": J(xocc), "Xvirt": J(xvirt), "VKL": J(vkl)}
        desc.update(ci1=ci1, Xocc=xocc, Xvirt=xvirt, VKL=vkl)

    elif kind in ("UCISD", "ucisd"):
        nva, nvb = norb - na, norb - nb
        ci1a, ci1b = dy_array(rng, (na, nva), kmax=8), dy_array(rng, (nb, nvb), kmax=8)
        ci2aa, ci2bb = _antisym_doubles(rng, na, nva), _antisym_doubles(rng, nb, nvb)
        ci2ab = dy_array(rng, (na, nva, nb, nvb), kmax=8)
        mb = _basis(rng, norb, opt.get("mo", "orthogonal"))
        mo = np.array([np.eye(norb), mb])
        trial = getattr(wavefunctions, kind)(norb, nelec)
        wave_data = {"ci1A": J(ci1a), "ci1B": J(ci1b), "ci2AA": J(ci2aa), "ci2BB": J(ci2bb),
                     "ci2AB": J(ci2ab), "mo_coeff": J(mo)}
        desc.update(ci1A=ci1a, ci1B=ci1b, ci2AA=ci2aa, ci2BB=ci2bb, ci2AB=ci2ab, mo_coeff=mo)

    elif kind == "GCISD":
        no, nv = na + nb, 2 * norb - na - nb
        ci1 = dy_array(rng, (no, nv), kmax=8)
        if opt.get("antisym", True):
            ci2 = _antisym_doubles(rng, no, nv)
        else:
            ci2 = dy_array(rng, (no, nv, no, nv), kmax=8)
        m = _basis(rng, 2 * norb, opt.get("mo", "orthogonal"))
        trial = wavefunctions.GCISD(norb, nelec)
        wave_data = {"ci1": J(ci1), "ci2": J(ci2), "mo_coeff": J(m)}
        desc.update(ci1=ci1, ci2=ci2, mo_coeff=m)

    else:
        raise ValueError(kind)
    return trial, wave_data, desc


# ------------------------------------------------------------------ explicit states
_SECTORS = {}


def sector_for(norb, nelec):
    key = (2 * norb, nelec[0] + nelec[1])
    if key not in _SECTORS:
        _SECTORS[key] = fock.Sector(*key)
    return _SECTORS[key]


def lift(sec, m, v):
    """Lambda(m) v: every creator a+_s in v is replaced by sum_q m[q,s] a+_q  (m: nso x nso)"""
    m = np.asarray(m)
    out = np.zeros(sec.dim, dtype=complex)
    for idx, s in enumerate(sec.subsets):
        if v[idx] != 0:
            out += v[idx] * sec.slater(m[:, list(s)])
    return out


def _plain(kind, wave_data):
    """plain numpy description recovered from wave_data (everything except multislater)"""
    A = np.asarray
    if kind in ("rhf", "ghf"):
        return {"mo_coeff": A(wave_data["mo_coeff"])}
    if kind == "uhf":
        return {"mo_coeff": [A(wave_data["mo_coeff"][0]), A(wave_data["mo_coeff"][1])]}
    if kind == "noci":
        c, d = wave_data["ci_coeffs_dets"]
        return {"ci_coeffs": A(c), "dets_up": A(d[0]), "dets_dn": A(d[1])}
    if kind == "multislater":
        raise ValueError("multislater needs the desc returned by make()")
    return {k: A(v) for k, v in wave_data.items() if k != "rdm1"}


def _cisd_vector(sec, nocc, ci1, ci2):
    norb = sec.nso // 2
    no, nv = nocc, norb - nocc
    ref = fock.det_state(sec, range(no), range(no))
    E = {(i, a): fock.excitation_op(sec, no + a, i) for i in range(no) for a in range(nv)}
    psi = ref.copy()
    for (i, a), e in E.items():
        psi += ci1[i, a] * (e @ ref)
    for (j, b), ejb in E.items():
        w = ejb @ ref
        for (i, a), eia in E.items():
            psi += 0.5 * ci2[i, a, j, b] * (eia @ w)
    return psi


def state(kind, trial, wave_data, desc=None):
    """-> (sector, vector): |psi_T> in the (na+nb)-electron sector of 2*norb spin-orbitals"""
    kind = ALIASES.get(kind, kind)
    norb, nelec = int(trial.norb), (int(trial.nelec[0]), int(trial.nelec[1]))
    na, nb = nelec
    sec = sector_for(norb, nelec)
    d = desc if desc is not None else _plain(kind, wave_data)

    if kind == "rhf":
        c = np.asarray(d["mo_coeff"])
        return sec, sec.slater(fock.walker_so(c, c))

    if kind == "uhf":
        ca, cb = d["mo_coeff"]
        return sec, sec.slater(fock.walker_so(np.asarray(ca), np.asarray(cb)))

    if kind == "ghf":
        return sec, sec.slater(np.asarray(d["mo_coeff"])[:, : na + nb])

    if kind == "noci":
        psi = np.zeros(sec.dim, dtype=complex)
        for c, a, b in zip(d["ci_coeffs"], d["dets_up"], d["dets_dn"]):
            psi += c * sec.slater(fock.walker_so(a[:, :na], b[:, :nb]))
        return sec, psi

    if kind == "multislater":
        psi = np.zeros(sec.dim, dtype=complex)
        for occ_a, occ_b, c in d["dets"]:
            psi += c * fock.det_state(sec, occ_a, occ_b)
        return sec, psi

    if kind in ("CISD", "cisd", "cisd_faster"):
        return sec, _cisd_vector(sec, na, d["ci1"], d["ci2"])

    if kind == "CISD_THC":
        return sec, _cisd_vector(sec, na, d["ci1"], thc_ci2(d["Xocc"], d["Xvirt"], d["VKL"]))

    if kind in ("UCISD", "ucisd"):
        nva, nvb = norb - na, norb - nb
        ref = fock.det_state(sec, range(na), range(nb))
        EA = {(i, a): fock.excitation_op(sec, na + a, i, spin=0) for i in range(na) for a in range(nva)}
        EB = {(i, a): fock.excitation_op(sec, nb + a, i, spin=1) for i in range(nb) for a in range(nvb)}
        psi = ref.copy()
        for (i, a), e in EA.items():
            psi += d["ci1A"][i, a] * (e @ ref)
        for (i, a), e in EB.items():
            psi += d["ci1B"][i, a] * (e @ ref)
        for (j, b), ejb in EA.items():
            w = ejb @ ref
            for (i, a), eia in EA.items():
                psi += 0.25 * d["ci2AA"][i, a, j, b] * (eia @ w)
        for (j, b), ejb in EB.items():
            w = ejb @ ref
            for (i, a), eia in EB.items():
                psi += 0.25 * d["ci2BB"][i, a, j, b] * (eia @ w)
            for (i, a), eia in EA.items():
                psi += d["ci2AB"][i, a, j, b] * (eia @ w)
        mb = np.asarray(d["mo_coeff"])[1]
        return sec, lift(sec, fock.spin_block(np.eye(norb), mb), psi)

    if kind == "GCISD":
        n, nv = na + nb, 2 * norb - na - nb
        ref = np.zeros(sec.dim, dtype=complex)
        ref[sec.index[tuple(range(n))]] = 1.0

        def op(p, q):
            o = np.zeros((sec.nso, sec.nso))
            o[p, q] = 1.0
            return sec.one_body(o)

        X = {(i, a): op(n + a, i) for i in range(n) for a in range(nv)}  # c+_{N+a} c_i
        psi = ref.copy()
        for (i, a), x in X.items():
            psi += d["ci1"][i, a] * (x @ ref)
        # c+_a c+_b c_j c_i = (c+_a c_i)(c+_b c_j) for occupied i,j and virtual a,b
        for (j, b), xjb in X.items():
            w = xjb @ ref
            for (i, a), xia in X.items():
                psi += 0.25 * d["ci2"][i, a, j, b] * (xia @ w)
        return sec, lift(sec, np.asarray(d["mo_coeff"]), psi)

    raise ValueError(kind)


# ------------------------------------------------------------------ library entry points / spec values
def is_restricted_only(trial):
    return type(trial)._calc_overlap is wavefunctions.wave_function._calc_overlap


def lib_overlap(kind, trial, wave_data, up, dn):
    if ALIASES.get(kind, kind) in RESTRICTED_ONLY:
        assert up.shape == dn.shape and bool(jnp.all(up == dn)), "restricted entry point: walker_up must equal walker_dn"
        return complex(trial._calc_overlap_restricted(up, wave_data))
    return complex(trial._calc_overlap(up, dn, wave_data))


def lib_energy(kind, trial, ham_data, wave_data, up, dn, restricted=None):
    """ham_data must already have gone through trial._build_measurement_intermediates"""
    if restricted is None:
        restricted = ALIASES.get(kind, kind) in RESTRICTED_ONLY
    if restricted:
        return complex(trial._calc_energy_restricted(up, ham_data, wave_data))
    return complex(trial._calc_energy(up, dn, ham_data, wave_data))


def lib_force_bias(kind, trial, ham_data, wave_data, up, dn, restricted=None):
    """ham_data must already have gone through trial._build_measurement_intermediates"""
    if restricted is None:
        restricted = ALIASES.get(kind, kind) in RESTRICTED_ONLY
    if restricted:
        return np.asarray(trial._calc_force_bias_restricted(up, ham_data, wave_data))
    return np.asarray(trial._calc_force_bias(up, dn, ham_data, wave_data))


def make_ham(rng, norb, nchol=3, spin_dependent=False):
    """random dyadic ham_data: h0, h1 (2,norb,norb) symmetric, chol (nchol, norb*norb) symmetric matrices"""
    def symm():
        m = dy_array(rng, (norb, norb), kmax=8)
        return m + m.T
    h0 = dy(rng)
    ha = symm()
    hb = symm() if spin_dependent else ha
    chol = np.array([symm() / 2.0 for _ in range(nchol)])
    ham_data = {"h0": h0, "h1": jnp.array([ha, hb]), "chol": jnp.array(chol.reshape(nchol, norb * norb))}
    plain = {"h0": h0, "h1": np.array([ha, hb]), "chol": chol.reshape(nchol, norb * norb)}
    return ham_data, plain


def spec_overlap(sec, psi, up, dn):
    return complex(np.vdot(psi, sec.slater(fock.walker_so(np.asarray(up), np.asarray(dn)))))


def spec_energy(sec, psi, H, up, dn):
    phi = sec.slater(fock.walker_so(np.asarray(up), np.asarray(dn)))
    return complex(np.vdot(psi, H @ phi) / np.vdot(psi, phi))


def spec_force_bias(sec, psi, chol, up, dn):
    """<psi_T| sum_sigma L_g |Phi> / <psi_T|Phi> for every Cholesky vector g"""
    phi = sec.slater(fock.walker_so(np.asarray(up), np.asarray(dn)))
    ov = np.vdot(psi, phi)
    return np.array([np.vdot(psi, op @ phi) / ov for op in fock.chol_ops(sec, chol)])
