"""save a confirmed seeded change under /verif/seeded/<name>/ (patch.diff, demo.py, meta.json)"""
import json, os, shutil, sys
name, src, confirm, detected = sys.argv[1], sys.argv[2], sys.argv[3], sys.argv[4]
dst = os.path.join("/verif/seeded", name)
os.makedirs(dst, exist_ok=True)
for f in ("patch.diff", "demo.py"):
    shutil.copy(os.path.join(src, f), os.path.join(dst, f))
meta = json.load(open(os.path.join(src, "meta.json")))
out = {
    "property": meta.get("property"),
    "what_it_breaks": meta.get("summary"),
    "needs_to_manifest": meta.get("needs_to_manifest"),
    "files_changed": meta.get("files_changed"),
    "origin": "fresh sub-agent given only the property text and a scratch git worktree of /repo",
    "confirmed_by_me": confirm,
    "detected_by": detected,
}
json.dump(out, open(os.path.join(dst, "meta.json"), "w"), indent=1)
print("saved", dst)
