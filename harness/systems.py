"""Small random AFQMC problems built through the library's own set-up calls (shared by several checks)."""
import numpy as np


def setup_jax():
    import jax
    jax.config.update("jax_enable_x64", True)
    jax.config.update("jax_platform_name", "cpu")


def sym(a):
    return (a + a.T) / 2


def dyadic(rng, shape, bits=4, scale=1.0):
    a = np.array([rng.randint(-(2 ** bits), 2 ** bits) for _ in range(int(np.prod(shape)))], dtype=float)
    return (a / 2 ** bits * scale).reshape(shape)


def random_ham(rng, norb, nchol, spin_dep=False, h_scale=1.0, l_scale=0.5):
    """h0, h1 (2, norb, norb) symmetric, chol (nchol, norb*norb) symmetric matrices; dyadic entries"""
    import jax.numpy as jnp
    h0 = rng.randint(-8, 8) / 8.0
    ha = sym(dyadic(rng, (norb, norb), 4, h_scale))
    hb = sym(dyadic(rng, (norb, norb), 4, h_scale)) if spin_dep else ha
    chol = np.array([sym(dyadic(rng, (norb, norb), 4, l_scale)) for _ in range(nchol)]).reshape(nchol, norb * norb)
    return {"h0": h0, "h1": jnp.array([ha, hb]), "chol": jnp.array(chol), "ene0": 0.0}


def orthonormal(rng, n, k):
    a = dyadic(rng, (n, n), 4) + 2 * np.eye(n)
    q, _ = np.linalg.qr(a)
    return q[:, :k]


def make_trial(rng, kind, norb, nelec, n_batch=1):
    import jax.numpy as jnp
    from ad_afqmc import wavefunctions as wf
    wave_data = {}
    if kind == "rhf":
        trial = wf.rhf(norb, nelec, n_batch=n_batch)
        c = orthonormal(rng, norb, nelec[0])
        wave_data["mo_coeff"] = jnp.array(c)
        wave_data["rdm1"] = jnp.array([c @ c.T, c[:, :nelec[1]] @ c[:, :nelec[1]].T])
    elif kind == "uhf":
        trial = wf.uhf(norb, nelec, n_batch=n_batch)
        ca, cb = orthonormal(rng, norb, nelec[0]), orthonormal(rng, norb, nelec[1])
        wave_data["mo_coeff"] = [jnp.array(ca), jnp.array(cb)]
        wave_data["rdm1"] = jnp.array([ca @ ca.T, cb @ cb.T])
    elif kind == "uhf_same":  # uhf trial with the same spatial orbitals for both spins (closed shell)
        trial = wf.uhf(norb, nelec, n_batch=n_batch)
        c = orthonormal(rng, norb, nelec[0])
        wave_data["mo_coeff"] = [jnp.array(c), jnp.array(c[:, :nelec[1]])]
        wave_data["rdm1"] = jnp.array([c @ c.T, c[:, :nelec[1]] @ c[:, :nelec[1]].T])
    elif kind == "ghf":
        trial = wf.ghf(norb, nelec, n_batch=n_batch)
        c = orthonormal(rng, 2 * norb, nelec[0] + nelec[1])
        wave_data["mo_coeff"] = jnp.array(c)
        d = c @ c.T
        wave_data["rdm1"] = jnp.array([d[:norb, :norb], d[norb:, norb:]])
    else:
        raise ValueError(kind)
    return trial, wave_data


def make_system(rng, trial_kind="uhf", walker_type="unrestricted", norb=4, nelec=(2, 2), nchol=3, n_walkers=4,
                dt=0.01, n_batch=1, prop_batch=1, spin_dep=False, seed=0, h_scale=1.0, l_scale=0.5, init_walkers=None,
                converge=0):
    import jax.numpy as jnp
    from jax import random as jr
    from ad_afqmc import hamiltonian, propagation
    ham = hamiltonian.hamiltonian(norb)
    ham_data = random_ham(rng, norb, nchol, spin_dep, h_scale, l_scale)
    trial, wave_data = make_trial(rng, trial_kind, norb, nelec, n_batch)
    for _ in range(converge):
        # SCF-converge the trial orbitals for this Hamiltonian (rhf / uhf), keep rdm1 consistent
        wave_data = trial.optimize(dict(ham_data), dict(wave_data))
        mo = wave_data["mo_coeff"]
        if isinstance(mo, (list, tuple)):
            wave_data["rdm1"] = jnp.array([mo[0] @ mo[0].T, mo[1] @ mo[1].T])
        else:
            wave_data["rdm1"] = jnp.array([mo @ mo.T, mo[:, :nelec[1]] @ mo[:, :nelec[1]].T])
    if walker_type == "restricted":
        prop = propagation.propagator_restricted(dt=dt, n_walkers=n_walkers, n_batch=prop_batch)
    else:
        prop = propagation.propagator_unrestricted(dt=dt, n_walkers=n_walkers, n_batch=prop_batch)
    ham_data = ham.build_measurement_intermediates(ham_data, trial, wave_data)
    ham_data = ham.build_propagation_intermediates(ham_data, prop, trial, wave_data)
    prop_data = prop.init_prop_data(trial, wave_data, ham_data, init_walkers)
    prop_data["key"] = jr.PRNGKey(seed)
    return dict(ham=ham, ham_data=ham_data, trial=trial, wave_data=wave_data, prop=prop, prop_data=prop_data)


def copy_prop_data(pd):
    import jax.numpy as jnp
    out = {}
    for k, v in pd.items():
        out[k] = [jnp.array(x) for x in v] if isinstance(v, list) else (jnp.array(v) if hasattr(v, "shape") else v)
    return out


def chain_adjacency(n, periodic=True):
    a = np.zeros((n, n))
    for i in range(n - 1):
        a[i, i + 1] = a[i + 1, i] = 1
    if periodic and n > 2:
        a[0, n - 1] = a[n - 1, 0] = 1
    return a


def grid_adjacency(lx, ly):
    n = lx * ly
    a = np.zeros((n, n))
    for y in range(ly):
        for x in range(lx):
            i = y * lx + x
            for (dx, dy) in ((1, 0), (0, 1)):
                j = ((y + dy) % ly) * lx + (x + dx) % lx
                if i != j:
                    a[i, j] = a[j, i] = 1
    return a


def make_hubbard(rng, adj, u, nelec, trial_kind="uhf_cpmc", prop_kind="cpmc", dt=0.05, n_walkers=4, u1=0.5,
                 uniform_trial=False, seed=0, init_walkers=None, chol_onsite=True):
    """Hubbard model the way examples/hubbard.ipynb sets it up: h1 = -t adjacency, on-site Cholesky vectors
    sqrt(U) |i><i|, ham_data['u'] = U; trial from a (pinned-field) mean-field diagonalisation"""
    import jax.numpy as jnp
    from jax import random as jr
    from ad_afqmc import hamiltonian, propagation, wavefunctions as wf
    norb = adj.shape[0]
    ham = hamiltonian.hamiltonian(norb)
    h1 = -1.0 * adj
    chol = np.zeros((norb, norb, norb))
    if chol_onsite:
        for i in range(norb):
            chol[i, i, i] = np.sqrt(u)
    ham_data = {"h0": 0.0, "h1": jnp.array([h1, h1]), "chol": jnp.array(chol.reshape(norb, norb * norb)), "ene0": 0.0,
                "u": float(u), "u_1": float(u1), "hs_constant": float(np.sqrt(dt * u))}
    # trial orbitals: eigenvectors of h1 plus a site potential (non-uniform density unless uniform_trial)
    pin = np.zeros(norb) if uniform_trial else np.array([rng.randint(-4, 4) / 8.0 for _ in range(norb)])
    wa, va = np.linalg.eigh(h1 + np.diag(pin))
    wb, vb = np.linalg.eigh(h1 - np.diag(pin))
    ca, cb = va[:, :nelec[0]], vb[:, :nelec[1]]
    wave_data = {}
    if trial_kind == "uhf_cpmc":
        trial = wf.uhf_cpmc(norb, nelec)
        wave_data["mo_coeff"] = [jnp.array(ca), jnp.array(cb)]
        wave_data["rdm1"] = jnp.array([ca @ ca.T, cb @ cb.T])
    elif trial_kind == "ghf_cpmc":
        trial = wf.ghf_cpmc(norb, nelec)
        c = np.zeros((2 * norb, nelec[0] + nelec[1]))
        c[:norb, :nelec[0]] = ca
        c[norb:, nelec[0]:] = cb
        if not uniform_trial:
            # genuinely spin-mixed: rotate with a small orthogonal mixing of up and down blocks
            th = 0.3
            rot = np.block([[np.cos(th) * np.eye(norb), -np.sin(th) * np.eye(norb)], [np.sin(th) * np.eye(norb), np.cos(th) * np.eye(norb)]])
            c = rot @ c
        wave_data["mo_coeff"] = jnp.array(c)
        d = c @ c.T
        wave_data["rdm1"] = jnp.array([d[:norb, :norb], d[norb:, norb:]])
    else:
        raise ValueError(trial_kind)
    nb = tuple((i, int(j)) for i in range(norb) for j in np.nonzero(adj[i])[0] if i < j)
    cls = {"cpmc": propagation.propagator_cpmc, "cpmc_slow": propagation.propagator_cpmc_slow,
           "cpmc_nn": propagation.propagator_cpmc_nn, "cpmc_nn_slow": propagation.propagator_cpmc_nn_slow,
           "cpmc_continuous": propagation.propagator_cpmc_continuous}[prop_kind]
    if "nn" in prop_kind:
        prop = cls(dt=dt, n_walkers=n_walkers, neighbors=nb)
    else:
        prop = cls(dt=dt, n_walkers=n_walkers)
    ham_data = ham.build_measurement_intermediates(ham_data, trial, wave_data)
    ham_data = ham.build_propagation_intermediates(ham_data, prop, trial, wave_data)
    if init_walkers is None:
        # walkers differ from the trial: the free (pin = 0) orbitals.  In a degenerate shell these can be (nearly) orthogonal to the
        # pinned trial; a start with vanishing trial overlap is outside every property's quantifier (and refused by the driver), so
        # the start is leant towards the trial's orbitals until the overlap is bounded away from zero
        w0, v0 = np.linalg.eigh(h1 + 1e-3 * np.diag(np.arange(norb)))
        for mix in (0.0, 0.5, 1.0, 2.0, 8.0):
            wa0 = v0[:, :nelec[0]] if mix == 0.0 else np.linalg.qr(v0[:, :nelec[0]] + mix * ca)[0]
            wb0 = v0[:, :nelec[1]] if (mix == 0.0 or not nelec[1]) else np.linalg.qr(v0[:, :nelec[1]] + mix * cb)[0]
            init_walkers = [jnp.array([wa0 + 0.0j] * n_walkers), jnp.array([wb0 + 0.0j] * n_walkers)]
            prop_data = prop.init_prop_data(trial, wave_data, ham_data, init_walkers)
            if float(np.min(np.abs(np.array(prop_data["overlaps"])))) > 0.05:
                break
    else:
        prop_data = prop.init_prop_data(trial, wave_data, ham_data, init_walkers)
    prop_data["key"] = jr.PRNGKey(seed)
    return dict(ham=ham, ham_data=ham_data, trial=trial, wave_data=wave_data, prop=prop, prop_data=prop_data, adj=adj, u=u)


def scf_residual(S):
    """how far the trial orbitals of a system are from a fixed point of the Roothaan map: change of the occupied projectors under ONE
    plain Roothaan step computed here (no library code)"""
    trial, ham = S["trial"], S["ham"]
    norb = ham.norb
    ne = trial.nelec
    h1 = np.array(S["ham_data"]["h1"])
    L = np.array(S["ham_data"]["chol"]).reshape(-1, norb, norb)
    mo = S["wave_data"]["mo_coeff"]
    if type(trial).__name__ == "rhf":
        h1 = np.array([(h1[0] + h1[1]) / 2] * 2)
        cs = [np.array(mo)[:, :ne[0]], np.array(mo)[:, :ne[1]]]
    else:
        cs = [np.array(mo[0]), np.array(mo[1])]
    dm = [c @ c.conj().T for c in cs]
    D = dm[0] + dm[1]
    J = sum(np.sum(l * D) * l for l in L)
    out = 0.0
    for s in (0, 1):
        Kx = sum(l @ dm[s] @ l for l in L)
        w, v = np.linalg.eigh(h1[s] + J - Kx)
        out = max(out, float(np.abs(v[:, :ne[s]] @ v[:, :ne[s]].conj().T - dm[s]).max()))
    return out


def converge_independent(S, iters=600):
    """SCF-converge the trial of a system with a plain Roothaan solver that shares no code with the library
    (so that a defect in trial.optimize cannot make a trial look converged); rebuilds intermediates and prop_data"""
    import jax.numpy as jnp
    trial, ham, prop = S["trial"], S["ham"], S["prop"]
    norb = ham.norb
    ne = trial.nelec
    h1 = np.array(S["ham_data"]["h1"])
    L = np.array(S["ham_data"]["chol"]).reshape(-1, norb, norb)
    restricted_trial = type(trial).__name__ == "rhf"
    if restricted_trial:
        h1 = np.array([(h1[0] + h1[1]) / 2] * 2)
    eig = [np.linalg.eigh(h1[s])[1] for s in (0, 1)]
    dm = [eig[s][:, :ne[s]] @ eig[s][:, :ne[s]].T for s in (0, 1)]
    cs = None
    for it in range(iters):
        D = dm[0] + dm[1]
        J = sum(np.sum(l * D) * l for l in L)
        new, cs = [], []
        for s in (0, 1):
            Kx = sum(l @ dm[s] @ l for l in L)
            w, v = np.linalg.eigh(h1[s] + J - Kx)
            cs.append(v[:, :ne[s]])
            new.append(cs[-1] @ cs[-1].T)
        delta = max(np.abs(new[s] - dm[s]).max() for s in (0, 1))
        # plain (undamped) Roothaan steps: a limit of this iteration is a STABLE fixed point of the very map the library
        # iterates, so the library must leave it unchanged; problems on which it does not settle are skipped by the caller
        dm = new
        if delta < 1e-13:
            break
    wd = dict(S["wave_data"])
    wd["mo_coeff"] = jnp.array(cs[0]) if restricted_trial else [jnp.array(cs[0]), jnp.array(cs[1])]
    wd["rdm1"] = jnp.array([cs[0] @ cs[0].T, cs[1] @ cs[1].T])
    key = S["prop_data"]["key"]
    hd = {k: S["ham_data"][k] for k in ("h0", "h1", "chol", "ene0") if k in S["ham_data"]}
    hd = ham.build_measurement_intermediates(hd, trial, wd)
    hd = ham.build_propagation_intermediates(hd, prop, trial, wd)
    pd = prop.init_prop_data(trial, wd, hd)
    pd["key"] = key
    out = dict(S)
    out.update(ham_data=hd, wave_data=wd, prop_data=pd, scf_residual=float(delta))
    return out
