#!/bin/bash
# usage: clean_sweep.sh <tier> <seed...> — run every claimed check on the clean tree; one line per run
tier=$1; shift
cd /verif
[ -z "$(git -C /repo status --short)" ] || { echo "/repo is not clean"; exit 9; }
for s in "$@"; do
  for i in $(seq -w 1 20); do
    t0=$(date +%s)
    out=$(VERIF_SEED=$s ./check C$i --tier $tier 2>&1); rc=$?
    t1=$(date +%s)
    echo "seed=$s C$i tier=$tier exit=$rc violations=$(echo "$out" | grep -c '^VIOLATION') known=$(echo "$out" | grep -c '^KNOWN-FINDING') secs=$((t1-t0))"
    [ $rc -ne 0 ] && echo "$out" | grep -E "^VIOLATION|^ERROR" | head -3
  done
done
