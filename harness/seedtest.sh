#!/bin/bash
# usage: seedtest.sh <patch.diff> <Cxx> [tier]   — apply a seeded change to /repo, run the check, undo
set -u
patch=$1; id=$2; tier=${3:-quick}
cd /repo && git apply "$patch" || { echo "patch does not apply"; exit 3; }
cd /verif && ./check "$id" --tier "$tier"; rc=$?
git -C /repo checkout -- . 
echo "exit=$rc"
git -C /repo status --short
