"""Brute-force second quantisation on occupation-number states: the executable *specification* used to
judge the implementation (failing-input search / spec checks) for the trial-state properties.

Spin-orbital index: p + norb*sigma (alpha block first).  An N-electron state is a vector over the
N-subsets of the 2*norb spin-orbitals in lexicographic order of their sorted index tuples;
|S> = a+_{s1} a+_{s2} ... a+_{sN} |0> with s1 < s2 < ... (so alpha creators stand left of beta creators:
the alpha-string x beta-string convention).
"""
import itertools

import numpy as np


class Sector:
    def __init__(self, nso, nel):
        self.nso, self.nel = nso, nel
        self.subsets = list(itertools.combinations(range(nso), nel))
        self.index = {s: i for i, s in enumerate(self.subsets)}
        self.dim = len(self.subsets)
        self._ob_cache = None

    def slater(self, phi):
        """coefficients of a+(phi_1) ... a+(phi_N)|0>, phi: (nso, nel) matrix of column orbitals"""
        phi = np.asarray(phi)
        return np.array([np.linalg.det(phi[list(s), :]) if self.nel else 1.0 for s in self.subsets], dtype=complex)

    def _ob_terms(self):
        """list of (row, col, p, q, sign) with a+_p a_q |col> = sign |row>"""
        if self._ob_cache is None:
            terms = []
            for ci, s in enumerate(self.subsets):
                for qi, q in enumerate(s):
                    rest = s[:qi] + s[qi + 1:]
                    sq = (-1) ** qi
                    for p in range(self.nso):
                        if p in rest:
                            continue
                        pos = sum(1 for x in rest if x < p)
                        new = rest[:pos] + (p,) + rest[pos:]
                        terms.append((self.index[new], ci, p, q, sq * (-1) ** pos))
            self._ob_cache = terms
        return self._ob_cache

    def one_body(self, o):
        """matrix of sum_pq o[p,q] a+_p a_q in this sector (o: nso x nso)"""
        o = np.asarray(o)
        m = np.zeros((self.dim, self.dim), dtype=complex)
        for r, c, p, q, sg in self._ob_terms():
            if o[p, q] != 0:
                m[r, c] += sg * o[p, q]
        return m


def spin_block(a, b=None):
    """block-diagonal spin-orbital matrix diag(a, b)"""
    b = a if b is None else b
    n = a.shape[0]
    m = np.zeros((2 * n, 2 * n), dtype=complex)
    m[:n, :n] = a
    m[n:, n:] = b
    return m


def walker_so(up, dn):
    """block-diagonal generalized orbital matrix of an unrestricted walker"""
    up, dn = np.asarray(up), np.asarray(dn)
    n = up.shape[0]
    m = np.zeros((2 * n, up.shape[1] + dn.shape[1]), dtype=complex)
    m[:n, :up.shape[1]] = up
    m[n:, up.shape[1]:] = dn
    return m


def hamiltonian(sec, h0, h1, chol):
    """H = h0 + sum h1[s]_pq a+_ps a_qs + 1/2 sum_g sum L_pq L_rs a+_ps a+_rt a_st a_qs  (norb = nso/2)"""
    norb = sec.nso // 2
    h1 = np.asarray(h1)
    L = np.asarray(chol).reshape(-1, norb, norb)
    ha = h1[0] - 0.5 * sum(l @ l for l in L)
    hb = h1[1] - 0.5 * sum(l @ l for l in L)
    H = h0 * np.eye(sec.dim, dtype=complex) + sec.one_body(spin_block(ha, hb))
    for l in L:
        Lop = sec.one_body(spin_block(l, l))
        H = H + 0.5 * Lop @ Lop
    return H


def chol_ops(sec, chol):
    norb = sec.nso // 2
    return [sec.one_body(spin_block(l, l)) for l in np.asarray(chol).reshape(-1, norb, norb)]


def braket(bra, ket):
    return np.vdot(bra, ket)


# ---------------------------------------------------------------- trial states as explicit vectors
def det_state(sec, occ_a, occ_b):
    """|D> = prod_{i in occ_a} a+_{i alpha} prod_{j in occ_b} a+_{j beta} |0>, both in increasing order"""
    norb = sec.nso // 2
    s = tuple(sorted(occ_a)) + tuple(norb + j for j in sorted(occ_b))
    v = np.zeros(sec.dim, dtype=complex)
    v[sec.index[s]] = 1.0
    return v


def excitation_op(sec, p, q, spin=None):
    """E_pq summed over spins (spin=None) or for one spin, as a sector matrix"""
    norb = sec.nso // 2
    o = np.zeros((sec.nso, sec.nso))
    if spin in (None, 0):
        o[p, q] = 1
    if spin in (None, 1):
        o[norb + p, norb + q] = 1
    return sec.one_body(o)
