"""Shared machinery of the trial-state checks (C01, C02, C03, C13, C15): walker generators, the
single-determinant line protocol for the Lean model at K = Q(i), and the spec comparison against the
brute-force Fock-space state of every trial kind (harness/trials.py, harness/fock.py)."""
import random
from fractions import Fraction

import numpy as np


def rs(q):
    q = Fraction(q)
    return str(q.numerator) if q.denominator == 1 else f"{q.numerator}/{q.denominator}"


def qi(z):
    z = complex(z)
    return rs(Fraction(z.real)) + "," + rs(Fraction(z.imag))


def mat_tokens(M):
    return " ".join(qi(x) for x in np.asarray(M).reshape(-1))


def parse_qi(s):
    a, b = s.split(",")
    return complex(float(Fraction(a)), float(Fraction(b)))


def parse_list(s):
    body = s.strip()[1:-1]
    if not body:
        return []
    toks = body.split(",")
    return [parse_qi(toks[i] + "," + toks[i + 1]) for i in range(0, len(toks), 2)]


def parse_line(line):
    d = {}
    for tok in line.split(" "):
        if "=" in tok:
            k, v = tok.split("=", 1)
            d[k] = v
    return d


def dy(rng, den=256, kmax=256):
    """dyadic rational on a fine grid: exact ties between moduli of different entries are then practically
    impossible (jnp.linalg.det of JAX 0.11.1 can return the wrong sign for complex 3x3 matrices whose
    pivot candidates tie exactly - a runtime defect outside the library, avoided here)"""
    return rng.randint(-kmax, kmax) / den


def make_opts(kind, rng=None):
    """options for trials.make: float-orthogonal MO rotations for the CI kinds that carry one (exactly
    orthogonal dyadic matrices with +-1/2 entries produce exact pivot ties and spin-pure references);
    determinant lists get an arbitrary (non-aufbau) reference determinant half of the time"""
    if kind == "multislater" and rng is not None:
        return {"reference": rng.choice(["aufbau", "random"])}
    return {"mo": "qr"} if kind in ("UCISD", "ucisd", "GCISD") else {}


def complex_walker(rng, norb, k, well=True):
    """complex, non-orthonormal, dyadic; `well` keeps it near an orthonormal frame (|det| not tiny)"""
    for _ in range(50):
        a = np.array([[dy(rng) + 1j * dy(rng) for _ in range(k)] for _ in range(norb)])
        a = a + (np.eye(norb)[:, :k] * (1.5 if well else 0.0))
        if k == 0 or np.linalg.svd(a, compute_uv=False).min() > 0.3:
            return a
    return a


def walkers(rng, norb, nelec, n, restricted=False):
    import jax.numpy as jnp
    if restricted:
        return jnp.array([complex_walker(rng, norb, nelec[0]) for _ in range(n)])
    return [jnp.array([complex_walker(rng, norb, nelec[0]) for _ in range(n)]),
            jnp.array([complex_walker(rng, norb, nelec[1]) for _ in range(n)])]


def close(a, b, rel, ab=1e-12):
    a, b = complex(a), complex(b)
    if not (np.isfinite(a) and np.isfinite(b)):
        return False
    return abs(a - b) <= rel * max(abs(a), abs(b)) + ab


# ---------------------------------------------------------------- line protocol for the Lean single-determinant model
def sd_line_uhf(plain_ham, Ca, Cb, Wa, Wb):
    norb = Ca.shape[0]
    L = np.asarray(plain_ham["chol"]).reshape(-1, norb, norb)
    toks = ["uhf", str(norb), str(Ca.shape[1]), str(Cb.shape[1]), str(L.shape[0]), qi(plain_ham["h0"]),
            mat_tokens(plain_ham["h1"][0]), mat_tokens(plain_ham["h1"][1])]
    toks += [mat_tokens(l) for l in L]
    toks += [mat_tokens(Ca), mat_tokens(Cb), mat_tokens(Wa), mat_tokens(Wb)]
    return " ".join(t for t in toks if t != "")


def sd_line_rhfr(plain_ham, C, W):
    norb = C.shape[0]
    L = np.asarray(plain_ham["chol"]).reshape(-1, norb, norb)
    toks = ["rhfr", str(norb), str(C.shape[1]), str(L.shape[0]), qi(plain_ham["h0"]),
            mat_tokens(plain_ham["h1"][0]), mat_tokens(plain_ham["h1"][1])]
    toks += [mat_tokens(l) for l in L]
    toks += [mat_tokens(C), mat_tokens(W)]
    return " ".join(t for t in toks if t != "")


NELECS = [(2, 2), (2, 1), (1, 1), (2, 0), (3, 1), (1, 0), (3, 2)]


def cases(rng, kinds, tier, norbs=(3, 4)):
    """(kind, norb, nelec) combinations supported by the library"""
    import trials
    out = []
    for kind in kinds:
        for norb in norbs:
            for ne in NELECS:
                if ne[0] <= norb and trials.supported(kind, norb, ne):
                    out.append((kind, norb, ne))
    rng.shuffle(out)
    if tier == "quick":
        # keep every kind, at most 4 (norb, nelec) combinations each
        keep, cnt = [], {}
        for c in out:
            if cnt.get(c[0], 0) < 4:
                keep.append(c)
                cnt[c[0]] = cnt.get(c[0], 0) + 1
        out = keep
    return out


CI_KINDS = ("CISD", "cisd", "cisd_faster", "CISD_THC", "UCISD", "ucisd", "GCISD")


def reference_state(kind, trial, wave_data, desc):
    """the reference determinant of a CISD-type trial (all amplitudes set to zero), as a Fock-space vector;
    the library's formulas divide by its overlap with the walker, so walkers (or trials) for which that
    overlap vanishes are outside the formulas' domain (removable singularity) and are skipped"""
    import trials
    if kind not in CI_KINDS:
        return None
    d0 = dict(desc if desc is not None else trials._plain(kind, wave_data))
    for key in list(d0):
        if key.startswith("ci") or key in ("VKL",):
            d0[key] = np.zeros_like(np.asarray(d0[key], dtype=float))
    return trials.state(kind, trial, wave_data, d0)[1]


def admissible(ref, sec, Wa, Wb, thresh=0.05):
    import fock
    if ref is None:
        return True
    phi = sec.slater(fock.walker_so(np.asarray(Wa), np.asarray(Wb)))
    return abs(np.vdot(ref, phi)) > thresh * max(1e-300, np.linalg.norm(ref)) * max(1e-300, np.linalg.norm(phi)) * 0.2
