"""Shared machinery of the trial-state checks (C01, C02, C03, C13, C15): walker generators, the
single-determinant line protocol for the Lean model at K = Q(i), and the spec comparison against the
brute-force Fock-space state of every trial kind (harness/trials.py, harness/fock.py)."""
import random
from fractions import Fraction

import numpy as np


def rs(q):
    q = Fraction(q)
    return str(q.numerator) if q.denominator == 1 else f"{q.numerator}/{q.denominator}"


def qi(z):
    z = complex(z)
    return rs(Fraction(z.real)) + "," + rs(Fraction(z.imag))


def mat_tokens(M):
    return " ".join(qi(x) for x in np.asarray(M).reshape(-1))


def parse_qi(s):
    a, b = s.split(",")
    return complex(float(Fraction(a)), float(Fraction(b)))


def parse_list(s):
    body = s.strip()[1:-1]
    if not body:
        return []
    toks = body.split(",")
    return [parse_qi(toks[i] + "," + toks[i + 1]) for i in range(0, len(toks), 2)]


def parse_line(line):
    d = {}
    for tok in line.split(" "):
        if "=" in tok:
            k, v = tok.split("=", 1)
            d[k] = v
    return d


def dy(rng, den=256, kmax=256):
    """dyadic rational on a fine grid: exact ties between moduli of different entries are then practically
    impossible (jnp.linalg.det of JAX 0.11.1 can return the wrong sign for complex 3x3 matrices whose
    pivot candidates tie exactly - a runtime defect outside the library, avoided here)"""
    return rng.randint(-kmax, kmax) / den


def make_opts(kind, rng=None):
    """options for trials.make: float-orthogonal MO rotations for the CI kinds that carry one (exactly
    orthogonal dyadic matrices with +-1/2 entries produce exact pivot ties and spin-pure references);
    determinant lists get an arbitrary (non-aufbau) reference determinant half of the time"""
    if kind == "multislater" and rng is not None:
        return {"reference": rng.choice(["aufbau", "random", "top"])}
    return {"mo": "qr"} if kind in ("UCISD", "ucisd", "GCISD") else {}


def complex_walker(rng, norb, k, well=True):
    """complex, non-orthonormal, dyadic; `well` keeps it near an orthonormal frame (|det| not tiny)"""
    for _ in range(50):
        a = np.array([[dy(rng) + 1j * dy(rng) for _ in range(k)] for _ in range(norb)])
        a = a + (np.eye(norb)[:, :k] * (1.5 if well else 0.0))
        if k == 0 or np.linalg.svd(a, compute_uv=False).min() > 0.3:
            return a
    return a


def walkers(rng, norb, nelec, n, restricted=False):
    import jax.numpy as jnp
    if restricted:
        return jnp.array([complex_walker(rng, norb, nelec[0]) for _ in range(n)])
    return [jnp.array([complex_walker(rng, norb, nelec[0]) for _ in range(n)]),
            jnp.array([complex_walker(rng, norb, nelec[1]) for _ in range(n)])]


def close(a, b, rel, ab=1e-12):
    a, b = complex(a), complex(b)
    if not (np.isfinite(a) and np.isfinite(b)):
        return False
    return abs(a - b) <= rel * max(abs(a), abs(b)) + ab


# ---------------------------------------------------------------- line protocol for the Lean single-determinant model
def sd_line_uhf(plain_ham, Ca, Cb, Wa, Wb):
    norb = Ca.shape[0]
    L = np.asarray(plain_ham["chol"]).reshape(-1, norb, norb)
    toks = ["uhf", str(norb), str(Ca.shape[1]), str(Cb.shape[1]), str(L.shape[0]), qi(plain_ham["h0"]),
            mat_tokens(plain_ham["h1"][0]), mat_tokens(plain_ham["h1"][1])]
    toks += [mat_tokens(l) for l in L]
    toks += [mat_tokens(Ca), mat_tokens(Cb), mat_tokens(Wa), mat_tokens(Wb)]
    return " ".join(t for t in toks if t != "")


def sd_line_rhfr(plain_ham, C, W):
    norb = C.shape[0]
    L = np.asarray(plain_ham["chol"]).reshape(-1, norb, norb)
    toks = ["rhfr", str(norb), str(C.shape[1]), str(L.shape[0]), qi(plain_ham["h0"]),
            mat_tokens(plain_ham["h1"][0]), mat_tokens(plain_ham["h1"][1])]
    toks += [mat_tokens(l) for l in L]
    toks += [mat_tokens(C), mat_tokens(W)]
    return " ".join(t for t in toks if t != "")


NELECS = [(2, 2), (2, 1), (1, 1), (2, 0), (3, 1), (1, 0), (3, 2)]


def cases(rng, kinds, tier, norbs=(3, 4)):
    """(kind, norb, nelec) combinations supported by the library"""
    import trials
    out = []
    for kind in kinds:
        for norb in norbs:
            for ne in NELECS:
                if ne[0] <= norb and trials.supported(kind, norb, ne):
                    out.append((kind, norb, ne))
    rng.shuffle(out)
    if tier == "quick":
        # keep every kind, at most 4 (norb, nelec) combinations each
        keep, cnt = [], {}
        for c in out:
            if cnt.get(c[0], 0) < 4:
                keep.append(c)
                cnt[c[0]] = cnt.get(c[0], 0) + 1
        out = keep
    return out


CI_KINDS = ("CISD", "cisd", "cisd_faster", "CISD_THC", "UCISD", "ucisd", "GCISD")


def reference_state(kind, trial, wave_data, desc):
    """the reference determinant of a CISD-type trial (all amplitudes set to zero), as a Fock-space vector;
    the library's formulas divide by its overlap with the walker, so walkers (or trials) for which that
    overlap vanishes are outside the formulas' domain (removable singularity) and are skipped"""
    import trials
    if kind not in CI_KINDS:
        return None
    d0 = dict(desc if desc is not None else trials._plain(kind, wave_data))
    for key in list(d0):
        if key.startswith("ci") or key in ("VKL",):
            d0[key] = np.zeros_like(np.asarray(d0[key], dtype=float))
    return trials.state(kind, trial, wave_data, d0)[1]


def admissible(ref, sec, Wa, Wb, thresh=0.05):
    import fock
    if ref is None:
        return True
    phi = sec.slater(fock.walker_so(np.asarray(Wa), np.asarray(Wb)))
    return abs(np.vdot(ref, phi)) > thresh * max(1e-300, np.linalg.norm(ref)) * max(1e-300, np.linalg.norm(phi)) * 0.2


# ---------------------------------------------------------------- public entry points on a *re-prepared* Hamiltonian, batched
def public_rebuild_batch(kind, trial, wd, desc, sec, psi, rng, norb, ne, what, tol, nchol=2, spin_dep=False):
    """The public route a run takes: ham.build_measurement_intermediates on a dictionary that ALREADY holds the
    intermediates of another Hamiltonian (as every AD entry point and the 2-RDM mode do), then the batched public
    `calc_energy` / `calc_force_bias` with n_batch in {1, 2, 3} on distinct walkers.  Every value must be the
    Fock-space mixed estimator of the Hamiltonian supplied LAST, walker by walker.  Returns (failures, evaluations)."""
    import dataclasses
    import jax.numpy as jnp
    from ad_afqmc import hamiltonian
    import fock
    import trials
    fails = []
    ronly = kind in trials.RESTRICTED_ONLY
    hamA, _ = trials.make_ham(rng, norb, nchol=nchol, spin_dependent=spin_dep)
    hamB, plainB = trials.make_ham(rng, norb, nchol=nchol, spin_dependent=spin_dep)
    H = fock.hamiltonian(sec, plainB["h0"], plainB["h1"], plainB["chol"])
    hobj = hamiltonian.hamiltonian(norb)
    ref = reference_state(kind, trial, wd, desc)
    # distinct admissible walkers
    ws = []
    for _ in range(60):
        Wa = complex_walker(rng, norb, ne[0])
        Wb = Wa if ronly else complex_walker(rng, norb, ne[1])
        if not admissible(ref, sec, Wa, Wb):
            continue
        if abs(trials.spec_overlap(sec, psi, Wa, Wb)) < 0.05 * max(1.0, float(np.abs(psi).max())):
            continue
        ws.append((Wa, Wb))
        if len(ws) == 6:
            break
    if len(ws) < 6:
        return fails, 0
    evals = 0
    for nb in (1, 2, 3):
        try:
            t2 = dataclasses.replace(trial, n_batch=nb)
            prepared = hobj.build_measurement_intermediates(dict(hamA), t2, wd)
            prepared = dict(prepared)
            for k in ("h0", "h1", "chol"):
                prepared[k] = hamB[k]
            prepared = hobj.build_measurement_intermediates(prepared, t2, wd)
            if ronly:
                batch = jnp.array([w[0] for w in ws])
            else:
                batch = [jnp.array([w[0] for w in ws]), jnp.array([w[1] for w in ws])]
            if what == "energy":
                got = np.asarray(t2.calc_energy(batch, prepared, wd))
                want = np.array([trials.spec_energy(sec, psi, H, a, b) for a, b in ws])
            else:
                got = np.asarray(t2.calc_force_bias(batch, prepared, wd))
                want = np.array([trials.spec_force_bias(sec, psi, plainB["chol"], a, b) for a, b in ws])
            evals += len(ws)
            if got.shape != want.shape or not np.all(np.abs(got - want) <= tol * np.maximum(np.abs(got), np.abs(want)) + tol):
                bad = int(np.argmax(np.abs(got.reshape(len(ws), -1) - want.reshape(len(ws), -1)).max(axis=1))) if got.shape == want.shape else -1
                fails.append((kind + (" (restricted entry)" if ronly else " (unrestricted entry)"),
                              f"public batched calc_{what} on a re-prepared Hamiltonian dictionary gives, walker by walker, the mixed estimator of the Hamiltonian supplied last",
                              {"norb": norb, "nelec": ne, "n_batch": nb, "n_walkers": len(ws), "worst_walker": bad,
                               "got": [str(x) for x in np.ravel(got)[:6]], "want": [str(x) for x in np.ravel(want)[:6]], "shapes": [list(got.shape), list(want.shape)]}))
                break
        except Exception as ex:
            fails.append((kind, f"public batched calc_{what} runs (n_batch={nb})", {"norb": norb, "nelec": ne, "error": repr(ex)[:300]}))
            break
    # every (kind, n_batch, shape) combination is a fresh XLA executable; drop them so that long (thorough) runs do not
    # exhaust the address space of the JIT ("LLVM compilation error: Cannot allocate memory")
    try:
        import jax
        jax.clear_caches()
    except Exception:
        pass
    return fails, evals


# ---------------------------------------------------------------- GHF through the Lean single-determinant model
def ghf_as_doubled(plain_ham, C, Wa, Wb):
    """A GHF determinant is an ordinary determinant in the doubled (spin-orbital) space: orbitals C (2 norb x N),
    walker diag(W_up, W_dn), one-body matrices diag(h_up, h_dn), Cholesky matrices diag(L, L).  The Lean model of a
    single determinant with an empty second spin block (theorems of C01-C03 with k_b = 0) then IS the GHF model;
    returns the protocol line (real orbitals: the code uses plain transposes for ghf)."""
    norb = Wa.shape[0]
    z = np.zeros((norb, norb))
    L = np.asarray(plain_ham["chol"]).reshape(-1, norb, norb)
    h = plain_ham["h1"]
    so = {"h0": plain_ham["h0"], "h1": np.array([np.block([[h[0], z], [z, h[1]]])] * 2),
          "chol": np.array([np.block([[l, z], [z, l]]) for l in L]).reshape(len(L), -1)}
    Wso = np.block([[Wa, np.zeros((norb, Wb.shape[1]))], [np.zeros((norb, Wa.shape[1])), Wb]])
    e = np.zeros((2 * norb, 0))
    return sd_line_uhf(so, np.asarray(C), e, Wso, e)


def column_replacement_estimators(ovl, plain, Wa, Wb):
    """The right-hand sides of `auto_energy_is_mixed_estimator` / `auto_force_bias_is_mixed_expectation`
    (Props/C02.lean, C03.lean: `specEnergy2`, `ob2`, `tb2`) evaluated with the CLASS'S OWN overlap `ovl(Wa, Wb)` on walkers
    with replaced columns - no Fock space, no Green's functions.  Returns (energy, force_bias[g])."""
    Wa, Wb = np.asarray(Wa), np.asarray(Wb)
    m = Wa.shape[0]
    ha, hb = np.asarray(plain["h1"][0]), np.asarray(plain["h1"][1])
    chol = np.asarray(plain["chol"]).reshape(-1, m, m)

    def repl(W, O, j):
        W2 = W.copy()
        W2[:, j] = (O @ W)[:, j]
        return W2

    def repl2(W, O, j, l):
        W2 = repl(W, O, j)
        W2[:, l] = (O @ W)[:, l]
        return W2
    G0 = ovl(Wa, Wb)
    ka, kb = Wa.shape[1], Wb.shape[1]
    ob = sum(ovl(repl(Wa, ha, j), Wb) for j in range(ka)) + sum(ovl(Wa, repl(Wb, hb, j)) for j in range(kb))
    fb, tb = [], 0.0
    for L in chol:
        ra = [repl(Wa, L, j) for j in range(ka)]
        rb = [repl(Wb, L, l) for l in range(kb)]
        oa = [ovl(x, Wb) for x in ra]
        obb = [ovl(Wa, x) for x in rb]
        fb.append((sum(oa) + sum(obb)) / G0)
        t = sum(ovl(repl2(Wa, L, j, l), Wb) for j in range(ka) for l in range(ka) if l != j)
        t += sum(ovl(Wa, repl2(Wb, L, j, l)) for j in range(kb) for l in range(kb) if l != j)
        t += 2 * sum(ovl(x, y) for x in ra for y in rb)
        tb += t
    return plain["h0"] + ob / G0 + tb / G0 / 2, np.array(fb)
