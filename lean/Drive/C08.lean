import AfqmcVerif.Base.Proto
import AfqmcVerif.Generated.SamplerProg
open AfqmcVerif AfqmcVerif.Proto AfqmcVerif.Machine AfqmcVerif.Generated.SamplerProg

def opName : Op → String
  | .refresh => "refresh" | .propagate => "propagate" | .qr => "qr" | .srLocal => "srLocal"
  | .srGlobal => "srGlobal" | .measure => "measure" | .other t => s!"other:{t}" | .clobber t => s!"clobber:{t}"

def parseKV (l : List String) : String → Nat := fun k =>
  match l.find? (fun t => t.startsWith (k ++ "=")) with
  | some t => ((t.drop (k.length + 1)).toString.toNat?).getD 0
  | none => 0

def step (line : String) : String :=
  match tokens line with
  | "flatten" :: name :: beta :: kvs =>
    match entryPoints.find? (fun p => p.1 == name) with
    | none => "unknown-entry"
    | some (_, p) =>
      let β := beta.toList.filterMap fun c => if c == '1' then some true else if c == '0' then some false else none
      let ops := (flatten (parseKV kvs) p β).filter fun o => match o with | .other _ => false | _ => true
      " ".intercalate (ops.map opName)
  | ["check", name] =>
    match entryPoints.find? (fun p => p.1 == name) with
    | none => "unknown-entry"
    | some (_, p) => s!"{(check p Coh.stale).isSome} {noClobber p}"
  | _ => "bad-op"

def main : IO Unit := run step
