import AfqmcVerif.Base.RatIO
import Mathlib.Algebra.Order.Field.Rat
import Mathlib.Algebra.Order.Ring.Rat
import AfqmcVerif.Model.Comb
open AfqmcVerif AfqmcVerif.Proto AfqmcVerif.Comb

/-- smallest distance between a tooth and a cumulative weight (decision margin of searchsorted) -/
def margin (w : List ℚ) (ζ : ℚ) : ℚ :=
  let c := cumAbs w
  let zs := (List.range w.length).map (tooth w ζ)
  let ds := zs.flatMap fun z => c.map fun x => |z - x|
  ds.foldl min (total w + 1)

def parseEvents (R : Nat) (l : List String) : Option (List (MpiEv R)) :=
  l.mapM fun t =>
    if t == "c" then some MpiEv.compute
    else match (t.drop 1).toString.toNat? with
      | some r => if h : r < R then
          (if t.startsWith "s" then some (MpiEv.send ⟨r, h⟩)
           else if t.startsWith "d" then some (MpiEv.deliver ⟨r, h⟩) else none)
        else none
      | none => none

def step (line : String) : String :=
  match tokens line with
  | "comb" :: z :: ws =>
    match parseRat? z, parseRats? ws with
    | some ζ, some w =>
      if total w ≤ 0 ∨ w.length = 0 then "degenerate"
      else s!"idx={showList toString (combIdx w ζ)} idxnp={showList toString (combIdxNp w ζ)} wnew={showRat (total w / w.length)} total={showRat (total w)} margin={showRat (margin w ζ)} copies={showList (fun k => toString (copies w ζ k)) (List.range w.length)}"
    | _, _ => "bad-op"
  | "mpi" :: r :: n :: z :: rest =>
    match r.toNat?, n.toNat?, parseRat? z with
    | some R, some n, some ζ =>
      let ws := rest.take (R * n)
      let evs := rest.drop (R * n)
      match parseRats? ws, parseEvents R evs with
      | some w, some es =>
        if w.length ≠ R * n then "bad-op" else
        let inp : Fin R → List ℚ := fun q => slice n q w
        match mpiRun inp n ζ (mpiInit R) es with
        | none => "stuck"
        | some s =>
          let outs := (List.finRange R).map fun q =>
            match s.delivered q with
            | none => "none"
            | some (ix, wn) => s!"{showList toString ix}:{showList showRat wn}"
          s!"ranks={showList id outs} margin={showRat (margin w ζ)}"
      | _, _ => "bad-op"
    | _, _, _ => "bad-op"
  | _ => "bad-op"

def main : IO Unit := run step
