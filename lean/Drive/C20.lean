import AfqmcVerif.Base.Proto
import AfqmcVerif.Model.Lattice
open AfqmcVerif AfqmcVerif.Proto AfqmcVerif.Lattice

def dump {P : Type} (L : Lat P) (sh : P → String) : String :=
  let idx := List.range L.n
  let sites := showList sh L.sites
  let nums := showList (fun i => toString (L.num (L.site i))) idx
  let nbrs := showList (fun i => showList sh (L.nbrs (L.site i))) idx
  let adj := showList (fun i => showList toString (L.adjRow i)) idx
  let rs := showList (fun i => toString (L.rowSum i)) idx
  s!"n={L.n} sites={sites} nums={nums} nbrs={nbrs} adj={adj} rowsum={rs}"

def step (line : String) : String :=
  match tokens line with
  | ["lat", "chain", n] =>
    match n.toNat? with
    | some n => if n ≥ 1 then dump (chain n) toString else "bad-op"
    | none => "bad-op"
  | ["lat", "grid2", a, b] =>
    match a.toNat?, b.toNat? with
    | some a, some b => if a ≥ 1 ∧ b ≥ 1 then dump (grid2 a b) showPair else "bad-op"
    | _, _ => "bad-op"
  | ["lat", "tri", a, b, o] =>
    match a.toNat?, b.toNat? with
    | some a, some b => if a ≥ 1 ∧ b ≥ 1 then dump (tri a b (o == "1")) showPair else "bad-op"
    | _, _ => "bad-op"
  | ["lat", "grid3", a, b, c] =>
    match a.toNat?, b.toNat?, c.toNat? with
    | some a, some b, some c =>
      if a ≥ 1 ∧ b ≥ 1 ∧ c ≥ 1 then dump (grid3 a b c) showTriple else "bad-op"
    | _, _, _ => "bad-op"
  | _ => "bad-op"

def main : IO Unit := run step
