import AfqmcVerif.Base.RatIO
import Mathlib.Algebra.Order.Field.Rat
import Mathlib.Algebra.Order.Ring.Rat
import AfqmcVerif.Model.CholeskyExec
open AfqmcVerif AfqmcVerif.Proto AfqmcVerif.Cholesky AfqmcVerif.Tab

def matOf (n : Nat) (xs : Array ℚ) : Mat n ℚ := fun i j => xs.getD (i.val * n + j.val) 0

def showVec {n : Nat} (v : Vec n ℚ) : String :=
  s!"{v.piv.val};{showRat v.d};{showList showRat ((List.finRange n).map v.u)}"

/-- second-largest / largest |diag| gap at the pivot choice: the decision margin of `argmax` -/
def pivotGap {n : Nat} (d : Fin (n + 1) → ℚ) (ν : Fin (n + 1)) : ℚ :=
  ((List.finRange (n + 1)).filter (· ≠ ν)).foldl (fun g i => min g (|d ν| - |d i|)) (|d ν| + 1)

def step (line : String) : String :=
  match tokens line with
  | "numpy" :: eps :: err :: n :: rest =>
    match parseRat? eps, parseRat? err, n.toNat?, parseRats? rest with
    | some ε, some err, some (n + 1), some xs =>
      if xs.length ≠ (n + 1) * (n + 1) then "bad-op" else
      let M : Mat (n + 1) ℚ := ofArr2 (toArr2 (matOf (n + 1) xs.toArray))
      let r := execNumpy ε err M
      s!"nvec={r.1.length} deltamax={showRat r.2} vecs={showList showVec r.1}"
    | _, _, _, _ => "bad-op"
  | "jax" :: k :: n :: rest =>
    match k.toNat?, n.toNat?, parseRats? rest with
    | some (k + 1), some (n + 1), some xs =>
      if xs.length ≠ (n + 1) * (n + 1) then "bad-op" else
      let M : Mat (n + 1) ℚ := ofArr2 (toArr2 (matOf (n + 1) xs.toArray))
      let states := (List.range k).foldl (fun (acc : List (Exec (n + 1) ℚ)) _ =>
        match acc with
        | [] => []
        | e :: _ => Exec.ofState (loopIter 0 e.toState) :: acc) [Exec.ofState (loopInit M)]
      let s := (states.headD (Exec.ofState (loopInit M))).toState
      let vs := s.accepted ++ [s.last]
      let gaps := states.map fun e =>
        let sm := e.toState
        pivotGap (fun i => sm.R i i) sm.last.piv
      s!"nvec={vs.length} deltamax={showRat s.deltaMax} mingap={showRat (gaps.foldl min 1000000)} vecs={showList showVec vs}"
    | _, _, _ => "bad-op"
  | _ => "bad-op"

def main : IO Unit := run step
