import AfqmcVerif.Base.RatIO
import AfqmcVerif.Model.Weights
open AfqmcVerif AfqmcVerif.Proto AfqmcVerif.FVal AfqmcVerif.Weights

def parseF (s : String) : Option FVal :=
  if s == "nan" then some nan else if s == "inf" then some pinf else if s == "-inf" then some ninf
  else (parseRat? s).map fin

def showF : FVal → String
  | fin q => showRat q
  | pinf => "inf"
  | ninf => "-inf"
  | nan => "nan"

def step (line : String) : String :=
  match tokens line with
  | ["phaseless", lo, hi, cap, f, w] =>
    match parseRat? lo, parseRat? hi, parseRat? cap, parseF f, parseF w with
    | some lo, some hi, some cap, some f, some w =>
      s!"factor={showF (clipFactor lo hi f)} weight={showF (phaselessStep lo hi cap f w)}"
    | _, _, _, _, _ => "bad-op"
  | ["cpmc", eps, cap, w, r] =>
    match parseRat? eps, parseRat? cap, parseF w, parseF r with
    | some eps, some cap, some w, some r =>
      s!"written={showF (cpmcStep eps cap w r)} safe={showF (cpmcStepSafe eps cap w r)}"
    | _, _, _, _ => "bad-op"
  | _ => "bad-op"

def main : IO Unit := run step
