import AfqmcVerif.Base.Proto
import AfqmcVerif.Model.Dets
open AfqmcVerif AfqmcVerif.Proto AfqmcVerif.Dets

def bits (s : String) : List Bool := s.toList.map (· == '1')
def showBits (l : List Bool) : String := String.ofList (l.map fun b => if b then '1' else '0')

def step (line : String) : String :=
  match tokens line with
  | ["excit", d0, d] =>
    let a := bits d0
    let b := bits d
    s!"holes={showList toString (holes a b)} particles={showList toString (particles a b)} parity={parity a b} sortsign={sortSign a b}"
  | ["decode", cs] =>
    let r := decodeDet cs.toList
    s!"alpha={showBits r.1} beta={showBits r.2}"
  | _ => "bad-op"

def main : IO Unit := run step
