import AfqmcVerif.Base.RatIO
import Mathlib.Algebra.Order.Field.Rat
import Mathlib.Algebra.Order.Ring.Rat
import AfqmcVerif.Model.Stats
open AfqmcVerif AfqmcVerif.Proto AfqmcVerif.Stats

def fn (a : Array ℚ) : ℕ → ℚ := fun t => a.getD t 0

def showOpt (o : Option ℚ) : String := match o with | none => "none" | some q => showRat q

def step (line : String) : String :=
  match tokens line with
  | "block" :: c2 :: neql :: n :: rest =>
    match parseRat? c2, neql.toNat?, n.toNat?, parseRats? rest with
    | some c2, some neql, some n, some xs =>
      if xs.length ≠ 2 * n ∨ neql > n then "bad-op" else
      let w := fn ((xs.take n).drop neql).toArray
      let e := fn ((xs.drop n).drop neql).toArray
      let m := n - neql
      let errs := (admitted m).map fun i => (i, blockErr2 w e m i)
      let r := blocking c2 w e m
      s!"mean={showRat r.1} plateau={showOpt r.2} errs={showList (fun p => s!"{p.1}:{showRat p.2}") errs}"
    | _, _, _, _ => "bad-op"
  | "jack" :: n :: rest =>
    match n.toNat?, parseRats? rest with
    | some n, some xs =>
      if xs.length ≠ 2 * n ∨ n < 2 then "bad-op" else
      let num := fn (xs.take n).toArray
      let den := fn (xs.drop n).toArray
      s!"mean={showRat (jkMean num den n)} sigma2={showRat (jkSigma2 num den n)}"
    | _, _ => "bad-op"
  | "outl" :: eps :: m :: rest =>
    match parseRat? eps, parseRat? m, parseRats? rest with
    | some eps, some m, some xs =>
      if xs.isEmpty then "bad-op" else
      let med := median xs
      let d := xs.map fun v => |v - med|
      let mdev := median d + eps
      let marg := (d.map fun di => |di / mdev - m|).foldl min (m + 1)
      s!"mask={showList (fun b => if b then "1" else "0") (keepMask eps m xs)} med={showRat med} mdev={showRat mdev} margin={showRat marg}"
    | _, _, _ => "bad-op"
  | _ => "bad-op"

def main : IO Unit := run step
