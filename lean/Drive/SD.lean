import AfqmcVerif.Base.QIIO
import AfqmcVerif.Base.Tab
import AfqmcVerif.Model.SingleDet
open AfqmcVerif AfqmcVerif.Proto AfqmcVerif.SingleDet AfqmcVerif.Tab Matrix

/-- strict tabulation of a matrix (arrays as data, see Base/Tab.lean) -/
def tab {a b : Nat} (M : Matrix (Fin a) (Fin b) QI) : Matrix (Fin a) (Fin b) QI := ofArr2 (toArr2 M)

def readMats (t : Toks) (n a b : Nat) : Option (List (Matrix (Fin a) (Fin b) QI) × Toks) :=
  match n with
  | 0 => some ([], t)
  | n + 1 => do
    let (M, t1) ← t.mat a b
    let (rest, t2) ← readMats t1 n a b
    pure (M :: rest, t2)

/-- `uhf m ka kb g h0 ha hb L_1..L_g Ca Cb Wa Wb` -/
def doUhf (t : Toks) : Option String := do
  let (m, t) ← t.nat
  let (ka, t) ← t.nat
  let (kb, t) ← t.nat
  let (g, t) ← t.nat
  let (h0, t) ← t.qi
  let (ha, t) ← t.mat m m
  let (hb, t) ← t.mat m m
  let (Ls, t) ← readMats t g m m
  let (Ca, t) ← t.mat m ka
  let (Cb, t) ← t.mat m kb
  let (Wa, t) ← t.mat m ka
  let (Wb, _) ← t.mat m kb
  let La := Ls.toArray
  let H : Ham m g QI := { h0 := h0, ha := ha, hb := hb, L := fun γ => La.getD γ.val 0 }
  let Ga := tab (green Ca Wa)
  let Gb := tab (green Cb Wb)
  let ov := uhfOverlap Ca Cb Wa Wb
  let e := uhfEnergyOfGreen H Ca Cb Ga Gb
  let fb := (List.finRange g).map fun γ => contract (rot Ca (H.L γ)) Ga + contract (rot Cb (H.L γ)) Gb
  let ga := (List.finRange ka).flatMap fun i => (List.finRange m).map fun j => Ga i j
  pure s!"overlap={showQI ov} energy={showQI e} fb={showList showQI fb} green_up={showList showQI ga}"

/-- `rhfr m k g h0 ha hb L_1..L_g C W` (restricted walkers) -/
def doRhfR (t : Toks) : Option String := do
  let (m, t) ← t.nat
  let (k, t) ← t.nat
  let (g, t) ← t.nat
  let (h0, t) ← t.qi
  let (ha, t) ← t.mat m m
  let (hb, t) ← t.mat m m
  let (Ls, t) ← readMats t g m m
  let (C, t) ← t.mat m k
  let (W, _) ← t.mat m k
  let La := Ls.toArray
  let H : Ham m g QI := { h0 := h0, ha := ha, hb := hb, L := fun γ => La.getD γ.val 0 }
  let G := tab (green C W)
  let ov := rhfOverlapR C W
  let e := rhfEnergyROfGreen H C G
  let fb := (List.finRange g).map fun γ => 2 * contract (rot C (H.L γ)) G
  pure s!"overlap={showQI ov} energy={showQI e} fb={showList showQI fb}"

def step (line : String) : String :=
  match tokens line with
  | "uhf" :: rest => (doUhf ⟨rest⟩).getD "bad-op"
  | "rhfr" :: rest => (doRhfR ⟨rest⟩).getD "bad-op"
  | _ => "bad-op"

def main : IO Unit := run step
