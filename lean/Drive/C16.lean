import AfqmcVerif.Base.RatIO
import AfqmcVerif.Model.Interface
open AfqmcVerif AfqmcVerif.Proto AfqmcVerif.Interface

/-- row-major lookup into a flat array (data, captured once) -/
def at2 (a : Array ℚ) (n2 : Nat) (i j : Nat) : ℚ := a.getD (i * n2 + j) 0
def at4 (a : Array ℚ) (n2 n3 n4 : Nat) (i j k l : Nat) : ℚ := a.getD (((i * n2 + j) * n3 + k) * n4 + l) 0

def tab4 (n1 n2 n3 n4 : Nat) (f : Nat → Nat → Nat → Nat → ℚ) : List ℚ :=
  (List.range n1).flatMap fun i => (List.range n2).flatMap fun a => (List.range n3).flatMap fun j =>
    (List.range n4).map fun b => f i a j b

def showRats (l : List ℚ) : String := " ".intercalate (l.map showRat)

def step (line : String) : String :=
  match tokens line with
  | ["nelec_sp", n, ms] =>
    match parseInt? n, parseInt? ms with
    | some n, some ms => showPair (nelecSp n ms)
    | _, _ => "bad-op"
  | ["header", na, nb, nao, nf, nchol] =>
    match parseInt? na, parseInt? nb, parseInt? nao, parseInt? nf, parseInt? nchol with
    | some na, some nb, some nao, some nf, some nchol =>
      let h := header na nb nao nf nchol
      s!"[{h.nelec},{h.nmo},{h.ms},{h.nchol}] sp={showPair (nelecSp h.nelec h.ms)}"
    | _, _, _, _, _ => "bad-op"
  | "unpack" :: n :: rest =>
    match parseNat? n, parseRats? rest with
    | some n, some v =>
      let a := v.toArray
      showRats ((List.range n).flatMap fun m => (List.range n).map fun k => unpack (fun t => a.getD t 0) m k)
    | _, _ => "bad-op"
  | "ci2" :: no :: nv :: rest =>
    match parseNat? no, parseNat? nv, parseRats? rest with
    | some no, some nv, some v =>
      if v.length ≠ no * nv + no * no * nv * nv then "bad-op" else
      let t1 := (v.take (no * nv)).toArray
      let t2 := (v.drop (no * nv)).toArray
      showRats (tab4 no nv no nv (ci2 (at2 t1 nv) (at4 t2 no nv nv)))
    | _, _, _ => "bad-op"
  | "ci2same" :: no :: nv :: rest =>
    match parseNat? no, parseNat? nv, parseRats? rest with
    | some no, some nv, some v =>
      if v.length ≠ no * nv + no * no * nv * nv then "bad-op" else
      let t1 := (v.take (no * nv)).toArray
      let t2 := (v.drop (no * nv)).toArray
      showRats (tab4 no nv no nv (ci2same (at2 t1 nv) (at4 t2 no nv nv)))
    | _, _, _ => "bad-op"
  | "ci2ab" :: noa :: nva :: nob :: nvb :: rest =>
    match parseNat? noa, parseNat? nva, parseNat? nob, parseNat? nvb, parseRats? rest with
    | some noa, some nva, some nob, some nvb, some v =>
      if v.length ≠ noa * nva + nob * nvb + noa * nob * nva * nvb then "bad-op" else
      let t1a := (v.take (noa * nva)).toArray
      let t1b := ((v.drop (noa * nva)).take (nob * nvb)).toArray
      let t2 := (v.drop (noa * nva + nob * nvb)).toArray
      showRats (tab4 noa nva nob nvb (ci2ab (at2 t1a nva) (at2 t1b nvb) (at4 t2 nob nva nvb)))
    | _, _, _, _, _ => "bad-op"
  | _ => "bad-op"

def main : IO Unit := run step
