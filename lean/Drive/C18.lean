import AfqmcVerif.Base.RatIO
import AfqmcVerif.Model.Eigh
open AfqmcVerif AfqmcVerif.Proto AfqmcVerif.Eigh

def step (line : String) : String :=
  match tokens line with
  | ["fentry", t, b, wi, wj, d] =>
    match parseRat? t, parseRat? b, parseRat? wi, parseRat? wj with
    | some t, some b, some wi, some wj => s!"f={showRat (fEntry t b wi wj (d == "1"))}"
    | _, _, _, _ => "bad-op"
  | _ => "bad-op"

def main : IO Unit := run step
