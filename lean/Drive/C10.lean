import AfqmcVerif.Base.RatIO
import AfqmcVerif.Model.GreenUpdate
open AfqmcVerif AfqmcVerif.Proto AfqmcVerif.GreenUpdate

/-- `green n i j ci cj <n*n entries of G, row-major>` → entries of the updated `G'` (row-major), or `singular` -/
def step (line : String) : String :=
  match tokens line with
  | "green" :: n :: i :: j :: ci :: cj :: rest =>
    match parseNat? n, parseNat? i, parseNat? j, parseRat? ci, parseRat? cj, parseRats? rest with
    | some n, some i, some j, some ci, some cj, some v =>
      if h : i < n ∧ j < n ∧ v.length = n * n then
        let a := v.toArray
        -- the model is written for P = Gᵀ
        let Pm : Matrix (Fin n) (Fin n) ℚ := Matrix.of fun y x => a.getD (x.val * n + y.val) 0
        let ii : Fin n := ⟨i, h.1⟩
        let jj : Fin n := ⟨j, h.2.1⟩
        if ratio2 Pm ii jj ci cj = 0 then "singular" else
        let out := greenCode Pm ii jj ci cj
        " ".intercalate ((List.finRange n).flatMap fun x => (List.finRange n).map fun y => showRat (out y x))
      else "bad-op"
    | _, _, _, _, _, _ => "bad-op"
  | _ => "bad-op"

def main : IO Unit := run step
