import AfqmcVerif.Base.RatIO
import Mathlib.Algebra.Order.Field.Rat
import Mathlib.Algebra.Order.Ring.Rat
import AfqmcVerif.Model.Estimator
open AfqmcVerif AfqmcVerif.Proto AfqmcVerif.Estimator

def step (line : String) : String :=
  match tokens line with
  | "block" :: eEst :: b2 :: n :: rest =>
    match parseRat? eEst, parseRat? b2, n.toNat?, parseRats? rest with
    | some eEst, some b2, some n, some xs =>
      if xs.length ≠ 2 * n then "bad-op" else
      let w := xs.take n
      let e := xs.drop n
      if w.sum = 0 then "zero-weight" else
      let margin := (e.map fun x => |(x - eEst) ^ 2 - b2|).foldl min (b2 + 1)
      s!"energy={showRat (blockEnergy eEst b2 w e)} capped={(e.filter fun x => b2 < (x - eEst) ^ 2).length} margin={showRat margin}"
    | _, _, _, _ => "bad-op"
  | "combine" :: rest =>
    match parseRats? rest with
    | some xs =>
      let rec pairs : List ℚ → List (ℚ × ℚ)
        | a :: b :: t => (a, b) :: pairs t
        | _ => []
      s!"energy={showRat (combine (pairs xs))}"
    | none => "bad-op"
  | _ => "bad-op"

def main : IO Unit := run step
