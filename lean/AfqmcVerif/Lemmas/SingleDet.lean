import AfqmcVerif.Model.SingleDet
import AfqmcVerif.Lemmas.Det
import Mathlib.Tactic.Ring
import Mathlib.Tactic.FieldSimp
import Mathlib.Tactic.LinearCombination

/-!
First-quantised specification of Slater-determinant states and the theorems connecting it with the
Green's-function formulas of the code.

At this level (DESIGN §10) the coefficient of a Slater state `|Φ_W⟩` on the occupation string `e` is the
minor `det W[e,:]`, a one-body operator acts as a derivation on the columns
(`Ô|Φ_W⟩ = Σ_j |Φ_{W[j ← O W_j]}⟩`) and a product of two as
`Ô₁Ô₂|Φ_W⟩ = Σ_{j≠l} |Φ_{W[j ← O₁W_j, l ← O₂W_l]}⟩ + Σ_j |Φ_{W[j ← O₁O₂W_j]}⟩`.
-/
set_option linter.unusedSectionVars false
namespace AfqmcVerif.SingleDet
open Matrix AfqmcVerif.Det Finset

variable {m k : ℕ} {K : Type} [Field K] [StarRing K]

/-- `⟨Φ_C|Φ_W⟩ = Σ_e conj(det C[e,:]) · det W[e,:]` over increasing strings `e` of `k` orbitals -/
noncomputable def slaterOverlap (C W : Matrix (Fin m) (Fin k) K) : K :=
  ∑ e : Fin k ↪o Fin m, star ((C.submatrix e id).det) * (W.submatrix e id).det

/-- column `j` of `W` replaced by `O W_j` -/
def repl (W : Matrix (Fin m) (Fin k) K) (O : Matrix (Fin m) (Fin m) K) (j : Fin k) :
    Matrix (Fin m) (Fin k) K := W.updateCol j (fun i => (O * W) i j)

def repl2 (W : Matrix (Fin m) (Fin k) K) (O₁ O₂ : Matrix (Fin m) (Fin m) K) (j l : Fin k) :
    Matrix (Fin m) (Fin k) K := (repl W O₁ j).updateCol l (fun i => (O₂ * W) i l)

/-- `⟨ψ|Ô|Φ_W⟩` for a bra given by the functional `F` on column matrices -/
def obNumer (F : Matrix (Fin m) (Fin k) K → K) (O : Matrix (Fin m) (Fin m) K)
    (W : Matrix (Fin m) (Fin k) K) : K := ∑ j, F (repl W O j)

/-- the `j ≠ l` part of `⟨ψ|Ô₁Ô₂|Φ_W⟩` (the `j = l` part cancels the normal-ordering term) -/
def tbNumer (F : Matrix (Fin m) (Fin k) K → K) (O₁ O₂ : Matrix (Fin m) (Fin m) K)
    (W : Matrix (Fin m) (Fin k) K) : K := ∑ j, ∑ l ∈ univ.erase j, F (repl2 W O₁ O₂ j l)

/-! ### overlap = Cauchy–Binet -/

theorem slaterOverlap_eq (C W : Matrix (Fin m) (Fin k) K) : slaterOverlap C W = ovlp C W := by
  unfold slaterOverlap ovlp
  have h : Cᴴ = (C.map star)ᵀ := by ext i j; simp [conjTranspose_apply]
  rw [h, cauchy_binet]
  refine Finset.sum_congr rfl fun e _ => ?_
  congr 1
  have : (C.map star).submatrix e id = ((starRingEnd K).mapMatrix) (C.submatrix e id) := by
    ext i j; simp; rfl
  rw [this, ← RingHom.map_det]; rfl

/-! ### helpers -/

theorem cinv_eq_inv (M : Matrix (Fin k) (Fin k) K) : cinv M = M⁻¹ := by
  unfold cinv; rw [Matrix.inv_def, Ring.inverse_eq_inv']

theorem mul_updateCol_rect {a b c : ℕ} (M : Matrix (Fin a) (Fin b) K) (N : Matrix (Fin b) (Fin c) K)
    (j : Fin c) (v : Fin b → K) : M * N.updateCol j v = (M * N).updateCol j (M.mulVec v) := by
  ext i l
  simp only [Matrix.mul_apply, updateCol_apply, Matrix.mulVec, dotProduct]
  by_cases h : l = j <;> simp [h]

theorem contract_eq_trace (R G : Matrix (Fin k) (Fin m) K) : contract R G = (R * Gᵀ).trace := by
  unfold contract
  simp [Matrix.trace, Matrix.mul_apply]

/-- `einsum("ij,ij->", R, green)` is `tr ((CᴴW)⁻¹ R W)` -/
theorem contract_green (C W : Matrix (Fin m) (Fin k) K) (R : Matrix (Fin k) (Fin m) K) :
    contract R (green C W) = ((Cᴴ * W)⁻¹ * (R * W)).trace := by
  rw [contract_eq_trace]
  unfold green
  rw [Matrix.transpose_transpose, cinv_eq_inv, ← Matrix.mul_assoc, Matrix.trace_mul_comm]

theorem fMat_trace (C W : Matrix (Fin m) (Fin k) K) (R : Matrix (Fin k) (Fin m) K) :
    (fMat R (green C W)).trace = ((Cᴴ * W)⁻¹ * (R * W)).trace := by
  rw [← contract_green, contract_eq_trace]; rfl

theorem exch_eq_trace (f : Matrix (Fin k) (Fin k) K) : exch f = (f * f).trace := by
  unfold exch; simp [Matrix.trace, Matrix.mul_apply]

theorem exch_fMat (C W : Matrix (Fin m) (Fin k) K) (R₁ R₂ : Matrix (Fin k) (Fin m) K) :
    (fMat R₁ (green C W) * fMat R₂ (green C W)).trace
      = ((Cᴴ * W)⁻¹ * (R₁ * W) * ((Cᴴ * W)⁻¹ * (R₂ * W))).trace := by
  unfold fMat green
  simp only [Matrix.transpose_transpose, cinv_eq_inv]
  set Mi := (Cᴴ * W)⁻¹
  have e1 : R₁ * (W * Mi) * (R₂ * (W * Mi)) = (R₁ * W * Mi * (R₂ * W)) * Mi := by
    simp only [Matrix.mul_assoc]
  have e2 : Mi * (R₁ * W) * (Mi * (R₂ * W)) = Mi * (R₁ * W * Mi * (R₂ * W)) := by
    simp only [Matrix.mul_assoc]
  rw [e1, e2, Matrix.trace_mul_comm]

theorem mulVec_col {a b c : ℕ} (M : Matrix (Fin a) (Fin b) K) (N : Matrix (Fin b) (Fin c) K) (j : Fin c) :
    M.mulVec (fun i => N i j) = fun i => (M * N) i j := by
  ext i; simp [Matrix.mulVec, dotProduct, Matrix.mul_apply]

/-! ### one- and two-body mixed matrix elements of a determinant bra -/

theorem repl_mul (C W : Matrix (Fin m) (Fin k) K) (O : Matrix (Fin m) (Fin m) K) (j : Fin k) :
    Cᴴ * repl W O j = (Cᴴ * W).updateCol j (fun i => (Cᴴ * O * W) i j) := by
  unfold repl
  rw [mul_updateCol_rect, mulVec_col, Matrix.mul_assoc]

/-- **one-body**: `Σ_j ⟨Φ_C|Φ_{W[j←O W_j]}⟩ = ⟨Φ_C|Φ_W⟩ · Σ_{ij} (CᴴO)_{ij} G_{ij}` -/
theorem obNumer_ovlp (C W : Matrix (Fin m) (Fin k) K) (O : Matrix (Fin m) (Fin m) K)
    (h : ovlp C W ≠ 0) : obNumer (ovlp C) O W = ovlp C W * contract (rot C O) (green C W) := by
  unfold obNumer
  have e : ∀ j, ovlp C (repl W O j) = ((Cᴴ * W).updateCol j (fun i => (Cᴴ * O * W) i j)).det := by
    intro j; unfold ovlp; rw [repl_mul]
  simp only [e]
  rw [sum_det_updateCol, contract_green]
  unfold ovlp rot at *
  rw [Matrix.inv_def, Ring.inverse_eq_inv', Matrix.smul_mul, Matrix.trace_smul, smul_eq_mul, ← mul_assoc,
    mul_inv_cancel₀ h, one_mul, Matrix.mul_assoc]

theorem repl2_mul (C W : Matrix (Fin m) (Fin k) K) (O₁ O₂ : Matrix (Fin m) (Fin m) K) (j l : Fin k) :
    Cᴴ * repl2 W O₁ O₂ j l
      = ((Cᴴ * W).updateCol j (fun i => (Cᴴ * O₁ * W) i j)).updateCol l (fun i => (Cᴴ * O₂ * W) i l) := by
  unfold repl2
  rw [mul_updateCol_rect, repl_mul, mulVec_col, Matrix.mul_assoc Cᴴ O₂ W]

/-- **two-body**: the `j ≠ l` double replacement sum, in terms of the code's `f = rot_chol @ green.T` -/
theorem tbNumer_ovlp (C W : Matrix (Fin m) (Fin k) K) (O₁ O₂ : Matrix (Fin m) (Fin m) K)
    (h : ovlp C W ≠ 0) :
    tbNumer (ovlp C) O₁ O₂ W = ovlp C W *
      ((fMat (rot C O₁) (green C W)).trace * (fMat (rot C O₂) (green C W)).trace
        - (fMat (rot C O₁) (green C W) * fMat (rot C O₂) (green C W)).trace) := by
  unfold tbNumer
  have e : ∀ j l, ovlp C (repl2 W O₁ O₂ j l)
      = (((Cᴴ * W).updateCol j (fun i => (Cᴴ * O₁ * W) i j)).updateCol l (fun i => (Cᴴ * O₂ * W) i l)).det := by
    intro j l; unfold ovlp; rw [repl2_mul]
  simp only [e]
  rw [sum_det_updateCol_two (Cᴴ * W) (Cᴴ * O₁ * W) (Cᴴ * O₂ * W) h, fMat_trace, fMat_trace, exch_fMat]
  unfold ovlp rot
  simp only [Matrix.mul_assoc]

end AfqmcVerif.SingleDet
