import AfqmcVerif.Model.Estimator

namespace AfqmcVerif.Estimator

/-- batching changes nothing: evaluating per batch and concatenating is the per-walker map, for
every batch count `nb` and batch size `bs` with `nb · bs = n` -/
theorem batched_eq_map {α β : Type} (f : α → β) (nb bs : ℕ) (l : List α) (h : l.length = nb * bs) :
    batched f nb bs l = l.map f := by
  unfold batched
  induction nb generalizing l with
  | zero =>
    have : l = [] := List.length_eq_zero_iff.1 (by simpa using h)
    subst this; simp [chunks]
  | succ nb ih =>
    simp only [chunks, List.map_cons, List.flatten_cons]
    have hl : (l.drop bs).length = nb * bs := by
      rw [List.length_drop, h, Nat.succ_mul]; omega
    rw [ih (l.drop bs) hl, ← List.map_append, List.take_append_drop]

end AfqmcVerif.Estimator
