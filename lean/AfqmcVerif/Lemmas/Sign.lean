import AfqmcVerif.Model.Dets
import Mathlib.Data.List.Basic
import Mathlib.Data.List.Nodup
import Mathlib.Data.List.Perm.Basic
import Mathlib.Data.List.Induction
import Mathlib.Tactic.Ring
import Mathlib.Tactic.Linarith

/-!
# The sign lemma behind `parity` (C11), for every number of orbitals

`parityLoop` moves the electrons one after the other and counts, each time, the occupied orbitals
strictly between the hole and the particle on the *evolving* occupation vector.  The product of the
signs is the sign of the permutation that sorts the reference string with every hole replaced *in
place* by its particle.  Key fact: replacing one value `c` of a duplicate-free list by a new value
`d` changes the number of inversions by (mod 2) the number of entries strictly between `c` and `d`,
wherever those entries sit.
-/
namespace AfqmcVerif.Dets

/-- number of entries smaller than `x` -/
def lc (t : List Nat) (x : Nat) : Nat := (t.filter fun y => decide (y < x)).length

def replaceVal (L : List Nat) (c d : Nat) : List Nat := L.map fun x => if x = c then d else x

def between (L : List Nat) (lo hi : Nat) : Nat := (L.filter fun x => decide (lo < x) && decide (x < hi)).length

def b2n (p : Prop) [Decidable p] : Nat := if p then 1 else 0

@[simp] theorem lc_nil (x : Nat) : lc [] x = 0 := rfl
theorem lc_cons (y : Nat) (t : List Nat) (x : Nat) : lc (y :: t) x = b2n (y < x) + lc t x := by
  unfold lc b2n
  by_cases h : y < x <;> simp [List.filter_cons, h] <;> omega

@[simp] theorem between_nil (lo hi : Nat) : between [] lo hi = 0 := rfl
theorem between_cons (y : Nat) (t : List Nat) (lo hi : Nat) :
    between (y :: t) lo hi = b2n (lo < y ∧ y < hi) + between t lo hi := by
  unfold between b2n
  by_cases h1 : lo < y <;> by_cases h2 : y < hi <;> simp [List.filter_cons, h1, h2] <;> omega

theorem invCount_cons (x : Nat) (t : List Nat) : invCount (x :: t) = lc t x + invCount t := by
  simp [invCount, lc]

theorem replaceVal_of_not_mem (t : List Nat) (c d : Nat) (h : c ∉ t) : replaceVal t c d = t := by
  unfold replaceVal
  induction t with
  | nil => rfl
  | cons y t ih =>
    have hy : y ≠ c := fun e => h (by simp [e])
    have ht : c ∉ t := fun e => h (List.mem_cons_of_mem _ e)
    simp [hy, ih ht]

theorem replaceVal_cons (y : Nat) (t : List Nat) (c d : Nat) :
    replaceVal (y :: t) c d = (if y = c then d else y) :: replaceVal t c d := by
  simp [replaceVal]

/-- counting the entries below `x` before and after the replacement -/
theorem lc_replace (t : List Nat) (c d x : Nat) (hn : t.Nodup) (hc : c ∈ t) :
    lc (replaceVal t c d) x + b2n (c < x) = lc t x + b2n (d < x) := by
  induction t with
  | nil => simp at hc
  | cons y t ih =>
    rw [replaceVal_cons]
    have hnt : t.Nodup := (List.nodup_cons.1 hn).2
    have hy : y ∉ t := (List.nodup_cons.1 hn).1
    by_cases hyc : y = c
    · subst hyc
      rw [replaceVal_of_not_mem t y d hy]
      simp only [if_true, lc_cons]
      omega
    · have hct : c ∈ t := by
        rcases List.mem_cons.1 hc with h | h
        · exact absurd h.symm hyc
        · exact h
      simp only [if_neg hyc, lc_cons]
      have := ih hnt hct
      omega

/-- two values outside the list: the entries below one and below the other differ (mod 2) by the entries between -/
theorem lc_two (t : List Nat) (c d : Nat) (hc : c ∉ t) (hd : d ∉ t) :
    (lc t d + lc t c + between t (min c d) (max c d)) % 2 = 0 := by
  induction t with
  | nil => simp
  | cons y t ih =>
    have hyc : y ≠ c := fun e => hc (by simp [e])
    have hyd : y ≠ d := fun e => hd (by simp [e])
    have := ih (fun e => hc (List.mem_cons_of_mem _ e)) (fun e => hd (List.mem_cons_of_mem _ e))
    rw [lc_cons, lc_cons, between_cons]
    unfold b2n
    rcases Nat.lt_or_ge c d with hcd | hcd
    · rw [Nat.min_eq_left (le_of_lt hcd), Nat.max_eq_right (le_of_lt hcd)] at *
      split_ifs <;> omega
    · rw [Nat.min_eq_right hcd, Nat.max_eq_left hcd] at *
      split_ifs <;> omega

/-- **replacing one value changes the inversion parity by the number of entries strictly between** -/
theorem invCount_replace (L : List Nat) (c d : Nat) (hn : L.Nodup) (hc : c ∈ L) (hd : d ∉ L) :
    (invCount (replaceVal L c d) + invCount L + between L (min c d) (max c d)) % 2 = 0 := by
  induction L with
  | nil => simp at hc
  | cons x t ih =>
    have hnt : t.Nodup := (List.nodup_cons.1 hn).2
    have hx : x ∉ t := (List.nodup_cons.1 hn).1
    have hdt : d ∉ t := fun e => hd (List.mem_cons_of_mem _ e)
    have hxd : x ≠ d := fun e => hd (by simp [e])
    rw [replaceVal_cons]
    by_cases hxc : x = c
    · subst hxc
      rw [replaceVal_of_not_mem t x d hx]
      simp only [if_true, invCount_cons, between_cons]
      have h2 := lc_two t x d hx hdt
      have hb : b2n (min x d < x ∧ x < max x d) = 0 := by
        unfold b2n
        rcases Nat.lt_or_ge x d with h | h
        · rw [Nat.min_eq_left (le_of_lt h)]; simp
        · rw [Nat.max_eq_left h]; simp
      omega
    · have hct : c ∈ t := by
        rcases List.mem_cons.1 hc with h | h
        · exact absurd h.symm hxc
        · exact h
      simp only [if_neg hxc, invCount_cons, between_cons]
      have h1 := lc_replace t c d x hnt hct
      have h2 := ih hnt hct hdt
      have hcd : c ≠ d := fun e => hdt (e ▸ hct)
      have hb : (b2n (c < x) + b2n (d < x) + b2n (min c d < x ∧ x < max c d)) % 2 = 0 := by
        unfold b2n
        rcases Nat.lt_or_ge c d with h | h
        · rw [Nat.min_eq_left (le_of_lt h), Nat.max_eq_right (le_of_lt h)]
          split_ifs <;> omega
        · rw [Nat.min_eq_right h, Nat.max_eq_left h]
          split_ifs <;> omega
      omega


/-- the occupation vector `occ` and the (unsorted) list `L` describe the same set of occupied orbitals -/
structure Rep (occ : List Bool) (L : List Nat) : Prop where
  nodup : L.Nodup
  lt : ∀ x ∈ L, x < occ.length
  mem : ∀ i, i < occ.length → (occ.getD i false = true ↔ i ∈ L)

theorem countBetween_eq {occ : List Bool} {L : List Nat} (h : Rep occ L) (lo hi : Nat) :
    countBetween occ lo hi = between L lo hi := by
  unfold countBetween between
  apply List.Perm.length_eq
  apply (List.perm_ext_iff_of_nodup ((List.nodup_range).filter _) (h.nodup.filter _)).2
  intro a
  simp only [List.mem_filter, List.mem_range, Bool.and_eq_true, decide_eq_true_eq]
  constructor
  · rintro ⟨ha, ⟨h1, h2⟩, h3⟩
    exact ⟨(h.mem a ha).1 h3, h1, h2⟩
  · rintro ⟨ha, h1, h2⟩
    exact ⟨h.lt a ha, ⟨h1, h2⟩, (h.mem a (h.lt a ha)).2 ha⟩

theorem getD_set (l : List Bool) (i j : Nat) (v : Bool) (hj : j < l.length) :
    (l.set i v).getD j false = if i = j then v else l.getD j false := by
  simp only [List.getD_eq_getElem?_getD, List.getElem?_set]
  by_cases h : i = j
  · subst h; simp [hj]
  · simp [h]

theorem mem_replaceVal {L : List Nat} {c d i : Nat} :
    i ∈ replaceVal L c d ↔ (c ∈ L ∧ i = d) ∨ (i ∈ L ∧ i ≠ c) := by
  unfold replaceVal
  simp only [List.mem_map]
  constructor
  · rintro ⟨x, hx, rfl⟩
    by_cases h : x = c
    · subst h; left; simp [hx]
    · right; simp [h, hx]
  · rintro (⟨hc, rfl⟩ | ⟨hi, hne⟩)
    · exact ⟨c, hc, by simp⟩
    · exact ⟨i, hi, by simp [hne]⟩

theorem nodup_replaceVal {L : List Nat} {c d : Nat} (hn : L.Nodup) (hd : d ∉ L) : (replaceVal L c d).Nodup := by
  unfold replaceVal
  apply List.Nodup.map_on _ hn
  intro x hx y hy hxy
  by_cases h1 : x = c <;> by_cases h2 : y = c
  · rw [h1, h2]
  · simp [h1, h2] at hxy; exact absurd (hxy ▸ hy) hd
  · simp [h1, h2] at hxy; exact absurd (hxy ▸ hx) hd
  · simpa [h1, h2] using hxy

theorem Rep.step {occ : List Bool} {L : List Nat} (h : Rep occ L) {c d : Nat} (hc : c ∈ L) (hd : d ∉ L)
    (hdl : d < occ.length) : Rep (setAt (setAt occ c false) d true) (replaceVal L c d) := by
  have hlen : (setAt (setAt occ c false) d true).length = occ.length := by simp [setAt]
  have hcd : c ≠ d := fun e => hd (e ▸ hc)
  refine ⟨nodup_replaceVal h.nodup hd, ?_, ?_⟩
  · intro x hx
    rw [hlen]
    rcases mem_replaceVal.1 hx with ⟨_, rfl⟩ | ⟨hx, _⟩
    · exact hdl
    · exact h.lt x hx
  · intro i hi
    rw [hlen] at hi
    unfold setAt
    rw [getD_set _ _ _ _ (by simpa using hi), getD_set _ _ _ _ hi, mem_replaceVal]
    by_cases h1 : d = i
    · subst h1; simp [hc]
    · by_cases h2 : c = i
      · subst h2; simp [h1, Ne.symm h1]
      · simp only [h1, h2, if_false, h.mem i hi]
        constructor
        · intro hm; exact Or.inr ⟨hm, fun e => h2 e.symm⟩
        · rintro (⟨_, e⟩ | ⟨hm, _⟩)
          · exact absurd e.symm h1
          · exact hm

/-- the holes replaced one after the other -/
def seqReplace : List Nat → List Nat → List Nat → List Nat
  | L, [], _ => L
  | L, _, [] => L
  | L, c :: cs, d :: ds => seqReplace (replaceVal L c d) cs ds

def sgn (n : Nat) : Int := if n % 2 = 1 then -1 else 1

theorem sgn_add (a b : Nat) : sgn a * sgn b = sgn (a + b) := by
  unfold sgn
  rcases Nat.mod_two_eq_zero_or_one a with ha | ha <;> rcases Nat.mod_two_eq_zero_or_one b with hb | hb <;>
    · have : (a + b) % 2 = (a % 2 + b % 2) % 2 := Nat.add_mod a b 2
      simp [ha, hb, this]

theorem sgn_congr {a b : Nat} (h : (a + b) % 2 = 0) : sgn a = sgn b := by
  unfold sgn
  have : a % 2 = b % 2 := by omega
  rw [this]

/-- the loop's sign is the change of inversion parity caused by all the replacements -/
theorem parityLoop_spec : ∀ (cs ds : List Nat) (occ : List Bool) (L : List Nat), Rep occ L → cs.Nodup → ds.Nodup →
    (∀ c ∈ cs, c ∈ L) → (∀ d ∈ ds, d ∉ L ∧ d < occ.length) →
    parityLoop occ cs ds = sgn (invCount (seqReplace L cs ds) + invCount L)
  | [], ds, occ, L, _, _, _, _, _ => by
      have : (invCount L + invCount L) % 2 = 0 := by omega
      simp [parityLoop, seqReplace, sgn, this]
  | c :: cs, [], occ, L, _, _, _, _, _ => by
      have : (invCount L + invCount L) % 2 = 0 := by omega
      simp [parityLoop, seqReplace, sgn, this]
  | c :: cs, d :: ds, occ, L, h, hcs, hds, hc, hd => by
      have hcL : c ∈ L := hc c (by simp)
      have hdL := hd d (by simp)
      have hrep := h.step hcL hdL.1 hdL.2
      have hlen : (setAt (setAt occ c false) d true).length = occ.length := by simp [setAt]
      have ih := parityLoop_spec cs ds _ _ hrep (List.nodup_cons.1 hcs).2 (List.nodup_cons.1 hds).2
        (fun c' hc' => mem_replaceVal.2 (Or.inr ⟨hc c' (List.mem_cons_of_mem _ hc'),
          fun e => (List.nodup_cons.1 hcs).1 (e ▸ hc')⟩))
        (fun d' hd' => by
          have hd'L := hd d' (List.mem_cons_of_mem _ hd')
          refine ⟨fun hm => ?_, by rw [hlen]; exact hd'L.2⟩
          rcases mem_replaceVal.1 hm with ⟨_, e⟩ | ⟨hm, _⟩
          · exact (List.nodup_cons.1 hds).1 (e ▸ hd')
          · exact hd'L.1 hm)
      simp only [parityLoop, seqReplace]
      rw [ih, countBetween_eq h]
      have key := invCount_replace L c d h.nodup hcL hdL.1
      change sgn (between L (min c d) (max c d)) * _ = _
      rw [sgn_add]
      apply sgn_congr
      omega



theorem idxOf?_cons_ne' (c x : Nat) (cs : List Nat) (h : x ≠ c) :
    (c :: cs).idxOf? x = (cs.idxOf? x).map (· + 1) := by
  simp [List.idxOf?, List.findIdx?_cons, Ne.symm h]

theorem idxOf?_cons_self' (c : Nat) (cs : List Nat) : (c :: cs).idxOf? c = some 0 := by
  simp [List.idxOf?, List.findIdx?_cons]

theorem idxOf?_none_of_not_mem (x : Nat) (cs : List Nat) (h : x ∉ cs) : cs.idxOf? x = none := by
  simp [List.idxOf?, List.findIdx?_eq_none_iff]
  intro y hy e; exact h (e ▸ hy)

def simul (cs ds : List Nat) (x : Nat) : Nat :=
  match cs.idxOf? x with
  | some k => ds.getD k x
  | none => x

/-- replacing one after the other = replacing simultaneously (holes are distinct, particles are new values) -/
theorem seqReplace_eq_map : ∀ (cs ds L : List Nat), cs.length = ds.length → cs.Nodup →
    (∀ d ∈ ds, d ∉ cs) → seqReplace L cs ds = L.map (simul cs ds)
  | [], [], L, _, _, _ => by
      have : simul [] [] = id := by funext x; simp [simul, List.idxOf?]
      rw [this, List.map_id]; simp [seqReplace]
  | [], _ :: _, L, h, _, _ => by simp at h
  | _ :: _, [], L, h, _, _ => by simp at h
  | c :: cs, d :: ds, L, hlen, hn, hdisj => by
      have ih := seqReplace_eq_map cs ds (replaceVal L c d) (by simpa using hlen) (List.nodup_cons.1 hn).2
        (fun d' hd' hm => hdisj d' (List.mem_cons_of_mem _ hd') (List.mem_cons_of_mem _ hm))
      simp only [seqReplace]
      rw [ih]
      unfold replaceVal
      rw [List.map_map]
      apply List.map_congr_left
      intro x _
      simp only [Function.comp]
      by_cases hx : x = c
      · subst hx
        have hdcs : d ∉ cs := fun hm => hdisj d (by simp) (List.mem_cons_of_mem _ hm)
        simp [simul, idxOf?_cons_self', idxOf?_none_of_not_mem d cs hdcs]
      · simp only [if_neg hx, simul, idxOf?_cons_ne' c x cs hx]
        cases cs.idxOf? x with
        | none => simp
        | some k => simp

theorem invCount_sorted (L : List Nat) (h : L.Pairwise (· < ·)) : invCount L = 0 := by
  induction L with
  | nil => rfl
  | cons x t ih =>
    rw [invCount_cons, ih (List.pairwise_cons.1 h).2]
    have : lc t x = 0 := by
      unfold lc
      rw [List.length_eq_zero_iff, List.filter_eq_nil_iff]
      intro y hy
      have := (List.pairwise_cons.1 h).1 y hy
      simp; omega
    omega

theorem filter_range_sorted (n : Nat) (p : Nat → Bool) : ((List.range n).filter p).Pairwise (· < ·) :=
  List.Pairwise.filter _ (List.pairwise_lt_range)

theorem rep_occList (d0 : List Bool) : Rep d0 (occList d0) := by
  refine ⟨(List.nodup_range).filter _, ?_, ?_⟩
  · intro x hx; simp [occList] at hx; exact hx.1
  · intro i hi; simp [occList, hi]

/-- **the sign lemma, every size, every reference**: `parity` is the sign of the permutation that sorts the
reference string with its holes replaced in place by the particles -/
theorem parity_eq_sortSign (d0 d : List Bool) (hlen : (holes d0 d).length = (particles d0 d).length) :
    parity d0 d = sortSign d0 d := by
  unfold parity sortSign
  have hrep := rep_occList d0
  have hh : (holes d0 d).Nodup := (List.nodup_range).filter _
  have hp : (particles d0 d).Nodup := (List.nodup_range).filter _
  have hc : ∀ c ∈ holes d0 d, c ∈ occList d0 := by
    intro c hc
    simp only [holes, List.mem_filter, List.mem_range, Bool.and_eq_true] at hc
    simp only [occList, List.mem_filter, List.mem_range]
    exact ⟨hc.1, hc.2.1⟩
  have hd : ∀ x ∈ particles d0 d, x ∉ occList d0 ∧ x < d0.length := by
    intro x hx
    simp only [particles, List.mem_filter, List.mem_range, Bool.and_eq_true, Bool.not_eq_true'] at hx
    refine ⟨?_, hx.1⟩
    simp only [occList, List.mem_filter, List.mem_range, not_and]
    intro _; rw [hx.2.2]; simp
  have hdisj : ∀ x ∈ particles d0 d, x ∉ holes d0 d := by
    intro x hx hm
    exact (hd x hx).1 (hc x hm)
  rw [parityLoop_spec _ _ _ _ hrep hh hp hc hd, seqReplace_eq_map _ _ _ hlen hh hdisj,
    invCount_sorted (occList d0) (filter_range_sorted _ _), Nat.add_zero]
  unfold sgn inPlace simul
  rfl



theorem popcount_eq (l : List Bool) :
    popcount l = ((List.range l.length).filter fun i => l.getD i false).length := by
  induction l using List.reverseRecOn with
  | nil => rfl
  | append_singleton l b ih =>
    have h1 : ((List.range l.length).filter fun i => (l ++ [b]).getD i false)
        = ((List.range l.length).filter fun i => l.getD i false) := by
      apply List.filter_congr
      intro i hi
      have : i < l.length := List.mem_range.1 hi
      simp [List.getD_eq_getElem?_getD, List.getElem?_append_left this]
    have h2 : (l ++ [b]).getD l.length false = b := by
      simp [List.getD_eq_getElem?_getD]
    unfold popcount at *
    rw [List.filter_append, List.length_append, ih, List.length_append, List.length_singleton,
      List.range_succ, List.filter_append, List.length_append, h1]
    cases b <;> simp [h2]

theorem split_count (R : List Nat) (p q : Nat → Bool) :
    (R.filter p).length = (R.filter fun i => p i && q i).length + (R.filter fun i => p i && !q i).length := by
  induction R with
  | nil => rfl
  | cons x t ih =>
    by_cases hp : p x <;> by_cases hq : q x <;> simp [List.filter_cons, hp, hq, ih] <;> omega

/-- equal electron numbers (and equal lengths) give as many holes as particles -/
theorem holes_particles_length (d0 d : List Bool) (hl : d0.length = d.length) (hp : popcount d0 = popcount d) :
    (holes d0 d).length = (particles d0 d).length := by
  rw [popcount_eq, popcount_eq, ← hl] at hp
  rw [split_count _ _ (fun i => d.getD i false), split_count (List.range d0.length) (fun i => d.getD i false) (fun i => d0.getD i false)] at hp
  have hcomm : ((List.range d0.length).filter fun i => d0.getD i false && d.getD i false).length
      = ((List.range d0.length).filter fun i => d.getD i false && d0.getD i false).length := by
    congr 1; apply List.filter_congr; intro i _; exact Bool.and_comm _ _
  unfold holes particles
  omega


end AfqmcVerif.Dets
