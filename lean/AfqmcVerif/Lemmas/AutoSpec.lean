import AfqmcVerif.Lemmas.SingleDet
import AfqmcVerif.Lemmas.AutoBra
import Mathlib.Tactic.FieldSimp

/-!
# Differentiating a general bra along one- and two-body paths (support for C02 / C03, AD kinds)

`ob2`, `tb2`: numerators of mixed estimators written with column replacements, for any functional of the two walker blocks.
`one_body_path`, `two_body_path`: the low-order coefficients of `x ↦ ⟨ψ|(1 + xO)φ⟩` and `x ↦ ⟨ψ|(1 + xL + x²L²/2)φ⟩` for a
bra that is a linear combination of products of minors.
-/
set_option linter.unusedSectionVars false
namespace AfqmcVerif.AutoSpec
open AfqmcVerif.SingleDet AfqmcVerif.AutoBra AfqmcVerif.ColumnExpand Matrix Finset Polynomial

variable {m k ka kb g : ℕ} {K : Type} [Field K] [StarRing K]

/-- `⟨ψ|Ô|φ⟩` for a spin-dependent one-body operator and a general two-block functional `G` -/
def ob2 (G : Matrix (Fin m) (Fin ka) K → Matrix (Fin m) (Fin kb) K → K) (Oa Ob : Matrix (Fin m) (Fin m) K)
    (Wa : Matrix (Fin m) (Fin ka) K) (Wb : Matrix (Fin m) (Fin kb) K) : K :=
  (∑ j, G (repl Wa Oa j) Wb) + ∑ j, G Wa (repl Wb Ob j)

/-- the `j ≠ l` part of `⟨ψ|(Σ_s L·E^s)²|φ⟩`: same-spin double replacements and twice the opposite-spin product -/
def tb2 (G : Matrix (Fin m) (Fin ka) K → Matrix (Fin m) (Fin kb) K → K) (L : Matrix (Fin m) (Fin m) K)
    (Wa : Matrix (Fin m) (Fin ka) K) (Wb : Matrix (Fin m) (Fin kb) K) : K :=
  (∑ j, ∑ l ∈ univ.erase j, G (repl2 Wa L L j l) Wb) + (∑ j, ∑ l ∈ univ.erase j, G Wa (repl2 Wb L L j l))
  + 2 * ∑ j, ∑ l, G (repl Wa L j) (repl Wb L l)

section auto
variable {ι : Type} [Fintype ι] (c : ι → K) (ea : ι → Fin ka → Fin m) (eb : ι → Fin kb → Fin m)

theorem repl_eq_rcw (W : Matrix (Fin m) (Fin k) K) (O : Matrix (Fin m) (Fin m) K) (j : Fin k) :
    repl W O j = rcw W (O * W) j := rfl

theorem repl2_eq_rcw (W : Matrix (Fin m) (Fin k) K) (L : Matrix (Fin m) (Fin m) K) (j l : Fin k) :
    repl2 W L L j l = rcw (rcw W (L * W) j) (L * W) l := rfl

/-- **one-body path** `x ↦ ⟨ψ|(1 + xO)φ⟩` (what `jvp` differentiates at `x = 0`; also the force-bias path with `O = L_γ`):
a polynomial whose linear coefficient is `⟨ψ|Ô|φ⟩` -/
theorem one_body_path (Oa Ob : Matrix (Fin m) (Fin m) K)
    (Wa : Matrix (Fin m) (Fin ka) K) (Wb : Matrix (Fin m) (Fin kb) K) :
    ∃ Q : K[X], ∀ x : K,
      bra c ea eb (Wa + x • (Oa * Wa)) (Wb + x • (Ob * Wb))
        = bra c ea eb Wa Wb + x * ob2 (bra c ea eb) Oa Ob Wa Wb + x ^ 2 * Q.eval x := by
  obtain ⟨Q, hQ⟩ := bra_expand c ea eb Wa (Oa * Wa) 0 Wb (Ob * Wb) 0
  refine ⟨C (d2 c ea eb Wa (Oa * Wa) 0 Wb (Ob * Wb) 0) + X * Q, fun x => ?_⟩
  have h := hQ x
  simp only [smul_zero, add_zero] at h
  rw [h]
  unfold ob2 d1
  simp only [repl_eq_rcw, eval_add, eval_mul, eval_C, eval_X]
  ring

/-- **two-body path** `x ↦ ⟨ψ|(1 + xL + x²L²/2)φ⟩` (what the central difference differentiates twice): a polynomial whose
quadratic coefficient is half of `⟨ψ|(L̂)²|φ⟩ = ⟨ψ|(L²)^|φ⟩ + [j ≠ l replacements]` -/
theorem two_body_path (L : Matrix (Fin m) (Fin m) K)
    (Wa : Matrix (Fin m) (Fin ka) K) (Wb : Matrix (Fin m) (Fin kb) K) (h2 : (2 : K) ≠ 0) :
    ∃ Q : K[X], ∀ x : K,
      bra c ea eb (Wa + x • (L * Wa) + x ^ 2 • ((2 : K)⁻¹ • (L * (L * Wa))))
                  (Wb + x • (L * Wb) + x ^ 2 • ((2 : K)⁻¹ • (L * (L * Wb))))
        = bra c ea eb Wa Wb + x * ob2 (bra c ea eb) L L Wa Wb
          + x ^ 2 * ((ob2 (bra c ea eb) (L * L) (L * L) Wa Wb + tb2 (bra c ea eb) L Wa Wb) / 2)
          + x ^ 3 * Q.eval x := by
  obtain ⟨Q, hQ⟩ := bra_expand c ea eb Wa (L * Wa) ((2 : K)⁻¹ • (L * (L * Wa))) Wb (L * Wb) ((2 : K)⁻¹ • (L * (L * Wb)))
  refine ⟨Q, fun x => ?_⟩
  rw [hQ x]
  have e1 : d1 c ea eb Wa (L * Wa) Wb (L * Wb) = ob2 (bra c ea eb) L L Wa Wb := by
    unfold d1 ob2; simp only [repl_eq_rcw]
  have e2 : d2 c ea eb Wa (L * Wa) ((2 : K)⁻¹ • (L * (L * Wa))) Wb (L * Wb) ((2 : K)⁻¹ • (L * (L * Wb)))
      = (ob2 (bra c ea eb) (L * L) (L * L) Wa Wb + tb2 (bra c ea eb) L Wa Wb) / 2 := by
    unfold d2 ob2 tb2
    simp only [repl_eq_rcw, repl2_eq_rcw, bra_rcw_smul_a, bra_rcw_smul_b, sum_add_distrib, Matrix.mul_assoc]
    rw [sum_offdiag_eq_two_sumBelow (fun j l => bra c ea eb (rcw (rcw Wa (L * Wa) j) (L * Wa) l) Wb)
          (fun j l h => by rw [rcw_comm _ _ j l h]),
      sum_offdiag_eq_two_sumBelow (fun j l => bra c ea eb Wa (rcw (rcw Wb (L * Wb) j) (L * Wb) l))
          (fun j l h => by rw [rcw_comm _ _ j l h])]
    simp only [← mul_sum]
    field_simp
    ring
  rw [e1, e2]


theorem ob2_add (Oa Oa' Ob Ob' : Matrix (Fin m) (Fin m) K)
    (Wa : Matrix (Fin m) (Fin ka) K) (Wb : Matrix (Fin m) (Fin kb) K) :
    ob2 (bra c ea eb) (Oa + Oa') (Ob + Ob') Wa Wb
      = ob2 (bra c ea eb) Oa Ob Wa Wb + ob2 (bra c ea eb) Oa' Ob' Wa Wb := by
  unfold ob2
  simp only [repl_eq_rcw, Matrix.add_mul, bra_rcw_add_a, bra_rcw_add_b, sum_add_distrib]
  ring

theorem ob2_smul (a : K) (Oa Ob : Matrix (Fin m) (Fin m) K)
    (Wa : Matrix (Fin m) (Fin ka) K) (Wb : Matrix (Fin m) (Fin kb) K) :
    ob2 (bra c ea eb) (a • Oa) (a • Ob) Wa Wb = a * ob2 (bra c ea eb) Oa Ob Wa Wb := by
  unfold ob2
  simp only [repl_eq_rcw, Matrix.smul_mul, bra_rcw_smul_a, bra_rcw_smul_b, ← mul_sum]
  ring

theorem ob2_zero (Wa : Matrix (Fin m) (Fin ka) K) (Wb : Matrix (Fin m) (Fin kb) K) :
    ob2 (bra c ea eb) 0 0 Wa Wb = 0 := by
  have h := ob2_smul c ea eb (0 : K) 0 0 Wa Wb
  simpa using h

theorem ob2_sum (s : Finset (Fin g)) (M : Fin g → Matrix (Fin m) (Fin m) K)
    (Wa : Matrix (Fin m) (Fin ka) K) (Wb : Matrix (Fin m) (Fin kb) K) :
    ob2 (bra c ea eb) (∑ γ ∈ s, M γ) (∑ γ ∈ s, M γ) Wa Wb = ∑ γ ∈ s, ob2 (bra c ea eb) (M γ) (M γ) Wa Wb := by
  induction s using Finset.induction_on with
  | empty => simp [ob2_zero]
  | insert a s ha ih => rw [sum_insert ha, sum_insert ha, ob2_add, ih]

end auto
end AfqmcVerif.AutoSpec
