import AfqmcVerif.Lemmas.CisdOverlap
namespace AfqmcVerif.Excite
open Matrix Finset

variable {K : Type} [Field K] {ka va kb vb : ℕ}

/-- `⟨ψ_T|φ⟩` for the unrestricted CISD state
`(1 + Σ c^A_ia E^α_ia + Σ c^B_ia E^β_ia + ¼ Σ c^AA_iajb E^α_ia E^α_jb + ¼ Σ c^BB_iajb E^β_ia E^β_jb + Σ c^AB_iajb E^α_ia E^β_jb)|ref⟩`,
determinant by determinant (`Wb` is the down walker in the basis of the down orbitals of the trial) -/
noncomputable def ucisdSpec (Wa : Matrix (Fin (ka + va)) (Fin ka) K) (Wb : Matrix (Fin (kb + vb)) (Fin kb) K)
    (c1A : Fin ka → Fin va → K) (c1B : Fin kb → Fin vb → K)
    (cAA : Fin ka → Fin va → Fin ka → Fin va → K) (cBB : Fin kb → Fin vb → Fin kb → Fin vb → K)
    (cAB : Fin ka → Fin va → Fin kb → Fin vb → K) : K :=
  D0 Wa * D0 Wb
  + ∑ i, ∑ a, c1A i a * (S1 Wa i a * D0 Wb)
  + ∑ i, ∑ a, c1B i a * (D0 Wa * S1 Wb i a)
  + (∑ i, ∑ a, ∑ j, ∑ b, cAA i a j b * ((if i = j then 0 else S2 Wa i a j b) * D0 Wb)) / 4
  + (∑ i, ∑ a, ∑ j, ∑ b, cBB i a j b * (D0 Wa * (if i = j then 0 else S2 Wb i a j b))) / 4
  + ∑ i, ∑ a, ∑ j, ∑ b, cAB i a j b * (S1 Wa i a * S1 Wb j b)

/-- `ucisd._calc_overlap` / `UCISD._calc_overlap`: `(1 + o1 + o2)·o0` -/
noncomputable def ucisdCode (Wa : Matrix (Fin (ka + va)) (Fin ka) K) (Wb : Matrix (Fin (kb + vb)) (Fin kb) K)
    (c1A : Fin ka → Fin va → K) (c1B : Fin kb → Fin vb → K)
    (cAA : Fin ka → Fin va → Fin ka → Fin va → K) (cBB : Fin kb → Fin vb → Fin kb → Fin vb → K)
    (cAB : Fin ka → Fin va → Fin kb → Fin vb → K) : K :=
  (1 + ((∑ i, ∑ a, c1A i a * G Wa i a) + ∑ i, ∑ a, c1B i a * G Wb i a)
    + ((∑ i, ∑ a, ∑ j, ∑ b, cAA i a j b * (G Wa i a * G Wa j b)) / 2
        + (∑ i, ∑ a, ∑ j, ∑ b, cBB i a j b * (G Wb i a * G Wb j b)) / 2
        + ∑ i, ∑ a, ∑ j, ∑ b, cAB i a j b * (G Wa i a * G Wb j b))) * (D0 Wa * D0 Wb)

/-- exchanging the two virtual indices of an antisymmetric tensor inside the full contraction -/
theorem swap_virtuals {k v : ℕ} (c : Fin k → Fin v → Fin k → Fin v → K) (g : Fin k → Fin v → K)
    (hanti : ∀ i a j b, c i b j a = -c i a j b) :
    ∑ i, ∑ a, ∑ j, ∑ b, c i a j b * (g j a * g i b) = -∑ i, ∑ a, ∑ j, ∑ b, c i a j b * (g i a * g j b) := by
  rw [← Finset.sum_neg_distrib]
  refine Finset.sum_congr rfl fun i _ => ?_
  rw [← Finset.sum_neg_distrib]
  -- bring the two virtual sums next to each other, swap them, use antisymmetry
  have e1 : ∑ a, ∑ j, ∑ b, c i a j b * (g j a * g i b) = ∑ j, ∑ a, ∑ b, c i a j b * (g j a * g i b) := Finset.sum_comm
  have e2 : ∑ a, -∑ j, ∑ b, c i a j b * (g i a * g j b) = -∑ j, ∑ a, ∑ b, c i a j b * (g i a * g j b) := by
    rw [Finset.sum_neg_distrib, Finset.sum_comm]
  rw [e1, e2, ← Finset.sum_neg_distrib]
  refine Finset.sum_congr rfl fun j _ => ?_
  rw [Finset.sum_comm, ← Finset.sum_neg_distrib]
  refine Finset.sum_congr rfl fun b _ => ?_
  rw [← Finset.sum_neg_distrib]
  refine Finset.sum_congr rfl fun a _ => ?_
  rw [hanti i b j a]; ring

end AfqmcVerif.Excite

namespace AfqmcVerif.Excite
open Matrix Finset
variable {K : Type} [Field K] {ka va kb vb : ℕ}

theorem same_spin_sum {k v : ℕ} (W : Matrix (Fin (k + v)) (Fin k) K) (c : Fin k → Fin v → Fin k → Fin v → K)
    (hW : D0 W ≠ 0) (hanti : ∀ i a j b, c i b j a = -c i a j b) :
    ∑ i, ∑ a, ∑ j, ∑ b, c i a j b * (if i = j then 0 else S2 W i a j b)
      = D0 W * (2 * ∑ i, ∑ a, ∑ j, ∑ b, c i a j b * (G W i a * G W j b)) := by
  have hterm : ∀ i a j b, c i a j b * (if i = j then 0 else S2 W i a j b)
      = D0 W * (c i a j b * (G W i a * G W j b)) - D0 W * (c i a j b * (G W j a * G W i b)) := by
    intro i a j b
    by_cases hij : i = j
    · subst hij; simp only [if_true]; ring
    · simp only [if_neg hij]; rw [S2_eq W hW i a j b hij]; ring
  simp only [hterm, Finset.sum_sub_distrib, ← Finset.mul_sum]
  rw [swap_virtuals c (G W) hanti]
  ring

/-- **unrestricted CISD overlap** (`UCISD`, `ucisd`): for same-spin amplitude tensors antisymmetric in their virtual
indices, the closed form of the library equals the explicit determinant expansion -/
theorem ucisd_overlap (Wa : Matrix (Fin (ka + va)) (Fin ka) K) (Wb : Matrix (Fin (kb + vb)) (Fin kb) K)
    (c1A : Fin ka → Fin va → K) (c1B : Fin kb → Fin vb → K)
    (cAA : Fin ka → Fin va → Fin ka → Fin va → K) (cBB : Fin kb → Fin vb → Fin kb → Fin vb → K)
    (cAB : Fin ka → Fin va → Fin kb → Fin vb → K)
    (hWa : D0 Wa ≠ 0) (hWb : D0 Wb ≠ 0) (h2 : (2 : K) ≠ 0)
    (hAA : ∀ i a j b, cAA i b j a = -cAA i a j b) (hBB : ∀ i a j b, cBB i b j a = -cBB i a j b) :
    ucisdCode Wa Wb c1A c1B cAA cBB cAB = ucisdSpec Wa Wb c1A c1B cAA cBB cAB := by
  unfold ucisdSpec ucisdCode
  have h4 : (4 : K) ≠ 0 := by
    have : (4 : K) = 2 * 2 := by norm_num
    rw [this]; exact mul_ne_zero h2 h2
  have hA1 : ∀ i a, c1A i a * (S1 Wa i a * D0 Wb) = (D0 Wa * D0 Wb) * (c1A i a * G Wa i a) := by
    intro i a; rw [S1_eq Wa hWa]; ring
  have hB1 : ∀ i a, c1B i a * (D0 Wa * S1 Wb i a) = (D0 Wa * D0 Wb) * (c1B i a * G Wb i a) := by
    intro i a; rw [S1_eq Wb hWb]; ring
  have hAB : ∀ i a j b, cAB i a j b * (S1 Wa i a * S1 Wb j b) = (D0 Wa * D0 Wb) * (cAB i a j b * (G Wa i a * G Wb j b)) := by
    intro i a j b; rw [S1_eq Wa hWa, S1_eq Wb hWb]; ring
  have hAA' : ∑ i, ∑ a, ∑ j, ∑ b, cAA i a j b * ((if i = j then 0 else S2 Wa i a j b) * D0 Wb)
      = (D0 Wa * D0 Wb) * (2 * ∑ i, ∑ a, ∑ j, ∑ b, cAA i a j b * (G Wa i a * G Wa j b)) := by
    have : ∀ i a j b, cAA i a j b * ((if i = j then 0 else S2 Wa i a j b) * D0 Wb)
        = (cAA i a j b * (if i = j then 0 else S2 Wa i a j b)) * D0 Wb := by intros; ring
    simp only [this, ← Finset.sum_mul]
    rw [same_spin_sum Wa cAA hWa hAA]; ring
  have hBB' : ∑ i, ∑ a, ∑ j, ∑ b, cBB i a j b * (D0 Wa * (if i = j then 0 else S2 Wb i a j b))
      = (D0 Wa * D0 Wb) * (2 * ∑ i, ∑ a, ∑ j, ∑ b, cBB i a j b * (G Wb i a * G Wb j b)) := by
    have : ∀ i a j b, cBB i a j b * (D0 Wa * (if i = j then 0 else S2 Wb i a j b))
        = D0 Wa * (cBB i a j b * (if i = j then 0 else S2 Wb i a j b)) := by intros; ring
    simp only [this, ← Finset.mul_sum]
    rw [same_spin_sum Wb cBB hWb hBB]; ring
  rw [hAA', hBB']
  simp only [hA1, hB1, hAB, ← Finset.mul_sum]
  field_simp
  ring

end AfqmcVerif.Excite
