import AfqmcVerif.Model.Cholesky
import Mathlib.Algebra.BigOperators.Ring.Finset
import Mathlib.Algebra.BigOperators.Field
import Mathlib.Algebra.Order.Ring.Abs
import Mathlib.Tactic.Linarith
import Mathlib.Tactic.FieldSimp
import Mathlib.Tactic.Ring

/-! Schur-complement facts behind the modified Cholesky routines. -/
set_option linter.unusedSectionVars false
namespace AfqmcVerif.Cholesky
open Finset

variable {n : ℕ} {K : Type} [Field K] [LinearOrder K] [IsStrictOrderedRing K]

def Symm (R : Mat n K) : Prop := ∀ i j, R i j = R j i

/-- bilinear form of `R` -/
def B (R : Mat n K) (x y : Fin n → K) : K := ∑ i, ∑ j, x i * R i j * y j

def PSD (R : Mat n K) : Prop := ∀ x : Fin n → K, 0 ≤ B R x x

def unit (ν : Fin n) : Fin n → K := fun i => if i = ν then 1 else 0

theorem B_add_left (R : Mat n K) (x y z : Fin n → K) :
    B R (fun i => x i + y i) z = B R x z + B R y z := by
  unfold B; simp only [add_mul, Finset.sum_add_distrib]

theorem B_add_right (R : Mat n K) (x y z : Fin n → K) :
    B R x (fun i => y i + z i) = B R x y + B R x z := by
  unfold B; simp only [mul_add, Finset.sum_add_distrib]

theorem B_smul_left (R : Mat n K) (t : K) (x y : Fin n → K) :
    B R (fun i => t * x i) y = t * B R x y := by
  unfold B; simp only [Finset.mul_sum, mul_assoc]

theorem B_smul_right (R : Mat n K) (t : K) (x y : Fin n → K) :
    B R x (fun i => t * y i) = t * B R x y := by
  unfold B; simp only [Finset.mul_sum]
  exact Finset.sum_congr rfl fun i _ => Finset.sum_congr rfl fun j _ => by ring

theorem B_comm (R : Mat n K) (hs : Symm R) (x y : Fin n → K) : B R x y = B R y x := by
  unfold B
  rw [Finset.sum_comm]
  exact Finset.sum_congr rfl fun i _ => Finset.sum_congr rfl fun j _ => by rw [hs j i]; ring

theorem B_unit_right (R : Mat n K) (x : Fin n → K) (ν : Fin n) :
    B R x (unit ν) = ∑ i, x i * R i ν := by
  unfold B unit
  exact Finset.sum_congr rfl fun i _ => by simp [Finset.sum_ite_eq']

theorem B_unit_unit (R : Mat n K) (a b : Fin n) : B R (unit a) (unit b) = R a b := by
  rw [B_unit_right]; unfold unit; simp [Finset.sum_ite_eq']

/-- Cauchy–Schwarz for a symmetric positive semi-definite form, against a unit vector -/
theorem cauchy_schwarz_unit (R : Mat n K) (hs : Symm R) (hp : PSD R) (x : Fin n → K) (ν : Fin n) :
    B R x (unit ν) ^ 2 ≤ B R x x * R ν ν := by
  set b := B R x (unit ν) with hb
  set q := B R x x with hq
  set δ := R ν ν with hδ
  have hq0 : 0 ≤ q := hp x
  have hδ0 : 0 ≤ δ := by have := hp (unit ν); rwa [B_unit_unit] at this
  have key : ∀ t : K, 0 ≤ q + 2 * t * b + t ^ 2 * δ := by
    intro t
    have := hp (fun i => x i + t * unit ν i)
    rw [B_add_left, B_add_right, B_add_right, B_smul_left, B_smul_left, B_smul_right, B_smul_right,
      B_unit_unit, B_comm R hs (unit ν) x] at this
    have e : q + t * b + (t * b + t * (t * δ)) = q + 2 * t * b + t ^ 2 * δ := by ring
    rw [← hb, ← hq, ← hδ, e] at this
    exact this
  rcases hδ0.lt_or_eq with hpos | hzero
  · have := key (-b / δ)
    have e : q + 2 * (-b / δ) * b + (-b / δ) ^ 2 * δ = (q * δ - b ^ 2) / δ := by
      field_simp; ring
    rw [e] at this
    have h2 : 0 ≤ q * δ - b ^ 2 := by
      by_contra hneg
      have := div_neg_of_neg_of_pos (not_le.1 hneg) hpos
      linarith
    linarith
  · rw [← hzero, mul_zero]
    by_contra hne
    have hb0 : b ≠ 0 := by
      intro h0; apply hne; rw [h0]; simp
    have := key (-(q + 1) / (2 * b))
    rw [← hzero, mul_zero, add_zero] at this
    have e : q + 2 * (-(q + 1) / (2 * b)) * b = -1 := by field_simp; ring
    rw [e] at this
    linarith

/-- 2×2 minors: entries of a symmetric PSD matrix are bounded by the diagonal -/
theorem entry_sq_le (R : Mat n K) (hs : Symm R) (hp : PSD R) (i j : Fin n) :
    R i j ^ 2 ≤ R i i * R j j := by
  have := cauchy_schwarz_unit R hs hp (unit i) j
  rwa [B_unit_unit, B_unit_unit] at this

theorem abs_entry_le (R : Mat n K) (hs : Symm R) (hp : PSD R) (m : K)
    (hm : ∀ i, R i i ≤ m) (i j : Fin n) : |R i j| ≤ m := by
  have hd : ∀ i, 0 ≤ R i i := fun i => by have := hp (unit i); rwa [B_unit_unit] at this
  have hm0 : 0 ≤ m := le_trans (hd i) (hm i)
  have h1 := entry_sq_le R hs hp i j
  have h2 : R i i * R j j ≤ m * m := mul_le_mul (hm i) (hm j) (hd j) hm0
  have h3 : |R i j| ^ 2 ≤ m ^ 2 := by rw [sq_abs]; nlinarith
  exact (abs_le_of_sq_le_sq' h3 hm0).2

/-- the rank-one downdate keeps symmetry -/
theorem schur_symm (R : Mat n K) (hs : Symm R) (u : Fin n → K) (d : K) :
    Symm (fun i j => R i j - u i * u j / d) := by
  intro i j; simp only; rw [hs i j]; ring

/-- … and positive semi-definiteness, when `u` is the pivot row and `d ≥` the pivot -/
theorem schur_psd (R : Mat n K) (hs : Symm R) (hp : PSD R) (ν : Fin n) (d : K) (hd : 0 < d)
    (hge : R ν ν ≤ d) : PSD (fun i j => R i j - R ν i * R ν j / d) := by
  intro x
  have hb : B R x (unit ν) = ∑ i, x i * R ν i := by
    rw [B_unit_right]; exact Finset.sum_congr rfl fun i _ => by rw [hs i ν]
  have hexp : B (fun i j => R i j - R ν i * R ν j / d) x x = B R x x - (B R x (unit ν)) ^ 2 / d := by
    rw [hb]
    unfold B
    simp only [mul_sub, sub_mul, Finset.sum_sub_distrib]
    congr 1
    rw [sq, Finset.sum_mul_sum, Finset.sum_div]
    refine Finset.sum_congr rfl fun i _ => ?_
    rw [Finset.sum_div]
    exact Finset.sum_congr rfl fun j _ => by ring
  rw [hexp]
  have hcs := cauchy_schwarz_unit R hs hp x ν
  have hq : 0 ≤ B R x x := hp x
  have h1 : B R x (unit ν) ^ 2 ≤ B R x x * d := le_trans hcs (mul_le_mul_of_nonneg_left hge hq)
  rw [sub_nonneg, div_le_iff₀ hd]
  exact h1

/-- with `d` equal to the pivot (eps = 0) the pivot row and column of the new residual vanish -/
theorem schur_pivot_zero (R : Mat n K) (hs : Symm R) (ν : Fin n) (hne : R ν ν ≠ 0) (i : Fin n) :
    R i ν - R ν i * R ν ν / R ν ν = 0 ∧ R ν i - R ν ν * R ν i / R ν ν = 0 := by
  constructor
  · rw [hs i ν]; field_simp; ring
  · field_simp; ring

/-- rows that already vanish keep vanishing -/
theorem schur_zero_row_stays (R : Mat n K) (u : Fin n → K) (d : K) (a : Fin n)
    (hrow : ∀ j, R a j = 0) (hu : u a = 0) (j : Fin n) : R a j - u a * u j / d = 0 := by
  rw [hrow j, hu]; ring

/-- a symmetric PSD matrix with zero diagonal is zero: the factorisation is exact -/
theorem zero_of_diag_zero (R : Mat n K) (hs : Symm R) (hp : PSD R) (h0 : ∀ i, R i i = 0)
    (i j : Fin n) : R i j = 0 := by
  have := abs_entry_le R hs hp 0 (fun i => (h0 i).le) i j
  exact abs_nonpos_iff.1 this

end AfqmcVerif.Cholesky
