import AfqmcVerif.Lemmas.SortSign
import AfqmcVerif.Lemmas.SeqSet
namespace AfqmcVerif.Dets

theorem mem_occList {d : List Bool} {x : Nat} : x ∈ occList d ↔ x < d.length ∧ d.getD x false = true := by
  simp [occList]

theorem holes_sub (d0 d : List Bool) : ∀ c ∈ holes d0 d, c ∈ occList d0 := by
  intro c hc
  simp only [holes, List.mem_filter, List.mem_range, Bool.and_eq_true] at hc
  exact mem_occList.2 ⟨hc.1, hc.2.1⟩

theorem particles_new (d0 d : List Bool) : ∀ x ∈ particles d0 d, x ∉ occList d0 ∧ x < d0.length := by
  intro x hx
  simp only [particles, List.mem_filter, List.mem_range, Bool.and_eq_true, Bool.not_eq_true'] at hx
  refine ⟨fun h => ?_, hx.1⟩
  have := (mem_occList.1 h).2
  rw [hx.2.2] at this; exact Bool.false_ne_true this

theorem inPlace_eq_seq (d0 d : List Bool) (hlen : (holes d0 d).length = (particles d0 d).length) :
    inPlace d0 d = seqReplace (occList d0) (holes d0 d) (particles d0 d) := by
  have hh : (holes d0 d).Nodup := (List.nodup_range).filter _
  have hdisj : ∀ x ∈ particles d0 d, x ∉ holes d0 d :=
    fun x hx hm => (particles_new d0 d x hx).1 (holes_sub d0 d x hm)
  rw [seqReplace_eq_map _ _ _ hlen hh hdisj]
  unfold inPlace simul
  rfl

/-- the in-place string lists exactly the occupied orbitals of `d`, without repetition -/
theorem inPlace_rep (d0 d : List Bool) (hl : d0.length = d.length) (hp : popcount d0 = popcount d) :
    (inPlace d0 d).Nodup ∧ ∀ x, x ∈ inPlace d0 d ↔ x ∈ occList d := by
  have hlen := holes_particles_length d0 d hl hp
  have hh : (holes d0 d).Nodup := (List.nodup_range).filter _
  have hpn : (particles d0 d).Nodup := (List.nodup_range).filter _
  have hdisj : ∀ x ∈ particles d0 d, x ∉ holes d0 d :=
    fun x hx hm => (particles_new d0 d x hx).1 (holes_sub d0 d x hm)
  have hrep := rep_seq (holes d0 d) (particles d0 d) d0 (occList d0) (rep_occList d0) hh hpn
    (holes_sub d0 d) (particles_new d0 d)
  rw [← inPlace_eq_seq d0 d hlen] at hrep
  refine ⟨hrep.nodup, fun x => ?_⟩
  have hL : (seqSet d0 (holes d0 d) (particles d0 d)).length = d0.length := seqSet_length _ _ _
  constructor
  · intro hx
    have hxl := hrep.lt x hx
    rw [hL] at hxl
    have := (hrep.mem x (by rw [hL]; exact hxl)).2 hx
    rw [seqSet_getD _ _ _ x hlen hxl hdisj] at this
    refine mem_occList.2 ⟨hl ▸ hxl, ?_⟩
    by_cases h1 : x ∈ particles d0 d
    · simp only [particles, List.mem_filter, Bool.and_eq_true] at h1; exact h1.2.1
    · by_cases h2 : x ∈ holes d0 d
      · simp [h1, h2] at this
      · simp only [h1, h2, if_false] at this
        -- occupied in d0, not a hole: occupied in d
        by_contra hd
        apply h2
        simp only [holes, List.mem_filter, List.mem_range, Bool.and_eq_true, Bool.not_eq_true']
        exact ⟨hxl, this, by simpa using hd⟩
  · intro hx
    obtain ⟨hxl, hxd⟩ := mem_occList.1 hx
    rw [← hl] at hxl
    apply (hrep.mem x (by rw [hL]; exact hxl)).1
    rw [seqSet_getD _ _ _ x hlen hxl hdisj]
    by_cases h1 : x ∈ particles d0 d
    · simp [h1]
    · have h2 : x ∉ holes d0 d := by
        intro h2
        simp only [holes, List.mem_filter, Bool.and_eq_true, Bool.not_eq_true'] at h2
        rw [hxd] at h2; exact absurd h2.2.2 (by decide)
      simp only [h1, h2, if_false]
      by_contra h0
      apply h1
      simp only [particles, List.mem_filter, List.mem_range, Bool.and_eq_true, Bool.not_eq_true']
      exact ⟨hxl, hxd, by simpa using h0⟩

end AfqmcVerif.Dets
