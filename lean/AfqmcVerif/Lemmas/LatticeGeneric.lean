import AfqmcVerif.Model.Lattice
import Mathlib.Data.List.Perm.Subperm
import Mathlib.Data.List.Nodup
import Mathlib.Tactic.Linarith

/-! Generic facts about `Lat.adj` from abstract hypotheses on the neighbour relation. -/
namespace AfqmcVerif.Lattice

set_option linter.unusedSectionVars false
variable {P : Type} [DecidableEq P] {dom : P → Prop}

/-- the hypotheses under which the adjacency matrix is the graph of the neighbour relation -/
structure Lat.Good (L : Lat P) (dom : P → Prop) : Prop where
  num_site : ∀ i, i < L.n → L.num (L.site i) = (i : Int)
  dom_site : ∀ i, i < L.n → dom (L.site i)
  ok_site  : ∀ i, i < L.n → L.ok (L.site i) = true
  site_num : ∀ p, dom p → ∃ i, i < L.n ∧ L.site i = p
  nbr_dom  : ∀ p q, dom p → q ∈ L.nbrs p → L.ok q = true → dom q
  symm     : ∀ p q, dom p → dom q → q ∈ L.nbrs p → p ∈ L.nbrs q
  irrefl   : ∀ p, dom p → p ∉ L.nbrs p

theorem Lat.adj_symm (L : Lat P) (a b : Nat) : L.adj a b = L.adj b a := by
  unfold Lat.adj; exact Bool.or_comm _ _

theorem Lat.num_inj (L : Lat P) (h : L.Good dom) {p q : P} (hp : dom p) (hq : dom q)
    (e : L.num p = L.num q) : p = q := by
  obtain ⟨i, hi, rfl⟩ := h.site_num p hp
  obtain ⟨j, hj, rfl⟩ := h.site_num q hq
  rw [h.num_site i hi, h.num_site j hj] at e
  have : i = j := by exact_mod_cast e
  rw [this]

theorem Lat.mem_nbrNums (L : Lat P) (a : Nat) (x : Int) :
    x ∈ L.nbrNums a ↔ ∃ q, q ∈ L.nbrs (L.site a) ∧ L.ok q = true ∧ L.num q = x := by
  unfold Lat.nbrNums
  simp only [List.mem_map, List.mem_filter]
  constructor
  · rintro ⟨q, ⟨h1, h2⟩, h3⟩; exact ⟨q, h1, h2, h3⟩
  · rintro ⟨q, h1, h2, h3⟩; exact ⟨q, ⟨h1, h2⟩, h3⟩

/-- `h[a, b] = 1` iff `b` is (the number of) an in-bounds neighbour of site `a`. -/
theorem Lat.adj_iff (L : Lat P) (h : L.Good dom) {a b : Nat} (ha : a < L.n) (hb : b < L.n) :
    L.adj a b = true ↔ (b : Int) ∈ L.nbrNums a := by
  unfold Lat.adj
  rw [Bool.or_eq_true, List.contains_iff_mem, List.contains_iff_mem]
  constructor
  · rintro (h1 | h1)
    · exact h1
    · rw [L.mem_nbrNums] at h1 ⊢
      obtain ⟨q, hq, hok, hn⟩ := h1
      have hqd : dom q := h.nbr_dom _ _ (h.dom_site b hb) hq hok
      have hqa : q = L.site a := by
        apply L.num_inj h hqd (h.dom_site a ha)
        rw [hn, h.num_site a ha]
      subst hqa
      exact ⟨L.site b, h.symm _ _ (h.dom_site b hb) (h.dom_site a ha) hq, h.ok_site b hb,
        h.num_site b hb⟩
  · intro h1; exact Or.inl h1

theorem Lat.adj_diag (L : Lat P) (h : L.Good dom) {a : Nat} (ha : a < L.n) : L.adj a a = false := by
  rw [← Bool.not_eq_true, L.adj_iff h ha ha, L.mem_nbrNums]
  rintro ⟨q, hq, hok, hn⟩
  have hqd : dom q := h.nbr_dom _ _ (h.dom_site a ha) hq hok
  have hqa : q = L.site a := by
    apply L.num_inj h hqd (h.dom_site a ha)
    rw [hn, h.num_site a ha]
  subst hqa
  exact h.irrefl _ hqd hq

/-- the row of `a`, as a list of casts, is duplicate-free and contained in `nbrNums a` -/
theorem Lat.rowSum_le (L : Lat P) (h : L.Good dom) {a : Nat} (ha : a < L.n) :
    L.rowSum a ≤ (L.nbrNums a).length := by
  unfold Lat.rowSum
  set row := (List.range L.n).filter fun b => L.adj a b with hrow
  have hnd : (row.map (fun b : Nat => (b : Int))).Nodup := by
    apply List.Nodup.map
    · intro x y e; simpa using e
    · exact List.Nodup.filter _ List.nodup_range
  have hsub : row.map (fun b : Nat => (b : Int)) ⊆ L.nbrNums a := by
    intro x hx
    rw [List.mem_map] at hx
    obtain ⟨b, hb, rfl⟩ := hx
    rw [hrow, List.mem_filter, List.mem_range] at hb
    exact (L.adj_iff h ha hb.1).1 hb.2
  have := (List.subperm_of_subset hnd hsub).length_le
  simpa using this

theorem Lat.rowSum_eq (L : Lat P) (h : L.Good dom) {a : Nat} (ha : a < L.n)
    (hnd : (L.nbrNums a).Nodup) : L.rowSum a = (L.nbrNums a).length := by
  apply le_antisymm (L.rowSum_le h ha)
  unfold Lat.rowSum
  set row := (List.range L.n).filter fun b => L.adj a b with hrow
  have hsub : L.nbrNums a ⊆ row.map (fun b : Nat => (b : Int)) := by
    intro x hx
    have hx' := hx
    rw [L.mem_nbrNums] at hx'
    obtain ⟨q, hq, hok, hn⟩ := hx'
    obtain ⟨b, hb, rfl⟩ := h.site_num q (h.nbr_dom _ _ (h.dom_site a ha) hq hok)
    rw [h.num_site b hb] at hn
    subst hn
    rw [List.mem_map]
    refine ⟨b, ?_, rfl⟩
    rw [hrow, List.mem_filter, List.mem_range]
    exact ⟨hb, (L.adj_iff h ha hb).2 hx⟩
  have := (List.subperm_of_subset hnd hsub).length_le
  simpa using this

/-- if moreover every neighbour is in bounds and the neighbour list has no duplicates, the
row sum is the length of the neighbour list (the coordination number) -/
theorem Lat.rowSum_eq_length (L : Lat P) (h : L.Good dom) {a : Nat} (ha : a < L.n)
    (hclosed : ∀ q ∈ L.nbrs (L.site a), L.ok q = true)
    (hnd : (L.nbrs (L.site a)).Nodup) : L.rowSum a = (L.nbrs (L.site a)).length := by
  have hfil : (L.nbrs (L.site a)).filter L.ok = L.nbrs (L.site a) :=
    List.filter_eq_self.2 hclosed
  have hn : (L.nbrNums a).Nodup := by
    unfold Lat.nbrNums
    rw [hfil]
    refine List.Nodup.map_on ?_ hnd
    intro x hx y hy e
    exact L.num_inj h (h.nbr_dom _ _ (h.dom_site a ha) hx (hclosed x hx))
      (h.nbr_dom _ _ (h.dom_site a ha) hy (hclosed y hy)) e
  rw [L.rowSum_eq h ha hn]
  unfold Lat.nbrNums
  rw [hfil, List.length_map]

end AfqmcVerif.Lattice
