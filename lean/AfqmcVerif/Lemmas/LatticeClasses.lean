import AfqmcVerif.Lemmas.LatticeGeneric

/-! The four lattice classes satisfy `Lat.Good`; neighbour lists are duplicate-free for
sides ≥ 3.  Python's `%` with a *variable* modulus is eliminated first (`pmod_succ`,
`pmod_pred`), after which everything is linear integer arithmetic. -/
namespace AfqmcVerif.Lattice

theorem pmod_succ (l r : Int) (h0 : 0 ≤ r) (h1 : r < l) :
    (r + 1) % l = if r + 1 < l then r + 1 else 0 := by
  split
  · exact Int.emod_eq_of_lt (by omega) (by assumption)
  · have : r + 1 = l := by omega
    rw [this, Int.emod_self]

theorem pmod_pred (l r : Int) (h0 : 0 ≤ r) (h1 : r < l) :
    (r - 1) % l = if 1 ≤ r then r - 1 else l - 1 := by
  split
  · exact Int.emod_eq_of_lt (by omega) (by omega)
  · have : r = 0 := by omega
    subst this
    have : (0 - 1 : Int) % l = (0 - 1 + l) % l := by rw [Int.add_emod_right]
    rw [this]; have e : (0 - 1 + l : Int) = l - 1 := by omega
    rw [e]; exact Int.emod_eq_of_lt (by omega) (by omega)

/-- row-major numbering is a bijection: `(i / w, i % w)` and `c + w * r` -/
theorem divmod_num (w i : Int) : i % w + w * (i / w) = i := Int.emod_add_mul_ediv i w

theorem num_div (w r c : Int) (hc0 : 0 ≤ c) (hc : c < w) : (c + w * r) / w = r := by
  rw [Int.add_mul_ediv_left _ _ (by omega : w ≠ 0), Int.ediv_eq_zero_of_lt hc0 hc]; omega

theorem num_mod (w r c : Int) (hc0 : 0 ≤ c) (hc : c < w) : (c + w * r) % w = c := by
  rw [Int.add_mul_emod_self_left]; exact Int.emod_eq_of_lt hc0 hc

theorem num_bound (w h r c : Int) (hc0 : 0 ≤ c) (hc : c < w) (hr0 : 0 ≤ r) (hr : r < h) :
    0 ≤ c + w * r ∧ c + w * r < w * h := by
  have h1 : w * r ≤ w * (h - 1) := Int.mul_le_mul_of_nonneg_left (by omega) (by omega)
  have h2 : 0 ≤ w * r := Int.mul_nonneg (by omega) hr0
  have h3 : w * (h - 1) = w * h - w := by rw [Int.mul_sub, Int.mul_one]
  constructor <;> omega

theorem div_bound (w h i : Int) (hw : 0 < w) (hi0 : 0 ≤ i) (hi : i < w * h) :
    0 ≤ i / w ∧ i / w < h ∧ 0 ≤ i % w ∧ i % w < w := by
  refine ⟨Int.ediv_nonneg hi0 (by omega), ?_, Int.emod_nonneg _ (by omega), Int.emod_lt_of_pos _ hw⟩
  apply Int.ediv_lt_of_lt_mul hw
  rw [Int.mul_comm]; exact hi

/-! ### chain -/

def chainDom (n : Nat) (p : Int) : Prop := 0 ≤ p ∧ p < (n : Int)

theorem chain_good (n : Nat) (hn : 2 ≤ n) : (chain n).Good (chainDom n) where
  num_site := fun i _ => rfl
  dom_site := fun i hi => by simp only [chain] at hi; unfold chainDom; simp only [chain]; omega
  ok_site := fun i _ => rfl
  site_num := fun p hp => by
    unfold chainDom at hp
    refine ⟨p.toNat, ?_, ?_⟩
    · simp only [chain]; omega
    · simp only [chain]; omega
  nbr_dom := fun p q hp hq _ => by
    unfold chainDom at *
    simp only [chain, List.mem_cons, List.not_mem_nil, or_false] at hq
    rw [pmod_succ _ _ hp.1 hp.2, pmod_pred _ _ hp.1 hp.2] at hq
    rcases hq with h | h <;> (split at h) <;> omega
  symm := fun p q hp hq h => by
    unfold chainDom at *
    simp only [chain, List.mem_cons, List.not_mem_nil, or_false] at h ⊢
    rw [pmod_succ _ _ hq.1 hq.2, pmod_pred _ _ hq.1 hq.2]
    rw [pmod_succ _ _ hp.1 hp.2, pmod_pred _ _ hp.1 hp.2] at h
    rcases h with h | h <;> (split at h) <;> (repeat' split) <;> omega
  irrefl := fun p hp h => by
    unfold chainDom at *
    simp only [chain, List.mem_cons, List.not_mem_nil, or_false] at h
    rw [pmod_succ _ _ hp.1 hp.2, pmod_pred _ _ hp.1 hp.2] at h
    rcases h with h | h <;> (split at h) <;> omega

theorem chain_nbrs_nodup (n : Nat) (hn : 3 ≤ n) (p : Int) (hp : chainDom n p) :
    ((chain n).nbrs p).Nodup := by
  unfold chainDom at hp
  simp only [chain, List.nodup_cons, List.mem_cons, List.not_mem_nil, or_false, not_false_eq_true,
    List.nodup_nil, and_true]
  rw [pmod_succ _ _ hp.1 hp.2, pmod_pred _ _ hp.1 hp.2]
  repeat' split
  all_goals omega

end AfqmcVerif.Lattice

namespace AfqmcVerif.Lattice

/-! ### facts about the two mod-shifts, used after abstracting the `%` terms -/

theorem mod_succ_iff (l a c : Int) (ha0 : 0 ≤ a) (ha : a < l) (hc0 : 0 ≤ c) (hc : c < l) :
    c = (a + 1) % l ↔ a = (c - 1) % l := by
  rw [pmod_succ l a ha0 ha, pmod_pred l c hc0 hc]
  repeat' split
  all_goals omega

theorem mod_range (l a : Int) (hl : 0 < l) : 0 ≤ a % l ∧ a % l < l :=
  ⟨Int.emod_nonneg _ (by omega), Int.emod_lt_of_pos _ hl⟩

theorem mod_distinct (l r : Int) (h0 : 0 ≤ r) (h1 : r < l) :
    (2 ≤ l → (r + 1) % l ≠ r ∧ (r - 1) % l ≠ r) ∧ (3 ≤ l → (r + 1) % l ≠ (r - 1) % l) := by
  rw [pmod_succ l r h0 h1, pmod_pred l r h0 h1]
  refine ⟨fun _ => ⟨?_, ?_⟩, fun _ => ?_⟩ <;> repeat' split
  all_goals omega

theorem mod_parity (l r : Int) (h0 : 0 ≤ r) (h1 : r < l) (hl : l % 2 = 0) :
    ((r + 1) % l) % 2 = (r + 1) % 2 ∧ ((r - 1) % l) % 2 = (r + 1) % 2 := by
  rw [pmod_succ l r h0 h1, pmod_pred l r h0 h1]
  constructor <;> split <;> omega

/-! ### two-dimensional grid -/

def grid2Dom (lx ly : Nat) (p : Pos2) : Prop :=
  0 ≤ p.1 ∧ p.1 < (ly : Int) ∧ 0 ≤ p.2 ∧ p.2 < (lx : Int)

theorem grid2_ok_iff (lx ly : Nat) (p : Pos2) : (grid2 lx ly).ok p = true ↔ grid2Dom lx ly p := by
  simp [grid2, grid2Dom, and_assoc]

/-- row-major site/num bijection, shared by grid2 (width `lx`) and tri (width `ly`) -/
theorem rowmajor_site_num (w h : Nat) (hw : 0 < w) (a b : Int)
    (ha0 : 0 ≤ a) (ha : a < (h : Int)) (hb0 : 0 ≤ b) (hb : b < (w : Int)) :
    ∃ i : Nat, i < w * h ∧ (((i : Int) / (w : Int), (i : Int) % (w : Int)) : Pos2) = (a, b) := by
  have hbd := num_bound w h a b hb0 hb ha0 ha
  refine ⟨(b + (w : Int) * a).toNat, ?_, ?_⟩
  · have : ((b + (w : Int) * a).toNat : Int) < ((w * h : Nat) : Int) := by
      rw [Int.toNat_of_nonneg hbd.1]; push_cast; exact hbd.2
    exact_mod_cast this
  · rw [Int.toNat_of_nonneg hbd.1, num_div _ _ _ hb0 hb, num_mod _ _ _ hb0 hb]

theorem rowmajor_dom_site (w h : Nat) (i : Nat) (hi : i < w * h) :
    0 ≤ (i : Int) / (w : Int) ∧ (i : Int) / (w : Int) < (h : Int) ∧
    0 ≤ (i : Int) % (w : Int) ∧ (i : Int) % (w : Int) < (w : Int) := by
  have hw : 0 < w := by
    rcases Nat.eq_zero_or_pos w with h0 | h0
    · subst h0; simp at hi
    · exact h0
  have hi' : (i : Int) < (w : Int) * (h : Int) := by exact_mod_cast hi
  exact div_bound w h i (by exact_mod_cast hw) (by omega) hi'

theorem grid2_good (lx ly : Nat) (hx : 2 ≤ lx) (hy : 2 ≤ ly) :
    (grid2 lx ly).Good (grid2Dom lx ly) where
  num_site := fun i _ => by simp only [grid2]; exact divmod_num _ _
  dom_site := fun i hi => by
    simp only [grid2] at hi; unfold grid2Dom; simp only [grid2]
    exact rowmajor_dom_site lx ly i hi
  ok_site := fun i hi => by
    rw [grid2_ok_iff]
    simp only [grid2] at hi; unfold grid2Dom; simp only [grid2]
    exact rowmajor_dom_site lx ly i hi
  site_num := fun p hp => by
    obtain ⟨a, b⟩ := p
    unfold grid2Dom at hp
    simp only [grid2]
    exact rowmajor_site_num lx ly (by omega) a b hp.1 hp.2.1 hp.2.2.1 hp.2.2.2
  nbr_dom := fun p q _ _ hok => (grid2_ok_iff lx ly q).1 hok
  symm := fun p q hp hq h => by
    obtain ⟨a, b⟩ := p
    obtain ⟨c, d⟩ := q
    unfold grid2Dom at hp hq
    simp only at hp hq
    simp only [grid2, List.mem_cons, List.not_mem_nil, or_false, Prod.mk.injEq] at h ⊢
    have e1 := mod_succ_iff lx b d hp.2.2.1 hp.2.2.2 hq.2.2.1 hq.2.2.2
    have e2 := mod_succ_iff lx d b hq.2.2.1 hq.2.2.2 hp.2.2.1 hp.2.2.2
    have e3 := mod_succ_iff ly a c hp.1 hp.2.1 hq.1 hq.2.1
    have e4 := mod_succ_iff ly c a hq.1 hq.2.1 hp.1 hp.2.1
    generalize (b + 1) % (lx : Int) = u1 at *
    generalize (b - 1) % (lx : Int) = u2 at *
    generalize (d + 1) % (lx : Int) = u3 at *
    generalize (d - 1) % (lx : Int) = u4 at *
    generalize (a + 1) % (ly : Int) = v1 at *
    generalize (a - 1) % (ly : Int) = v2 at *
    generalize (c + 1) % (ly : Int) = v3 at *
    generalize (c - 1) % (ly : Int) = v4 at *
    omega
  irrefl := fun p hp h => by
    obtain ⟨a, b⟩ := p
    unfold grid2Dom at hp
    simp only at hp
    simp only [grid2, List.mem_cons, List.not_mem_nil, or_false, Prod.mk.injEq] at h
    have e1 := (mod_distinct lx b hp.2.2.1 hp.2.2.2).1 (by omega)
    have e2 := (mod_distinct ly a hp.1 hp.2.1).1 (by omega)
    generalize (b + 1) % (lx : Int) = u1 at *
    generalize (b - 1) % (lx : Int) = u2 at *
    generalize (a + 1) % (ly : Int) = v1 at *
    generalize (a - 1) % (ly : Int) = v2 at *
    omega

theorem grid2_nbrs_ok (lx ly : Nat) (p : Pos2) (hp : grid2Dom lx ly p) :
    ∀ q ∈ (grid2 lx ly).nbrs p, (grid2 lx ly).ok q = true := by
  intro q hq
  rw [grid2_ok_iff]
  obtain ⟨a, b⟩ := p
  obtain ⟨c, d⟩ := q
  unfold grid2Dom at *
  simp only at hp
  simp only [grid2, List.mem_cons, List.not_mem_nil, or_false, Prod.mk.injEq] at hq
  have r1 := mod_range lx (b + 1) (by omega)
  have r2 := mod_range lx (b - 1) (by omega)
  have r3 := mod_range ly (a + 1) (by omega)
  have r4 := mod_range ly (a - 1) (by omega)
  simp only
  omega

theorem grid2_nbrs_nodup (lx ly : Nat) (hx : 3 ≤ lx) (hy : 3 ≤ ly) (p : Pos2)
    (hp : grid2Dom lx ly p) : ((grid2 lx ly).nbrs p).Nodup := by
  obtain ⟨a, b⟩ := p
  unfold grid2Dom at hp
  simp only at hp
  simp only [grid2, List.nodup_cons, List.mem_cons, List.not_mem_nil, or_false, Prod.mk.injEq,
    not_false_eq_true, List.nodup_nil, and_true]
  have e1 := mod_distinct lx b hp.2.2.1 hp.2.2.2
  have e2 := mod_distinct ly a hp.1 hp.2.1
  generalize (b + 1) % (lx : Int) = u1 at *
  generalize (b - 1) % (lx : Int) = u2 at *
  generalize (a + 1) % (ly : Int) = v1 at *
  generalize (a - 1) % (ly : Int) = v2 at *
  omega

end AfqmcVerif.Lattice

namespace AfqmcVerif.Lattice

/-- close a goal that is a 6-fold disjunction of conjunctions of linear facts by finding the
disjunct that `omega` proves (a single big `omega` call explodes on the case analysis) -/
macro "pick6" : tactic => `(tactic| first
  | (refine Or.inl ?_ ; refine ⟨?_, ?_⟩ <;> omega)
  | (refine Or.inr (Or.inl ?_) ; refine ⟨?_, ?_⟩ <;> omega)
  | (refine Or.inr (Or.inr (Or.inl ?_)) ; refine ⟨?_, ?_⟩ <;> omega)
  | (refine Or.inr (Or.inr (Or.inr (Or.inl ?_))) ; refine ⟨?_, ?_⟩ <;> omega)
  | (refine Or.inr (Or.inr (Or.inr (Or.inr (Or.inl ?_)))) ; refine ⟨?_, ?_⟩ <;> omega)
  | (refine Or.inr (Or.inr (Or.inr (Or.inr (Or.inr ?_)))) ; refine ⟨?_, ?_⟩ <;> omega))

macro "pick6t" : tactic => `(tactic| first
  | (refine Or.inl ?_ ; refine ⟨?_, ?_, ?_⟩ <;> omega)
  | (refine Or.inr (Or.inl ?_) ; refine ⟨?_, ?_, ?_⟩ <;> omega)
  | (refine Or.inr (Or.inr (Or.inl ?_)) ; refine ⟨?_, ?_, ?_⟩ <;> omega)
  | (refine Or.inr (Or.inr (Or.inr (Or.inl ?_))) ; refine ⟨?_, ?_, ?_⟩ <;> omega)
  | (refine Or.inr (Or.inr (Or.inr (Or.inr (Or.inl ?_)))) ; refine ⟨?_, ?_, ?_⟩ <;> omega)
  | (refine Or.inr (Or.inr (Or.inr (Or.inr (Or.inr ?_)))) ; refine ⟨?_, ?_, ?_⟩ <;> omega))

/-! ### triangular grid (rows `q ∈ [0,l_x)`, columns `r ∈ [0,l_y)`) -/

def triDom (lx ly : Nat) (p : Pos2) : Prop :=
  0 ≤ p.1 ∧ p.1 < (lx : Int) ∧ 0 ≤ p.2 ∧ p.2 < (ly : Int)

theorem tri_ok_iff (lx ly : Nat) (o : Bool) (p : Pos2) :
    (tri lx ly o).ok p = true ↔ triDom lx ly p := by
  simp [tri, triDom, and_assoc]

theorem tri_base (lx ly : Nat) (o : Bool) (hy : 1 ≤ ly) :
    (∀ i, i < (tri lx ly o).n → (tri lx ly o).num ((tri lx ly o).site i) = (i : Int)) ∧
    (∀ i, i < (tri lx ly o).n → triDom lx ly ((tri lx ly o).site i)) ∧
    (∀ p, triDom lx ly p → ∃ i, i < (tri lx ly o).n ∧ (tri lx ly o).site i = p) := by
  refine ⟨fun i _ => ?_, fun i hi => ?_, fun p hp => ?_⟩
  · simp only [tri]; exact divmod_num _ _
  · simp only [tri] at hi; unfold triDom; simp only [tri]
    rw [Nat.mul_comm] at hi
    exact rowmajor_dom_site ly lx i hi
  · obtain ⟨a, b⟩ := p
    unfold triDom at hp
    simp only [tri]
    rw [Nat.mul_comm]
    exact rowmajor_site_num ly lx (by omega) a b hp.1 hp.2.1 hp.2.2.1 hp.2.2.2

/-- periodic triangular lattice -/
theorem tri_good (lx ly : Nat) (hx : 2 ≤ lx) (hy : 2 ≤ ly) :
    (tri lx ly false).Good (triDom lx ly) where
  num_site := (tri_base lx ly false (by omega)).1
  dom_site := (tri_base lx ly false (by omega)).2.1
  ok_site := fun i hi => (tri_ok_iff lx ly false _).2 ((tri_base lx ly false (by omega)).2.1 i hi)
  site_num := (tri_base lx ly false (by omega)).2.2
  nbr_dom := fun p q _ _ hok => (tri_ok_iff lx ly false q).1 hok
  symm := fun p q hp hq h => by
    obtain ⟨a, b⟩ := p
    obtain ⟨c, d⟩ := q
    unfold triDom at hp hq
    simp only at hp hq
    simp only [tri, Bool.false_eq_true, if_false, List.mem_cons, List.not_mem_nil, or_false,
      Prod.mk.injEq] at h ⊢
    have e1 := mod_succ_iff ly b d hp.2.2.1 hp.2.2.2 hq.2.2.1 hq.2.2.2
    have e2 := mod_succ_iff ly d b hq.2.2.1 hq.2.2.2 hp.2.2.1 hp.2.2.2
    have e3 := mod_succ_iff lx a c hp.1 hp.2.1 hq.1 hq.2.1
    have e4 := mod_succ_iff lx c a hq.1 hq.2.1 hp.1 hp.2.1
    generalize (b + 1) % (ly : Int) = u1 at *
    generalize (b - 1) % (ly : Int) = u2 at *
    generalize (d + 1) % (ly : Int) = u3 at *
    generalize (d - 1) % (ly : Int) = u4 at *
    generalize (a + 1) % (lx : Int) = v1 at *
    generalize (a - 1) % (lx : Int) = v2 at *
    generalize (c + 1) % (lx : Int) = v3 at *
    generalize (c - 1) % (lx : Int) = v4 at *
    rcases h with h | h | h | h | h | h <;> pick6
  irrefl := fun p hp h => by
    obtain ⟨a, b⟩ := p
    unfold triDom at hp
    simp only at hp
    simp only [tri, Bool.false_eq_true, if_false, List.mem_cons, List.not_mem_nil, or_false,
      Prod.mk.injEq] at h
    have e1 := (mod_distinct ly b hp.2.2.1 hp.2.2.2).1 (by omega)
    have e2 := (mod_distinct lx a hp.1 hp.2.1).1 (by omega)
    generalize (b + 1) % (ly : Int) = u1 at *
    generalize (b - 1) % (ly : Int) = u2 at *
    generalize (a + 1) % (lx : Int) = v1 at *
    generalize (a - 1) % (lx : Int) = v2 at *
    omega

theorem tri_nbrs_ok (lx ly : Nat) (p : Pos2) (hp : triDom lx ly p) :
    ∀ q ∈ (tri lx ly false).nbrs p, (tri lx ly false).ok q = true := by
  intro q hq
  rw [tri_ok_iff]
  obtain ⟨a, b⟩ := p
  obtain ⟨c, d⟩ := q
  unfold triDom at *
  simp only at hp
  simp only [tri, Bool.false_eq_true, if_false, List.mem_cons, List.not_mem_nil, or_false,
    Prod.mk.injEq] at hq
  have r1 := mod_range ly (b + 1) (by omega)
  have r2 := mod_range ly (b - 1) (by omega)
  have r3 := mod_range lx (a + 1) (by omega)
  have r4 := mod_range lx (a - 1) (by omega)
  simp only
  omega

theorem tri_nbrs_nodup (lx ly : Nat) (hx : 3 ≤ lx) (hy : 3 ≤ ly) (p : Pos2)
    (hp : triDom lx ly p) : ((tri lx ly false).nbrs p).Nodup := by
  obtain ⟨a, b⟩ := p
  unfold triDom at hp
  simp only at hp
  simp only [tri, Bool.false_eq_true, if_false, List.nodup_cons, List.mem_cons, List.not_mem_nil,
    or_false, Prod.mk.injEq, not_false_eq_true, List.nodup_nil, and_true]
  have e1 := mod_distinct ly b hp.2.2.1 hp.2.2.2
  have e2 := mod_distinct lx a hp.1 hp.2.1
  generalize (b + 1) % (ly : Int) = u1 at *
  generalize (b - 1) % (ly : Int) = u2 at *
  generalize (a + 1) % (lx : Int) = v1 at *
  generalize (a - 1) % (lx : Int) = v2 at *
  omega

set_option maxHeartbeats 1000000 in
theorem triOpen_symm (lx ly : Nat) (heven : lx % 2 = 0) (p q : Pos2)
    (hp : triDom lx ly p) (hq : triDom lx ly q) (h : q ∈ (tri lx ly true).nbrs p) :
    p ∈ (tri lx ly true).nbrs q := by
  obtain ⟨a, b⟩ := p
  obtain ⟨c, d⟩ := q
  unfold triDom at hp hq
  simp only at hp hq
  have hl : (lx : Int) % 2 = 0 := by omega
  have e3 := mod_succ_iff lx a c hp.1 hp.2.1 hq.1 hq.2.1
  have e4 := mod_succ_iff lx c a hq.1 hq.2.1 hp.1 hp.2.1
  have p1 := mod_parity lx a hp.1 hp.2.1 hl
  have p2 := mod_parity lx c hq.1 hq.2.1 hl
  simp only [tri, if_true] at h ⊢
  generalize (a + 1) % (lx : Int) = v1 at *
  generalize (a - 1) % (lx : Int) = v2 at *
  generalize (c + 1) % (lx : Int) = v3 at *
  generalize (c - 1) % (lx : Int) = v4 at *
  by_cases ha : a % 2 = 1 <;> by_cases hc : c % 2 = 1 <;>
    simp only [ha, hc, if_true, if_false, List.mem_cons, List.not_mem_nil, or_false,
      Prod.mk.injEq] at h ⊢ <;>
    rcases h with h | h | h | h | h | h <;> pick6

theorem triOpen_irrefl (lx ly : Nat) (hx : 2 ≤ lx) (p : Pos2) (hp : triDom lx ly p) :
    p ∉ (tri lx ly true).nbrs p := by
  intro h
  obtain ⟨a, b⟩ := p
  unfold triDom at hp
  simp only at hp
  have e2 := (mod_distinct lx a hp.1 hp.2.1).1 (by omega)
  simp only [tri, if_true] at h
  generalize (a + 1) % (lx : Int) = v1 at *
  generalize (a - 1) % (lx : Int) = v2 at *
  by_cases ha : a % 2 = 1 <;>
    simp only [ha, if_true, if_false, List.mem_cons, List.not_mem_nil, or_false,
      Prod.mk.injEq] at h <;>
    rcases h with h | h | h | h | h | h <;> omega

/-- open boundary in the column direction, **even** number of rows -/
theorem triOpen_good (lx ly : Nat) (hx : 2 ≤ lx) (hy : 2 ≤ ly) (heven : lx % 2 = 0) :
    (tri lx ly true).Good (triDom lx ly) where
  num_site := (tri_base lx ly true (by omega)).1
  dom_site := (tri_base lx ly true (by omega)).2.1
  ok_site := fun i hi => (tri_ok_iff lx ly true _).2 ((tri_base lx ly true (by omega)).2.1 i hi)
  site_num := (tri_base lx ly true (by omega)).2.2
  nbr_dom := fun p q _ _ hok => (tri_ok_iff lx ly true q).1 hok
  symm := triOpen_symm lx ly heven
  irrefl := triOpen_irrefl lx ly hx

theorem tri_nbrs_length (lx ly : Nat) (o : Bool) (p : Pos2) : ((tri lx ly o).nbrs p).length = 6 := by
  simp only [tri]
  cases o <;> simp only [Bool.false_eq_true, if_false, if_true, List.length_cons, List.length_nil]
  split <;> rfl

/-! ### cubic grid, positions `(z, y, x)` -/

def grid3Dom (lx ly lz : Nat) (p : Pos3) : Prop :=
  0 ≤ p.1 ∧ p.1 < (lz : Int) ∧ 0 ≤ p.2.1 ∧ p.2.1 < (ly : Int) ∧ 0 ≤ p.2.2 ∧ p.2.2 < (lx : Int)

theorem grid3_ok_iff (lx ly lz : Nat) (p : Pos3) :
    (grid3 lx ly lz).ok p = true ↔ grid3Dom lx ly lz p := by
  simp [grid3, grid3Dom, and_assoc]

theorem grid3_symm (lx ly lz : Nat) (p q : Pos3) (hp : grid3Dom lx ly lz p)
    (hq : grid3Dom lx ly lz q) (h : q ∈ (grid3 lx ly lz).nbrs p) : p ∈ (grid3 lx ly lz).nbrs q := by
  obtain ⟨a, b, c⟩ := p
  obtain ⟨a', b', c'⟩ := q
  unfold grid3Dom at hp hq
  simp only at hp hq
  simp only [grid3, List.mem_cons, List.not_mem_nil, or_false, Prod.mk.injEq] at h ⊢
  have e1 := mod_succ_iff lz a a' hp.1 hp.2.1 hq.1 hq.2.1
  have e2 := mod_succ_iff lz a' a hq.1 hq.2.1 hp.1 hp.2.1
  have e3 := mod_succ_iff ly b b' hp.2.2.1 hp.2.2.2.1 hq.2.2.1 hq.2.2.2.1
  have e4 := mod_succ_iff ly b' b hq.2.2.1 hq.2.2.2.1 hp.2.2.1 hp.2.2.2.1
  have e5 := mod_succ_iff lx c c' hp.2.2.2.2.1 hp.2.2.2.2.2 hq.2.2.2.2.1 hq.2.2.2.2.2
  have e6 := mod_succ_iff lx c' c hq.2.2.2.2.1 hq.2.2.2.2.2 hp.2.2.2.2.1 hp.2.2.2.2.2
  generalize (a + 1) % (lz : Int) = u1 at *
  generalize (a - 1) % (lz : Int) = u2 at *
  generalize (a' + 1) % (lz : Int) = u3 at *
  generalize (a' - 1) % (lz : Int) = u4 at *
  generalize (b + 1) % (ly : Int) = v1 at *
  generalize (b - 1) % (ly : Int) = v2 at *
  generalize (b' + 1) % (ly : Int) = v3 at *
  generalize (b' - 1) % (ly : Int) = v4 at *
  generalize (c + 1) % (lx : Int) = w1 at *
  generalize (c - 1) % (lx : Int) = w2 at *
  generalize (c' + 1) % (lx : Int) = w3 at *
  generalize (c' - 1) % (lx : Int) = w4 at *
  rcases h with h | h | h | h | h | h
  · exact Or.inr (Or.inr (Or.inl ⟨h.1.symm, e3.1 h.2.1, h.2.2.symm⟩))
  · exact Or.inr (Or.inr (Or.inr (Or.inl ⟨e1.1 h.1, h.2.1.symm, h.2.2.symm⟩)))
  · exact Or.inl ⟨h.1.symm, e4.2 h.2.1, h.2.2.symm⟩
  · exact Or.inr (Or.inl ⟨e2.2 h.1, h.2.1.symm, h.2.2.symm⟩)
  · exact Or.inr (Or.inr (Or.inr (Or.inr (Or.inr ⟨h.1.symm, h.2.1.symm, e5.1 h.2.2⟩))))
  · exact Or.inr (Or.inr (Or.inr (Or.inr (Or.inl ⟨h.1.symm, h.2.1.symm, e6.2 h.2.2⟩))))

theorem grid3_irrefl (lx ly lz : Nat) (hx : 2 ≤ lx) (hy : 2 ≤ ly) (hz : 2 ≤ lz) (p : Pos3)
    (hp : grid3Dom lx ly lz p) : p ∉ (grid3 lx ly lz).nbrs p := by
  intro h
  obtain ⟨a, b, c⟩ := p
  unfold grid3Dom at hp
  simp only at hp
  simp only [grid3, List.mem_cons, List.not_mem_nil, or_false, Prod.mk.injEq] at h
  have e1 := (mod_distinct lz a hp.1 hp.2.1).1 (by omega)
  have e2 := (mod_distinct ly b hp.2.2.1 hp.2.2.2.1).1 (by omega)
  have e3 := (mod_distinct lx c hp.2.2.2.2.1 hp.2.2.2.2.2).1 (by omega)
  generalize (a + 1) % (lz : Int) = u1 at *
  generalize (a - 1) % (lz : Int) = u2 at *
  generalize (b + 1) % (ly : Int) = v1 at *
  generalize (b - 1) % (ly : Int) = v2 at *
  generalize (c + 1) % (lx : Int) = w1 at *
  generalize (c - 1) % (lx : Int) = w2 at *
  omega

theorem grid3_good (lx ly lz : Nat) (hx : 2 ≤ lx) (hy : 2 ≤ ly) (hz : 2 ≤ lz) :
    (grid3 lx ly lz).Good (grid3Dom lx ly lz) where
  num_site := fun i _ => by
    simp only [grid3]
    have h1 := divmod_num ((lx : Int) * (ly : Int)) (i : Int)
    have h2 := divmod_num (lx : Int) ((i : Int) % ((lx : Int) * (ly : Int)))
    omega
  dom_site := fun i hi => by
    simp only [grid3] at hi; unfold grid3Dom; simp only [grid3]
    have hi' : (i : Int) < ((lx : Int) * (ly : Int)) * (lz : Int) := by exact_mod_cast hi
    have hxy : 0 < (lx : Int) * (ly : Int) := Int.mul_pos (by omega) (by omega)
    have h1 := div_bound ((lx : Int) * (ly : Int)) lz i hxy (by omega) hi'
    have h2 := div_bound (lx : Int) ly ((i : Int) % ((lx : Int) * (ly : Int))) (by omega) h1.2.2.1
      h1.2.2.2
    exact ⟨h1.1, h1.2.1, h2.1, h2.2.1, h2.2.2.1, h2.2.2.2⟩
  ok_site := fun i hi => by
    rw [grid3_ok_iff]
    simp only [grid3] at hi; unfold grid3Dom; simp only [grid3]
    have hi' : (i : Int) < ((lx : Int) * (ly : Int)) * (lz : Int) := by exact_mod_cast hi
    have hxy : 0 < (lx : Int) * (ly : Int) := Int.mul_pos (by omega) (by omega)
    have h1 := div_bound ((lx : Int) * (ly : Int)) lz i hxy (by omega) hi'
    have h2 := div_bound (lx : Int) ly ((i : Int) % ((lx : Int) * (ly : Int))) (by omega) h1.2.2.1
      h1.2.2.2
    exact ⟨h1.1, h1.2.1, h2.1, h2.2.1, h2.2.2.1, h2.2.2.2⟩
  site_num := fun p hp => by
    obtain ⟨a, b, c⟩ := p
    unfold grid3Dom at hp
    simp only at hp
    simp only [grid3]
    have hb1 := num_bound lx ly b c hp.2.2.2.2.1 hp.2.2.2.2.2 hp.2.2.1 hp.2.2.2.1
    have hb2 := num_bound ((lx : Int) * (ly : Int)) lz a (c + (lx : Int) * b) hb1.1 hb1.2 hp.1 hp.2.1
    refine ⟨(c + (lx : Int) * b + ((lx : Int) * (ly : Int)) * a).toNat, ?_, ?_⟩
    · have : ((c + (lx : Int) * b + ((lx : Int) * (ly : Int)) * a).toNat : Int)
          < ((lx * ly * lz : Nat) : Int) := by
        rw [Int.toNat_of_nonneg hb2.1]; push_cast; exact hb2.2
      exact_mod_cast this
    · rw [Int.toNat_of_nonneg hb2.1, num_div _ _ _ hb1.1 hb1.2, num_mod _ _ _ hb1.1 hb1.2,
        num_div _ _ _ hp.2.2.2.2.1 hp.2.2.2.2.2, num_mod _ _ _ hp.2.2.2.2.1 hp.2.2.2.2.2]
  nbr_dom := fun p q _ _ hok => (grid3_ok_iff lx ly lz q).1 hok
  symm := grid3_symm lx ly lz
  irrefl := grid3_irrefl lx ly lz hx hy hz

theorem grid3_nbrs_ok (lx ly lz : Nat) (p : Pos3) (hp : grid3Dom lx ly lz p) :
    ∀ q ∈ (grid3 lx ly lz).nbrs p, (grid3 lx ly lz).ok q = true := by
  intro q hq
  rw [grid3_ok_iff]
  obtain ⟨a, b, c⟩ := p
  obtain ⟨a', b', c'⟩ := q
  unfold grid3Dom at *
  simp only at hp
  simp only [grid3, List.mem_cons, List.not_mem_nil, or_false, Prod.mk.injEq] at hq
  have r1 := mod_range lz (a + 1) (by omega)
  have r2 := mod_range lz (a - 1) (by omega)
  have r3 := mod_range ly (b + 1) (by omega)
  have r4 := mod_range ly (b - 1) (by omega)
  have r5 := mod_range lx (c + 1) (by omega)
  have r6 := mod_range lx (c - 1) (by omega)
  simp only
  omega

theorem grid3_nbrs_nodup (lx ly lz : Nat) (hx : 3 ≤ lx) (hy : 3 ≤ ly) (hz : 3 ≤ lz) (p : Pos3)
    (hp : grid3Dom lx ly lz p) : ((grid3 lx ly lz).nbrs p).Nodup := by
  obtain ⟨a, b, c⟩ := p
  unfold grid3Dom at hp
  simp only at hp
  simp only [grid3, List.nodup_cons, List.mem_cons, List.not_mem_nil, or_false, Prod.mk.injEq,
    not_false_eq_true, List.nodup_nil, and_true]
  have e1 := mod_distinct lz a hp.1 hp.2.1
  have e2 := mod_distinct ly b hp.2.2.1 hp.2.2.2.1
  have e3 := mod_distinct lx c hp.2.2.2.2.1 hp.2.2.2.2.2
  generalize (a + 1) % (lz : Int) = u1 at *
  generalize (a - 1) % (lz : Int) = u2 at *
  generalize (b + 1) % (ly : Int) = v1 at *
  generalize (b - 1) % (ly : Int) = v2 at *
  generalize (c + 1) % (lx : Int) = w1 at *
  generalize (c - 1) % (lx : Int) = w2 at *
  omega

end AfqmcVerif.Lattice
