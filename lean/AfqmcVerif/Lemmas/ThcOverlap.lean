import AfqmcVerif.Lemmas.CisdOverlap
namespace AfqmcVerif.Excite
open Matrix Finset
variable {K : Type} [Field K] {k v p : ℕ}

/-- the doubles tensor in tensor-hypercontraction form: `c_iajb = Σ_PQ X1_Pi X2_Pa V_PQ X1_Qj X2_Qb` -/
def thcTensor (Xo : Fin p → Fin k → K) (Xv : Fin p → Fin v → K) (V : Fin p → Fin p → K)
    (i : Fin k) (a : Fin v) (j : Fin k) (b : Fin v) : K :=
  ∑ P, ∑ Q, Xo P i * Xv P a * V P Q * (Xo Q j * Xv Q b)

/-- two-index contraction used by the code: `B_PQ = Σ_ia X1_Pi G_ia X2_Qa` (its diagonal is `A_P`) -/
def thcB (Xo : Fin p → Fin k → K) (Xv : Fin p → Fin v → K) (g : Fin k → Fin v → K) (P Q : Fin p) : K :=
  ∑ i, ∑ a, Xo P i * g i a * Xv Q a

theorem thc_direct (Xo : Fin p → Fin k → K) (Xv : Fin p → Fin v → K) (V : Fin p → Fin p → K) (g : Fin k → Fin v → K) :
    ∑ i, ∑ a, ∑ j, ∑ b, thcTensor Xo Xv V i a j b * (g i a * g j b)
      = ∑ P, ∑ Q, thcB Xo Xv g P P * V P Q * thcB Xo Xv g Q Q := by
  unfold thcTensor thcB
  have rhs : ∀ P Q, (∑ i, ∑ a, Xo P i * g i a * Xv P a) * V P Q * (∑ j, ∑ b, Xo Q j * g j b * Xv Q b)
      = ∑ i, ∑ a, ∑ j, ∑ b, Xo P i * Xv P a * V P Q * (Xo Q j * Xv Q b) * (g i a * g j b) := by
    intro P Q
    rw [Finset.sum_mul, Finset.sum_mul]
    refine Finset.sum_congr rfl fun i _ => ?_
    rw [Finset.sum_mul, Finset.sum_mul]
    refine Finset.sum_congr rfl fun a _ => ?_
    rw [Finset.mul_sum]
    refine Finset.sum_congr rfl fun j _ => ?_
    rw [Finset.mul_sum]
    refine Finset.sum_congr rfl fun b _ => ?_
    ring
  conv_rhs => simp only [rhs]
  conv_lhs => simp only [Finset.sum_mul]
  -- move P, Q outside
  calc ∑ i, ∑ a, ∑ j, ∑ b, ∑ P, ∑ Q, Xo P i * Xv P a * V P Q * (Xo Q j * Xv Q b) * (g i a * g j b)
      = ∑ i, ∑ a, ∑ j, ∑ P, ∑ b, ∑ Q, Xo P i * Xv P a * V P Q * (Xo Q j * Xv Q b) * (g i a * g j b) := by
        refine Finset.sum_congr rfl fun i _ => Finset.sum_congr rfl fun a _ => Finset.sum_congr rfl fun j _ => Finset.sum_comm
    _ = ∑ i, ∑ a, ∑ P, ∑ j, ∑ b, ∑ Q, Xo P i * Xv P a * V P Q * (Xo Q j * Xv Q b) * (g i a * g j b) := by
        refine Finset.sum_congr rfl fun i _ => Finset.sum_congr rfl fun a _ => Finset.sum_comm
    _ = ∑ i, ∑ P, ∑ a, ∑ j, ∑ b, ∑ Q, Xo P i * Xv P a * V P Q * (Xo Q j * Xv Q b) * (g i a * g j b) := by
        refine Finset.sum_congr rfl fun i _ => Finset.sum_comm
    _ = ∑ P, ∑ i, ∑ a, ∑ j, ∑ b, ∑ Q, Xo P i * Xv P a * V P Q * (Xo Q j * Xv Q b) * (g i a * g j b) := Finset.sum_comm
    _ = ∑ P, ∑ i, ∑ a, ∑ j, ∑ Q, ∑ b, Xo P i * Xv P a * V P Q * (Xo Q j * Xv Q b) * (g i a * g j b) := by
        refine Finset.sum_congr rfl fun P _ => Finset.sum_congr rfl fun i _ => Finset.sum_congr rfl fun a _ =>
          Finset.sum_congr rfl fun j _ => Finset.sum_comm
    _ = ∑ P, ∑ i, ∑ a, ∑ Q, ∑ j, ∑ b, Xo P i * Xv P a * V P Q * (Xo Q j * Xv Q b) * (g i a * g j b) := by
        refine Finset.sum_congr rfl fun P _ => Finset.sum_congr rfl fun i _ => Finset.sum_congr rfl fun a _ => Finset.sum_comm
    _ = ∑ P, ∑ i, ∑ Q, ∑ a, ∑ j, ∑ b, Xo P i * Xv P a * V P Q * (Xo Q j * Xv Q b) * (g i a * g j b) := by
        refine Finset.sum_congr rfl fun P _ => Finset.sum_congr rfl fun i _ => Finset.sum_comm
    _ = ∑ P, ∑ Q, ∑ i, ∑ a, ∑ j, ∑ b, Xo P i * Xv P a * V P Q * (Xo Q j * Xv Q b) * (g i a * g j b) := by
        refine Finset.sum_congr rfl fun P _ => Finset.sum_comm

end AfqmcVerif.Excite

namespace AfqmcVerif.Excite
open Matrix Finset
variable {K : Type} [Field K] {k v p : ℕ}

/-- reordering six nested sums: `(i a j b P Q) → (P Q i b j a)` -/
theorem reorder6 (T : Fin p → Fin p → Fin k → Fin v → Fin k → Fin v → K) :
    ∑ i, ∑ a, ∑ j, ∑ b, ∑ P, ∑ Q, T P Q i a j b = ∑ P, ∑ Q, ∑ i, ∑ b, ∑ j, ∑ a, T P Q i a j b := by
  calc ∑ i, ∑ a, ∑ j, ∑ b, ∑ P, ∑ Q, T P Q i a j b
      = ∑ i, ∑ a, ∑ j, ∑ P, ∑ b, ∑ Q, T P Q i a j b := by
        refine Finset.sum_congr rfl fun i _ => Finset.sum_congr rfl fun a _ => Finset.sum_congr rfl fun j _ => Finset.sum_comm
    _ = ∑ i, ∑ a, ∑ P, ∑ j, ∑ b, ∑ Q, T P Q i a j b := by
        refine Finset.sum_congr rfl fun i _ => Finset.sum_congr rfl fun a _ => Finset.sum_comm
    _ = ∑ i, ∑ P, ∑ a, ∑ j, ∑ b, ∑ Q, T P Q i a j b := by
        refine Finset.sum_congr rfl fun i _ => Finset.sum_comm
    _ = ∑ P, ∑ i, ∑ a, ∑ j, ∑ b, ∑ Q, T P Q i a j b := Finset.sum_comm
    _ = ∑ P, ∑ i, ∑ a, ∑ j, ∑ Q, ∑ b, T P Q i a j b := by
        refine Finset.sum_congr rfl fun P _ => Finset.sum_congr rfl fun i _ => Finset.sum_congr rfl fun a _ =>
          Finset.sum_congr rfl fun j _ => Finset.sum_comm
    _ = ∑ P, ∑ i, ∑ a, ∑ Q, ∑ j, ∑ b, T P Q i a j b := by
        refine Finset.sum_congr rfl fun P _ => Finset.sum_congr rfl fun i _ => Finset.sum_congr rfl fun a _ => Finset.sum_comm
    _ = ∑ P, ∑ i, ∑ Q, ∑ a, ∑ j, ∑ b, T P Q i a j b := by
        refine Finset.sum_congr rfl fun P _ => Finset.sum_congr rfl fun i _ => Finset.sum_comm
    _ = ∑ P, ∑ Q, ∑ i, ∑ a, ∑ j, ∑ b, T P Q i a j b := by
        refine Finset.sum_congr rfl fun P _ => Finset.sum_comm
    _ = ∑ P, ∑ Q, ∑ i, ∑ a, ∑ b, ∑ j, T P Q i a j b := by
        refine Finset.sum_congr rfl fun P _ => Finset.sum_congr rfl fun Q _ => Finset.sum_congr rfl fun i _ =>
          Finset.sum_congr rfl fun a _ => Finset.sum_comm
    _ = ∑ P, ∑ Q, ∑ i, ∑ b, ∑ a, ∑ j, T P Q i a j b := by
        refine Finset.sum_congr rfl fun P _ => Finset.sum_congr rfl fun Q _ => Finset.sum_congr rfl fun i _ => Finset.sum_comm
    _ = ∑ P, ∑ Q, ∑ i, ∑ b, ∑ j, ∑ a, T P Q i a j b := by
        refine Finset.sum_congr rfl fun P _ => Finset.sum_congr rfl fun Q _ => Finset.sum_congr rfl fun i _ =>
          Finset.sum_congr rfl fun b _ => Finset.sum_comm

theorem thc_exchange (Xo : Fin p → Fin k → K) (Xv : Fin p → Fin v → K) (V : Fin p → Fin p → K) (g : Fin k → Fin v → K) :
    ∑ i, ∑ a, ∑ j, ∑ b, thcTensor Xo Xv V i a j b * (g i b * g j a)
      = ∑ P, ∑ Q, thcB Xo Xv g P Q * thcB Xo Xv g Q P * V P Q := by
  unfold thcTensor thcB
  have rhs : ∀ P Q, (∑ i, ∑ b, Xo P i * g i b * Xv Q b) * (∑ j, ∑ a, Xo Q j * g j a * Xv P a) * V P Q
      = ∑ i, ∑ b, ∑ j, ∑ a, Xo P i * Xv P a * V P Q * (Xo Q j * Xv Q b) * (g i b * g j a) := by
    intro P Q
    rw [Finset.sum_mul, Finset.sum_mul]
    refine Finset.sum_congr rfl fun i _ => ?_
    rw [Finset.sum_mul, Finset.sum_mul]
    refine Finset.sum_congr rfl fun b _ => ?_
    rw [Finset.mul_sum, Finset.sum_mul]
    refine Finset.sum_congr rfl fun j _ => ?_
    rw [Finset.mul_sum, Finset.sum_mul]
    refine Finset.sum_congr rfl fun a _ => ?_
    ring
  conv_rhs => simp only [rhs]
  conv_lhs => simp only [Finset.sum_mul]
  exact reorder6 (fun P Q i a j b => Xo P i * Xv P a * V P Q * (Xo Q j * Xv Q b) * (g i b * g j a))

/-- `CISD_THC._calc_overlap_restricted`: `(1 + 2 o1 + o2)·o0` with `o2 = 2 A·V·A − Σ B∘Bᵀ∘V` -/
noncomputable def thcCode (W : Matrix (Fin (k + v)) (Fin k) K) (c1 : Fin k → Fin v → K)
    (Xo : Fin p → Fin k → K) (Xv : Fin p → Fin v → K) (V : Fin p → Fin p → K) : K :=
  (1 + 2 * (∑ i, ∑ a, c1 i a * G W i a)
    + (2 * (∑ P, ∑ Q, thcB Xo Xv (G W) P P * V P Q * thcB Xo Xv (G W) Q Q)
        - ∑ P, ∑ Q, thcB Xo Xv (G W) P Q * thcB Xo Xv (G W) Q P * V P Q)) * (D0 W * D0 W)

/-- **THC-factorised CISD overlap**: the factorised evaluation is the CISD closed form for the tensor
`c_iajb = Σ_PQ X1_Pi X2_Pa V_PQ X1_Qj X2_Qb`, hence (with `cisd_overlap`) the explicit determinant expansion -/
theorem thc_overlap (W : Matrix (Fin (k + v)) (Fin k) K) (c1 : Fin k → Fin v → K)
    (Xo : Fin p → Fin k → K) (Xv : Fin p → Fin v → K) (V : Fin p → Fin p → K) (hW : D0 W ≠ 0) (h2 : (2 : K) ≠ 0) :
    thcCode W c1 Xo Xv V = cisdSpec W c1 (thcTensor Xo Xv V) := by
  rw [← cisd_overlap W c1 (thcTensor Xo Xv V) hW h2]
  unfold thcCode cisdCode
  rw [thc_direct Xo Xv V (G W), thc_exchange Xo Xv V (G W)]

end AfqmcVerif.Excite
