import Mathlib.LinearAlgebra.Matrix.Determinant.Basic
import Mathlib.Data.Finset.Sort
import Mathlib.Order.Hom.PowersetCard
import Mathlib.LinearAlgebra.Matrix.Adjugate
import Mathlib.LinearAlgebra.Matrix.Trace
import Mathlib.LinearAlgebra.Matrix.SchurComplement
import Mathlib.LinearAlgebra.Matrix.NonsingularInverse

/-!
Determinant calculus used by the trial-state properties (C01–C03, C10, C13, C15).

* `cauchy_binet` (B1): `det (Aᵀ * B) = Σ over increasing strings e of det A[e,:] * det B[e,:]`
  — Mathlib has no Cauchy–Binet; proved here.
* `sum_det_updateCol` (D1): `Σ_k det (M with column k replaced by column k of N) = tr (adj M * N)`.
* `det_one_updateCol_two`, `sum_det_updateCol_two` (D2): the two-column replacement sum.
-/
set_option linter.unusedSectionVars false
namespace AfqmcVerif.Det

open Matrix BigOperators Equiv Finset
variable {m : Type*} [Fintype m] [DecidableEq m] [LinearOrder m] {k : ℕ} {R : Type*} [CommRing R]

theorem det_transpose_mul_eq_sum_fun (A B : Matrix m (Fin k) R) :
    (Aᵀ * B).det = ∑ f : Fin k → m, (∏ i, B (f i) i) * (A.submatrix f id).det := by
  calc (Aᵀ * B).det
      = ∑ σ : Perm (Fin k), (Perm.sign σ : R) * ∏ i, ∑ p, A p (σ i) * B p i := by
        rw [det_apply']; simp [Matrix.mul_apply]
    _ = ∑ σ : Perm (Fin k), (Perm.sign σ : R) * ∑ f : Fin k → m, ∏ i, A (f i) (σ i) * B (f i) i := by
        refine Finset.sum_congr rfl fun σ _ => ?_
        rw [Finset.prod_univ_sum]; simp [Fintype.piFinset_univ]
    _ = ∑ f : Fin k → m, (∏ i, B (f i) i) * ∑ σ : Perm (Fin k), (Perm.sign σ : R) * ∏ i, A (f i) (σ i) := by
        simp_rw [Finset.mul_sum, Finset.prod_mul_distrib]
        rw [Finset.sum_comm]
        refine Finset.sum_congr rfl fun f _ => Finset.sum_congr rfl fun σ _ => by ring
    _ = ∑ f : Fin k → m, (∏ i, B (f i) i) * (A.submatrix f id).det := by
        refine Finset.sum_congr rfl fun f _ => ?_
        rw [← det_transpose (A.submatrix f id), det_apply']
        simp [Matrix.transpose_apply, Matrix.submatrix_apply]

theorem det_submatrix_not_injective (A : Matrix m (Fin k) R) (f : Fin k → m)
    (hf : ¬ Function.Injective f) : (A.submatrix f id).det = 0 := by
  obtain ⟨i, j, hij, hne⟩ : ∃ i j, f i = f j ∧ i ≠ j := by simpa [Function.Injective] using hf
  exact det_zero_of_row_eq hne (by ext c; simp [Matrix.submatrix_apply, hij])

omit [Fintype m] [DecidableEq m] in
lemma orderEmbOfFin_symm_apply' (S : Finset m) (hS : S.card = k) (x : S) :
    S.orderEmbOfFin hS ((S.orderIsoOfFin hS).symm x) = x := by
  rw [← Finset.coe_orderIsoOfFin_apply]; simp

/-- every injective `Fin k → m` is uniquely (increasing string) ∘ (permutation) -/
noncomputable def factorEquiv :
    ((Fin k ↪o m) × Perm (Fin k)) ≃ {f : Fin k → m // Function.Injective f} where
  toFun p := ⟨p.1 ∘ p.2, p.1.injective.comp p.2.injective⟩
  invFun f :=
    let S : Finset m := Finset.univ.image f.1
    have hS : S.card = k := by simp [S, Finset.card_image_of_injective _ f.2]
    let τ : Fin k → Fin k := fun i => (S.orderIsoOfFin hS).symm ⟨f.1 i, by simp [S]⟩
    have hτ : Function.Bijective τ := by
      rw [← Finite.injective_iff_bijective]
      intro i j h
      have := (S.orderIsoOfFin hS).symm.injective h
      exact f.2 (by simpa using congrArg Subtype.val this)
    (S.orderEmbOfFin hS, Equiv.ofBijective τ hτ)
  left_inv p := by
    obtain ⟨e, τ⟩ := p
    have hS : (Finset.univ.image (e ∘ τ)).card = k := by
      simp [Finset.card_image_of_injective _ (e.injective.comp τ.injective)]
    have himg : Finset.univ.image (e ∘ τ) = Finset.univ.image e := by
      ext x; simp only [Finset.mem_image, Finset.mem_univ, true_and, Function.comp]
      constructor
      · rintro ⟨i, rfl⟩; exact ⟨τ i, rfl⟩
      · rintro ⟨i, rfl⟩; exact ⟨τ.symm i, by simp⟩
    have he : (Finset.univ.image (e ∘ τ)).orderEmbOfFin hS = e := by
      symm; apply Finset.orderEmbOfFin_unique'
      intro x; rw [himg]; simp
    refine Prod.ext he ?_
    ext i
    simp only [Equiv.ofBijective_apply]
    apply Fin.val_inj.mpr
    apply e.injective
    have h := orderEmbOfFin_symm_apply' (Finset.univ.image (e ∘ τ)) hS ⟨(e ∘ τ) i, by simp⟩
    rw [he] at h
    simpa using h
  right_inv f := by ext i; simp [orderEmbOfFin_symm_apply']

theorem cauchy_binet (A B : Matrix m (Fin k) R) :
    (Aᵀ * B).det = ∑ e : Fin k ↪o m, (A.submatrix e id).det * (B.submatrix e id).det := by
  classical
  rw [det_transpose_mul_eq_sum_fun]
  have h1 : ∑ f : Fin k → m, (∏ i, B (f i) i) * (A.submatrix f id).det
      = ∑ f : {f : Fin k → m // Function.Injective f},
          (∏ i, B (f.1 i) i) * (A.submatrix f.1 id).det := by
    rw [← Finset.sum_subtype (Finset.univ.filter fun f : Fin k → m => Function.Injective f)
      (by simp) (fun f => (∏ i, B (f i) i) * (A.submatrix f id).det)]
    symm
    apply Finset.sum_subset (Finset.filter_subset _ _)
    intro f _ hf
    have : ¬ Function.Injective f := by simpa using hf
    rw [det_submatrix_not_injective A f this, mul_zero]
  rw [h1, ← factorEquiv.sum_comp, Fintype.sum_prod_type]
  refine Finset.sum_congr rfl fun e _ => ?_
  have hA : ∀ τ : Perm (Fin k),
      (A.submatrix (e ∘ τ) id).det = (Perm.sign τ : R) * (A.submatrix e id).det := by
    intro τ
    have : A.submatrix (e ∘ τ) id = (A.submatrix e id).submatrix τ id := by
      ext i j; simp [Matrix.submatrix_apply]
    rw [this, det_permute]
  simp only [factorEquiv, Equiv.coe_fn_mk, hA]
  rw [det_apply' (B.submatrix e id), Finset.mul_sum]
  refine Finset.sum_congr rfl fun τ _ => ?_
  simp [Matrix.submatrix_apply]; ring

/-! ### column replacements (D1, D2) -/
section cols
variable {n : Type*} [Fintype n] [DecidableEq n] {R : Type*} [CommRing R]

/-- D1: `Σ_k det (M with column k replaced by column k of N) = tr (adj M * N)` -/
theorem sum_det_updateCol (M N : Matrix n n R) :
    ∑ k, (M.updateCol k (fun i => N i k)).det = (M.adjugate * N).trace := by
  simp only [Matrix.trace, Matrix.diag, Matrix.mul_apply]
  refine Finset.sum_congr rfl fun k _ => ?_
  rw [← cramer_apply, cramer_eq_adjugate_mulVec]; simp [Matrix.mulVec, dotProduct]

def cols2 (u v : n → R) : Matrix n (Fin 2) R := fun i k => if k = 0 then u i else v i
def sel2 (k l : n) : Matrix (Fin 2) n R :=
  fun a j => if a = 0 then (if j = k then 1 else 0) else (if j = l then 1 else 0)

/-- two replaced columns of the identity -/
theorem det_one_updateCol_two (k l : n) (hkl : k ≠ l) (a b : n → R) :
    (((1 : Matrix n n R).updateCol k a).updateCol l b).det = a k * b l - b k * a l := by
  have h : ((1 : Matrix n n R).updateCol k a).updateCol l b
      = 1 + cols2 (fun i => a i - (1 : Matrix n n R) i k)
              (fun i => b i - (1 : Matrix n n R) i l) * sel2 k l := by
    ext i j
    simp only [updateCol_apply, Matrix.add_apply, Matrix.mul_apply, Fin.sum_univ_two, cols2, sel2]
    by_cases hjl : j = l
    · subst hjl; have : j ≠ k := fun h => hkl h.symm; simp [this, Matrix.one_apply]
    · by_cases hjk : j = k
      · subst hjk; simp [hjl, Matrix.one_apply]
      · simp [hjl, hjk, Matrix.one_apply]
  rw [h, det_one_add_mul_comm, det_fin_two]
  simp only [Matrix.add_apply, Matrix.mul_apply, Matrix.one_apply, sel2, cols2]
  simp [hkl, hkl.symm]

theorem mul_updateCol (M N : Matrix n n R) (k : n) (v : n → R) :
    M * N.updateCol k v = (M * N).updateCol k (M.mulVec v) := by
  ext i j
  simp only [Matrix.mul_apply, updateCol_apply, Matrix.mulVec, dotProduct]
  by_cases h : j = k
  · simp [h]
  · simp [h]

end cols

section field
variable {n : Type*} [Fintype n] [DecidableEq n] {K : Type*} [Field K]

/-- D2: the sum over ordered pairs of distinct columns `k ≠ l` of the determinant of `M` with column
`k` replaced by column `k` of `A` and column `l` by column `l` of `B` -/
theorem sum_det_updateCol_two (M A B : Matrix n n K) (hM : M.det ≠ 0) :
    ∑ k, ∑ l ∈ Finset.univ.erase k,
        ((M.updateCol k (fun i => A i k)).updateCol l (fun i => B i l)).det
      = M.det * ((M⁻¹ * A).trace * (M⁻¹ * B).trace - (M⁻¹ * A * (M⁻¹ * B)).trace) := by
  have hu : IsUnit M.det := isUnit_iff_ne_zero.2 hM
  set A' := M⁻¹ * A with hA'
  set B' := M⁻¹ * B with hB'
  have hMA : M * A' = A := by rw [hA', ← Matrix.mul_assoc, Matrix.mul_nonsing_inv M hu, Matrix.one_mul]
  have hMB : M * B' = B := by rw [hB', ← Matrix.mul_assoc, Matrix.mul_nonsing_inv M hu, Matrix.one_mul]
  have key : ∀ k l, k ≠ l →
      ((M.updateCol k (fun i => A i k)).updateCol l (fun i => B i l)).det
        = M.det * (A' k k * B' l l - B' k l * A' l k) := by
    intro k l hkl
    have e : (M.updateCol k (fun i => A i k)).updateCol l (fun i => B i l)
        = M * (((1 : Matrix n n K).updateCol k (fun i => A' i k)).updateCol l (fun i => B' i l)) := by
      rw [mul_updateCol, mul_updateCol, Matrix.mul_one]
      congr 1
      · congr 1
        ext i; rw [← hMA]; simp [Matrix.mul_apply, Matrix.mulVec, dotProduct]
      · ext i; rw [← hMB]; simp [Matrix.mul_apply, Matrix.mulVec, dotProduct]
    rw [e, Matrix.det_mul, det_one_updateCol_two k l hkl]
  have step1 : ∑ k, ∑ l ∈ Finset.univ.erase k,
        ((M.updateCol k (fun i => A i k)).updateCol l (fun i => B i l)).det
      = ∑ k, ∑ l ∈ Finset.univ.erase k, M.det * (A' k k * B' l l - B' k l * A' l k) := by
    refine Finset.sum_congr rfl fun k _ => Finset.sum_congr rfl fun l hl => ?_
    exact key k l (Finset.ne_of_mem_erase hl).symm
  rw [step1]
  have step2 : ∀ k, ∑ l ∈ Finset.univ.erase k, M.det * (A' k k * B' l l - B' k l * A' l k)
      = ∑ l, M.det * (A' k k * B' l l - B' k l * A' l k) := by
    intro k
    rw [← Finset.add_sum_erase Finset.univ _ (Finset.mem_univ k)]
    ring
  simp only [step2, ← Finset.mul_sum]
  congr 1
  simp only [Finset.sum_sub_distrib, Matrix.trace, Matrix.diag, Matrix.mul_apply]
  rw [Finset.sum_mul_sum]
  congr 1
  rw [Finset.sum_comm]
  refine Finset.sum_congr rfl fun l _ => Finset.sum_congr rfl fun k _ => by ring

end field

end AfqmcVerif.Det
