import AfqmcVerif.Model.Comb
import Mathlib.Algebra.Order.Floor.Ring
import Mathlib.Algebra.Order.Floor.Defs
import Mathlib.Order.Interval.Finset.Basic
import Mathlib.Algebra.Order.Ring.Abs
import Mathlib.Algebra.Order.BigOperators.Group.List
import Mathlib.Data.Int.Interval
import Mathlib.Tactic.Linarith
import Mathlib.Tactic.FieldSimp
import Mathlib.Tactic.Ring

set_option linter.unusedSectionVars false
set_option linter.deprecated false
namespace AfqmcVerif.Comb
open Finset

variable {K : Type} [Field K] [LinearOrder K] [IsStrictOrderedRing K]

/-! ### prefix sums -/

theorem psum_zero (w : List K) : psum w 0 = 0 := by simp [psum]

theorem psum_succ_le (w : List K) (j : Nat) : psum w j ≤ psum w (j + 1) := by
  unfold psum
  rw [List.take_succ, List.map_append, List.sum_append]
  have : 0 ≤ (List.map abs w[j]?.toList).sum := by
    apply List.sum_nonneg
    intro x hx
    rw [List.mem_map] at hx
    obtain ⟨y, _, rfl⟩ := hx
    exact abs_nonneg y
  linarith

theorem psum_mono (w : List K) : Monotone (psum w) := monotone_nat_of_le_succ (psum_succ_le w)

theorem psum_succ (w : List K) (j : Nat) (hj : j < w.length) :
    psum w (j + 1) = psum w j + |w[j]| := by
  unfold psum
  rw [List.take_succ, List.map_append, List.sum_append, List.getElem?_eq_getElem hj]
  simp

theorem psum_nonneg (w : List K) (j : Nat) : 0 ≤ psum w j := by
  rw [← psum_zero w]; exact psum_mono w (Nat.zero_le j)

/-! ### counting a down-closed predicate on an initial segment -/

theorem countP_range_iff (p : Nat → Bool) (hp : ∀ j k, j ≤ k → p k = true → p j = true) (N : Nat) :
    ∀ j, j < N → (p j = true ↔ j < (List.range N).countP p) := by
  induction N with
  | zero => intro j hj; omega
  | succ N ih =>
    intro j hj
    rw [List.range_succ, List.countP_append]
    have hle : (List.range N).countP p ≤ N := by
      have := List.countP_le_length (p := p) (l := List.range N); simpa using this
    by_cases hN : p N = true
    · have hall : (List.range N).countP p = N := by
        rcases Nat.eq_zero_or_pos N with h0 | h0
        · subst h0; simp
        · have := (ih (N - 1) (by omega)).1 (hp (N - 1) N (by omega) hN)
          omega
      simp only [List.countP_singleton, hN, if_true, hall]
      constructor
      · intro _; omega
      · intro _; exact hp j N (by omega) hN
    · simp only [List.countP_singleton, hN]
      rcases Nat.lt_or_ge j N with hjN | hjN
      · simpa using ih j hjN
      · have : j = N := by omega
        subst this
        simp only [hN]
        constructor
        · intro h; exact absurd h (by simp)
        · intro h; simp at h; omega

/-! ### the index of tooth `i` -/

theorem rank_cumAbs (w : List K) (z : K) :
    rank (cumAbs w) z = (List.range w.length).countP (fun k => decide (psum w (k + 1) < z)) := by
  unfold rank cumAbs
  rw [List.countP_map]
  rfl

theorem rank_le_length (w : List K) (z : K) : rank (cumAbs w) z ≤ w.length := by
  unfold rank
  have := List.countP_le_length (p := fun x => decide (x < z)) (l := cumAbs w)
  simpa [cumAbs] using this

theorem lt_rank_iff (w : List K) (z : K) (k : Nat) (hk : k < w.length) :
    k < rank (cumAbs w) z ↔ psum w (k + 1) < z := by
  rw [rank_cumAbs]
  have := countP_range_iff (fun k => decide (psum w (k + 1) < z)) ?_ w.length k hk
  · rw [← this]; simp
  · intro j k hjk h
    simp only [decide_eq_true_eq] at h ⊢
    exact lt_of_le_of_lt (psum_mono w (by omega)) h

theorem rank_mono (c : List K) {z z' : K} (h : z ≤ z') : rank c z ≤ rank c z' := by
  unfold rank
  apply List.countP_mono_left
  intro x _ hx
  simp only [decide_eq_true_eq] at hx ⊢
  exact lt_of_lt_of_le hx h

theorem tooth_lt_total (w : List K) (ζ : K) (i : Nat) (hW : 0 < total w) (hζ : ζ < 1)
    (hi : i < w.length) : tooth w ζ i < total w := by
  unfold tooth
  have hN : (0 : K) < (w.length : K) := by exact_mod_cast (by omega : 0 < w.length)
  rw [div_lt_iff₀ hN]
  have : (i : K) + 1 ≤ (w.length : K) := by exact_mod_cast hi
  nlinarith

theorem tooth_pos (w : List K) (ζ : K) (i : Nat) (hW : 0 < total w) (hζ : 0 < ζ)
    (hi : i < w.length) : 0 < tooth w ζ i := by
  unfold tooth
  have hN : (0 : K) < (w.length : K) := by exact_mod_cast (by omega : 0 < w.length)
  have : (0 : K) ≤ (i : K) := by exact_mod_cast Nat.zero_le i
  exact div_pos (mul_pos hW (by linarith)) hN

/-- **only existing walkers are copied** -/
theorem idx_lt (w : List K) (ζ : K) (i : Nat) (hW : 0 < total w) (hζ : ζ < 1) (hi : i < w.length) :
    idx w ζ i < w.length := by
  unfold idx
  have h1 := rank_le_length w (tooth w ζ i)
  by_contra hcon
  have heq : rank (cumAbs w) (tooth w ζ i) = w.length := by omega
  have hlt : w.length - 1 < rank (cumAbs w) (tooth w ζ i) := by omega
  rw [lt_rank_iff w _ _ (by omega)] at hlt
  have e : w.length - 1 + 1 = w.length := by omega
  rw [e] at hlt
  exact absurd (tooth_lt_total w ζ i hW hζ hi) (not_lt.2 (le_of_lt hlt))

theorem idx_eq_iff (w : List K) (ζ : K) (i k : Nat) (hW : 0 < total w) (hζ0 : 0 < ζ)
    (hi : i < w.length) (hk : k < w.length) :
    idx w ζ i = k ↔ psum w k < tooth w ζ i ∧ tooth w ζ i ≤ psum w (k + 1) := by
  unfold idx
  have hb := lt_rank_iff w (tooth w ζ i) k hk
  constructor
  · intro h
    constructor
    · rcases Nat.eq_zero_or_pos k with h0 | h0
      · subst h0; rw [psum_zero]; exact tooth_pos w ζ i hW hζ0 hi
      · have := (lt_rank_iff w (tooth w ζ i) (k - 1) (by omega)).1 (by omega)
        have e : k - 1 + 1 = k := by omega
        rwa [e] at this
    · by_contra hc
      have := hb.2 (not_le.1 hc)
      omega
  · rintro ⟨h1, h2⟩
    have hle : ¬ k < rank (cumAbs w) (tooth w ζ i) := fun h => absurd (hb.1 h) (not_lt.2 h2)
    rcases Nat.eq_zero_or_pos k with h0 | h0
    · omega
    · have e : k - 1 + 1 = k := by omega
      have := (lt_rank_iff w (tooth w ζ i) (k - 1) (by omega)).2 (by rw [e]; exact h1)
      omega

/-- the comb is monotone: walkers are copied in order -/
theorem idx_mono (w : List K) (ζ : K) {i j : Nat} (hij : i ≤ j) (hN : 0 < w.length) :
    idx w ζ i ≤ idx w ζ j := by
  unfold idx
  apply rank_mono
  unfold tooth
  have hNK : (0 : K) < (w.length : K) := by exact_mod_cast hN
  have hW : 0 ≤ total w := psum_nonneg w _
  have : (i : K) ≤ (j : K) := by exact_mod_cast hij
  apply div_le_div_of_nonneg_right _ hNK.le
  nlinarith

/-- NumPy / MPI flavour computes the same tooth positions -/
theorem toothNp_eq (w : List K) (ζ : K) (i : Nat) : toothNp w ζ i = tooth w ζ i := by
  unfold toothNp tooth; ring

theorem combIdxNp_eq (w : List K) (ζ : K) : combIdxNp w ζ = combIdx w ζ := by
  unfold combIdxNp combIdx idxNp idx
  simp only [toothNp_eq]

/-! ### weights -/

theorem combWeights_sum (w : List K) (hN : 0 < w.length) : (combWeights w).sum = total w := by
  unfold combWeights
  rw [List.sum_replicate, nsmul_eq_mul]
  have : (w.length : K) ≠ 0 := by exact_mod_cast (by omega : w.length ≠ 0)
  field_simp

theorem combWeights_all (w : List K) : ∀ x ∈ combWeights w, x = total w / (w.length : K) := by
  intro x hx; exact List.eq_of_mem_replicate hx

/-! ### number of copies = number of teeth in `(a, b]` -/

theorem psum_scale (w : List K) (c : K) (hc : 0 < c) (j : Nat) :
    psum (w.map (c * ·)) j = c * psum w j := by
  unfold psum
  rw [← List.map_take, List.map_map]
  induction (w.take j) with
  | nil => simp
  | cons a l ih =>
    simp only [List.map_cons, List.sum_cons, Function.comp, ih, abs_mul, abs_of_pos hc]
    ring


variable [FloorRing K]

theorem copies_eq (w : List K) (ζ : K) (k : Nat) (hW : 0 < total w) (hζ0 : 0 < ζ) (hζ1 : ζ < 1)
    (hk : k < w.length) :
    (copies w ζ k : Int) =
      ⌊(w.length : K) * psum w (k + 1) / total w - ζ⌋ - ⌊(w.length : K) * psum w k / total w - ζ⌋ := by
  set N := w.length with hNdef
  have hN : (0 : K) < (N : K) := by exact_mod_cast (by omega : 0 < N)
  set a := (N : K) * psum w k / total w with ha
  set b := (N : K) * psum w (k + 1) / total w with hb
  have hab : a ≤ b := by
    rw [ha, hb]
    apply div_le_div_of_nonneg_right _ hW.le
    exact mul_le_mul_of_nonneg_left (psum_mono w (by omega)) hN.le
  have ha0 : 0 ≤ a := div_nonneg (mul_nonneg hN.le (psum_nonneg w k)) hW.le
  have hbN : b ≤ N := by
    rw [hb, div_le_iff₀ hW]
    apply mul_le_mul_of_nonneg_left _ hN.le
    exact psum_mono w (by omega)
  -- characterisation of tooth membership
  have key : ∀ i : Nat, i < N → (idx w ζ i = k ↔ a < (i : K) + ζ ∧ (i : K) + ζ ≤ b) := by
    intro i hi
    rw [idx_eq_iff w ζ i k hW hζ0 hi hk]
    unfold tooth
    rw [ha, hb, div_lt_iff₀ hW, le_div_iff₀ hW, lt_div_iff₀ hN, div_le_iff₀ hN]
    constructor <;> rintro ⟨h1, h2⟩ <;> constructor <;> nlinarith
  have himg : ((Finset.range N).filter fun i => idx w ζ i = k).image (fun i : Nat => (i : Int))
      = Finset.Ioc ⌊a - ζ⌋ ⌊b - ζ⌋ := by
    ext j
    rw [Finset.mem_image, Finset.mem_Ioc, Int.floor_lt, Int.le_floor]
    constructor
    · rintro ⟨i, hi, rfl⟩
      rw [Finset.mem_filter, Finset.mem_range] at hi
      have := (key i hi.1).1 hi.2
      push_cast
      constructor <;> linarith [this.1, this.2]
    · rintro ⟨h1, h2⟩
      have hj0 : 0 ≤ j := by
        by_contra hneg
        have : (j : K) ≤ -1 := by exact_mod_cast (by omega : j ≤ -1)
        linarith
      have hjN : j < N := by
        by_contra hge
        have : (N : K) ≤ (j : K) := by exact_mod_cast (by omega : (N : Int) ≤ j)
        linarith
      refine ⟨j.toNat, ?_, Int.toNat_of_nonneg hj0⟩
      rw [Finset.mem_filter, Finset.mem_range]
      have hcast : ((j.toNat : Nat) : K) = (j : K) := by
        have := Int.toNat_of_nonneg hj0
        exact_mod_cast congrArg (fun z : Int => (z : K)) this
      refine ⟨by omega, (key j.toNat (by omega)).2 ?_⟩
      rw [hcast]
      constructor <;> linarith
  unfold copies
  rw [← Finset.card_image_of_injective _ (Nat.cast_injective (R := Int)), himg, Int.card_Ioc]
  have : ⌊a - ζ⌋ ≤ ⌊b - ζ⌋ := Int.floor_le_floor (by linarith)
  omega

theorem floor_diff_mem (u x : K) : ⌊u + x⌋ - ⌊u⌋ = ⌊x⌋ ∨ ⌊u + x⌋ - ⌊u⌋ = ⌈x⌉ := by
  have h1 : ⌊u⌋ + ⌊x⌋ ≤ ⌊u + x⌋ := Int.le_floor_add _ _
  have h2 : ⌊u + x⌋ ≤ ⌊u⌋ + ⌊x⌋ + 1 := by have := Int.le_floor_add_floor u x; omega
  by_cases hxi : (⌊x⌋ : K) = x
  · left
    have : ⌊u + x⌋ = ⌊u⌋ + ⌊x⌋ := by rw [← hxi, Int.floor_add_intCast]; simp
    omega
  · have hc : ⌈x⌉ = ⌊x⌋ + 1 := by
      have hlt : (⌊x⌋ : K) < x := lt_of_le_of_ne (Int.floor_le x) hxi
      apply le_antisymm
      · exact Int.ceil_le_floor_add_one x
      · rw [Int.add_one_le_iff, Int.lt_ceil]; exact hlt
    rcases (by omega : ⌊u + x⌋ = ⌊u⌋ + ⌊x⌋ ∨ ⌊u + x⌋ = ⌊u⌋ + ⌊x⌋ + 1) with h | h
    · left; omega
    · right; omega

end AfqmcVerif.Comb

/-! ### MPI gather / compute / scatter: every interleaving delivers the serial comb -/
namespace AfqmcVerif.Comb

variable {K : Type} [Field K] [LinearOrder K]

/-- what rank `r` must receive: slice `r` of the serial comb on the rank-ordered concatenation -/
def mpiExpected {R : Nat} (inp : Fin R → List K) (n : Nat) (ζ : K) (r : Fin R) : List Nat × List K :=
  (slice n r (combIdxNp (concatBuf inp) ζ), slice n r (combWeights (concatBuf inp)))

structure MpiInv {R : Nat} (inp : Fin R → List K) (n : Nat) (ζ : K) (s : MpiState (K := K) R) : Prop where
  buf_ok : ∀ r, s.sent r = true → s.buf r = inp r
  comp_ok : ∀ x, s.computed = some x → x = (combIdxNp (concatBuf inp) ζ, combWeights (concatBuf inp))
  deliv_ok : ∀ r y, s.delivered r = some y → y = mpiExpected inp n ζ r

theorem mpiInv_init {R : Nat} (inp : Fin R → List K) (n : Nat) (ζ : K) :
    MpiInv inp n ζ (mpiInit R) :=
  ⟨fun _ h => by simp [mpiInit] at h, fun _ h => by simp [mpiInit] at h,
   fun _ _ h => by simp [mpiInit] at h⟩

theorem mpiInv_step {R : Nat} (inp : Fin R → List K) (n : Nat) (ζ : K) (s s' : MpiState (K := K) R)
    (e : MpiEv R) (hs : MpiInv inp n ζ s) (h : mpiStep inp n ζ s e = some s') : MpiInv inp n ζ s' := by
  cases e with
  | send r =>
    simp only [mpiStep] at h
    split at h
    · exact absurd h (by simp)
    · have := Option.some.inj h; subst this
      refine ⟨fun q hq => ?_, hs.comp_ok, hs.deliv_ok⟩
      simp only at hq ⊢
      by_cases hqr : q = r
      · simp [hqr]
      · simp only [hqr, if_false] at hq ⊢; exact hs.buf_ok q hq
  | compute =>
    simp only [mpiStep] at h
    split at h
    · rename_i hc
      have := Option.some.inj h; subst this
      rw [Bool.and_eq_true, List.all_eq_true] at hc
      have hall : ∀ r, s.sent r = true := by
        intro r
        have := hc.1 (s.sent r) (by simp [List.mem_ofFn])
        simpa using this
      have hbuf : s.buf = inp := funext fun r => hs.buf_ok r (hall r)
      refine ⟨hs.buf_ok, fun x hx => ?_, hs.deliv_ok⟩
      simp only at hx
      rw [← Option.some.inj hx, hbuf]
    · exact absurd h (by simp)
  | deliver r =>
    simp only [mpiStep] at h
    split at h
    · rename_i ix ws hcomp hdel
      have := Option.some.inj h; subst this
      refine ⟨hs.buf_ok, hs.comp_ok, fun q y hy => ?_⟩
      simp only at hy
      by_cases hqr : q = r
      · subst hqr
        simp only [if_true] at hy
        have hx := hs.comp_ok _ hcomp
        rw [← Option.some.inj hy]
        unfold mpiExpected
        rw [Prod.mk.injEq] at hx
        rw [hx.1, hx.2]
      · simp only [hqr, if_false] at hy; exact hs.deliv_ok q y hy
    · exact absurd h (by simp)

theorem mpiInv_run {R : Nat} (inp : Fin R → List K) (n : Nat) (ζ : K) (es : List (MpiEv R)) :
    ∀ s s', MpiInv inp n ζ s → mpiRun inp n ζ s es = some s' → MpiInv inp n ζ s' := by
  induction es with
  | nil => intro s s' hs h; simp only [mpiRun] at h; rw [← Option.some.inj h]; exact hs
  | cons e es ih =>
    intro s s' hs h
    simp only [mpiRun] at h
    cases hstep : mpiStep inp n ζ s e with
    | none => rw [hstep] at h; simp at h
    | some s1 =>
      rw [hstep] at h
      exact ih s1 s' (mpiInv_step inp n ζ s s1 e hs hstep) h

/-- progress: a state in which some rank has not been served always has an enabled event -/
theorem mpi_progress {R : Nat} (inp : Fin R → List K) (n : Nat) (ζ : K) (s : MpiState (K := K) R)
    (hnt : ∃ r, s.delivered r = none) : ∃ e s', mpiStep inp n ζ s e = some s' := by
  by_cases hsent : ∃ r, s.sent r = false
  · obtain ⟨r, hr⟩ := hsent
    refine ⟨.send r, ?_⟩
    simp [mpiStep, hr]
  · have hall : ∀ r, s.sent r = true := by
      intro r; by_contra h; exact hsent ⟨r, by simpa using h⟩
    cases hc : s.computed with
    | none =>
      refine ⟨.compute, ?_⟩
      have : (List.ofFn s.sent).all id = true := by
        rw [List.all_eq_true]; intro b hb
        rw [List.mem_ofFn] at hb
        obtain ⟨r, rfl⟩ := hb
        simpa using hall r
      simp [mpiStep, this, hc]
    | some x =>
      obtain ⟨r, hr⟩ := hnt
      obtain ⟨ix, ws⟩ := x
      refine ⟨.deliver r, ?_⟩
      simp [mpiStep, hc, hr]

end AfqmcVerif.Comb
