import AfqmcVerif.Lemmas.Sign
import Mathlib.GroupTheory.Perm.Fin
import Mathlib.LinearAlgebra.Matrix.Determinant.Basic
import Mathlib.Order.Interval.Finset.Fin

namespace AfqmcVerif.Dets
open Finset

/-- the sign of a sequence: `-1` for every pair `i < j` that is out of order -/
def invSign {k : ℕ} (f : Fin k → ℕ) : ℤ := ∏ i, ∏ j ∈ Ioi i, (if f i < f j then 1 else -1)

theorem sgn_zero : sgn 0 = 1 := by simp [sgn]

theorem prod_row (k : ℕ) (g : Fin k → ℕ) (x : ℕ) (hx : ∀ j, g j ≠ x) :
    (∏ j : Fin k, (if x < g j then (1 : ℤ) else -1)) = sgn (lc (List.ofFn g) x) := by
  induction k with
  | zero => simp [sgn]
  | succ k ih =>
    rw [Fin.prod_univ_succ, List.ofFn_succ, lc_cons, ← sgn_add, ih (fun j => g j.succ) (fun j => hx j.succ)]
    congr 1
    unfold b2n sgn
    have := hx 0
    by_cases h : x < g 0
    · have : ¬ g 0 < x := by omega
      simp [h, this]
    · have : g 0 < x := by omega
      simp [h, this]

theorem Ioi_zero_eq (k : ℕ) : Ioi (0 : Fin (k + 1)) = univ.map (Fin.succEmb k) := by
  ext j
  simp only [mem_Ioi, mem_map, mem_univ, true_and, Fin.coe_succEmb]
  constructor
  · intro h
    obtain ⟨i, rfl⟩ := Fin.exists_succ_eq.2 (Fin.pos_iff_ne_zero.1 h)
    exact ⟨i, rfl⟩
  · rintro ⟨i, rfl⟩; exact Fin.succ_pos i

/-- for an injective sequence the product over out-of-order pairs is the parity of the inversion count -/
theorem invSign_eq_sgn : ∀ (k : ℕ) (f : Fin k → ℕ), Function.Injective f → invSign f = sgn (invCount (List.ofFn f))
  | 0, f, _ => by simp [invSign, invCount, sgn]
  | k + 1, f, hf => by
    have ih := invSign_eq_sgn k (fun j => f j.succ) (fun a b h => Fin.succ_injective _ (hf h))
    unfold invSign at ih ⊢
    rw [Fin.prod_univ_succ, Ioi_zero_eq, Finset.prod_map, List.ofFn_succ, invCount_cons, ← sgn_add]
    congr 1
    · simp only [Fin.coe_succEmb]
      exact prod_row k (fun j => f j.succ) (f 0) (fun j h => absurd (hf h) (Fin.succ_ne_zero j))
    · rw [← ih]
      refine Finset.prod_congr rfl fun i _ => ?_
      rw [← Fin.map_succEmb_Ioi, Finset.prod_map]
      rfl

open Matrix in
/-- **row order and sign**: for injective rows `e` and their increasing enumeration `s`, the minor on `e` is the
minor on `s` times the inversion sign of `e` -/
theorem minor_sort {m k : ℕ} {K : Type} [CommRing K] (W : Matrix (Fin m) (Fin k) K) (e s : Fin k → Fin m)
    (he : Function.Injective e) (hs : StrictMono s) (hr : ∀ i, ∃ j, s j = e i) :
    (W.submatrix e id).det = ((invSign (fun i => (e i).val) : ℤ) : K) * (W.submatrix s id).det := by
  choose π hπ using hr
  have hinj : Function.Injective π := by
    intro a b hab
    apply he
    rw [← hπ a, ← hπ b, hab]
  let σ : Equiv.Perm (Fin k) := Equiv.ofBijective π (Finite.injective_iff_bijective.1 hinj)
  have hsub : W.submatrix e id = (W.submatrix s id).submatrix σ id := by
    ext i j
    simp only [Matrix.submatrix_apply, id_eq]
    change W (e i) j = W (s (π i)) j
    rw [hπ i]
  have hsign : ((Equiv.Perm.sign σ : ℤˣ) : ℤ) = invSign (fun i => (e i).val) := by
    rw [Equiv.Perm.sign_eq_prod_prod_Ioi]
    unfold invSign
    push_cast
    refine Finset.prod_congr rfl fun i _ => Finset.prod_congr rfl fun j _ => ?_
    have h1 : (σ i < σ j) ↔ ((e i).val < (e j).val) := by
      change (π i < π j) ↔ _
      rw [← hs.lt_iff_lt, hπ i, hπ j, Fin.lt_def]
    by_cases h : σ i < σ j
    · simp [h, h1.1 h]
    · have h' : ¬ (e i).val < (e j).val := fun hh => h (h1.2 hh)
      simp [h, h']
  rw [hsub, Matrix.det_permute, ← hsign]


end AfqmcVerif.Dets
