import AfqmcVerif.Lemmas.SortSign
namespace AfqmcVerif.Dets

/-- the occupation vector after all the moves -/
def seqSet : List Bool → List Nat → List Nat → List Bool
  | occ, [], _ => occ
  | occ, _, [] => occ
  | occ, c :: cs, d :: ds => seqSet (setAt (setAt occ c false) d true) cs ds

theorem seqSet_length : ∀ (cs ds : List Nat) (occ : List Bool), (seqSet occ cs ds).length = occ.length
  | [], _, occ => by simp [seqSet]
  | _ :: _, [], occ => by simp [seqSet]
  | c :: cs, d :: ds, occ => by
      simp only [seqSet]
      rw [seqSet_length cs ds]; simp [setAt]

theorem rep_seq : ∀ (cs ds : List Nat) (occ : List Bool) (L : List Nat), Rep occ L → cs.Nodup → ds.Nodup →
    (∀ c ∈ cs, c ∈ L) → (∀ d ∈ ds, d ∉ L ∧ d < occ.length) → Rep (seqSet occ cs ds) (seqReplace L cs ds)
  | [], ds, occ, L, h, _, _, _, _ => by simpa [seqSet, seqReplace] using h
  | c :: cs, [], occ, L, h, _, _, _, _ => by simpa [seqSet, seqReplace] using h
  | c :: cs, d :: ds, occ, L, h, hcs, hds, hc, hd => by
      have hcL : c ∈ L := hc c (by simp)
      have hdL := hd d (by simp)
      have hrep := h.step hcL hdL.1 hdL.2
      have hlen : (setAt (setAt occ c false) d true).length = occ.length := by simp [setAt]
      simp only [seqSet, seqReplace]
      exact rep_seq cs ds _ _ hrep (List.nodup_cons.1 hcs).2 (List.nodup_cons.1 hds).2
        (fun c' hc' => mem_replaceVal.2 (Or.inr ⟨hc c' (List.mem_cons_of_mem _ hc'),
          fun e => (List.nodup_cons.1 hcs).1 (e ▸ hc')⟩))
        (fun d' hd' => by
          have hd'L := hd d' (List.mem_cons_of_mem _ hd')
          refine ⟨fun hm => ?_, by rw [hlen]; exact hd'L.2⟩
          rcases mem_replaceVal.1 hm with ⟨_, e⟩ | ⟨hm, _⟩
          · exact (List.nodup_cons.1 hds).1 (e ▸ hd')
          · exact hd'L.1 hm)

/-- what the moves do to each orbital -/
theorem seqSet_getD : ∀ (cs ds : List Nat) (occ : List Bool) (i : Nat), cs.length = ds.length → i < occ.length →
    (∀ d ∈ ds, d ∉ cs) →
    (seqSet occ cs ds).getD i false = if i ∈ ds then true else if i ∈ cs then false else occ.getD i false
  | [], [], occ, i, _, _, _ => by simp [seqSet]
  | [], _ :: _, occ, i, h, _, _ => by simp at h
  | _ :: _, [], occ, i, h, _, _ => by simp at h
  | c :: cs, d :: ds, occ, i, hlen, hi, hdisj => by
      have hl2 : (setAt (setAt occ c false) d true).length = occ.length := by simp [setAt]
      simp only [seqSet]
      rw [seqSet_getD cs ds _ i (by simpa using hlen) (by rw [hl2]; exact hi)
        (fun d' hd' hm => hdisj d' (List.mem_cons_of_mem _ hd') (List.mem_cons_of_mem _ hm))]
      unfold setAt
      rw [getD_set _ _ _ _ (by simpa using hi), getD_set _ _ _ _ hi]
      have hdc : d ≠ c := fun e => hdisj d (by simp) (by simp [e])
      have hdcs : d ∉ cs := fun hm => hdisj d (by simp) (List.mem_cons_of_mem _ hm)
      by_cases h1 : i ∈ ds
      · simp [h1]
      · by_cases h2 : i = d
        · subst h2; simp [h1, hdcs]
        · by_cases h3 : i ∈ cs
          · simp [h1, h2, h3]
          · by_cases h4 : i = c
            · subst h4; simp [h1, h2, h3, Ne.symm h2]
            · simp [h1, h2, h3, h4, Ne.symm h2, Ne.symm h4]

end AfqmcVerif.Dets
