import Mathlib.MeasureTheory.Integral.IntervalIntegral.Basic
import Mathlib.Algebra.Order.Floor.Ring

/-! `∫₀¹ ⌊x − ζ⌋ dζ = x − 1`: the average over the comb offset of a floor. -/
namespace AfqmcVerif.Comb

theorem intervalIntegrable_floor_sub (x : ℝ) :
    IntervalIntegrable (fun ζ => (⌊x - ζ⌋ : ℝ)) MeasureTheory.volume 0 1 ∧
    ∫ ζ in (0:ℝ)..1, (⌊x - ζ⌋ : ℝ) = x - 1 := by
  set t := Int.fract x; set n := ⌊x⌋
  have hx : x = n + t := (Int.floor_add_fract x).symm
  have ht0 : 0 ≤ t := Int.fract_nonneg x
  have ht1 : t < 1 := Int.fract_lt_one x
  have e1 : ∀ ζ ∈ Set.uIoc (0:ℝ) t, (⌊x - ζ⌋ : ℝ) = (n : ℝ) := by
    intro ζ hζ; rw [Set.uIoc_of_le ht0] at hζ
    have : ⌊x - ζ⌋ = n := by
      rw [Int.floor_eq_iff]; constructor <;> [linarith [hζ.2]; linarith [hζ.1]]
    rw [this]
  have e2 : ∀ ζ ∈ Set.uIoc t (1:ℝ), (⌊x - ζ⌋ : ℝ) = ((n : ℝ) - 1) := by
    intro ζ hζ; rw [Set.uIoc_of_le ht1.le] at hζ
    have : ⌊x - ζ⌋ = n - 1 := by
      rw [Int.floor_eq_iff]; push_cast; constructor <;> [linarith [hζ.2]; linarith [hζ.1]]
    rw [this]; push_cast; ring
  have i1 : IntervalIntegrable (fun ζ => (⌊x - ζ⌋ : ℝ)) MeasureTheory.volume 0 t :=
    (intervalIntegrable_const (c := (n:ℝ))).congr (fun ζ hζ => (e1 ζ hζ).symm)
  have i2 : IntervalIntegrable (fun ζ => (⌊x - ζ⌋ : ℝ)) MeasureTheory.volume t 1 :=
    (intervalIntegrable_const (c := (n:ℝ) - 1)).congr (fun ζ hζ => (e2 ζ hζ).symm)
  refine ⟨i1.trans i2, ?_⟩
  rw [← intervalIntegral.integral_add_adjacent_intervals i1 i2,
    intervalIntegral.integral_congr_ae (Filter.Eventually.of_forall e1),
    intervalIntegral.integral_congr_ae (Filter.Eventually.of_forall e2)]
  simp only [intervalIntegral.integral_const, smul_eq_mul]
  rw [hx]; ring

/-- expected number of teeth in `(a, b]` over a uniform offset: exactly `b − a` -/
theorem integral_floor_diff (a b : ℝ) :
    ∫ ζ in (0:ℝ)..1, ((⌊b - ζ⌋ : ℝ) - (⌊a - ζ⌋ : ℝ)) = b - a := by
  rw [intervalIntegral.integral_sub (intervalIntegrable_floor_sub b).1 (intervalIntegrable_floor_sub a).1,
    (intervalIntegrable_floor_sub b).2, (intervalIntegrable_floor_sub a).2]
  ring

end AfqmcVerif.Comb
