import AfqmcVerif.Model.Dataclass

namespace AfqmcVerif.Dataclass
variable {V : Type}

theorem positional_flatten (S : Spec) (o dflt : Obj V) (f : String)
    (h : (decide (S.decl.idxOf f < S.flat.length) && S.flat[S.decl.idxOf f]? == some f) = true) :
    positional S.decl (flatten S o) dflt f = o f := by
  simp only [Bool.and_eq_true, decide_eq_true_eq, beq_iff_eq] at h
  obtain ⟨hlt, hget⟩ := h
  unfold positional flatten
  simp only [List.length_map, hlt, dite_true, List.getElem_map]
  rw [List.getElem?_eq_getElem hlt] at hget
  rw [Option.some.inj hget]

/-- **Round trip.**  If the generated field lists pass `rtCheck`, `__post_init__` leaves
non-computed fields alone (`hP1`) and is a function of the fields it reads (`hP2`), then
`tree_unflatten(tree_flatten(o))` has the same value as `o` in every declared field, for every
object `o` that came out of the constructor (with any positional/keyword arguments `o0`). -/
theorem roundtrip (S : Spec) (post : Obj V → Obj V) (dflt : Obj V)
    (hP1 : ∀ o f, f ∉ S.computed → post o f = o f)
    (hP2 : ∀ o o' f, (∀ g ∈ S.reads, o g = o' g) → f ∈ S.computed → post o f = post o' f)
    (hchk : rtCheck S = true) (o0 : Obj V) :
    ∀ f ∈ S.decl, unflatten S post dflt (flatten S (post o0)) f = post o0 f := by
  intro f hf
  unfold rtCheck at hchk
  rw [Bool.and_eq_true, List.all_eq_true, List.all_eq_true] at hchk
  obtain ⟨hdecl, hreads⟩ := hchk
  have key : ∀ g ∈ S.decl, g ∉ S.computed →
      positional S.decl (flatten S (post o0)) dflt g = post o0 g := by
    intro g hg hgc
    have := hdecl g hg
    rw [Bool.or_eq_true] at this
    rcases this with h | h
    · exact absurd (List.contains_iff_mem.1 h) hgc
    · exact positional_flatten S _ dflt g h
  unfold unflatten
  by_cases hc : f ∈ S.computed
  · apply hP2 _ _ _ _ hc
    intro g hg
    have := hreads g hg
    simp only [Bool.and_eq_true, Bool.not_eq_true', List.contains_iff_mem] at this
    have hgc : g ∉ S.computed := by
      intro hmem
      have h2 : S.computed.contains g = true := List.contains_iff_mem.2 hmem
      rw [this.1] at h2; exact Bool.noConfusion h2
    rw [key g this.2 hgc, hP1 o0 g hgc]
  · rw [hP1 _ f hc, key f hf hc]

/-- conversely, a declared, non-computed field that is *not* at its own position in `aux_data`
is lost or clobbered: there are two constructor outputs with different values of the field that
flatten to the same `aux_data` whenever the field is missing from `flat` altogether. -/
theorem lost_field (S : Spec) (post : Obj V → Obj V)
    (hP1 : ∀ o f, f ∉ S.computed → post o f = o f) (f : String)
    (hc : f ∉ S.computed) (hflat : f ∉ S.flat) (a b : V) (hab : a ≠ b) :
    ∃ o1 o2 : Obj V, post o1 f ≠ post o2 f ∧
      flatten S (fun g => if g = f then a else post o1 g) =
      flatten S (fun g => if g = f then b else post o1 g) := by
  refine ⟨fun _ => a, fun _ => b, ?_, ?_⟩
  · rw [hP1 _ f hc, hP1 _ f hc]; exact hab
  · unfold flatten
    apply List.map_congr_left
    intro g hg
    have : g ≠ f := fun e => hflat (e ▸ hg)
    simp [this]

end AfqmcVerif.Dataclass
