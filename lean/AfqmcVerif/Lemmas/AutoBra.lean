import AfqmcVerif.Lemmas.ColumnExpand
import Mathlib.Tactic.Ring
import Mathlib.Tactic.LinearCombination

/-!
# A general bra (linear combination of products of minors) along a second-order perturbed walker

`bra c ea eb Wa Wb = Σ_i c_i · det Wa[ea_i, :] · det Wb[eb_i, :]` is the overlap of every trial kind of
`wavefunctions.py` with a walker (C01).  Here: its expansion along
`(Wa + x Va + x² Da, Wb + x Vb + x² Db)` to second order, with the coefficients written as the bra on walkers with
replaced columns.  `wave_function_auto` differentiates exactly such functions.
-/
namespace AfqmcVerif.AutoBra
open Matrix Polynomial Finset AfqmcVerif.ColumnExpand

variable {m ka kb k : ℕ} {K : Type} [CommRing K]

def bra {ι : Type} [Fintype ι] (c : ι → K) (ea : ι → Fin ka → Fin m) (eb : ι → Fin kb → Fin m)
    (Wa : Matrix (Fin m) (Fin ka) K) (Wb : Matrix (Fin m) (Fin kb) K) : K :=
  ∑ i, c i * ((Wa.submatrix (ea i) id).det * (Wb.submatrix (eb i) id).det)

/-- column `j` of the walker block `W` replaced by column `j` of `V` -/
def rcw (W V : Matrix (Fin m) (Fin k) K) (j : Fin k) : Matrix (Fin m) (Fin k) K :=
  W.updateCol j (fun i => V i j)

theorem rcw_minor (W V : Matrix (Fin m) (Fin k) K) (j : Fin k) (e : Fin k → Fin m) :
    (rcw W V j).submatrix e id = rc (W.submatrix e id) (V.submatrix e id) j := by
  ext i l
  simp only [rcw, rc, submatrix_apply, updateCol_apply, id_eq]

theorem perturbed_minor (W V D : Matrix (Fin m) (Fin k) K) (x : K) (e : Fin k → Fin m) :
    (W + x • V + x ^ 2 • D).submatrix e id
      = W.submatrix e id + x • V.submatrix e id + x ^ 2 • D.submatrix e id := by
  ext i l; simp

/-- one minor along the perturbed walker -/
theorem minor_expand (W V D : Matrix (Fin m) (Fin k) K) (e : Fin k → Fin m) :
    ∃ q : K[X], ∀ x : K,
      ((W + x • V + x ^ 2 • D).submatrix e id).det
        = (W.submatrix e id).det + x * (∑ j, ((rcw W V j).submatrix e id).det)
          + x ^ 2 * (∑ j, (((rcw W D j).submatrix e id).det
                + sumBelow j.val fun l => ((rcw (rcw W V j) V l).submatrix e id).det))
          + x ^ 3 * q.eval x := by
  obtain ⟨q, hq⟩ := det_perturbed (W.submatrix e id) (V.submatrix e id) (D.submatrix e id)
  refine ⟨q, fun x => ?_⟩
  rw [perturbed_minor, hq x]
  simp only [rcw_minor]

/-- first-order coefficient of the bra -/
def d1 {ι : Type} [Fintype ι] (c : ι → K) (ea : ι → Fin ka → Fin m) (eb : ι → Fin kb → Fin m)
    (Wa Va : Matrix (Fin m) (Fin ka) K) (Wb Vb : Matrix (Fin m) (Fin kb) K) : K :=
  (∑ j, bra c ea eb (rcw Wa Va j) Wb) + ∑ j, bra c ea eb Wa (rcw Wb Vb j)

/-- second-order coefficient of the bra -/
def d2 {ι : Type} [Fintype ι] (c : ι → K) (ea : ι → Fin ka → Fin m) (eb : ι → Fin kb → Fin m)
    (Wa Va Da : Matrix (Fin m) (Fin ka) K) (Wb Vb Db : Matrix (Fin m) (Fin kb) K) : K :=
  (∑ j, (bra c ea eb (rcw Wa Da j) Wb + sumBelow j.val fun l => bra c ea eb (rcw (rcw Wa Va j) Va l) Wb))
  + (∑ j, (bra c ea eb Wa (rcw Wb Db j) + sumBelow j.val fun l => bra c ea eb Wa (rcw (rcw Wb Vb j) Vb l)))
  + ∑ j, ∑ l, bra c ea eb (rcw Wa Va j) (rcw Wb Vb l)

theorem sumBelow_mul (t : ℕ) (f : Fin k → K) (a : K) : sumBelow t f * a = sumBelow t fun l => f l * a := by
  unfold sumBelow; rw [sum_mul]; refine sum_congr rfl fun j _ => ?_; split <;> simp

theorem mul_sumBelow (t : ℕ) (f : Fin k → K) (a : K) : a * sumBelow t f = sumBelow t fun l => a * f l := by
  unfold sumBelow; rw [mul_sum]; refine sum_congr rfl fun j _ => ?_; split <;> simp

theorem sumBelow_sum {ι : Type} [Fintype ι] (t : ℕ) (f : ι → Fin k → K) :
    (∑ i, sumBelow t (f i)) = sumBelow t fun l => ∑ i, f i l := by
  unfold sumBelow; rw [sum_comm]; refine sum_congr rfl fun j _ => ?_; split <;> simp

theorem partA {ι : Type} [Fintype ι] (c : ι → K) (u : ι → Fin k → K) (v : ι → Fin k → Fin k → K) (b : ι → K) :
    (∑ j : Fin k, ((∑ i, c i * (u i j * b i)) + sumBelow j.val fun l => ∑ i, c i * (v i j l * b i)))
      = ∑ i, c i * ((∑ j : Fin k, (u i j + sumBelow j.val fun l => v i j l)) * b i) := by
  have h : ∀ j : Fin k, ((∑ i, c i * (u i j * b i)) + sumBelow j.val fun l => ∑ i, c i * (v i j l * b i))
      = ∑ i, (c i * (u i j * b i) + sumBelow j.val fun l => c i * (v i j l * b i)) := by
    intro j; rw [← sumBelow_sum, sum_add_distrib]
  simp only [h]
  rw [sum_comm]
  refine sum_congr rfl fun i _ => ?_
  rw [sum_mul, mul_sum]
  refine sum_congr rfl fun j _ => ?_
  rw [add_mul, mul_add, sumBelow_mul, mul_sumBelow]

theorem partB {ι : Type} [Fintype ι] (c : ι → K) (u : ι → Fin k → K) (v : ι → Fin k → Fin k → K) (a : ι → K) :
    (∑ j : Fin k, ((∑ i, c i * (a i * u i j)) + sumBelow j.val fun l => ∑ i, c i * (a i * v i j l)))
      = ∑ i, c i * (a i * (∑ j : Fin k, (u i j + sumBelow j.val fun l => v i j l))) := by
  have h := partA c u v a
  simp only [mul_comm (a _)]
  exact h

/-- **expansion of the bra to second order** -/
theorem bra_expand {ι : Type} [Fintype ι] (c : ι → K) (ea : ι → Fin ka → Fin m) (eb : ι → Fin kb → Fin m)
    (Wa Va Da : Matrix (Fin m) (Fin ka) K) (Wb Vb Db : Matrix (Fin m) (Fin kb) K) :
    ∃ Q : K[X], ∀ x : K,
      bra c ea eb (Wa + x • Va + x ^ 2 • Da) (Wb + x • Vb + x ^ 2 • Db)
        = bra c ea eb Wa Wb + x * d1 c ea eb Wa Va Wb Vb + x ^ 2 * d2 c ea eb Wa Va Da Wb Vb Db
          + x ^ 3 * Q.eval x := by
  have ha : ∀ i, ∃ q : K[X], ∀ x : K, _ := fun i => minor_expand Wa Va Da (ea i)
  have hb : ∀ i, ∃ q : K[X], ∀ x : K, _ := fun i => minor_expand Wb Vb Db (eb i)
  choose qa hqa using ha
  choose qb hqb using hb
  -- abbreviations for the coefficients of the two minors of term `i`
  let a0 := fun i => (Wa.submatrix (ea i) id).det
  let a1 := fun i => ∑ j, ((rcw Wa Va j).submatrix (ea i) id).det
  let a2 := fun i => ∑ j, (((rcw Wa Da j).submatrix (ea i) id).det
                + sumBelow j.val fun l => ((rcw (rcw Wa Va j) Va l).submatrix (ea i) id).det)
  let b0 := fun i => (Wb.submatrix (eb i) id).det
  let b1 := fun i => ∑ j, ((rcw Wb Vb j).submatrix (eb i) id).det
  let b2 := fun i => ∑ j, (((rcw Wb Db j).submatrix (eb i) id).det
                + sumBelow j.val fun l => ((rcw (rcw Wb Vb j) Vb l).submatrix (eb i) id).det)
  refine ⟨∑ i, C (c i) * (C (a0 i) * qb i + C (a1 i) * C (b2 i) + C (a1 i) * X * qb i + C (a2 i) * C (b1 i)
      + C (a2 i) * X * C (b2 i) + C (a2 i) * X ^ 2 * qb i + qa i * C (b0 i) + qa i * X * C (b1 i)
      + qa i * X ^ 2 * C (b2 i) + qa i * X ^ 3 * qb i), fun x => ?_⟩
  have e1 : d1 c ea eb Wa Va Wb Vb = ∑ i, c i * (a1 i * b0 i + a0 i * b1 i) := by
    unfold d1 bra
    rw [sum_comm, sum_comm (s := (univ : Finset (Fin kb))), ← sum_add_distrib]
    refine sum_congr rfl fun i _ => ?_
    simp only [a0, a1, b0, b1, sum_mul, mul_sum, mul_add]
  have e2 : d2 c ea eb Wa Va Da Wb Vb Db = ∑ i, c i * (a2 i * b0 i + a0 i * b2 i + a1 i * b1 i) := by
    unfold d2 bra
    rw [partA c (fun i j => ((rcw Wa Da j).submatrix (ea i) id).det)
          (fun i j l => ((rcw (rcw Wa Va j) Va l).submatrix (ea i) id).det) b0,
      partB c (fun i j => ((rcw Wb Db j).submatrix (eb i) id).det)
          (fun i j l => ((rcw (rcw Wb Vb j) Vb l).submatrix (eb i) id).det) a0]
    have h3 : (∑ j, ∑ l, ∑ i, c i * (((rcw Wa Va j).submatrix (ea i) id).det * ((rcw Wb Vb l).submatrix (eb i) id).det))
        = ∑ i, c i * (a1 i * b1 i) := by
      have hp : ∀ i, c i * (a1 i * b1 i)
          = ∑ j, ∑ l, c i * (((rcw Wa Va j).submatrix (ea i) id).det * ((rcw Wb Vb l).submatrix (eb i) id).det) := by
        intro i
        simp only [a1, b1]
        rw [Finset.sum_mul_sum, mul_sum]
        refine sum_congr rfl fun j _ => ?_
        rw [mul_sum]
      simp only [hp]
      rw [sum_comm (s := (univ : Finset ι))]
      refine sum_congr rfl fun j _ => ?_
      rw [sum_comm (s := (univ : Finset ι))]
    rw [h3, ← sum_add_distrib, ← sum_add_distrib]
    refine sum_congr rfl fun i _ => ?_
    simp only [a0, a2, b0, b2]
    ring
  unfold bra
  rw [e1, e2, mul_sum, mul_sum, ← sum_add_distrib, ← sum_add_distrib, eval_finsetSum, mul_sum, ← sum_add_distrib]
  refine sum_congr rfl fun i _ => ?_
  rw [hqa i x, hqb i x]
  simp only [eval_add, eval_mul, eval_C, eval_X, eval_pow, a0, a1, a2, b0, b1, b2]
  ring

/-! ### multilinearity of the bra in a replaced column -/
section linear
variable {ι : Type} [Fintype ι] (c : ι → K) (ea : ι → Fin ka → Fin m) (eb : ι → Fin kb → Fin m)

theorem minor_rcw_add (W V V' : Matrix (Fin m) (Fin k) K) (j : Fin k) (e : Fin k → Fin m) :
    ((rcw W (V + V') j).submatrix e id).det
      = ((rcw W V j).submatrix e id).det + ((rcw W V' j).submatrix e id).det := by
  simp only [rcw_minor, rc]
  have : (fun i => (V + V').submatrix e id i j) = (fun i => V.submatrix e id i j) + (fun i => V'.submatrix e id i j) := by
    ext i; simp
  rw [this, det_updateCol_add]

theorem minor_rcw_smul (W V : Matrix (Fin m) (Fin k) K) (a : K) (j : Fin k) (e : Fin k → Fin m) :
    ((rcw W (a • V) j).submatrix e id).det = a * ((rcw W V j).submatrix e id).det := by
  simp only [rcw_minor, rc]
  have : (fun i => (a • V).submatrix e id i j) = a • (fun i => V.submatrix e id i j) := by
    ext i; simp
  rw [this, det_updateCol_smul]

theorem bra_rcw_add_a (Wa V V' : Matrix (Fin m) (Fin ka) K) (Wb : Matrix (Fin m) (Fin kb) K) (j : Fin ka) :
    bra c ea eb (rcw Wa (V + V') j) Wb = bra c ea eb (rcw Wa V j) Wb + bra c ea eb (rcw Wa V' j) Wb := by
  unfold bra; rw [← sum_add_distrib]; refine sum_congr rfl fun i _ => ?_
  rw [minor_rcw_add]; ring

theorem bra_rcw_add_b (Wa : Matrix (Fin m) (Fin ka) K) (Wb V V' : Matrix (Fin m) (Fin kb) K) (j : Fin kb) :
    bra c ea eb Wa (rcw Wb (V + V') j) = bra c ea eb Wa (rcw Wb V j) + bra c ea eb Wa (rcw Wb V' j) := by
  unfold bra; rw [← sum_add_distrib]; refine sum_congr rfl fun i _ => ?_
  rw [minor_rcw_add]; ring

theorem bra_rcw_smul_a (Wa V : Matrix (Fin m) (Fin ka) K) (Wb : Matrix (Fin m) (Fin kb) K) (a : K) (j : Fin ka) :
    bra c ea eb (rcw Wa (a • V) j) Wb = a * bra c ea eb (rcw Wa V j) Wb := by
  unfold bra; rw [mul_sum]; refine sum_congr rfl fun i _ => ?_
  rw [minor_rcw_smul]; ring

theorem bra_rcw_smul_b (Wa : Matrix (Fin m) (Fin ka) K) (Wb V : Matrix (Fin m) (Fin kb) K) (a : K) (j : Fin kb) :
    bra c ea eb Wa (rcw Wb (a • V) j) = a * bra c ea eb Wa (rcw Wb V j) := by
  unfold bra; rw [mul_sum]; refine sum_congr rfl fun i _ => ?_
  rw [minor_rcw_smul]; ring

theorem rcw_comm (W V : Matrix (Fin m) (Fin k) K) (j l : Fin k) (h : j ≠ l) :
    rcw (rcw W V j) V l = rcw (rcw W V l) V j := by
  unfold rcw; exact updateCol_comm _ h _ _

end linear

/-- ordered and unordered pair sums: `Σ_j Σ_{l ≠ j} f j l = 2 Σ_j Σ_{l < j} f j l` for `f` symmetric off the diagonal -/
theorem sum_offdiag_eq_two_sumBelow (f : Fin k → Fin k → K) (hs : ∀ j l, j ≠ l → f j l = f l j) :
    (∑ j, ∑ l ∈ univ.erase j, f j l) = 2 * ∑ j : Fin k, sumBelow j.val fun l => f j l := by
  have h1 : ∀ j : Fin k, (∑ l ∈ univ.erase j, f j l)
      = (∑ l : Fin k, if l.val < j.val then f j l else 0) + ∑ l : Fin k, if j.val < l.val then f j l else 0 := by
    intro j
    rw [← sum_add_distrib, ← Finset.sum_erase_add univ (fun l => (if l.val < j.val then f j l else 0) + if j.val < l.val then f j l else 0) (mem_univ j)]
    simp only [lt_self_iff_false, if_false, add_zero]
    refine sum_congr rfl fun l hl => ?_
    have hne : l ≠ j := (mem_erase.mp hl).1
    have hv : l.val ≠ j.val := fun hh => hne (Fin.ext hh)
    rcases Nat.lt_or_gt_of_ne hv with h | h
    · simp [h, Nat.lt_asymm h]
    · simp [h, Nat.lt_asymm h]
  simp only [h1, sum_add_distrib]
  have h2 : (∑ j : Fin k, ∑ l : Fin k, if j.val < l.val then f j l else 0)
      = ∑ j : Fin k, ∑ l : Fin k, if l.val < j.val then f j l else 0 := by
    rw [sum_comm]
    refine sum_congr rfl fun j _ => sum_congr rfl fun l _ => ?_
    by_cases h : l.val < j.val
    · have hne : l ≠ j := fun hh => by rw [hh] at h; exact Nat.lt_irrefl _ h
      simp [h, hs l j hne]
    · simp [h]
  rw [h2]
  unfold sumBelow
  ring

end AfqmcVerif.AutoBra
