import AfqmcVerif.Lemmas.Det
import Mathlib.LinearAlgebra.Matrix.NonsingularInverse
import Mathlib.LinearAlgebra.Matrix.Adjugate
namespace AfqmcVerif.Excite
open Matrix

variable {K : Type} [Field K] {m k : ℕ}

/-- `Θ = W (W_ref)⁻¹`: the code's Green's function is `Θᵀ` (rows = reference positions) -/
noncomputable def theta (W : Matrix (Fin m) (Fin k) K) (ref : Fin k → Fin m) : Matrix (Fin m) (Fin k) K :=
  W * (W.submatrix ref id)⁻¹

theorem theta_ref (W : Matrix (Fin m) (Fin k) K) (ref : Fin k → Fin m) (hW : IsUnit (W.submatrix ref id).det) :
    (theta W ref).submatrix ref id = 1 := by
  have : (theta W ref).submatrix ref id = W.submatrix ref id * (W.submatrix ref id)⁻¹ := by
    unfold theta; ext i j; simp [Matrix.mul_apply, Matrix.submatrix_apply]
  rw [this, Matrix.mul_nonsing_inv _ hW]

theorem minor_via_theta (W : Matrix (Fin m) (Fin k) K) (ref e : Fin k → Fin m) (hW : IsUnit (W.submatrix ref id).det) :
    (W.submatrix e id).det = ((theta W ref).submatrix e id).det * (W.submatrix ref id).det := by
  have : (theta W ref).submatrix e id * W.submatrix ref id = W.submatrix e id := by
    have h1 : (theta W ref).submatrix e id = W.submatrix e id * (W.submatrix ref id)⁻¹ := by
      unfold theta; ext i j; simp [Matrix.mul_apply, Matrix.submatrix_apply]
    rw [h1, Matrix.mul_assoc, Matrix.nonsing_inv_mul _ hW, Matrix.mul_one]
  rw [← this, Matrix.det_mul]

/-- **single excitation in place**: orbital at position `p` replaced by orbital `a` -/
theorem minor_single (W : Matrix (Fin m) (Fin k) K) (ref : Fin k → Fin m) (hW : IsUnit (W.submatrix ref id).det)
    (p : Fin k) (a : Fin m) :
    (W.submatrix (Function.update ref p a) id).det = (W.submatrix ref id).det * theta W ref a p := by
  rw [minor_via_theta W ref _ hW, mul_comm]
  congr 1
  have h : (theta W ref).submatrix (Function.update ref p a) id
      = (1 : Matrix (Fin k) (Fin k) K).updateRow p (theta W ref a) := by
    ext i j
    by_cases hi : i = p
    · subst hi; simp [Matrix.submatrix_apply, Matrix.updateRow_apply]
    · have := congrFun (congrFun (theta_ref W ref hW) i) j
      simp only [Matrix.submatrix_apply, id_eq] at this
      simp [Matrix.submatrix_apply, Matrix.updateRow_apply, hi, Function.update_of_ne hi, this]
  rw [h, ← Matrix.cramer_transpose_apply, Matrix.transpose_one, Matrix.cramer_one]
  rfl

/-- **double excitation in place**: positions `p ≠ q` replaced by orbitals `a`, `b` -/
theorem minor_double (W : Matrix (Fin m) (Fin k) K) (ref : Fin k → Fin m) (hW : IsUnit (W.submatrix ref id).det)
    (p q : Fin k) (hpq : p ≠ q) (a b : Fin m) :
    (W.submatrix (Function.update (Function.update ref p a) q b) id).det
      = (W.submatrix ref id).det * (theta W ref a p * theta W ref b q - theta W ref b p * theta W ref a q) := by
  rw [minor_via_theta W ref _ hW, mul_comm]
  congr 1
  have h : ((theta W ref).submatrix (Function.update (Function.update ref p a) q b) id)ᵀ
      = ((1 : Matrix (Fin k) (Fin k) K).updateCol p (theta W ref a)).updateCol q (theta W ref b) := by
    ext j i
    simp only [Matrix.transpose_apply, Matrix.submatrix_apply, id_eq, Matrix.updateCol_apply]
    by_cases hi : i = q
    · subst hi; simp
    · by_cases hi2 : i = p
      · subst hi2; simp [hi, Function.update_of_ne hi]
      · have := congrFun (congrFun (theta_ref W ref hW) i) j
        simp only [Matrix.submatrix_apply, id_eq] at this
        simp [hi, hi2, Function.update_of_ne hi, Function.update_of_ne hi2, this, Matrix.one_apply, eq_comm]
  rw [← Matrix.det_transpose, h, AfqmcVerif.Det.det_one_updateCol_two p q hpq]

end AfqmcVerif.Excite
