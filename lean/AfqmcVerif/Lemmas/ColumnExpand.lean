import Mathlib.LinearAlgebra.Matrix.Determinant.Basic
import Mathlib.Algebra.Polynomial.Eval.Defs
import Mathlib.Algebra.Polynomial.Eval.Coeff
import Mathlib.Algebra.BigOperators.Ring.Finset
import Mathlib.Tactic.Ring
import Mathlib.Tactic.LinearCombination

/-!
# Expansion of a determinant whose columns are perturbed to second order

`det(A + x B + x² D) = det A + x·c₁ + x²·c₂ + x³·q(x)` with

* `c₁ = Σ_j det A[j ← B_j]`,
* `c₂ = Σ_j det A[j ← D_j] + Σ_{l<j} det A[j ← B_j, l ← B_l]`,

for **every** square matrix `A` (singular ones included), by induction over the columns using only the
multilinearity of the determinant.  This is what the AD / finite-difference kinds of `wavefunctions.py`
(`wave_function_auto`) differentiate: minors of `(1 + xO)W` and of `(1 + xL + x²L²/2)W`.
-/
namespace AfqmcVerif.ColumnExpand
open Matrix Polynomial Finset

variable {k : ℕ} {K : Type} [CommRing K]

/-- `Σ_{j < t} f j` over `Fin k` -/
def sumBelow (t : ℕ) (f : Fin k → K) : K := ∑ j : Fin k, if j.val < t then f j else 0

theorem sumBelow_succ (t : ℕ) (h : t < k) (f : Fin k → K) :
    sumBelow (t + 1) f = sumBelow t f + f ⟨t, h⟩ := by
  unfold sumBelow
  have e : ∀ j : Fin k, (if j.val < t + 1 then f j else 0)
      = (if j.val < t then f j else 0) + (if j = ⟨t, h⟩ then f j else 0) := by
    intro j
    by_cases h1 : j.val < t
    · have : j ≠ ⟨t, h⟩ := fun hh => by rw [hh] at h1; exact Nat.lt_irrefl _ h1
      simp [h1, this, Nat.lt_succ_of_lt h1]
    · by_cases h2 : j = ⟨t, h⟩
      · subst h2; simp
      · have : ¬ j.val < t + 1 := by
          intro h3
          apply h2
          apply Fin.ext
          simp only
          omega
        simp [h1, h2, this]
  simp only [e]
  rw [sum_add_distrib, Finset.sum_ite_eq' univ (⟨t, h⟩ : Fin k) f]
  simp

theorem sumBelow_all (t : ℕ) (h : k ≤ t) (f : Fin k → K) : sumBelow t f = ∑ j, f j := by
  unfold sumBelow
  refine sum_congr rfl fun j _ => ?_
  rw [if_pos (lt_of_lt_of_le j.isLt h)]

/-- first `t` columns perturbed to second order -/
def mixed (t : ℕ) (A B D : Matrix (Fin k) (Fin k) K) (x : K) : Matrix (Fin k) (Fin k) K :=
  fun i j => if j.val < t then A i j + x * B i j + x ^ 2 * D i j else A i j

/-- column `j` of `A` replaced by column `j` of `B` -/
def rc (A B : Matrix (Fin k) (Fin k) K) (j : Fin k) : Matrix (Fin k) (Fin k) K :=
  A.updateCol j (fun i => B i j)

def c1 (t : ℕ) (A B : Matrix (Fin k) (Fin k) K) : K := sumBelow t fun j => (rc A B j).det

def c2 (t : ℕ) (A B D : Matrix (Fin k) (Fin k) K) : K :=
  sumBelow t fun j => (rc A D j).det + sumBelow j.val fun l => (rc (rc A B j) B l).det

theorem mixed_succ (t : ℕ) (h : t < k) (A B D : Matrix (Fin k) (Fin k) K) (x : K) :
    mixed (t + 1) A B D x
      = (mixed t A B D x).updateCol ⟨t, h⟩ (fun i => A i ⟨t, h⟩ + x * B i ⟨t, h⟩ + x ^ 2 * D i ⟨t, h⟩) := by
  ext i j
  rw [updateCol_apply]
  by_cases h2 : j = ⟨t, h⟩
  · subst h2; simp [mixed]
  · have hv : j.val ≠ t := fun hh => h2 (Fin.ext hh)
    rw [if_neg h2]
    by_cases h1 : j.val < t
    · simp [mixed, h1, Nat.lt_succ_of_lt h1]
    · have : ¬ j.val < t + 1 := by omega
      simp [mixed, h1, this]

theorem mixed_updateCol_self (t : ℕ) (h : t < k) (A B D : Matrix (Fin k) (Fin k) K) (x : K) :
    (mixed t A B D x).updateCol ⟨t, h⟩ (fun i => A i ⟨t, h⟩) = mixed t A B D x := by
  ext i j
  rw [updateCol_apply]
  by_cases h2 : j = ⟨t, h⟩
  · subst h2; simp [mixed]
  · rw [if_neg h2]

theorem mixed_updateCol_other (t : ℕ) (h : t < k) (A B D E : Matrix (Fin k) (Fin k) K) (x : K) :
    (mixed t A B D x).updateCol ⟨t, h⟩ (fun i => E i ⟨t, h⟩) = mixed t (rc A E ⟨t, h⟩) B D x := by
  ext i j
  rw [updateCol_apply]
  by_cases h2 : j = ⟨t, h⟩
  · subst h2; simp [mixed, rc]
  · rw [if_neg h2]
    simp only [mixed, rc, updateCol_apply, if_neg h2]

theorem det_updateCol_three (M : Matrix (Fin k) (Fin k) K) (j : Fin k) (u v w : Fin k → K) (x : K) :
    (M.updateCol j (fun i => u i + x * v i + x ^ 2 * w i)).det
      = (M.updateCol j u).det + x * (M.updateCol j v).det + x ^ 2 * (M.updateCol j w).det := by
  have e : (fun i => u i + x * v i + x ^ 2 * w i) = (u + x • v) + (x ^ 2) • w := by
    ext i; simp [smul_eq_mul]
  rw [e, det_updateCol_add, det_updateCol_add, det_updateCol_smul, det_updateCol_smul]

/-- **the expansion**, for the first `t` columns -/
theorem det_mixed (t : ℕ) (B D : Matrix (Fin k) (Fin k) K) :
    ∀ A : Matrix (Fin k) (Fin k) K, ∃ q : K[X], ∀ x : K,
      (mixed t A B D x).det = A.det + x * c1 t A B + x ^ 2 * c2 t A B D + x ^ 3 * q.eval x := by
  induction t with
  | zero =>
    intro A
    refine ⟨0, fun x => ?_⟩
    have : mixed 0 A B D x = A := by ext i j; simp [mixed]
    simp [this, c1, c2, sumBelow]
  | succ t ih =>
    intro A
    by_cases h : t < k
    · obtain ⟨q0, h0⟩ := ih A
      obtain ⟨q1, h1⟩ := ih (rc A B ⟨t, h⟩)
      obtain ⟨q2, h2⟩ := ih (rc A D ⟨t, h⟩)
      refine ⟨q0 + C (c2 t (rc A B ⟨t, h⟩) B D) + X * q1 + C (c1 t (rc A D ⟨t, h⟩) B)
        + X * C (c2 t (rc A D ⟨t, h⟩) B D) + X ^ 2 * q2, fun x => ?_⟩
      rw [mixed_succ t h, det_updateCol_three, mixed_updateCol_self, mixed_updateCol_other,
        mixed_updateCol_other, h0 x, h1 x, h2 x]
      have e1 : c1 (t + 1) A B = c1 t A B + (rc A B ⟨t, h⟩).det := by
        unfold c1; rw [sumBelow_succ t h]
      have e2 : c2 (t + 1) A B D = c2 t A B D + ((rc A D ⟨t, h⟩).det + c1 t (rc A B ⟨t, h⟩) B) := by
        unfold c2 c1; rw [sumBelow_succ t h]
      rw [e1, e2]
      simp only [eval_add, eval_mul, eval_C, eval_X, eval_pow]
      ring
    · obtain ⟨q0, h0⟩ := ih A
      refine ⟨q0, fun x => ?_⟩
      have hk : k ≤ t := Nat.le_of_not_lt h
      have em : mixed (t + 1) A B D x = mixed t A B D x := by
        ext i j; unfold mixed
        have : j.val < t := lt_of_lt_of_le j.isLt hk
        simp [this, Nat.lt_succ_of_lt this]
      have e1 : c1 (t + 1) A B = c1 t A B := by
        unfold c1; rw [sumBelow_all _ (Nat.le_succ_of_le hk), sumBelow_all _ hk]
      have e2 : c2 (t + 1) A B D = c2 t A B D := by
        unfold c2; rw [sumBelow_all _ (Nat.le_succ_of_le hk), sumBelow_all _ hk]
      rw [em, e1, e2, h0 x]

/-- all columns perturbed -/
theorem det_perturbed (A B D : Matrix (Fin k) (Fin k) K) :
    ∃ q : K[X], ∀ x : K,
      (A + x • B + x ^ 2 • D).det
        = A.det + x * (∑ j, (rc A B j).det)
          + x ^ 2 * (∑ j, ((rc A D j).det + sumBelow j.val fun l => (rc (rc A B j) B l).det))
          + x ^ 3 * q.eval x := by
  obtain ⟨q, hq⟩ := det_mixed k B D A
  refine ⟨q, fun x => ?_⟩
  have em : A + x • B + x ^ 2 • D = mixed k A B D x := by
    ext i j; simp [mixed, smul_eq_mul]
  rw [em, hq x]
  unfold c1 c2
  rw [sumBelow_all k le_rfl, sumBelow_all k le_rfl]

end AfqmcVerif.ColumnExpand
