import AfqmcVerif.Lemmas.UcisdOverlap
namespace AfqmcVerif.Excite
open Matrix Finset
variable {K : Type} [Field K] {k v : ℕ}

/-- generalised CISD in the spin-orbital basis of the trial: `(1 + Σ c_ia E_ia + ¼ Σ c_iajb E_ia E_jb)|ref⟩`, one block -/
noncomputable def gcisdSpec (W : Matrix (Fin (k + v)) (Fin k) K) (c1 : Fin k → Fin v → K)
    (c2 : Fin k → Fin v → Fin k → Fin v → K) : K :=
  D0 W + ∑ i, ∑ a, c1 i a * S1 W i a + (∑ i, ∑ a, ∑ j, ∑ b, c2 i a j b * (if i = j then 0 else S2 W i a j b)) / 4

/-- `GCISD._calc_overlap`: `(1 + o1 + o2/4)·o0`, `o2 = Σ c (G_ia G_jb − G_ib G_ja)` -/
noncomputable def gcisdCode (W : Matrix (Fin (k + v)) (Fin k) K) (c1 : Fin k → Fin v → K)
    (c2 : Fin k → Fin v → Fin k → Fin v → K) : K :=
  (1 + ∑ i, ∑ a, c1 i a * G W i a
    + ((∑ i, ∑ a, ∑ j, ∑ b, c2 i a j b * (G W i a * G W j b)) - ∑ i, ∑ a, ∑ j, ∑ b, c2 i a j b * (G W i b * G W j a)) / 4) * D0 W

/-- **generalised CISD overlap**: no symmetry of the amplitudes is needed -/
theorem gcisd_overlap (W : Matrix (Fin (k + v)) (Fin k) K) (c1 : Fin k → Fin v → K)
    (c2 : Fin k → Fin v → Fin k → Fin v → K) (hW : D0 W ≠ 0) (h2 : (2 : K) ≠ 0) :
    gcisdCode W c1 c2 = gcisdSpec W c1 c2 := by
  unfold gcisdSpec gcisdCode
  have h4 : (4 : K) ≠ 0 := by
    have : (4 : K) = 2 * 2 := by norm_num
    rw [this]; exact mul_ne_zero h2 h2
  have h1 : ∀ i a, c1 i a * S1 W i a = D0 W * (c1 i a * G W i a) := by
    intro i a; rw [S1_eq W hW]; ring
  have hterm : ∀ i a j b, c2 i a j b * (if i = j then 0 else S2 W i a j b)
      = D0 W * (c2 i a j b * (G W i a * G W j b)) - D0 W * (c2 i a j b * (G W i b * G W j a)) := by
    intro i a j b
    by_cases hij : i = j
    · subst hij; simp only [if_true]; ring
    · simp only [if_neg hij]; rw [S2_eq W hW i a j b hij]; ring
  simp only [h1, hterm, Finset.sum_sub_distrib, ← Finset.mul_sum]
  field_simp

end AfqmcVerif.Excite
