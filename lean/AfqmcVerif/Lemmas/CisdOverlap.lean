import AfqmcVerif.Lemmas.Excite
import Mathlib.Algebra.BigOperators.Field
import Mathlib.Tactic.Ring
import Mathlib.Tactic.FieldSimp
namespace AfqmcVerif.Excite
open Matrix Finset

variable {K : Type} [Field K] {k v : ℕ}

/-- the reference determinant occupies the first `k` orbitals -/
def refRows (k v : ℕ) : Fin k → Fin (k + v) := Fin.castAdd v
/-- the `a`-th virtual orbital -/
def virt (k v : ℕ) : Fin v → Fin (k + v) := Fin.natAdd k

variable (W : Matrix (Fin (k + v)) (Fin k) K)

/-- reference minor -/
noncomputable def D0 : K := (W.submatrix (refRows k v) id).det
/-- amplitude of the singly excited determinant `i → a` (orbital `a` stands where `i` stood) -/
noncomputable def S1 (i : Fin k) (a : Fin v) : K := (W.submatrix (Function.update (refRows k v) i (virt k v a)) id).det
/-- amplitude of the doubly excited determinant `j → b` then `i → a` in the same spin block -/
noncomputable def S2 (i : Fin k) (a : Fin v) (j : Fin k) (b : Fin v) : K :=
  (W.submatrix (Function.update (Function.update (refRows k v) j (virt k v b)) i (virt k v a)) id).det
/-- the code's Green's function entry `GF[i, nocc + a]` -/
noncomputable def G (i : Fin k) (a : Fin v) : K := theta W (refRows k v) (virt k v a) i

/-- `⟨ψ_T|φ⟩` for `|ψ_T⟩ = (1 + Σ c_ia E_ia + ½ Σ c_iajb E_ia E_jb)|ref⟩` with spin-summed `E_pq = Σ_σ a†_{pσ} a_{qσ}`, restricted
walker (both spin blocks `W`), written determinant by determinant: `E^σ_ia` replaces orbital `i` by `a` in place (and
annihilates a determinant that does not contain `i`) -/
noncomputable def cisdSpec (c1 : Fin k → Fin v → K) (c2 : Fin k → Fin v → Fin k → Fin v → K) : K :=
  D0 W * D0 W
  + ∑ i, ∑ a, c1 i a * (S1 W i a * D0 W + D0 W * S1 W i a)
  + (∑ i, ∑ a, ∑ j, ∑ b, c2 i a j b *
      ((if i = j then 0 else S2 W i a j b) * D0 W + D0 W * (if i = j then 0 else S2 W i a j b)
        + S1 W i a * S1 W j b + S1 W j b * S1 W i a)) / 2

/-- `cisd._calc_overlap_restricted`: `(1 + 2 o1 + o2) · o0` -/
noncomputable def cisdCode (c1 : Fin k → Fin v → K) (c2 : Fin k → Fin v → Fin k → Fin v → K) : K :=
  (1 + 2 * (∑ i, ∑ a, c1 i a * G W i a)
    + (2 * (∑ i, ∑ a, ∑ j, ∑ b, c2 i a j b * (G W i a * G W j b))
        - ∑ i, ∑ a, ∑ j, ∑ b, c2 i a j b * (G W i b * G W j a))) * (D0 W * D0 W)

theorem S1_eq (hW : D0 W ≠ 0) (i : Fin k) (a : Fin v) : S1 W i a = D0 W * G W i a :=
  minor_single W (refRows k v) (isUnit_iff_ne_zero.2 hW) i (virt k v a)

theorem S2_eq (hW : D0 W ≠ 0) (i : Fin k) (a : Fin v) (j : Fin k) (b : Fin v) (hij : i ≠ j) :
    S2 W i a j b = D0 W * (G W j b * G W i a - G W j a * G W i b) :=
  minor_double W (refRows k v) (isUnit_iff_ne_zero.2 hW) j i (Ne.symm hij) (virt k v b) (virt k v a)

theorem cisd_overlap (c1 : Fin k → Fin v → K) (c2 : Fin k → Fin v → Fin k → Fin v → K) (hW : D0 W ≠ 0)
    (h2 : (2 : K) ≠ 0) : cisdCode W c1 c2 = cisdSpec W c1 c2 := by
  unfold cisdSpec cisdCode
  have hs : ∀ i a, c1 i a * (S1 W i a * D0 W + D0 W * S1 W i a) = (D0 W * D0 W) * (2 * (c1 i a * G W i a)) := by
    intro i a; rw [S1_eq W hW]; ring
  have hd : ∀ i a j b, c2 i a j b *
      ((if i = j then 0 else S2 W i a j b) * D0 W + D0 W * (if i = j then 0 else S2 W i a j b)
        + S1 W i a * S1 W j b + S1 W j b * S1 W i a)
      = (D0 W * D0 W) * (2 * (2 * (c2 i a j b * (G W i a * G W j b)) - c2 i a j b * (G W i b * G W j a))) := by
    intro i a j b
    rw [S1_eq W hW, S1_eq W hW]
    by_cases hij : i = j
    · subst hij; simp only [if_true]; ring
    · simp only [if_neg hij]; rw [S2_eq W hW i a j b hij]; ring
  simp only [hs, hd, ← Finset.mul_sum, Finset.sum_sub_distrib]
  field_simp

end AfqmcVerif.Excite
