import AfqmcVerif.Lemmas.InPlace
import Mathlib.LinearAlgebra.Matrix.Block
import Mathlib.LinearAlgebra.Matrix.NonsingularInverse
namespace AfqmcVerif.Dets
open Matrix

/-- a list of orbital indices as a row-selection function -/
def rowsOf (L : List Nat) (m k : Nat) (hk : L.length = k) (hm : ∀ x ∈ L, x < m) : Fin k → Fin m :=
  fun i => ⟨L.get (i.cast hk.symm), hm _ (List.get_mem L _)⟩

theorem ofFn_rowsOf (L : List Nat) (m k : Nat) (hk : L.length = k) (hm : ∀ x ∈ L, x < m) :
    List.ofFn (fun i => (rowsOf L m k hk hm i).val) = L := by
  subst hk
  apply List.ext_get
  · simp
  · intro n h1 h2
    simp [rowsOf]

theorem rowsOf_val (L : List Nat) (m k : Nat) (hk : L.length = k) (hm : ∀ x ∈ L, x < m) (i : Fin k) :
    (rowsOf L m k hk hm i).val = L.get (i.cast hk.symm) := rfl

theorem sgn_sq (n : Nat) : sgn n * sgn n = 1 := by
  rw [sgn_add]; unfold sgn; have : (n + n) % 2 = 0 := by omega
  simp [this]

end AfqmcVerif.Dets
