import AfqmcVerif.Model.Machine

/-! Soundness of the coherence check, and equivalence with the explicit-refresh replay. -/
namespace AfqmcVerif.Machine

variable {W O R : Type}

theorem gamma_join_left (S : Sem W O R) (a b : Coh) (σ : State W O R) (h : gamma S a σ) :
    gamma S (a.join b) σ := by
  cases a <;> cases b <;> simp [Coh.join, gamma] at h ⊢ <;> exact h

theorem gamma_join_right (S : Sem W O R) (a b : Coh) (σ : State W O R) (h : gamma S b σ) :
    gamma S (a.join b) σ := by
  cases a <;> cases b <;> simp [Coh.join, gamma] at h ⊢ <;> exact h

theorem sound_op (S : Sem W O R) (ρ : String → Nat) (o : Op) (c c' : Coh) (β : List Bool)
    (σ : State W O R) (hc : absOp o c = some c') (hg : gamma S c σ) :
    safe S ρ (.op o) β σ ∧ gamma S c' (stepOp S o σ) := by
  cases o <;> cases c <;> simp [absOp] at hc <;> subst hc <;>
    simp [safe, gamma, stepOp, Coherent] at hg ⊢ <;> try exact hg

/-- iterating a body that maps `c1` to `c1` keeps `c1` and is safe at every iteration -/
theorem sound_iter (S : Sem W O R) (ρ : String → Nat) (b : Prog) (β : List Bool) (c1 : Coh)
    (ih : ∀ σ, gamma S c1 σ → safe S ρ b β σ ∧ gamma S c1 (run S ρ b β σ)) :
    ∀ n σ, gamma S c1 σ →
      (∀ k, k < n → safe S ρ b β (iter (run S ρ b β) k σ)) ∧ gamma S c1 (iter (run S ρ b β) n σ) := by
  intro n
  induction n with
  | zero => intro σ h; exact ⟨fun k hk => absurd hk (Nat.not_lt_zero k), h⟩
  | succ n ihn =>
    intro σ h
    have h1 := ih σ h
    have h2 := ihn (run S ρ b β σ) h1.2
    refine ⟨fun k hk => ?_, h2.2⟩
    cases k with
    | zero => exact h1.1
    | succ k => exact h2.1 k (Nat.lt_of_succ_lt_succ hk)

/-- **Soundness of `check`.**  If the decision procedure accepts `p` from abstract state `c`, then
for every implementation of the operations, every scan-length valuation, every branch choice and
every concrete state described by `c`, every `propagate` executed is entered with overlaps equal
to the overlaps recomputed from the current walkers, and the final state is described by `c'`. -/
theorem check_sound (S : Sem W O R) (ρ : String → Nat) (p : Prog) :
    ∀ (c c' : Coh) (β : List Bool) (σ : State W O R), check p c = some c' → gamma S c σ →
      safe S ρ p β σ ∧ gamma S c' (run S ρ p β σ) := by
  induction p with
  | skip =>
    intro c c' β σ hc hg
    simp [check] at hc; subst hc
    exact ⟨trivial, hg⟩
  | op o =>
    intro c c' β σ hc hg
    exact sound_op S ρ o c c' β σ hc hg
  | seq p q ihp ihq =>
    intro c c' β σ hc hg
    simp only [check] at hc
    cases h1 : check p c with
    | none => rw [h1] at hc; simp at hc
    | some c1 =>
      rw [h1] at hc
      simp only [Option.bind_some] at hc
      have hp := ihp c c1 β σ h1 hg
      have hq := ihq c1 c' β _ hc hp.2
      exact ⟨⟨hp.1, hq.1⟩, hq.2⟩
  | scan l b ih =>
    intro c c' β σ hc hg
    simp only [check] at hc
    cases h1 : check b c with
    | none => rw [h1] at hc; simp at hc
    | some c1 =>
      simp only [h1] at hc
      cases h2 : check b c1 with
      | none => simp [h2] at hc
      | some c2 =>
        simp only [h2] at hc
        split at hc
        · rename_i heq
          subst heq
          have hc' := Option.some.inj hc
          subst hc'
          have hbody : ∀ σ, gamma S c2 σ → safe S ρ b β σ ∧ gamma S c2 (run S ρ b β σ) :=
            fun σ h => ih c2 c2 β σ h2 h
          simp only [safe, run]
          cases hn : ρ l with
          | zero =>
            exact ⟨fun k hk => absurd hk (Nat.not_lt_zero k), gamma_join_left S c c2 σ hg⟩
          | succ n =>
            have hfirst := ih c c2 β σ h1 hg
            have hrest := sound_iter S ρ b β c2 hbody n (run S ρ b β σ) hfirst.2
            refine ⟨fun k hk => ?_, gamma_join_right S c c2 _ hrest.2⟩
            cases k with
            | zero => exact hfirst.1
            | succ k => exact hrest.1 k (Nat.lt_of_succ_lt_succ hk)
        · simp at hc
  | alt p q ihp ihq =>
    intro c c' β σ hc hg
    simp only [check] at hc
    cases h1 : check p c with
    | none => rw [h1] at hc; simp at hc
    | some a =>
      cases h2 : check q c with
      | none => rw [h1, h2] at hc; simp at hc
      | some b =>
        rw [h1, h2] at hc
        have hc' := Option.some.inj hc
        subst hc'
        have hp := ihp c a
        have hq := ihq c b
        cases β with
        | nil =>
          have := hp [] σ h1 hg
          exact ⟨this.1, gamma_join_left S a b _ this.2⟩
        | cons x β' =>
          cases x with
          | true =>
            have := hp β' σ h1 hg
            exact ⟨this.1, gamma_join_left S a b _ this.2⟩
          | false =>
            have := hq β' σ h2 hg
            exact ⟨this.1, gamma_join_right S a b _ this.2⟩

/-! ### explicit-refresh replay -/

def noClobber : Prog → Bool
  | .skip => true
  | .op (.clobber _) => false
  | .op _ => true
  | .seq p q => noClobber p && noClobber q
  | .scan _ b => noClobber b
  | .alt p q => noClobber p && noClobber q

/-- the explicit-refresh run and the original run agree on walkers and on everything else, and on
the overlaps whenever the abstract state says they are coherent -/
def Rel (S : Sem W O R) (c : Coh) (σ1 σ2 : State W O R) : Prop :=
  σ1.ws = σ2.ws ∧ σ1.rest = σ2.rest ∧ (c = .coh → Coherent S σ1 ∧ σ1.ov = σ2.ov)

theorem rel_join_left (S : Sem W O R) (a b : Coh) (σ1 σ2 : State W O R) (h : Rel S a σ1 σ2) :
    Rel S (a.join b) σ1 σ2 := by
  refine ⟨h.1, h.2.1, fun hj => ?_⟩
  cases a <;> cases b <;> simp [Coh.join] at hj
  exact h.2.2 rfl

theorem rel_join_right (S : Sem W O R) (a b : Coh) (σ1 σ2 : State W O R) (h : Rel S b σ1 σ2) :
    Rel S (a.join b) σ1 σ2 := by
  refine ⟨h.1, h.2.1, fun hj => ?_⟩
  cases a <;> cases b <;> simp [Coh.join] at hj
  exact h.2.2 rfl

theorem rel_op (S : Sem W O R) (ρ : String → Nat) (o : Op) (c c' : Coh) (β : List Bool)
    (σ1 σ2 : State W O R) (hnc : noClobber (.op o) = true) (hc : absOp o c = some c')
    (h : Rel S c σ1 σ2) : Rel S c' (run S ρ (explicit (.op o)) β σ1) (run S ρ (.op o) β σ2) := by
  obtain ⟨hw, hr, hov⟩ := h
  cases o <;> cases c <;> simp [absOp] at hc <;> subst hc <;>
    simp [noClobber] at hnc <;>
    simp [explicit, run, stepOp, Rel, Coherent, hw, hr] at hov ⊢ <;>
    (try exact hov) <;> (try (rw [hov.2])) <;> (try exact ⟨rfl, rfl⟩) <;> (try exact ⟨rfl, rfl, rfl⟩)

theorem rel_iter (S : Sem W O R) (ρ : String → Nat) (b : Prog) (β : List Bool) (c1 : Coh)
    (ih : ∀ σ1 σ2, Rel S c1 σ1 σ2 → Rel S c1 (run S ρ (explicit b) β σ1) (run S ρ b β σ2)) :
    ∀ n σ1 σ2, Rel S c1 σ1 σ2 →
      Rel S c1 (iter (run S ρ (explicit b) β) n σ1) (iter (run S ρ b β) n σ2) := by
  intro n
  induction n with
  | zero => intro σ1 σ2 h; exact h
  | succ n ihn => intro σ1 σ2 h; exact ihn _ _ (ih σ1 σ2 h)

/-- **Equivalence with the explicit-refresh replay** (the "equivalently" clause of C08). -/
theorem explicit_equiv (S : Sem W O R) (ρ : String → Nat) (p : Prog) :
    ∀ (c c' : Coh) (β : List Bool) (σ1 σ2 : State W O R), noClobber p = true →
      check p c = some c' → Rel S c σ1 σ2 →
      Rel S c' (run S ρ (explicit p) β σ1) (run S ρ p β σ2) := by
  induction p with
  | skip =>
    intro c c' β σ1 σ2 _ hc h
    simp [check] at hc; subst hc; exact h
  | op o =>
    intro c c' β σ1 σ2 hnc hc h
    exact rel_op S ρ o c c' β σ1 σ2 hnc hc h
  | seq p q ihp ihq =>
    intro c c' β σ1 σ2 hnc hc h
    simp only [noClobber, Bool.and_eq_true] at hnc
    simp only [check] at hc
    cases h1 : check p c with
    | none => rw [h1] at hc; simp at hc
    | some c1 =>
      rw [h1] at hc
      simp only [Option.bind_some] at hc
      exact ihq c1 c' β _ _ hnc.2 hc (ihp c c1 β σ1 σ2 hnc.1 h1 h)
  | scan l b ih =>
    intro c c' β σ1 σ2 hnc hc h
    simp only [noClobber] at hnc
    simp only [check] at hc
    cases h1 : check b c with
    | none => rw [h1] at hc; simp at hc
    | some c1 =>
      simp only [h1] at hc
      cases h2 : check b c1 with
      | none => simp [h2] at hc
      | some c2 =>
        simp only [h2] at hc
        split at hc
        · rename_i heq
          subst heq
          have hc' := Option.some.inj hc
          subst hc'
          simp only [explicit, run]
          cases hn : ρ l with
          | zero => exact rel_join_left S c c2 σ1 σ2 h
          | succ n =>
            have hfirst := ih c c2 β σ1 σ2 hnc h1 h
            have := rel_iter S ρ b β c2 (fun a b' hab => ih c2 c2 β a b' hnc h2 hab) n _ _ hfirst
            exact rel_join_right S c c2 _ _ this
        · simp at hc
  | alt p q ihp ihq =>
    intro c c' β σ1 σ2 hnc hc h
    simp only [noClobber, Bool.and_eq_true] at hnc
    simp only [check] at hc
    cases h1 : check p c with
    | none => rw [h1] at hc; simp at hc
    | some a =>
      cases h2 : check q c with
      | none => rw [h1, h2] at hc; simp at hc
      | some b =>
        rw [h1, h2] at hc
        have hc' := Option.some.inj hc
        subst hc'
        cases β with
        | nil => exact rel_join_left S a b _ _ (ihp c a [] σ1 σ2 hnc.1 h1 h)
        | cons x β' =>
          cases x with
          | true => exact rel_join_left S a b _ _ (ihp c a β' σ1 σ2 hnc.1 h1 h)
          | false => exact rel_join_right S a b _ _ (ihq c b β' σ1 σ2 hnc.2 h2 h)

/-! ### erasing operations that are the identity -/

theorem iter_congr {α : Type} (f g : α → α) (h : ∀ a, f a = g a) : ∀ n a, iter f n a = iter g n a := by
  intro n
  induction n with
  | zero => intro a; rfl
  | succ n ih => intro a; simp only [iter]; rw [h a, ih]

/-- if every erased `other` operation acts as the identity, erasing them does not change the run -/
theorem run_eraseTags (S : Sem W O R) (ρ : String → Nat) (tags : List String)
    (hid : ∀ t, tags.contains t = true → ∀ r, S.other t r = r) (p : Prog) :
    ∀ (β : List Bool) (σ : State W O R), run S ρ (eraseTags tags p) β σ = run S ρ p β σ := by
  induction p with
  | skip => intro β σ; rfl
  | op o =>
    intro β σ
    cases o <;> try rfl
    rename_i t
    simp only [eraseTags]
    split
    · rename_i hc
      simp only [run, stepOp]
      rw [hid t hc]
    · rfl
  | seq p q ihp ihq =>
    intro β σ
    simp only [eraseTags]
    split
    · rename_i hp
      have h1 : run S ρ p β σ = σ := by rw [← ihp, hp]; rfl
      simp only [run]; rw [h1, ihq]
    · rename_i hq _
      have h2 : ∀ τ, run S ρ q β τ = τ := by intro τ; rw [← ihq, hq]; rfl
      simp only [run]; rw [h2]
      exact ihp β σ
    · simp only [run]; rw [ihp, ihq]
  | scan l b ih =>
    intro β σ
    simp only [eraseTags, run]
    exact iter_congr _ _ (fun a => ih β a) _ _
  | alt p q ihp ihq =>
    intro β σ
    simp only [eraseTags]
    cases β with
    | nil => simp only [run]; exact ihp [] σ
    | cons x β' =>
      cases x with
      | false => simp only [run]; exact ihq β' σ
      | true => simp only [run]; exact ihp β' σ

end AfqmcVerif.Machine
