/-
Generic model of a Python `@dataclass` registered as a JAX pytree node whose
`tree_unflatten` is `cls(*aux_data)` (C20, round-trip clause).

An object is an assignment of values to field names.  `cls(*args)` assigns `args`
positionally in declaration order, the remaining fields take their defaults, and then
`__post_init__` overwrites the *computed* fields as a function of the fields it reads.
The field-name lists are extracted from the source by `harness/translate_lattices.py`
into `Generated/LatticeFields.lean` on every run.
-/
namespace AfqmcVerif.Dataclass

structure Spec where
  decl     : List String   -- dataclass fields, declaration order
  flat     : List String   -- attributes returned by tree_flatten (aux_data), in order
  computed : List String   -- attributes assigned in __post_init__
  reads    : List String   -- attributes read in __post_init__ before being assigned there
  hashed   : List String   -- attributes entering __hash__
deriving Repr

variable {V : Type}

abbrev Obj (V : Type) := String → V

/-- `cls(*args)` before `__post_init__`. -/
def positional (decl : List String) (args : List V) (dflt : Obj V) : Obj V :=
  fun f =>
    let k := decl.idxOf f
    if h : k < args.length then args[k] else dflt f

def flatten (S : Spec) (o : Obj V) : List V := S.flat.map o

/-- `tree_unflatten(aux, ())` = `cls(*aux)` = positional construction, then `__post_init__`. -/
def unflatten (S : Spec) (post : Obj V → Obj V) (dflt : Obj V) (aux : List V) : Obj V :=
  post (positional S.decl aux dflt)

/-- The decidable side condition, evaluated on the generated field lists:
 every declared field is either recomputed by `__post_init__` or sits in `aux_data` at its own
 declaration position; `__post_init__` reads only declared fields that it does not (re)compute. -/
def rtCheck (S : Spec) : Bool :=
  S.decl.all (fun f => S.computed.contains f ||
      (decide (S.decl.idxOf f < S.flat.length) && S.flat[S.decl.idxOf f]? == some f)) &&
  S.reads.all (fun f => !S.computed.contains f && S.decl.contains f)

end AfqmcVerif.Dataclass
