/-
The abstract AFQMC machine (C08, C12, C14): programs over the operations that the sampler and the
driver compose, an abstract interpretation tracking whether the cached overlaps are coherent with
the walkers, and a concrete semantics parameterised by arbitrary implementations of the operations.

Programs are *generated* from `sampling.py` / `driver.py` by `harness/translate_sampler.py`
(`Generated/SamplerProg.lean`).  No Mathlib.
-/
namespace AfqmcVerif.Machine

inductive Op
  | refresh            -- prop_data["overlaps"] = trial.calc_overlap(prop_data["walkers"], wave_data)
  | propagate          -- prop.propagate(...): divides by the stored overlaps, stores the new ones
  | qr                 -- prop.orthonormalize_walkers
  | srLocal            -- prop.stochastic_reconfiguration_local
  | srGlobal           -- prop.stochastic_reconfiguration_global
  | measure            -- trial.calc_energy on the current walkers (+ block bookkeeping)
  | other (tag : String)  -- anything that touches neither walkers nor overlaps
  | clobber (tag : String) -- an unrecognised write to walkers or overlaps (translator could not classify)
deriving DecidableEq, Repr

inductive Prog
  | skip
  | op (o : Op)
  | seq (p q : Prog)
  | scan (len : String) (body : Prog)     -- lax.scan / for-loop with `len` iterations
  | alt (p q : Prog)                      -- option-dependent branch (either may be taken)
deriving DecidableEq, Repr

/-- abstract coherence of the cache: `coh` = certainly coherent, `stale` = unknown -/
inductive Coh | coh | stale
deriving DecidableEq, Repr

def Coh.join : Coh → Coh → Coh
  | .coh, .coh => .coh
  | _, _ => .stale

def absOp : Op → Coh → Option Coh
  | .refresh, _ => some .coh
  | .propagate, .coh => some .coh
  | .propagate, .stale => none          -- a step would divide by an overlap that may be stale
  | .qr, _ => some .stale
  | .srLocal, _ => some .stale
  | .srGlobal, _ => some .stale
  | .measure, c => some c
  | .other _, c => some c
  | .clobber _, _ => some .stale

/-- the decision procedure: `some c'` = every `propagate` reachable from abstract state `c` is
entered coherent, for every number of iterations of every scan and every branch choice -/
def check : Prog → Coh → Option Coh
  | .skip, c => some c
  | .op o, c => absOp o c
  | .seq p q, c => (check p c).bind (check q)
  | .scan _ b, c =>
    match check b c with
    | none => none
    | some c1 =>
      match check b c1 with
      | none => none
      | some c2 => if c2 = c1 then some (c.join c1) else none
  | .alt p q, c =>
    match check p c, check q c with
    | some a, some b => some (a.join b)
    | _, _ => none

/-! ### concrete semantics -/

structure Sem (W O R : Type) where
  ovlp     : W → O
  prop     : List W → List O → R → List W × R     -- uses the *stored* overlaps
  qr       : List W → R → List W × R
  srLocal  : List W → R → List W × R
  srGlobal : List W → R → List W × R
  measure  : List W → R → R
  other    : String → R → R
  clobber  : String → List W → List O → R → List W × List O

structure State (W O R : Type) where
  ws   : List W
  ov   : List O
  rest : R

variable {W O R : Type}

def Coherent (S : Sem W O R) (σ : State W O R) : Prop := σ.ov = σ.ws.map S.ovlp

def stepOp (S : Sem W O R) : Op → State W O R → State W O R
  | .refresh, σ => { σ with ov := σ.ws.map S.ovlp }
  | .propagate, σ =>
    let r := S.prop σ.ws σ.ov σ.rest
    { ws := r.1, ov := r.1.map S.ovlp, rest := r.2 }
  | .qr, σ => let r := S.qr σ.ws σ.rest; { σ with ws := r.1, rest := r.2 }
  | .srLocal, σ => let r := S.srLocal σ.ws σ.rest; { σ with ws := r.1, rest := r.2 }
  | .srGlobal, σ => let r := S.srGlobal σ.ws σ.rest; { σ with ws := r.1, rest := r.2 }
  | .measure, σ => { σ with rest := S.measure σ.ws σ.rest }
  | .other t, σ => { σ with rest := S.other t σ.rest }
  | .clobber t, σ => let r := S.clobber t σ.ws σ.ov σ.rest; { σ with ws := r.1, ov := r.2 }

def iter {α : Type} (f : α → α) : Nat → α → α
  | 0, a => a
  | n + 1, a => iter f n (f a)

/-- run with scan lengths `ρ` and branch choices `β` (path-indexed oracle) -/
def run (S : Sem W O R) (ρ : String → Nat) : Prog → (List Bool) → State W O R → State W O R
  | .skip, _, σ => σ
  | .op o, _, σ => stepOp S o σ
  | .seq p q, β, σ => run S ρ q β (run S ρ p β σ)
  | .scan l b, β, σ => iter (run S ρ b β) (ρ l) σ
  | .alt p q, β, σ =>
    match β with
    | true :: β' => run S ρ p β' σ
    | false :: β' => run S ρ q β' σ
    | [] => run S ρ p [] σ

/-- every `propagate` executed by the run is entered with coherent overlaps -/
def safe (S : Sem W O R) (ρ : String → Nat) : Prog → (List Bool) → State W O R → Prop
  | .skip, _, _ => True
  | .op .propagate, _, σ => Coherent S σ
  | .op _, _, _ => True
  | .seq p q, β, σ => safe S ρ p β σ ∧ safe S ρ q β (run S ρ p β σ)
  | .scan l b, β, σ => ∀ k, k < ρ l → safe S ρ b β (iter (run S ρ b β) k σ)
  | .alt p q, β, σ =>
    match β with
    | true :: β' => safe S ρ p β' σ
    | false :: β' => safe S ρ q β' σ
    | [] => safe S ρ p [] σ

def gamma (S : Sem W O R) : Coh → State W O R → Prop
  | .coh, σ => Coherent S σ
  | .stale, _ => True

/-- the same program with an explicit overlap refresh after every walker modification -/
def explicit : Prog → Prog
  | .skip => .skip
  | .op .qr => .seq (.op .qr) (.op .refresh)
  | .op .srLocal => .seq (.op .srLocal) (.op .refresh)
  | .op .srGlobal => .seq (.op .srGlobal) (.op .refresh)
  | .op o => .op o
  | .seq p q => .seq (explicit p) (explicit q)
  | .scan l b => .scan l (explicit b)
  | .alt p q => .alt (explicit p) (explicit q)

/-- flattened operation trace for concrete scan lengths and branch choices (used to validate the
translator against the dynamic trace of the real code) -/
def flatten (ρ : String → Nat) : Prog → List Bool → List Op
  | .skip, _ => []
  | .op o, _ => [o]
  | .seq p q, β => flatten ρ p β ++ flatten ρ q β
  | .scan l b, β => (List.replicate (ρ l) (flatten ρ b β)).flatten
  | .alt p q, β =>
    match β with
    | true :: β' => flatten ρ p β'
    | false :: β' => flatten ρ q β'
    | [] => flatten ρ p []

/-- remove the `other` operations whose tag is in `tags` (used to compare entry points that differ
only by operations that are the identity under a stated hypothesis, e.g. `optimize` on a converged
trial) -/
def eraseTags (tags : List String) : Prog → Prog
  | .skip => .skip
  | .op (.other t) => if tags.contains t then .skip else .op (.other t)
  | .op o => .op o
  | .seq p q =>
    match eraseTags tags p, eraseTags tags q with
    | .skip, q' => q'
    | p', .skip => p'
    | p', q' => .seq p' q'
  | .scan l b => .scan l (eraseTags tags b)
  | .alt p q => .alt (eraseTags tags p) (eraseTags tags q)

end AfqmcVerif.Machine
