import Mathlib.Algebra.BigOperators.Group.Finset.Basic
import Mathlib.Algebra.Order.Field.Basic
import Mathlib.Algebra.BigOperators.Ring.Finset

/-!
Model of `ad_afqmc/stat_utils.py` (C19), over any linearly ordered field (executed at ℚ).

Series are functions `ℕ → K` together with a length `n` (entries beyond `n` are never read).
Square roots are avoided: the model carries `error²`; the plateau test `error < 1.05·prev`
is `err² < (1.05)²·prev²` (equivalent for non-negative errors).
-/
namespace AfqmcVerif.Stats
open Finset

variable {K : Type} [Field K] [LinearOrder K]

/-- `weightedEnergies.sum() / weights.sum()` -/
def wmean (w e : ℕ → K) (n : ℕ) : K := (∑ t ∈ range n, w t * e t) / ∑ t ∈ range n, w t

/-- `blockedWeights[j]` for block size `i` -/
def bw (w : ℕ → K) (i j : ℕ) : K := ∑ t ∈ range i, w (j * i + t)

/-- `blockedEnergies[j]` -/
def be (w e : ℕ → K) (i j : ℕ) : K := (∑ t ∈ range i, w (j * i + t) * e (j * i + t)) / bw w i j

/-- the square of `error` for block size `i` on `n` samples -/
def blockErr2 (w e : ℕ → K) (n i : ℕ) : K :=
  let nB := n / i
  let v1 := ∑ j ∈ range nB, bw w i j
  let v2 := ∑ j ∈ range nB, (bw w i j) ^ 2
  let m := (∑ j ∈ range nB, bw w i j * be w e i j) / v1
  (∑ j ∈ range nB, bw w i j * (be w e i j - m) ^ 2) / (v1 - v2 / v1) / ((nB : K) - 1)

def sizes : List ℕ := [1, 2, 5, 10, 20, 50, 100, 200, 300, 400, 500, 1000, 10000]

/-- `blockSizes[blockSizes < nSamples / 2.0]` -/
def admitted (n : ℕ) : List ℕ := sizes.filter fun i => decide (2 * i < n)

/-- one iteration of the plateau search; `c2 = 1.05²`; state = (prevErr², plateauErr²) -/
def plateauStep (c2 : K) (st : K × Option K) (err2 : K) : K × Option K :=
  (err2, if st.2.isNone && decide (err2 < c2 * st.1) then some (max err2 st.1) else st.2)

def plateau (c2 : K) (errs : List K) : Option K := (errs.foldl (plateauStep c2) (0, none)).2

/-- `blocking_analysis` after the `neql` cut has been applied (the driver shifts the series):
returns the mean and the square of the plateau error (`none` = Python `None`) -/
def blocking (c2 : K) (w e : ℕ → K) (n : ℕ) : K × Option K :=
  (wmean w e n, plateau c2 ((admitted n).map (blockErr2 w e n)))

/-! ### jackknife -/

def jkEstimate (num den : ℕ → K) (n i : ℕ) : K :=
  let mn := (∑ t ∈ range n, num t) / (n : K)
  let md := (∑ t ∈ range n, den t) / (n : K)
  ((mn * (n : K) - num i) / ((n : K) - 1)) / ((md * (n : K) - den i) / ((n : K) - 1))

def jkMean (num den : ℕ → K) (n : ℕ) : K := (∑ i ∈ range n, jkEstimate num den n i) / (n : K)

/-- `sigma²` = `(n-1) · var(estimates)` (population variance, as `np.var`) -/
def jkSigma2 (num den : ℕ → K) (n : ℕ) : K :=
  let m := jkMean num den n
  ((n : K) - 1) * ((∑ i ∈ range n, (jkEstimate num den n i - m) ^ 2) / (n : K))

/-! ### outlier rejection -/

/-- NumPy's median of a list (sort; even length: mean of the two middle values) -/
def median (l : List K) : K :=
  let s := l.mergeSort (fun a b => decide (a ≤ b))
  let n := s.length
  if n % 2 = 1 then s.getD (n / 2) 0 else (s.getD (n / 2 - 1) 0 + s.getD (n / 2) 0) / 2

/-- the boolean mask `s < m` of `reject_outliers` (`eps` = the float `1.0e-10`) -/
def keepMask (eps m : K) (x : List K) : List Bool :=
  let med := median x
  let d := x.map fun v => |v - med|
  let mdev := median d + eps
  d.map fun di => decide (di / mdev < m)

end AfqmcVerif.Stats
