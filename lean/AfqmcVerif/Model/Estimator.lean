import Mathlib.Algebra.Order.Field.Basic
import Mathlib.Algebra.BigOperators.Group.List.Basic

/-!
Model of the block estimator in `sampler._block_scan` (C12) over a linearly ordered field:
`energy_samples = where(|Re E_L − e_est| > sqrt(2/dt), e_est, Re E_L)`;
`block_energy = Σ w·e / Σ w`.  The comparison is done on squares (`(e − e_est)² > 2/dt`), which is
equivalent and keeps the model square-root free.  The entry point then returns
`Σ_b E_b W_b / Σ_b W_b` over its blocks.
-/
namespace AfqmcVerif.Estimator

variable {K : Type} [Field K] [LinearOrder K]

/-- the outlier cap: `bound2 = 2/dt` -/
def cap (eEst bound2 e : K) : K := if bound2 < (e - eEst) ^ 2 then eEst else e

def wsum (w e : List K) : K := (List.zipWith (· * ·) w e).sum

/-- one block: weights `w`, real parts of the local energies `e` -/
def blockEnergy (eEst bound2 : K) (w e : List K) : K := wsum w (e.map (cap eEst bound2)) / w.sum

/-- the value returned by an entry point: blocks `(E_b, W_b)` -/
def combine (blocks : List (K × K)) : K :=
  (blocks.map fun b => b.1 * b.2).sum / (blocks.map fun b => b.2).sum

/-- batched evaluation: split the population into `nb` batches of size `bs`, map, concatenate -/
def chunks {α : Type} (bs : Nat) : Nat → List α → List (List α)
  | 0, _ => []
  | nb + 1, l => l.take bs :: chunks bs nb (l.drop bs)

def batched {α β : Type} (f : α → β) (nb bs : Nat) (l : List α) : List β :=
  ((chunks bs nb l).map (List.map f)).flatten

end AfqmcVerif.Estimator
