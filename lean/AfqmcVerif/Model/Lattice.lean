/-
Model of `ad_afqmc/lattices.py` (C20).  Integers only; `Int.emod`/`Int.ediv` coincide with
Python's `%` and `//` for a positive modulus (all side lengths are ≥ 1 here).

The model is *observational*: it reproduces, for each of the four lattice classes, the site
list, the site numbering, the nearest-neighbour list of a position, and the adjacency matrix
built by `create_adjacency_matrix` (the symmetric closure of "q is an in-bounds neighbour of
p").  The pytree round trip is modelled generically in `Model/Dataclass.lean`.

No Mathlib import: this file is also loaded by the line-protocol driver.
-/
namespace AfqmcVerif.Lattice

/-- A lattice as seen by `create_adjacency_matrix`: `n` sites, the position of site `i`,
the site number of a position, its neighbour list, and the bounds test. -/
structure Lat (P : Type) where
  n    : Nat
  site : Nat → P
  num  : P → Int
  nbrs : P → List P
  ok   : P → Bool

variable {P : Type}

def Lat.sites (L : Lat P) : List P := (List.range L.n).map L.site

/-- in-bounds neighbours of site `i`, as site numbers (what the loops write into `h[i, ·]`). -/
def Lat.nbrNums (L : Lat P) (i : Nat) : List Int :=
  ((L.nbrs (L.site i)).filter L.ok).map L.num

/-- entry `h[a, b]` of the adjacency matrix: the loops set `h[i,j] = h[j,i] = 1` for every
site `i` and every in-bounds neighbour `j` of it. -/
def Lat.adj (L : Lat P) (a b : Nat) : Bool :=
  (L.nbrNums a).contains (b : Int) || (L.nbrNums b).contains (a : Int)

def Lat.adjRow (L : Lat P) (a : Nat) : List Nat :=
  (List.range L.n).map fun b => if L.adj a b then 1 else 0

def Lat.rowSum (L : Lat P) (a : Nat) : Nat :=
  ((List.range L.n).filter fun b => L.adj a b).length

/-! ### the four classes -/

abbrev Pos1 := Int  -- (only documentation: the chain uses `Int` directly so that `omega` sees it)
abbrev Pos2 := Int × Int
abbrev Pos3 := Int × Int × Int

/-- `one_dimensional_chain(n_sites)` ; `create_adjacency_matrix` has no bounds test. -/
def chain (n : Nat) : Lat Int where
  n := n
  site := fun i => (i : Int)
  num := fun p => p
  nbrs := fun p => [(p - 1) % (n : Int), (p + 1) % (n : Int)]
  ok := fun _ => true

/-- `two_dimensional_grid(l_x, l_y)`: positions are `(row q ∈ [0,l_y), column r ∈ [0,l_x))`. -/
def grid2 (lx ly : Nat) : Lat Pos2 where
  n := lx * ly
  site := fun i => ((i : Int) / (lx : Int), (i : Int) % (lx : Int))
  num := fun p => p.2 + (lx : Int) * p.1
  nbrs := fun p =>
    [ (p.1, (p.2 + 1) % (lx : Int)), ((p.1 + 1) % (ly : Int), p.2),
      (p.1, (p.2 - 1) % (lx : Int)), ((p.1 - 1) % (ly : Int), p.2) ]
  ok := fun q => decide (0 ≤ q.1) && decide (q.1 < (ly : Int)) && decide (0 ≤ q.2) && decide (q.2 < (lx : Int))

/-- `triangular_grid(l_x, l_y, open_x)`: positions are `(q ∈ [0,l_x), r ∈ [0,l_y))`
(`l_x` is the height, `l_y` the width, as the source comments say). -/
def tri (lx ly : Nat) (openX : Bool) : Lat Pos2 where
  n := lx * ly
  site := fun i => ((i : Int) / (ly : Int), (i : Int) % (ly : Int))
  num := fun p => p.2 + (ly : Int) * p.1
  nbrs := fun p =>
    let X : Int := lx
    let Y : Int := ly
    let n2 := ((p.1 + 1) % X, p.2)
    let n4 := ((p.1 - 1) % X, p.2)
    if openX then
      let n1 := (p.1, p.2 + 1)
      let n3 := (p.1, p.2 - 1)
      if p.1 % 2 = 1 then
        [n1, n2, n3, n4, ((p.1 + 1) % X, p.2 + 1), ((p.1 - 1) % X, p.2 + 1)]
      else
        [n1, n2, n3, n4, ((p.1 + 1) % X, p.2 - 1), ((p.1 - 1) % X, p.2 - 1)]
    else
      [ (p.1, (p.2 + 1) % Y), n2, (p.1, (p.2 - 1) % Y), n4,
        ((p.1 + 1) % X, (p.2 + 1) % Y), ((p.1 - 1) % X, (p.2 - 1) % Y) ]
  ok := fun q => decide (0 ≤ q.1) && decide (q.1 < (lx : Int)) && decide (0 ≤ q.2) && decide (q.2 < (ly : Int))

/-- `three_dimensional_grid(l_x, l_y, l_z)`: positions `(z, y, x)`.  The class has no
`create_adjacency_matrix`; `Lat.adj` is the matrix the generic loop builds from its neighbour
relation (DESIGN §5/C20). -/
def grid3 (lx ly lz : Nat) : Lat Pos3 where
  n := lx * ly * lz
  site := fun i =>
    let X : Int := lx
    let Y : Int := ly
    ((i : Int) / (X * Y), ((i : Int) % (X * Y)) / X, ((i : Int) % (X * Y)) % X)
  num := fun p => p.2.2 + (lx : Int) * p.2.1 + ((lx : Int) * (ly : Int)) * p.1
  nbrs := fun p =>
    let X : Int := lx
    let Y : Int := ly
    let Z : Int := lz
    [ (p.1, (p.2.1 + 1) % Y, p.2.2), ((p.1 + 1) % Z, p.2.1, p.2.2),
      (p.1, (p.2.1 - 1) % Y, p.2.2), ((p.1 - 1) % Z, p.2.1, p.2.2),
      (p.1, p.2.1, (p.2.2 + 1) % X), (p.1, p.2.1, (p.2.2 - 1) % X) ]
  ok := fun q => decide (0 ≤ q.1) && decide (q.1 < (lz : Int)) && decide (0 ≤ q.2.1) &&
    decide (q.2.1 < (ly : Int)) && decide (0 ≤ q.2.2) && decide (q.2.2 < (lx : Int))

end AfqmcVerif.Lattice
