import Mathlib.Algebra.Order.Field.Basic
import Mathlib.Algebra.Order.AbsoluteValue.Basic
import Mathlib.Data.Finset.Card
import Mathlib.Data.Finset.Range

/-!
Model of `ad_afqmc/sr.py` (C07): the systematic-resampling "comb".

Over any linearly ordered field `K` (theorems) and executed at `K = ℚ` (driver); every float64
weight and offset is a dyadic rational, so the model sees exactly the numbers the code saw.

`psum w j`  = `|w_0| + … + |w_{j-1}|`, so `cumAbs w = [psum w 1, …, psum w N]` is
`cumsum(abs(weights))`; `rank c z = #{k | c_k < z}` is `searchsorted(c, z)` (side = "left") on a
sorted array; tooth `i` sits at `z_i = W (i + ζ) / N`.
-/
namespace AfqmcVerif.Comb

variable {K : Type} [Field K] [LinearOrder K]

def psum (w : List K) (j : Nat) : K := ((w.take j).map abs).sum

def total (w : List K) : K := psum w w.length

def cumAbs (w : List K) : List K := (List.range w.length).map fun k => psum w (k + 1)

/-- `searchsorted(c, z)`, side = left, for sorted `c` -/
def rank (c : List K) (z : K) : Nat := c.countP (· < z)

/-- jitted flavour: `total_weight * (arange(n) + zeta) / n` -/
def tooth (w : List K) (ζ : K) (i : Nat) : K := total w * ((i : K) + ζ) / (w.length : K)

/-- NumPy / MPI flavour: `z = (i + zeta) / n ; z * total_weight` -/
def toothNp (w : List K) (ζ : K) (i : Nat) : K := ((i : K) + ζ) / (w.length : K) * total w

def idx (w : List K) (ζ : K) (i : Nat) : Nat := rank (cumAbs w) (tooth w ζ i)

def idxNp (w : List K) (ζ : K) (i : Nat) : Nat := rank (cumAbs w) (toothNp w ζ i)

/-- the index vector `indices` of `stochastic_reconfiguration` -/
def combIdx (w : List K) (ζ : K) : List Nat := (List.range w.length).map (idx w ζ)

def combIdxNp (w : List K) (ζ : K) : List Nat := (List.range w.length).map (idxNp w ζ)

/-- new weights: `ones(n) * total / n` -/
def combWeights (w : List K) : List K := List.replicate w.length (total w / (w.length : K))

/-- restricted container: `walkers[indices]` -/
def resample {α : Type} (walkers : List α) (ix : List Nat) : List (Option α) := ix.map (walkers[·]?)

/-- unrestricted container: both spin blocks are indexed by the *same* index vector -/
def resampleUhf {α : Type} (up dn : List α) (ix : List Nat) : List (Option α) × List (Option α) :=
  (resample up ix, resample dn ix)

/-- number of copies of walker `k` -/
def copies (w : List K) (ζ : K) (k : Nat) : Nat :=
  ((Finset.range w.length).filter fun i => idx w ζ i = k).card

/-! ### MPI gather / scatter protocol (R ranks, equal local population `n`)

Events: rank `r` contributes to the `Gather` (`send r`), the root computes once everything has
arrived (`compute`), the `Scatter` delivers slice `r` (`deliver r`).  The gather buffer is indexed
by rank, not by arrival order. -/

structure MpiState (R : Nat) where
  sent      : Fin R → Bool
  buf       : Fin R → List K           -- root's gather buffer, slot per rank (weights)
  computed  : Option (List Nat × List K) -- global index vector and new weights
  delivered : Fin R → Option (List Nat × List K)

inductive MpiEv (R : Nat)
  | send (r : Fin R)
  | compute
  | deliver (r : Fin R)

def mpiInit (R : Nat) : MpiState (K := K) R :=
  { sent := fun _ => false, buf := fun _ => [], computed := none, delivered := fun _ => none }

def concatBuf {R : Nat} (buf : Fin R → List K) : List K := (List.ofFn buf).flatten

def slice {α : Type} (n r : Nat) (l : List α) : List α := (l.drop (r * n)).take n

/-- one step; `none` = event not enabled in this state (collectives block) -/
def mpiStep {R : Nat} (inp : Fin R → List K) (n : Nat) (ζ : K) (s : MpiState (K := K) R) :
    MpiEv R → Option (MpiState (K := K) R)
  | .send r =>
      if s.sent r then none
      else some { s with sent := fun q => if q = r then true else s.sent q,
                         buf := fun q => if q = r then inp r else s.buf q }
  | .compute =>
      if (List.ofFn s.sent).all id && s.computed.isNone then
        let g := concatBuf s.buf
        some { s with computed := some (combIdxNp g ζ, combWeights g) }
      else none
  | .deliver r =>
      match s.computed, s.delivered r with
      | some (ix, ws), none =>
          some { s with delivered := fun q => if q = r then some (slice n r ix, slice n r ws)
                                              else s.delivered q }
      | _, _ => none

def mpiRun {R : Nat} (inp : Fin R → List K) (n : Nat) (ζ : K) :
    MpiState (K := K) R → List (MpiEv R) → Option (MpiState (K := K) R)
  | s, [] => some s
  | s, e :: es => (mpiStep inp n ζ s e).bind fun s' => mpiRun inp n ζ s' es

end AfqmcVerif.Comb
