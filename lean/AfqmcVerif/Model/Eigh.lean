import Mathlib.Data.Rat.Defs
import Mathlib.Algebra.Order.Field.Rat
import Mathlib.Algebra.Order.Ring.Rat
import Mathlib.Algebra.Order.AbsoluteValue.Basic

/-!
Decision logic of the eigen-decomposition derivative rule `linalg_utils._eigh_jvp` (C18):
`eji = w_j − w_i ; eji = where(eji == 0, 1, eji) ; eji = where(|eji| < thresh, big, eji) ;
 F = 1/eji − eye`.
-/
namespace AfqmcVerif.Eigh

/-- entry `(i, j)` of `Fmat` from the two eigenvalues and whether `i = j` -/
def fEntry (thresh big wi wj : ℚ) (diag : Bool) : ℚ :=
  let e0 := wj - wi
  let e1 := if e0 = 0 then 1 else e0
  let e2 := if |e1| < thresh then big else e1
  1 / e2 - (if diag then 1 else 0)

end AfqmcVerif.Eigh
