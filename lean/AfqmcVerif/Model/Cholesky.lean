import Mathlib.Algebra.Order.Field.Basic
import Mathlib.Algebra.Order.AbsoluteValue.Basic
import Mathlib.Algebra.BigOperators.Group.Finset.Basic
import Mathlib.Data.Fintype.BigOperators

/-!
Square-root-free model of the modified (pivoted, incomplete) Cholesky routines (C17):
`pyscf_interface.modified_cholesky` (NumPy, `eps = 1e-10` inside the square root from the second
vector on), `linalg_utils.modified_cholesky` (JAX, `eps = 0`, fixed number of vectors) and the
shell-chunked variant (same recursion, integrals fetched on demand).

The code stores `L_g = u_g / sqrt(d_g)` with `u_g` the pivot row of the current residual and
`d_g = |residual pivot| + eps`; every quantity it later uses is `L_g[i] L_g[j] = u_g[i] u_g[j] / d_g`,
which is rational.  The model therefore carries the residual matrix `R_k = M − Σ_{g<k} L_g L_gᵀ`
and the pairs `(u_g, d_g)`; `diag − Mapprox` in the code is the diagonal of `R_k` and
`mat[nu] − R` is its row `nu`.
-/
namespace AfqmcVerif.Cholesky

variable {n : ℕ} {K : Type} [Field K] [LinearOrder K]

abbrev Mat (n : ℕ) (K : Type) := Fin n → Fin n → K

/-- one vector: subtract `L Lᵀ` with `L = R[ν,:] / sqrt(|R νν| + ε)` -/
def schurStep (R : Mat n K) (ν : Fin n) (ε : K) : Mat n K :=
  fun i j => R i j - R ν i * R ν j / (|R ν ν| + ε)

/-- `argmax(|d|)`: the first index attaining the maximum (NumPy / JAX convention) -/
def argmaxAbs (d : Fin (n + 1) → K) : Fin (n + 1) :=
  (List.finRange (n + 1)).foldl (fun best i => if |d best| < |d i| then i else best) 0

/-- `argmax(d)` without absolute values (the very first pivot) -/
def argmax (d : Fin (n + 1) → K) : Fin (n + 1) :=
  (List.finRange (n + 1)).foldl (fun best i => if d best < d i then i else best) 0

structure Vec (n : ℕ) (K : Type) where
  piv : Fin n
  u   : Fin n → K     -- pivot row of the residual
  d   : K             -- |pivot| + eps  (the code divides by sqrt d)

/-- reconstruction `Σ_g L_g L_gᵀ` from stored vectors -/
def recon (vs : List (Vec n K)) : Mat n K :=
  fun i j => (vs.map fun v => v.u i * v.u j / v.d).sum

/-- state of the NumPy loop: residual after the *accepted* vectors, the vector computed last (not
yet accepted), the accepted vectors, `delta_max` -/
structure LoopState (n : ℕ) (K : Type) where
  R        : Mat n K            -- M − Σ accepted L Lᵀ
  last     : Vec n K            -- chol_vecs[nchol]
  accepted : List (Vec n K)     -- chol_vecs[:nchol]
  deltaMax : K

def mkVec (R : Mat (n + 1) K) (ν : Fin (n + 1)) (ε : K) : Vec (n + 1) K :=
  { piv := ν, u := fun j => R ν j, d := |R ν ν| + ε }

/-- before the loop: first pivot by `argmax(diag)`, no eps, no abs -/
def loopInit (M : Mat (n + 1) K) : LoopState (n + 1) K :=
  let ν := argmax fun i => M i i
  { R := M, last := { piv := ν, u := fun j => M ν j, d := M ν ν }, accepted := [], deltaMax := M ν ν }

/-- one iteration of `while abs(delta_max) > max_error and nchol + 1 < nchol_max` -/
def loopIter (ε : K) (s : LoopState (n + 1) K) : LoopState (n + 1) K :=
  let R' : Mat (n + 1) K := fun i j => s.R i j - s.last.u i * s.last.u j / s.last.d
  let ν := argmaxAbs fun i => R' i i
  { R := R', last := mkVec R' ν ε, accepted := s.accepted ++ [s.last], deltaMax := |R' ν ν| }

/-- the NumPy routine (after the `fix:` commit): loop with fuel `size`, then keep the last vector
if `delta_max` is still above the threshold -/
def numpyLoop (ε err : K) : ℕ → LoopState (n + 1) K → LoopState (n + 1) K
  | 0, s => s
  | fuel + 1, s =>
    if err < |s.deltaMax| ∧ s.accepted.length + 1 < n + 1 then numpyLoop ε err fuel (loopIter ε s) else s

def numpyChol (ε err : K) (M : Mat (n + 1) K) : List (Vec (n + 1) K) :=
  let s := numpyLoop ε err (n + 1) (loopInit M)
  if err < |s.deltaMax| then s.accepted ++ [s.last] else s.accepted

/-- the JAX routine: exactly `nchol` vectors, eps = 0, no exit test -/
def jaxChol (M : Mat (n + 1) K) : ℕ → LoopState (n + 1) K
  | 0 => loopInit M
  | k + 1 => loopIter 0 (jaxChol M k)

def jaxVecs (M : Mat (n + 1) K) (nchol : ℕ) : List (Vec (n + 1) K) :=
  match nchol with
  | 0 => []
  | k + 1 => let s := jaxChol M k; s.accepted ++ [s.last]

end AfqmcVerif.Cholesky
