import Mathlib.Data.Matrix.Basic
import Mathlib.Algebra.Field.Defs

/-!
# Model of the CPMC rank-two Green's-function update (`update_greens_function`, C10)

Written for `P = Gᵀ` (the code stores `G`); executable over any field (the driver runs it at ℚ on arbitrary
matrices, the theorem `green_update_correct` of `Props/C10.lean` is about these very definitions).
-/
namespace AfqmcVerif.GreenUpdate
variable {m : ℕ} {K : Type} [Field K]

/-- the two scaled rows of an HS update -/
def dvec (i j : Fin m) (ci cj : K) : Fin m → K := fun p => if p = i then ci else if p = j then cj else 0

/-- the overlap ratio of a rank-two update, `calc_overlap_ratio` -/
def ratio2 (Pm : Matrix (Fin m) (Fin m) K) (i j : Fin m) (ci cj : K) : K :=
  (1 + ci * Pm i i) * (1 + cj * Pm j j) - ci * cj * (Pm i j * Pm j i)

/-- `update_greens_function` of `ghf_cpmc` (and, block by block, of `uhf_cpmc`), written for `P = Gᵀ`:
`G'[x,y] = G[x,y] + (c_i/r) G[x,i] (c_j (G_ij sg_j[y] − G_jj sg_i[y]) − sg_i[y])
                  + (c_j/r) G[x,j] (c_i (G_ji sg_i[y] − G_ii sg_j[y]) − sg_j[y])`, `sg_i[y] = G[i,y] − δ_iy` -/
def greenCode (Pm : Matrix (Fin m) (Fin m) K) (i j : Fin m) (ci cj : K) : Matrix (Fin m) (Fin m) K :=
  Matrix.of fun y x =>
    let r := ratio2 Pm i j ci cj
    let sgi := Pm y i - (if y = i then 1 else 0)
    let sgj := Pm y j - (if y = j then 1 else 0)
    Pm y x + (ci / r) * Pm i x * (cj * (Pm j i * sgj - Pm j j * sgi) - sgi)
           + (cj / r) * Pm j x * (ci * (Pm i j * sgi - Pm i i * sgj) - sgj)


end AfqmcVerif.GreenUpdate
