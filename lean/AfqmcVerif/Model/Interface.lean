import Mathlib.Data.Rat.Defs

/-!
# Model of the bookkeeping of the pyscf interface (C16)

`pyscf_interface.prep_afqmc` writes `FCIDUMP_chol` (header `[nelec, nmo, ms, nchol]`), `mo_coeff.npz`,
`amplitudes.npz`; `mpi_jax._prep_afqmc` reads them back.  What is *logic* in that pipeline is modelled
here: electron-count bookkeeping, triangular unpacking of the custom-integral Cholesky vectors, and the
coupled-cluster → CI amplitude conversion.  Numerical linear algebra (SCF, integrals, Cholesky, QR) is
outside this file (`Props/C16.lean` proves the QR phase-fix lemma; C17 covers the Cholesky loop).
-/
namespace AfqmcVerif.Interface

/-- `mpi_jax._prep_afqmc`: `nelec_sp = ((nelec + abs(ms)) // 2, (nelec - abs(ms)) // 2)`
(Python floor division; the divisor is positive, so `Int./` agrees) -/
def nelecSp (nelec ms : Int) : Int × Int := ((nelec + (ms.natAbs : Int)) / 2, (nelec - (ms.natAbs : Int)) / 2)

structure Header where
  nelec : Int
  nmo : Int
  ms : Int
  nchol : Int
  deriving Repr, DecidableEq

/-- header written by `prep_afqmc`: `nelec = sum(mc.nelecas)` (or `sum(mol.nelec)`), `nmo = nao - norb_frozen`,
`ms = mol.spin`; each frozen orbital removes one electron of each spin -/
def header (na nb nao nf nchol : Int) : Header :=
  { nelec := (na - nf) + (nb - nf), nmo := nao - nf, ms := na - nb, nchol := nchol }

/-- lower-triangular packed index used when unpacking `ao2mo.restore(4, …)` Cholesky vectors -/
def tri (m n : Nat) : Nat := m * (m + 1) / 2 + n

/-- the unpacking loop of the custom-integrals path: `chol[i,m,n] = chol[i,n,m] = chol0[i, tri m n]` for `n ≤ m` -/
def unpack (v : Nat → ℚ) (m n : Nat) : ℚ := if n ≤ m then v (tri m n) else v (tri n m)

/-! ### amplitude conversion (functions of index tuples; the driver tabulates them) -/

/-- CCSD → CISD, stored transposed `(0,2,1,3)`: `ci2[i,a,j,b] = t2[i,j,a,b] + t1[i,a] t1[j,b]` -/
def ci2 (t1 : Nat → Nat → ℚ) (t2 : Nat → Nat → Nat → Nat → ℚ) (i a j b : Nat) : ℚ :=
  t2 i j a b + t1 i a * t1 j b

/-- UCCSD same-spin block: `x = t2 + 2 t1⊗t1`, `(x − x.transpose(0,1,3,2))/2`, stored transposed `(0,2,1,3)` -/
def ci2same (t1 : Nat → Nat → ℚ) (t2 : Nat → Nat → Nat → Nat → ℚ) (i a j b : Nat) : ℚ :=
  ((t2 i j a b + 2 * (t1 i a * t1 j b)) - (t2 i j b a + 2 * (t1 i b * t1 j a))) / 2

/-- UCCSD opposite-spin block: `ci2ab[i,a,j,b] = t2ab[i,j,a,b] + t1a[i,a] t1b[j,b]` -/
def ci2ab (t1a t1b : Nat → Nat → ℚ) (t2ab : Nat → Nat → Nat → Nat → ℚ) (i a j b : Nat) : ℚ :=
  t2ab i j a b + t1a i a * t1b j b

end AfqmcVerif.Interface
