/-
Model of the determinant-list bookkeeping of `pyscf_interface.py` (C11): the byte format read by
`read_dets`, the hole/particle extraction and the `parity` loop of `get_excitations`.
Determinants are occupation vectors (`List Bool`), orbitals are list positions.  No Mathlib.
-/
namespace AfqmcVerif.Dets

/-- one spin-orbital pair in a Dice determinant file: '0', 'a', 'b', '2' -/
def encodeOcc : Bool × Bool → Char
  | (false, false) => '0'
  | (true, false) => 'a'
  | (false, true) => 'b'
  | (true, true) => '2'

/-- `read_dets`: 'a' → alpha, 'b' → beta, '2' → both, anything else → empty -/
def decodeOcc (c : Char) : Bool × Bool :=
  if c = 'a' then (true, false) else if c = 'b' then (false, true) else if c = '2' then (true, true) else (false, false)

def encodeDet (a b : List Bool) : List Char := (a.zip b).map encodeOcc
def decodeDet (cs : List Char) : List Bool × List Bool := ((cs.map decodeOcc).map Prod.fst, (cs.map decodeOcc).map Prod.snd)

/-- indices where `d0` is occupied and `d` is not (`np.nonzero((d0 - d) > 0)`: holes) -/
def holes (d0 d : List Bool) : List Nat :=
  (List.range d0.length).filter fun i => d0.getD i false && !(d.getD i false)

/-- indices where `d` is occupied and `d0` is not (particles) -/
def particles (d0 d : List Bool) : List Nat :=
  (List.range d0.length).filter fun i => d.getD i false && !(d0.getD i false)

def countBetween (occ : List Bool) (lo hi : Nat) : Nat :=
  ((List.range occ.length).filter fun i => decide (lo < i) && decide (i < hi) && occ.getD i false).length

def setAt (l : List Bool) (i : Nat) (v : Bool) : List Bool := l.set i v

/-- the `parity` loop: pair the i-th hole with the i-th particle, count occupied orbitals strictly
between them on the *evolving* occupation vector, then move the electron -/
def parityLoop : List Bool → List Nat → List Nat → Int
  | _, [], _ => 1
  | _, _, [] => 1
  | occ, c :: cs, d :: ds =>
    let lo := min c d
    let hi := max c d
    let s : Int := if countBetween occ lo hi % 2 = 1 then -1 else 1
    s * parityLoop (setAt (setAt occ c false) d true) cs ds

def parity (d0 d : List Bool) : Int := parityLoop d0 (holes d0 d) (particles d0 d)

/-! ### the meaning of the sign: reorder the in-place replaced reference string -/

/-- occupied orbitals of the reference, in increasing order -/
def occList (d : List Bool) : List Nat := (List.range d.length).filter fun i => d.getD i false

/-- the reference string with its i-th hole replaced *in place* by the i-th particle -/
def inPlace (d0 d : List Bool) : List Nat :=
  let hs := holes d0 d
  let ps := particles d0 d
  (occList d0).map fun x => match hs.idxOf? x with
    | some k => ps.getD k x
    | none => x

def invCount (l : List Nat) : Nat :=
  match l with
  | [] => 0
  | x :: t => (t.filter fun y => decide (y < x)).length + invCount t

/-- sign of the permutation that sorts the in-place replaced string -/
def sortSign (d0 d : List Bool) : Int := if invCount (inPlace d0 d) % 2 = 1 then -1 else 1

/-- all occupation vectors of length `n` -/
def allOcc : Nat → List (List Bool)
  | 0 => [[]]
  | n + 1 => (allOcc n).flatMap fun l => [false :: l, true :: l]

def popcount (l : List Bool) : Nat := (l.filter id).length

end AfqmcVerif.Dets
