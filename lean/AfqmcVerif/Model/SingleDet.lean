import Mathlib.LinearAlgebra.Matrix.Determinant.Basic
import Mathlib.LinearAlgebra.Matrix.Adjugate
import Mathlib.LinearAlgebra.Matrix.Trace
import Mathlib.LinearAlgebra.Matrix.ConjTranspose
import Mathlib.LinearAlgebra.Matrix.NonsingularInverse
import Mathlib.Algebra.Star.Basic

/-!
Models of the single-determinant trial kinds of `wavefunctions.py` (`rhf`, `uhf`; C01–C03, C13, C15),
written once over any field with a star operation and executed at `K = ℚ(i)`.

Shapes: `m` orbitals, `k` electrons of one spin; trial orbitals `C : m × k`, walker block `W : m × k`,
one-body matrices `m × m`.  The formulas mirror the code:

* `ovlp C W      = det (Cᴴ W)`                                   (`_calc_overlap`)
* `green C W     = (W (Cᴴ W)⁻¹)ᵀ`                                (`_calc_green`, shape `k × m`)
* `rotH C h      = Cᴴ h`, `rotL C L = Cᴴ L`                       (`_build_measurement_intermediates`)
* `fbBlock`      = `einsum("ij,ij->", rot_chol[g], green)`         (`_calc_force_bias`)
* `fMat`         = `rot_chol[g] @ green.T` (`k × k`), `c = tr f`, `exc = Σ f∘fᵀ = tr (f f)`
-/
namespace AfqmcVerif.SingleDet
open Matrix

variable {m k : ℕ} {K : Type} [Field K] [StarRing K]

/-- computable inverse (`Matrix.inv` is noncomputable) -/
def cinv (M : Matrix (Fin k) (Fin k) K) : Matrix (Fin k) (Fin k) K := (M.det)⁻¹ • M.adjugate

def ovlp (C W : Matrix (Fin m) (Fin k) K) : K := (Cᴴ * W).det

def green (C W : Matrix (Fin m) (Fin k) K) : Matrix (Fin k) (Fin m) K := (W * cinv (Cᴴ * W))ᵀ

def rot (C : Matrix (Fin m) (Fin k) K) (X : Matrix (Fin m) (Fin m) K) : Matrix (Fin k) (Fin m) K := Cᴴ * X

/-- `einsum("ij,ij->", R, G)` -/
def contract (R G : Matrix (Fin k) (Fin m) K) : K := ∑ i, ∑ j, R i j * G i j

/-- `rot_chol[g] @ green.T` -/
def fMat (R G : Matrix (Fin k) (Fin m) K) : Matrix (Fin k) (Fin k) K := R * Gᵀ

/-- `sum(f * f.T)` -/
def exch (f : Matrix (Fin k) (Fin k) K) : K := ∑ i, ∑ j, f i j * f j i

/-! ### uhf (and rhf with unrestricted walkers as the special case `C↑ = C↓`) -/

structure Ham (m g : ℕ) (K : Type) where
  h0 : K
  ha : Matrix (Fin m) (Fin m) K       -- h1[0]
  hb : Matrix (Fin m) (Fin m) K       -- h1[1]
  L  : Fin g → Matrix (Fin m) (Fin m) K

variable {ka kb g : ℕ}

def uhfOverlap (Ca : Matrix (Fin m) (Fin ka) K) (Cb : Matrix (Fin m) (Fin kb) K)
    (Wa : Matrix (Fin m) (Fin ka) K) (Wb : Matrix (Fin m) (Fin kb) K) : K := ovlp Ca Wa * ovlp Cb Wb

def uhfForceBias (H : Ham m g K) (Ca : Matrix (Fin m) (Fin ka) K) (Cb : Matrix (Fin m) (Fin kb) K)
    (Wa : Matrix (Fin m) (Fin ka) K) (Wb : Matrix (Fin m) (Fin kb) K) (γ : Fin g) : K :=
  contract (rot Ca (H.L γ)) (green Ca Wa) + contract (rot Cb (H.L γ)) (green Cb Wb)

/-- `uhf._calc_energy` given the two Green's functions (the driver tabulates them once) -/
def uhfEnergyOfGreen (H : Ham m g K) (Ca : Matrix (Fin m) (Fin ka) K) (Cb : Matrix (Fin m) (Fin kb) K)
    (Ga : Matrix (Fin ka) (Fin m) K) (Gb : Matrix (Fin kb) (Fin m) K) : K :=
  let ene1 := contract (rot Ca H.ha) Ga + contract (rot Cb H.hb) Gb
  let ene2 := ∑ γ,
    let fa := fMat (rot Ca (H.L γ)) Ga
    let fb := fMat (rot Cb (H.L γ)) Gb
    (fa.trace * fa.trace + fb.trace * fb.trace + 2 * (fa.trace * fb.trace) - exch fa - exch fb)
  H.h0 + ene1 + ene2 / 2

def uhfEnergy (H : Ham m g K) (Ca : Matrix (Fin m) (Fin ka) K) (Cb : Matrix (Fin m) (Fin kb) K)
    (Wa : Matrix (Fin m) (Fin ka) K) (Wb : Matrix (Fin m) (Fin kb) K) : K :=
  uhfEnergyOfGreen H Ca Cb (green Ca Wa) (green Cb Wb)

/-! ### rhf with restricted walkers -/

def rhfOverlapR (C W : Matrix (Fin m) (Fin k) K) : K := ovlp C W ^ 2

def rhfForceBiasR (H : Ham m g K) (C W : Matrix (Fin m) (Fin k) K) (γ : Fin g) : K :=
  2 * contract (rot C (H.L γ)) (green C W)

/-- `rhf._calc_energy_restricted`; `rot_h1` is built from the spin average of `h1` -/
def rhfEnergyROfGreen (H : Ham m g K) (C : Matrix (Fin m) (Fin k) K) (G : Matrix (Fin k) (Fin m) K) : K :=
  let ene1 := 2 * contract (rot C ((2 : K)⁻¹ • (H.ha + H.hb))) G
  let ene2 := ∑ γ,
    let f := fMat (rot C (H.L γ)) G
    (2 * (f.trace * f.trace) - exch f)
  H.h0 + ene1 + ene2

def rhfEnergyR (H : Ham m g K) (C W : Matrix (Fin m) (Fin k) K) : K :=
  rhfEnergyROfGreen H C (green C W)

end AfqmcVerif.SingleDet
