import AfqmcVerif.Model.Cholesky
import AfqmcVerif.Base.Tab

/-! Tabulated evaluation of the Cholesky loop for the driver (state kept as arrays), with the
proof that it *is* the model's loop: `(execLoop …).toState = numpyLoop …`. -/
set_option linter.unusedSectionVars false
namespace AfqmcVerif.Cholesky
open AfqmcVerif.Tab

variable {n : ℕ} {K : Type} [Field K] [LinearOrder K]

structure Exec (n : ℕ) (K : Type) where
  R   : Array (Array K)
  piv : Fin n
  u   : Array K
  d   : K
  acc : List (Fin n × Array K × K)
  deltaMax : K

def Exec.toState (e : Exec n K) : LoopState n K :=
  { R := ofArr2 e.R, last := { piv := e.piv, u := ofArr1 e.u, d := e.d },
    accepted := e.acc.map fun p => { piv := p.1, u := ofArr1 p.2.1, d := p.2.2 },
    deltaMax := e.deltaMax }

def Exec.ofState (s : LoopState n K) : Exec n K :=
  { R := toArr2 s.R, piv := s.last.piv, u := toArr1 s.last.u, d := s.last.d,
    acc := s.accepted.map fun v => (v.piv, toArr1 v.u, v.d), deltaMax := s.deltaMax }

theorem toState_ofState (s : LoopState n K) : (Exec.ofState s).toState = s := by
  cases s with
  | mk R last acc dm =>
    cases last
    simp only [Exec.ofState, Exec.toState, ofArr2_toArr2, ofArr1_toArr1, List.map_map]
    congr 1
    conv_rhs => rw [← List.map_id acc]
    apply List.map_congr_left
    intro v _
    cases v; simp

def execLoop (ε err : K) : ℕ → Exec (n + 1) K → Exec (n + 1) K
  | 0, e => e
  | fuel + 1, e =>
    if err < |e.deltaMax| ∧ e.acc.length + 1 < n + 1 then
      execLoop ε err fuel (Exec.ofState (loopIter ε e.toState))
    else e

theorem execLoop_eq (ε err : K) (fuel : ℕ) (e : Exec (n + 1) K) :
    (execLoop ε err fuel e).toState = numpyLoop ε err fuel e.toState := by
  induction fuel generalizing e with
  | zero => rfl
  | succ f ih =>
    simp only [execLoop, numpyLoop]
    have hlen : e.toState.accepted.length = e.acc.length := by simp [Exec.toState]
    have hdm : e.toState.deltaMax = e.deltaMax := rfl
    rw [hlen, hdm]
    split
    · rw [ih, toState_ofState]
    · rfl

/-- what the driver runs for the NumPy routine -/
def execNumpy (ε err : K) (M : Mat (n + 1) K) : List (Vec (n + 1) K) × K :=
  let s := (execLoop ε err (n + 1) (Exec.ofState (loopInit M))).toState
  (if err < |s.deltaMax| then s.accepted ++ [s.last] else s.accepted, s.deltaMax)

theorem execNumpy_eq (ε err : K) (M : Mat (n + 1) K) : (execNumpy ε err M).1 = numpyChol ε err M := by
  simp only [execNumpy, numpyChol, execLoop_eq, toState_ofState]

/-- what the driver runs for the JAX routine -/
def execJax (M : Mat (n + 1) K) : ℕ → Exec (n + 1) K
  | 0 => Exec.ofState (loopInit M)
  | k + 1 => Exec.ofState (loopIter 0 (execJax M k).toState)

theorem execJax_eq (M : Mat (n + 1) K) (k : ℕ) : (execJax M k).toState = jaxChol M k := by
  induction k with
  | zero => simp [execJax, jaxChol, toState_ofState]
  | succ k ih => simp [execJax, jaxChol, toState_ofState, ih]

end AfqmcVerif.Cholesky
