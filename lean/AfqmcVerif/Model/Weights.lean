import AfqmcVerif.Base.FVal

/-!
Decision logic of the weight updates (C09), on `FVal` so that NaN, ±∞ and negative raw factors
are covered.

`phaselessStep`: `propagator.propagate` —
  `f = |I|·cos θ ; f = where(isnan f, 0, f) ; f = where(f < 1e-3, 0, f) ; f = where(f > 100, 0, f) ;
   w = f·w ; w = where(w > 100, 0, w)`.
`cpmcClip`: the CPMC propagators' `w = where(w < 1e-8, 0, w)` after `w *= Re(ovlp_new/ovlp_old)`.
-/
namespace AfqmcVerif.Weights
open AfqmcVerif FVal

/-- the three `where`s applied to the raw importance factor -/
def clipFactor (lo hi : ℚ) (f : FVal) : FVal :=
  let f1 := wher f.isNan (fin 0) f
  let f2 := wher (lt f1 (fin lo)) (fin 0) f1
  wher (lt (fin hi) f2) (fin 0) f2

def phaselessStep (lo hi cap : ℚ) (f w : FVal) : FVal :=
  let w1 := mul (clipFactor lo hi f) w
  wher (lt (fin cap) w1) (fin 0) w1

/-- any number of steps with raw factors `fs` -/
def phaselessRun (lo hi cap : ℚ) (w : FVal) (fs : List FVal) : FVal :=
  fs.foldl (fun w f => phaselessStep lo hi cap f w) w

/-- CPMC one-body weight update as written: `w *= r ; w = where(w < eps, 0, w)` -/
def cpmcClip (eps : ℚ) (w r : FVal) : FVal :=
  let w1 := mul w r
  wher (lt w1 (fin eps)) (fin 0) w1

/-- … followed by the final `w = where(w > 100, 0, w)` of the step -/
def cpmcStep (eps cap : ℚ) (w r : FVal) : FVal :=
  let w1 := cpmcClip eps w r
  wher (lt (fin cap) w1) (fin 0) w1

/-- NaN-safe form of the clip: `w = where(w >= eps, w, 0)` -/
def cpmcClipSafe (eps : ℚ) (w r : FVal) : FVal :=
  let w1 := mul w r
  wher (ge w1 (fin eps)) w1 (fin 0)

def cpmcStepSafe (eps cap : ℚ) (w r : FVal) : FVal :=
  let w1 := cpmcClipSafe eps w r
  wher (lt (fin cap) w1) (fin 0) w1

/-- killed-walker bookkeeping: per block `n_killed += size − count_nonzero(weights)`, finally divided
by `n_sr_blocks · n_ene_blocks · n_walkers` -/
def killedCount (ws : List FVal) : Nat := ws.length - (ws.filter fun w => w != fin 0).length

end AfqmcVerif.Weights
