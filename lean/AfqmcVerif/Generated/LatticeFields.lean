/- GENERATED on every run by harness/translate_lattices.py from ad_afqmc/lattices.py — do not edit. -/
import AfqmcVerif.Model.Dataclass
namespace AfqmcVerif.Generated.LatticeFields
open AfqmcVerif.Dataclass

def chainSpec : Spec :=
  { decl := ["n_sites", "shape", "sites", "bonds", "hop_signs", "coord_num"],
    flat := ["n_sites", "shape", "sites", "bonds", "hop_signs", "coord_num"],
    computed := ["shape", "sites", "bonds"],
    reads := ["n_sites"],
    hashed := ["n_sites", "shape", "sites", "bonds"] }
def chainPositional : Bool := true
theorem chainSpec_ok : rtCheck chainSpec = true := by decide
theorem chainPositional_ok : chainPositional = true := by decide

def grid2Spec : Spec :=
  { decl := ["l_x", "l_y", "shape", "shell_distances", "bond_shell_distances", "sites", "bonds", "n_sites", "hop_signs", "coord_num"],
    flat := ["l_x", "l_y", "shape", "shell_distances", "bond_shell_distances", "sites", "bonds", "n_sites", "hop_signs", "coord_num"],
    computed := ["shape", "n_sites", "shell_distances", "sites", "bond_shell_distances", "bonds"],
    reads := ["l_y", "l_x"],
    hashed := ["l_x", "l_y", "shape", "shell_distances", "bond_shell_distances", "sites", "bonds", "coord_num"] }
def grid2Positional : Bool := true
theorem grid2Spec_ok : rtCheck grid2Spec = true := by decide
theorem grid2Positional_ok : grid2Positional = true := by decide

def triSpec : Spec :=
  { decl := ["l_x", "l_y", "shape", "sites", "n_sites", "coord_num", "open_x"],
    flat := ["l_x", "l_y", "shape", "sites", "n_sites", "coord_num", "open_x"],
    computed := ["shape", "n_sites", "sites"],
    reads := ["l_y", "l_x"],
    hashed := ["l_x", "l_y", "shape", "sites", "coord_num"] }
def triPositional : Bool := true
theorem triSpec_ok : rtCheck triSpec = true := by decide
theorem triPositional_ok : triPositional = true := by decide

def grid3Spec : Spec :=
  { decl := ["l_x", "l_y", "l_z", "shape", "shell_distances", "sites", "bonds", "n_sites", "coord_num"],
    flat := ["l_x", "l_y", "l_z", "shape", "shell_distances", "sites", "bonds", "n_sites", "coord_num"],
    computed := ["shape", "n_sites", "shell_distances", "sites"],
    reads := ["l_z", "l_y", "l_x"],
    hashed := ["l_x", "l_y", "l_z", "shape", "shell_distances", "sites", "bonds", "coord_num"] }
def grid3Positional : Bool := true
theorem grid3Spec_ok : rtCheck grid3Spec = true := by decide
theorem grid3Positional_ok : grid3Positional = true := by decide

end AfqmcVerif.Generated.LatticeFields
