/- GENERATED on every run by harness/translate_sampler.py from ad_afqmc/sampling.py and driver.py — do not edit. -/
import AfqmcVerif.Model.Machine
import AfqmcVerif.Lemmas.Machine
namespace AfqmcVerif.Generated.SamplerProg
open AfqmcVerif.Machine

def m__step_scan : Prog := (Prog.op Op.propagate)
def m__step_scan_free : Prog := (Prog.op (Op.clobber "propagate_free"))
def m__block_scan : Prog := (Prog.seq (Prog.op (Op.other "set:key")) (Prog.seq (Prog.scan "n_prop_steps" m__step_scan) (Prog.seq (Prog.op (Op.other "set:n_killed_walkers")) (Prog.seq (Prog.op Op.qr) (Prog.seq (Prog.op Op.refresh) (Prog.seq (Prog.op Op.measure) (Prog.op (Op.other "set:pop_control_ene_shift"))))))))
def m__block_scan_free : Prog := (Prog.seq (Prog.op (Op.other "set:key")) (Prog.seq (Prog.scan "n_prop_steps" m__step_scan_free) (Prog.op Op.measure)))
def m__sr_block_scan : Prog := (Prog.seq (Prog.scan "n_ene_blocks" m__block_scan) (Prog.seq (Prog.op Op.srLocal) (Prog.op Op.refresh)))
def m__ad_block : Prog := (Prog.seq (Prog.op Op.refresh) (Prog.seq (Prog.op (Op.other "set:n_killed_walkers")) (Prog.seq (Prog.op (Op.other "set:pop_control_ene_shift")) (Prog.seq (Prog.scan "n_sr_blocks" m__sr_block_scan) (Prog.op (Op.other "set:n_killed_walkers"))))))
def m_propagate_phaseless_ad : Prog := (Prog.seq (Prog.op (Op.other "optimize")) (Prog.seq (Prog.op (Op.other "build_measurement_intermediates")) (Prog.seq (Prog.op (Op.other "build_propagation_intermediates")) m__ad_block)))
def m_propagate_phaseless_ad_1 : Prog := (Prog.seq (Prog.op (Op.other "modified_cholesky")) (Prog.seq (Prog.op (Op.other "optimize")) (Prog.seq (Prog.op (Op.other "build_measurement_intermediates")) (Prog.seq (Prog.op (Op.other "build_propagation_intermediates")) m__ad_block))))
def m_propagate_phaseless_ad_nosr : Prog := (Prog.seq (Prog.op (Op.other "optimize")) (Prog.seq (Prog.op (Op.other "build_measurement_intermediates")) (Prog.seq (Prog.op (Op.other "build_propagation_intermediates")) (Prog.seq (Prog.op Op.refresh) (Prog.seq (Prog.op (Op.other "set:n_killed_walkers")) (Prog.seq (Prog.op (Op.other "set:pop_control_ene_shift")) (Prog.seq (Prog.scan "n_ene_blocks" m__block_scan) (Prog.op (Op.other "set:n_killed_walkers")))))))))
def m_propagate_phaseless_ad_norot : Prog := (Prog.seq (Prog.op (Op.other "build_measurement_intermediates")) (Prog.seq (Prog.op (Op.other "build_propagation_intermediates")) m__ad_block))
def m_propagate_phaseless_ad_nosr_norot : Prog := (Prog.seq (Prog.op (Op.other "build_measurement_intermediates")) (Prog.seq (Prog.op (Op.other "build_propagation_intermediates")) (Prog.seq (Prog.op Op.refresh) (Prog.seq (Prog.op (Op.other "set:n_killed_walkers")) (Prog.seq (Prog.op (Op.other "set:pop_control_ene_shift")) (Prog.seq (Prog.scan "n_ene_blocks" m__block_scan) (Prog.op (Op.other "set:n_killed_walkers"))))))))
def m_propagate_phaseless : Prog := (Prog.seq (Prog.op Op.refresh) (Prog.seq (Prog.op (Op.other "set:n_killed_walkers")) (Prog.seq (Prog.op (Op.other "set:pop_control_ene_shift")) (Prog.seq (Prog.scan "n_sr_blocks" m__sr_block_scan) (Prog.op (Op.other "set:n_killed_walkers"))))))
def m_propagate_free : Prog := (Prog.seq (Prog.op Op.refresh) (Prog.scan "n_blocks" m__block_scan_free))
def m___hash__ : Prog := Prog.skip

def driver : Prog := (Prog.seq (Prog.op (Op.other "build_measurement_intermediates")) (Prog.seq (Prog.op (Op.other "build_propagation_intermediates")) (Prog.seq (Prog.op (Op.clobber "init_prop_data")) (Prog.seq (Prog.op (Op.other "set:key")) (Prog.seq (Prog.scan "sampler_eq.n_blocks" (Prog.seq m_propagate_phaseless (Prog.seq (Prog.op Op.qr) (Prog.seq (Prog.op Op.srGlobal) (Prog.op (Op.other "set:e_estimate")))))) (Prog.scan "sampler.n_blocks" (Prog.seq (Prog.alt (Prog.alt m_propagate_phaseless_ad_nosr_norot (Prog.alt m_propagate_phaseless_ad_1 (Prog.alt m_propagate_phaseless_ad_norot (Prog.alt m_propagate_phaseless_ad_nosr m_propagate_phaseless_ad)))) (Prog.alt (Prog.alt m_propagate_phaseless_ad_nosr_norot (Prog.alt m_propagate_phaseless_ad_1 (Prog.alt m_propagate_phaseless_ad_norot (Prog.alt m_propagate_phaseless_ad_nosr m_propagate_phaseless_ad)))) (Prog.alt (Prog.alt m_propagate_phaseless_ad_nosr_norot (Prog.alt m_propagate_phaseless_ad_1 (Prog.alt m_propagate_phaseless_ad_norot (Prog.alt m_propagate_phaseless_ad_nosr m_propagate_phaseless_ad)))) m_propagate_phaseless))) (Prog.seq (Prog.op Op.qr) (Prog.seq (Prog.op Op.srGlobal) (Prog.op (Op.other "set:e_estimate")))))))))))

def translationIssues : List String := []
theorem translation_clean : translationIssues = [] := by decide

theorem propagate_phaseless_coherent : (check m_propagate_phaseless Coh.stale).isSome = true := by decide
theorem propagate_phaseless_noClobber : noClobber m_propagate_phaseless = true := by decide
theorem propagate_phaseless_ad_coherent : (check m_propagate_phaseless_ad Coh.stale).isSome = true := by decide
theorem propagate_phaseless_ad_noClobber : noClobber m_propagate_phaseless_ad = true := by decide
theorem propagate_phaseless_ad_1_coherent : (check m_propagate_phaseless_ad_1 Coh.stale).isSome = true := by decide
theorem propagate_phaseless_ad_1_noClobber : noClobber m_propagate_phaseless_ad_1 = true := by decide
theorem propagate_phaseless_ad_nosr_coherent : (check m_propagate_phaseless_ad_nosr Coh.stale).isSome = true := by decide
theorem propagate_phaseless_ad_nosr_noClobber : noClobber m_propagate_phaseless_ad_nosr = true := by decide
theorem propagate_phaseless_ad_norot_coherent : (check m_propagate_phaseless_ad_norot Coh.stale).isSome = true := by decide
theorem propagate_phaseless_ad_norot_noClobber : noClobber m_propagate_phaseless_ad_norot = true := by decide
theorem propagate_phaseless_ad_nosr_norot_coherent : (check m_propagate_phaseless_ad_nosr_norot Coh.stale).isSome = true := by decide
theorem propagate_phaseless_ad_nosr_norot_noClobber : noClobber m_propagate_phaseless_ad_nosr_norot = true := by decide
theorem driver_coherent : (check driver Coh.stale).isSome = true := by decide

/- C12: entry points that must agree differ only by operations that are the identity under the stated hypothesis -/
def optTags : List String := ["optimize"]
def setupTags : List String := ["optimize", "build_measurement_intermediates", "build_propagation_intermediates"]
theorem ad_eq_ad_norot : eraseTags optTags m_propagate_phaseless_ad = eraseTags optTags m_propagate_phaseless_ad_norot := by decide
theorem ad_nosr_eq_ad_nosr_norot : eraseTags optTags m_propagate_phaseless_ad_nosr = eraseTags optTags m_propagate_phaseless_ad_nosr_norot := by decide
theorem ad_norot_eq_plain : eraseTags setupTags m_propagate_phaseless_ad_norot = eraseTags setupTags m_propagate_phaseless := by decide

def entryPoints : List (String × Prog) := [("propagate_phaseless", m_propagate_phaseless), ("propagate_phaseless_ad", m_propagate_phaseless_ad), ("propagate_phaseless_ad_1", m_propagate_phaseless_ad_1), ("propagate_phaseless_ad_nosr", m_propagate_phaseless_ad_nosr), ("propagate_phaseless_ad_norot", m_propagate_phaseless_ad_norot), ("propagate_phaseless_ad_nosr_norot", m_propagate_phaseless_ad_nosr_norot), ("driver", driver)]

end AfqmcVerif.Generated.SamplerProg
