/-!
Tabulation of function-valued vectors / matrices into arrays, so that the drivers evaluate each
intermediate once instead of re-running nested closures.

NOTE (compiler): a definition of function type is eta-expanded to its full arity, so an
`Array.ofFn` hidden *inside* a function-valued definition would be recomputed on every
application.  The arrays are therefore kept as **data** in the drivers' state (`toArr1/2`), and
turned back into functions only by the partial applications `ofArr1 a` / `ofArr2 a`, which capture
the finished array.  `ofArr (toArr f) = f` are theorems, so a tabulated run is provably the
model's run.
-/
namespace AfqmcVerif.Tab

variable {K : Type} [Zero K] {n m : Nat}

def toArr1 (v : Fin n → K) : Array K := Array.ofFn v

def ofArr1 (a : Array K) : Fin n → K := fun i => a.getD i.val 0

@[simp] theorem ofArr1_toArr1 (v : Fin n → K) : ofArr1 (toArr1 v) = v := by
  funext i; simp [ofArr1, toArr1, Array.getD]

def toArr2 (R : Fin n → Fin m → K) : Array (Array K) := Array.ofFn fun i => Array.ofFn (R i)

def ofArr2 (a : Array (Array K)) : Fin n → Fin m → K := fun i j => (a.getD i.val #[]).getD j.val 0

@[simp] theorem ofArr2_toArr2 (R : Fin n → Fin m → K) : ofArr2 (toArr2 R) = R := by
  funext i j; simp [ofArr2, toArr2, Array.getD]

end AfqmcVerif.Tab
