import AfqmcVerif.Base.QI
import AfqmcVerif.Base.RatIO
import Mathlib.Data.Matrix.Basic

/-! QI values and matrices on the line protocol: `re,im` with rationals `n/d`; matrices row-major. -/
namespace AfqmcVerif.Proto
open AfqmcVerif

def parseQI? (s : String) : Option QI :=
  match s.splitOn "," with
  | [a] => (parseRat? a).map fun r => ⟨r, 0⟩
  | [a, b] => match parseRat? a, parseRat? b with
    | some r, some i => some ⟨r, i⟩
    | _, _ => none
  | _ => none

def showQI (z : QI) : String := s!"{showRat z.re},{showRat z.im}"

/-- a token stream -/
structure Toks where
  l : List String

def Toks.nat (t : Toks) : Option (Nat × Toks) :=
  match t.l with
  | x :: r => x.toNat?.map fun n => (n, ⟨r⟩)
  | [] => none

def Toks.qi (t : Toks) : Option (QI × Toks) :=
  match t.l with
  | x :: r => (parseQI? x).map fun z => (z, ⟨r⟩)
  | [] => none

def Toks.mat (t : Toks) (a b : Nat) : Option (Matrix (Fin a) (Fin b) QI × Toks) :=
  let xs := t.l.take (a * b)
  if xs.length ≠ a * b then none else
  match xs.mapM parseQI? with
  | none => none
  | some zs =>
    let arr := zs.toArray
    some (fun i j => arr.getD (i.val * b + j.val) 0, ⟨t.l.drop (a * b)⟩)

end AfqmcVerif.Proto
