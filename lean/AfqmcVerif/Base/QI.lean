import Mathlib.Algebra.Field.MinimalAxioms
import Mathlib.Algebra.Order.Field.Rat
import Mathlib.Algebra.Order.Ring.Rat
import Mathlib.Algebra.Star.Basic
import Mathlib.Tactic.Ring
import Mathlib.Tactic.FieldSimp
import Mathlib.Tactic.Linarith
import Mathlib.Tactic.Positivity

/-!
`QI` = ℚ(i), a computable field with complex conjugation as `star`.  The generic-field models are
executed here: every complex float64 the implementation sees is an element of ℚ(i).
-/
namespace AfqmcVerif

@[ext] structure QI where
  re : ℚ
  im : ℚ
deriving DecidableEq, Repr

namespace QI

instance : Zero QI := ⟨⟨0, 0⟩⟩
instance : One QI := ⟨⟨1, 0⟩⟩
instance : Add QI := ⟨fun a b => ⟨a.re + b.re, a.im + b.im⟩⟩
instance : Neg QI := ⟨fun a => ⟨-a.re, -a.im⟩⟩
instance : Mul QI := ⟨fun a b => ⟨a.re * b.re - a.im * b.im, a.re * b.im + a.im * b.re⟩⟩
instance : Inv QI := ⟨fun a => ⟨a.re / (a.re ^ 2 + a.im ^ 2), -a.im / (a.re ^ 2 + a.im ^ 2)⟩⟩

@[simp] theorem zero_re : (0 : QI).re = 0 := rfl
@[simp] theorem zero_im : (0 : QI).im = 0 := rfl
@[simp] theorem one_re : (1 : QI).re = 1 := rfl
@[simp] theorem one_im : (1 : QI).im = 0 := rfl
@[simp] theorem add_re (a b : QI) : (a + b).re = a.re + b.re := rfl
@[simp] theorem add_im (a b : QI) : (a + b).im = a.im + b.im := rfl
@[simp] theorem neg_re (a : QI) : (-a).re = -a.re := rfl
@[simp] theorem neg_im (a : QI) : (-a).im = -a.im := rfl
@[simp] theorem mul_re (a b : QI) : (a * b).re = a.re * b.re - a.im * b.im := rfl
@[simp] theorem mul_im (a b : QI) : (a * b).im = a.re * b.im + a.im * b.re := rfl
@[simp] theorem inv_re (a : QI) : (a⁻¹).re = a.re / (a.re ^ 2 + a.im ^ 2) := rfl
@[simp] theorem inv_im (a : QI) : (a⁻¹).im = -a.im / (a.re ^ 2 + a.im ^ 2) := rfl

theorem normSq_pos {a : QI} (h : a ≠ 0) : 0 < a.re ^ 2 + a.im ^ 2 := by
  by_contra hn
  have h0 : a.re ^ 2 + a.im ^ 2 = 0 := le_antisymm (not_lt.1 hn) (by positivity)
  have hr : a.re = 0 := by nlinarith [sq_nonneg a.re, sq_nonneg a.im]
  have hi : a.im = 0 := by nlinarith [sq_nonneg a.re, sq_nonneg a.im]
  exact h (QI.ext hr hi)

instance : Field QI :=
  Field.ofMinimalAxioms QI
    (fun a b c => by ext <;> simp <;> ring)
    (fun a => by ext <;> simp)
    (fun a => by ext <;> simp)
    (fun a b c => by ext <;> simp <;> ring)
    (fun a b => by ext <;> simp <;> ring)
    (fun a => by ext <;> simp)
    (fun a h => by
      have hp := normSq_pos h
      ext <;> simp <;> field_simp <;> ring)
    (by ext <;> simp)
    (fun a b c => by ext <;> simp <;> ring)
    ⟨0, 1, by intro h; have := congrArg QI.re h; simp at this⟩

instance : Star QI := ⟨fun a => ⟨a.re, -a.im⟩⟩
@[simp] theorem star_re (a : QI) : (star a).re = a.re := rfl
@[simp] theorem star_im (a : QI) : (star a).im = -a.im := rfl

instance : StarRing QI where
  star_involutive a := by ext <;> simp
  star_mul a b := by ext <;> simp <;> ring
  star_add a b := by ext <;> simp <;> ring

def ofRat (q : ℚ) : QI := ⟨q, 0⟩
def I : QI := ⟨0, 1⟩

end QI
end AfqmcVerif
