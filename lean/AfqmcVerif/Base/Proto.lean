/-
Line protocol shared by the drivers: one operation per input line, whitespace-separated tokens,
integers as decimal literals, rationals as `n/d` or `n`.  One output line per input line.
-/
namespace AfqmcVerif.Proto

def tokens (line : String) : List String :=
  (line.splitOn " ").filter (fun t => t ≠ "" && t ≠ "\n") |>.map (fun t => t.trimAscii.toString) |>.filter (· ≠ "")

def parseInt? (s : String) : Option Int := s.toInt?

def parseNat? (s : String) : Option Nat := s.toNat?

def showList {α} (f : α → String) (l : List α) : String :=
  "[" ++ ",".intercalate (l.map f) ++ "]"

def showPair (p : Int × Int) : String := s!"({p.1},{p.2})"
def showTriple (p : Int × Int × Int) : String := s!"({p.1},{p.2.1},{p.2.2})"

partial def loop (h : IO.FS.Stream) (step : String → String) : IO Unit := do
  let line ← h.getLine
  if line.isEmpty then return ()
  let t := line.trimAscii.toString
  if t.isEmpty then loop h step
  else
    IO.println (step t)
    loop h step

def run (step : String → String) : IO Unit := do
  loop (← IO.getStdin) step

end AfqmcVerif.Proto
