import Mathlib.Data.Rat.Defs
import AfqmcVerif.Base.Proto

/-! rationals on the line protocol: `n/d` or `n` -/
namespace AfqmcVerif.Proto

def parseRat? (s : String) : Option ℚ :=
  match s.splitOn "/" with
  | [n] => n.toInt?.map fun n => (n : ℚ)
  | [n, d] =>
    match n.toInt?, d.toNat? with
    | some n, some d => if d = 0 then none else some (mkRat n d)
    | _, _ => none
  | _ => none

def showRat (q : ℚ) : String :=
  if q.den = 1 then toString q.num else s!"{q.num}/{q.den}"

def parseRats? (l : List String) : Option (List ℚ) := l.mapM parseRat?

end AfqmcVerif.Proto
