import Mathlib.Data.Rat.Defs
import Mathlib.Algebra.Order.Ring.Rat
import Mathlib.Algebra.Order.Field.Rat

/-!
IEEE-like values: finite rationals, ±∞ and NaN, with the comparison semantics of IEEE-754 (every
ordered comparison involving NaN is false) and the arithmetic needed by the weight updates.
Used where a property is *about* NaN / overflow handling (C09).  Rounding is not modelled.
-/
namespace AfqmcVerif

inductive FVal
  | fin (q : ℚ)
  | pinf
  | ninf
  | nan
deriving DecidableEq, Repr

namespace FVal

def isNan : FVal → Bool
  | nan => true
  | _ => false

def isFinite : FVal → Bool
  | fin _ => true
  | _ => false

/-- IEEE `<` -/
def lt : FVal → FVal → Bool
  | fin a, fin b => decide (a < b)
  | fin _, pinf => true
  | ninf, fin _ => true
  | ninf, pinf => true
  | _, _ => false

/-- IEEE `>=` (not the negation of `<`: false on NaN) -/
def ge : FVal → FVal → Bool
  | fin a, fin b => decide (b ≤ a)
  | pinf, fin _ => true
  | fin _, ninf => true
  | pinf, ninf => true
  | pinf, pinf => true
  | ninf, ninf => true
  | _, _ => false

def sgn (q : ℚ) : Int := if 0 < q then 1 else if q < 0 then -1 else 0

/-- IEEE multiplication (no rounding, no overflow of finite products) -/
def mul : FVal → FVal → FVal
  | nan, _ => nan
  | _, nan => nan
  | fin a, fin b => fin (a * b)
  | fin a, pinf => if a = 0 then nan else if 0 < a then pinf else ninf
  | fin a, ninf => if a = 0 then nan else if 0 < a then ninf else pinf
  | pinf, fin b => if b = 0 then nan else if 0 < b then pinf else ninf
  | ninf, fin b => if b = 0 then nan else if 0 < b then ninf else pinf
  | pinf, pinf => pinf
  | ninf, ninf => pinf
  | pinf, ninf => ninf
  | ninf, pinf => ninf

/-- `jnp.where(c, a, b)` on one element -/
def wher (c : Bool) (a b : FVal) : FVal := if c then a else b

end FVal
end AfqmcVerif
