import AfqmcVerif.Model.Interface
import Mathlib.LinearAlgebra.Matrix.Block
import Mathlib.LinearAlgebra.Matrix.NonsingularInverse
import Mathlib.Algebra.Order.Field.Basic
import Mathlib.Data.Sign.Basic
import Mathlib.Tactic.Ring
import Mathlib.Tactic.Linarith
import Mathlib.Tactic.FieldSimp

/-!
# C16 — the pyscf interface writes the molecule's Hamiltonian and a consistent trial (partial)

What is *logic* in `prep_afqmc` / `_prep_afqmc` and is proved for every input:

* **electron counts**: the header `[nelec, nmo, ms, nchol]` is inverted by `nelec_sp` to the per-spin
  counts `(n_α − n_f, n_β − n_f)` for every `n_f ≤ n_β ≤ n_α` (and to the *swapped* pair for negative
  `ms` — the `abs`);
* **triangular unpacking** of the custom-integral Cholesky vectors: `tri` is a bijection from
  `{(m,n) | n ≤ m < N}` onto `[0, N(N+1)/2)`, and the unpacked matrix is symmetric;
* **QR phase fix** (ROHF/UHF trial coefficients): if `M = basisᵀ S mo` is orthogonal, any factorisation
  `M = Q R` with `Q` orthogonal and `R` upper triangular has `R` diagonal with entries `±1`, and
  `Q · diag(sign r_ii) = M`: the written coefficients are pyscf's MOs in the AFQMC basis *with their own
  phases* (the gauge in which the UCCSD amplitudes are expressed);
* **amplitude conversion**: the same-spin block is `t2 + t1∧t1` and antisymmetric in both index pairs
  whenever `t2` is; the restricted block keeps the pair symmetry of `t2`.

Not proved (validated on the implementation by the harness): SCF/integral/Cholesky numerics, that the
mixed energy of the CISD/UCISD trial at the reference equals the CC energy, FCI agreement.
-/
namespace AfqmcVerif.Props.C16
open AfqmcVerif.Interface Matrix

/-! ## electron counts -/

/-- the header of an open- or closed-shell molecule (`n_β ≤ n_α`, pyscf's `mol.spin ≥ 0`) is read back
as `(n_α, n_β)` -/
theorem nelecSp_roundtrip (na nb : Int) (_hb : 0 ≤ nb) (h : nb ≤ na) :
    nelecSp (na + nb) (na - nb) = (na, nb) := by
  unfold nelecSp
  have : ((na - nb).natAbs : Int) = na - nb := by omega
  rw [this]
  refine Prod.ext ?_ ?_ <;> simp <;> omega

/-- … with any number of frozen core orbitals `n_f ≤ n_β` -/
theorem header_roundtrip (na nb nao nf nchol : Int) (_hf : 0 ≤ nf) (hfb : nf ≤ nb) (h : nb ≤ na) :
    let hd := header na nb nao nf nchol
    nelecSp hd.nelec hd.ms = (na - nf, nb - nf) ∧ hd.nmo = nao - nf ∧ hd.nchol = nchol := by
  intro hd
  refine ⟨?_, rfl, rfl⟩
  have := nelecSp_roundtrip (na - nf) (nb - nf) (by omega) (by omega)
  simpa [hd, header, show na - nf - (nb - nf) = na - nb by ring] using this

/-- negative `ms` is read as its absolute value: the counts come back swapped (larger first) -/
theorem nelecSp_negative_ms (na nb : Int) (_ha : 0 ≤ na) (h : na ≤ nb) :
    nelecSp (na + nb) (na - nb) = (nb, na) := by
  unfold nelecSp
  have : ((na - nb).natAbs : Int) = nb - na := by omega
  rw [this]
  refine Prod.ext ?_ ?_ <;> simp <;> omega

/-- the guard `2 n_f < n_α + n_β` of `prep_afqmc` is weaker than `n_f ≤ n_β` (what the round trip needs) -/
theorem guard_is_weaker : ∃ na nb nf : Int, 2 * nf < na + nb ∧ ¬ nf ≤ nb := ⟨3, 0, 1, by decide, by decide⟩

/-! ## triangular unpacking -/

theorem two_tri (m : Nat) : 2 * (m * (m + 1) / 2) = m * (m + 1) := by
  have h : 2 ∣ m * (m + 1) := (Nat.even_mul_succ_self m).two_dvd
  omega

theorem tri_succ (m : Nat) : tri (m + 1) 0 = tri m m + 1 := by
  unfold tri
  have h1 := two_tri m
  have h2 := two_tri (m + 1)
  have : (m + 1) * (m + 1 + 1) = m * (m + 1) + 2 * (m + 1) := by ring
  omega

theorem tri_mono_row {m m' : Nat} (h : m < m') : tri m m < tri m' 0 := by
  induction m' with
  | zero => omega
  | succ k ih =>
    rw [tri_succ]
    rcases Nat.lt_succ_iff_lt_or_eq.1 h with h' | h'
    · have := ih h'
      have : tri k 0 ≤ tri k k := by unfold tri; omega
      omega
    · subst h'; omega

/-- distinct admissible index pairs are stored at distinct packed positions -/
theorem tri_inj {m n m' n' : Nat} (hn : n ≤ m) (hn' : n' ≤ m') (h : tri m n = tri m' n') : m = m' ∧ n = n' := by
  have key : ∀ {a b a' b' : Nat}, b ≤ a → b' ≤ a' → a < a' → tri a b < tri a' b' := by
    intro a b a' b' hb _ hlt
    have h1 := tri_mono_row hlt
    have h2 : tri a b ≤ tri a a := by unfold tri; omega
    have h3 : tri a' 0 ≤ tri a' b' := by unfold tri; omega
    omega
  rcases Nat.lt_trichotomy m m' with hlt | heq | hgt
  · have := key hn hn' hlt; omega
  · subst heq; refine ⟨rfl, ?_⟩; unfold tri at h; omega
  · have := key hn' hn hgt; omega

/-- packed positions of an `N × N` symmetric matrix stay inside the `N(N+1)/2` buffer -/
theorem tri_lt {N m n : Nat} (hn : n ≤ m) (hm : m < N) : tri m n < N * (N + 1) / 2 := by
  have h1 : tri m n ≤ tri m m := by unfold tri; omega
  have h2 : tri m m < tri N 0 := tri_mono_row hm
  have : tri N 0 = N * (N + 1) / 2 := by unfold tri; omega
  omega

/-- every packed position is read by some admissible pair -/
theorem tri_surj (N : Nat) : ∀ k, k < N * (N + 1) / 2 → ∃ m n, n ≤ m ∧ m < N ∧ tri m n = k := by
  induction N with
  | zero => intro k hk; simp at hk
  | succ N ih =>
    intro k hk
    have hN : tri N 0 = N * (N + 1) / 2 := by unfold tri; omega
    have hN1 : tri (N + 1) 0 = (N + 1) * (N + 1 + 1) / 2 := by unfold tri; omega
    by_cases hlt : k < N * (N + 1) / 2
    · obtain ⟨m, n, h1, h2, h3⟩ := ih k hlt
      exact ⟨m, n, h1, by omega, h3⟩
    · refine ⟨N, k - tri N 0, ?_, by omega, ?_⟩
      · have := tri_succ N
        have : tri N N = tri N 0 + N := by unfold tri; omega
        omega
      · unfold tri at *; omega

theorem unpack_symm (v : Nat → ℚ) (m n : Nat) : unpack v m n = unpack v n m := by
  unfold unpack
  by_cases h1 : n ≤ m <;> by_cases h2 : m ≤ n <;> simp [h1, h2]
  · have : m = n := by omega
    subst this; rfl
  · omega

/-! ## QR phase fix -/

section qr
variable {n : ℕ} {K : Type} [Field K] [LinearOrder K] [IsStrictOrderedRing K]

/-- an orthogonal upper-triangular matrix is diagonal -/
theorem upper_orthogonal_diagonal (R : Matrix (Fin n) (Fin n) K) (hR : R.BlockTriangular id) (hO : Rᵀ * R = 1)
    {i j : Fin n} (hij : i ≠ j) : R i j = 0 := by
  have hinv : Invertible R := _root_.invertibleOfLeftInverse R Rᵀ hO
  have hRinv : R⁻¹ = Rᵀ := Matrix.inv_eq_left_inv hO
  have hup : R⁻¹.BlockTriangular id := Matrix.blockTriangular_inv_of_blockTriangular hR
  rcases lt_or_gt_of_ne hij with h | h
  · -- i < j : look at (R⁻¹) j i = Rᵀ j i = R i j, below the diagonal of the upper-triangular inverse
    have := hup (i := j) (j := i) h
    rw [hRinv, Matrix.transpose_apply] at this
    exact this
  · exact hR h

/-- … with diagonal entries of square one -/
theorem upper_orthogonal_diag_sq (R : Matrix (Fin n) (Fin n) K) (hR : R.BlockTriangular id) (hO : Rᵀ * R = 1)
    (i : Fin n) : R i i * R i i = 1 := by
  have h := congrFun (congrFun hO i) i
  rw [Matrix.mul_apply, Matrix.one_apply_eq] at h
  rw [Finset.sum_eq_single i] at h
  · simpa [Matrix.transpose_apply] using h
  · intro k _ hk
    simp [Matrix.transpose_apply, upper_orthogonal_diagonal R hR hO hk]
  · simp

/-- **the phase fix restores the input**: `M` orthogonal, `M = Q R`, `Q` orthogonal, `R` upper triangular
⇒ `Q · diag(sign r_ii) = M`.  (`sign` as a field element: `1`, `0` or `-1`.) -/
theorem qr_sign_fix (M Q R : Matrix (Fin n) (Fin n) K) (hM : Mᵀ * M = 1) (hQ : Qᵀ * Q = 1)
    (hR : R.BlockTriangular id) (hQR : Q * R = M) :
    Q * Matrix.diagonal (fun i => ((SignType.sign (R i i) : SignType) : K)) = M := by
  have hQ' : Q * Qᵀ = 1 := mul_eq_one_comm.1 hQ
  have hRO : Rᵀ * R = 1 := by
    have : R = Qᵀ * M := by rw [← hQR, ← Matrix.mul_assoc, hQ, Matrix.one_mul]
    rw [this, Matrix.transpose_mul, Matrix.transpose_transpose, Matrix.mul_assoc, ← Matrix.mul_assoc Q, hQ',
      Matrix.one_mul, hM]
  have hdiag : Matrix.diagonal (fun i => ((SignType.sign (R i i) : SignType) : K)) = R := by
    ext i j
    by_cases hij : i = j
    · subst hij
      rw [Matrix.diagonal_apply_eq]
      have hsq := upper_orthogonal_diag_sq R hR hRO i
      rcases lt_trichotomy (R i i) 0 with hneg | hz | hpos
      · rw [sign_neg hneg]
        have : (R i i + 1) * (R i i - 1) = 0 := by ring_nf; linarith
        rcases mul_eq_zero.1 this with h | h
        · simp; linarith
        · exfalso; linarith
      · rw [hz] at hsq; simp at hsq
      · rw [sign_pos hpos]
        have : (R i i + 1) * (R i i - 1) = 0 := by ring_nf; linarith
        rcases mul_eq_zero.1 this with h | h
        · exfalso; linarith
        · simp; linarith
    · rw [Matrix.diagonal_apply_ne _ hij, upper_orthogonal_diagonal R hR hRO hij]
  rw [hdiag, hQR]

end qr

/-! ## amplitude conversion -/

/-- same-spin block, closed form for antisymmetric `t2`: `t2 + t1 ∧ t1` -/
theorem ci2same_closed (t1 : Nat → Nat → ℚ) (t2 : Nat → Nat → Nat → Nat → ℚ)
    (hanti : ∀ i j a b, t2 i j b a = -t2 i j a b) (i a j b : Nat) :
    ci2same t1 t2 i a j b = t2 i j a b + t1 i a * t1 j b - t1 i b * t1 j a := by
  unfold ci2same; rw [hanti]; ring

/-- the same-spin block is antisymmetric in the virtual pair for *any* input … -/
theorem ci2same_antisymm_virt (t1 : Nat → Nat → ℚ) (t2 : Nat → Nat → Nat → Nat → ℚ) (i a j b : Nat) :
    ci2same t1 t2 i b j a = -ci2same t1 t2 i a j b := by
  unfold ci2same; ring

/-- … and in the occupied pair when `t2` is antisymmetric in each pair -/
theorem ci2same_antisymm_occ (t1 : Nat → Nat → ℚ) (t2 : Nat → Nat → Nat → Nat → ℚ)
    (_hv : ∀ i j a b, t2 i j b a = -t2 i j a b) (ho : ∀ i j a b, t2 j i a b = -t2 i j a b) (i a j b : Nat) :
    ci2same t1 t2 j a i b = -ci2same t1 t2 i a j b := by
  unfold ci2same; rw [ho i j a b, ho i j b a]; ring

/-- restricted block keeps the pair-exchange symmetry of `t2` -/
theorem ci2_pair_symm (t1 : Nat → Nat → ℚ) (t2 : Nat → Nat → Nat → Nat → ℚ)
    (hs : ∀ i j a b, t2 j i b a = t2 i j a b) (i a j b : Nat) :
    ci2 t1 t2 j b i a = ci2 t1 t2 i a j b := by
  unfold ci2; rw [hs]; ring

/-- without singles the CI doubles are the CC doubles (both conversions) -/
theorem ci2_no_singles (t2 : Nat → Nat → Nat → Nat → ℚ) (i a j b : Nat) :
    ci2 (fun _ _ => 0) t2 i a j b = t2 i j a b ∧ ci2ab (fun _ _ => 0) (fun _ _ => 0) t2 i a j b = t2 i j a b := by
  unfold ci2 ci2ab; simp

/-! non-vacuity: a concrete header and a concrete orthogonal factorisation meet the hypotheses -/
example : nelecSp (header 5 4 11 1 30).nelec (header 5 4 11 1 30).ms = (4, 3) := by decide
example : (!![(-1 : ℚ), 0; 0, 1] : Matrix (Fin 2) (Fin 2) ℚ)ᵀ * !![(-1 : ℚ), 0; 0, 1] = 1 := by
  ext i j; fin_cases i <;> fin_cases j <;> simp [Matrix.mul_apply, Fin.sum_univ_two]

end AfqmcVerif.Props.C16
