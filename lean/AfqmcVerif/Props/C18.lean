import AfqmcVerif.Model.Eigh
import Mathlib.LinearAlgebra.Matrix.Trace
import Mathlib.Data.Matrix.Mul
import Mathlib.Tactic.Linarith
import Mathlib.Tactic.FieldSimp
import Mathlib.Tactic.Ring
import Mathlib.Tactic.LinearCombination
import Mathlib.Algebra.Order.Field.Basic
import Mathlib.Algebra.Order.Ring.Abs

/-!
# C18 — trial optimisation: the eigen-derivative rule and orthonormal output

(a) `_eigh` JVP: for a non-degenerate spectrum the rule's `(dw, dV)` satisfy the first-order
eigen-equations `A dV + Ȧ V = dV diag(w) + V diag(dw)` and `Vᵀ dV + dVᵀ V = 0` (all sizes);
for **every** spectrum, degenerate or not, every entry of `F` is bounded by `1/thresh` (finite).
(b) selecting columns of an orthogonal matrix and flipping signs gives orthonormal columns.
Convergence of the Roothaan iteration is not a theorem (compared with an independent SCF by the tie).
-/
set_option linter.unusedSectionVars false
namespace AfqmcVerif.Props.C18
open AfqmcVerif.Eigh Matrix

/-! ## (a) finite for every spectrum -/

theorem inv_abs_le (thresh e : ℚ) (ht : 0 < thresh) (he : thresh ≤ |e|) : |1 / e| ≤ 1 / thresh := by
  have hpos : 0 < |e| := lt_of_lt_of_le ht he
  rw [abs_div, abs_one]
  exact one_div_le_one_div_of_le ht he

theorem entry_bound (thresh e : ℚ) (d : ℚ) (ht : 0 < thresh) (he : thresh ≤ |e|) (hd : |d| ≤ 1) :
    |1 / e - d| ≤ 1 / thresh + 1 :=
  calc |1 / e - d| ≤ |1 / e| + |d| := abs_sub _ _
    _ ≤ 1 / thresh + 1 := add_le_add (inv_abs_le thresh e ht he) hd

theorem fEntry_bounded (thresh big wi wj : ℚ) (diag : Bool) (ht : 0 < thresh) (ht1 : thresh ≤ 1)
    (hbig : thresh ≤ big) : |fEntry thresh big wi wj diag| ≤ 1 / thresh + 1 := by
  have hd : |(if diag then (1 : ℚ) else 0)| ≤ 1 := by cases diag <;> simp
  have hbig' : thresh ≤ |big| := by rw [abs_of_pos (lt_of_lt_of_le ht hbig)]; exact hbig
  have hone : thresh ≤ |(1 : ℚ)| := by rw [abs_one]; exact ht1
  unfold fEntry
  by_cases h0 : wj - wi = 0
  · by_cases h1 : |(1 : ℚ)| < thresh
    · simp only [h0, if_true, h1]; exact entry_bound thresh big _ ht hbig' hd
    · simp only [h0, if_true, h1, if_false]; exact entry_bound thresh 1 _ ht hone hd
  · by_cases h1 : |wj - wi| < thresh
    · simp only [h0, if_false, h1, if_true]; exact entry_bound thresh big _ ht hbig' hd
    · simp only [h0, if_false, h1]; exact entry_bound thresh (wj - wi) _ ht (not_lt.1 h1) hd

/-- exactly degenerate pair: the entry is `1` off the diagonal and `0` on it (finite) -/
theorem fEntry_degenerate (thresh big w : ℚ) (ht : thresh ≤ 1) :
    fEntry thresh big w w true = 0 ∧ fEntry thresh big w w false = 1 := by
  unfold fEntry
  have h : ¬ |(1 : ℚ)| < thresh := by rw [abs_one]; exact not_lt.2 ht
  simp only [sub_self, if_true, h, if_false]
  norm_num

/-- well separated pair: the entry is the textbook `1/(w_j − w_i)` -/
theorem fEntry_separated (thresh big wi wj : ℚ) (hsep : thresh ≤ |wj - wi|) (ht : 0 < thresh) :
    fEntry thresh big wi wj false = 1 / (wj - wi) := by
  unfold fEntry
  have h0 : wj - wi ≠ 0 := by
    intro h; rw [h, abs_zero] at hsep; linarith
  simp [h0, not_lt.2 hsep]

/-! ## (a) the rule is the first-order eigen-derivative -/

variable {n : ℕ} {K : Type} [Field K]

/-- Hadamard product -/
def had (F B : Matrix (Fin n) (Fin n) K) : Matrix (Fin n) (Fin n) K := Matrix.of fun i j => F i j * B i j

/-- **the JVP rule satisfies the linearised eigen-equation.**  `A V = V diag w`, `V Vᵀ = 1`,
`F_ij = 1/(w_j − w_i)` off the diagonal and `0` on it (non-degenerate spectrum),
`B = Vᵀ Ȧ V`, `dw = diag B`, `dV = V (F ∘ B)`.  Then
`A dV + Ȧ V = dV diag(w) + V diag(dw)`. -/
theorem eigh_rule_first_order (A Ad V : Matrix (Fin n) (Fin n) K) (w : Fin n → K)
    (F : Matrix (Fin n) (Fin n) K)
    (hAV : A * V = V * Matrix.diagonal w) (hVVt : V * Vᵀ = 1)
    (hF : ∀ i j, i ≠ j → F i j * (w j - w i) = 1) (hFd : ∀ i, F i i = 0) :
    let B := Vᵀ * Ad * V
    let dV := V * had F B
    let dw := fun i => B i i
    A * dV + Ad * V = dV * Matrix.diagonal w + V * Matrix.diagonal dw := by
  intro B dV dw
  have h1 : A * dV = V * (Matrix.diagonal w * had F B) := by
    simp only [dV]; rw [← Matrix.mul_assoc, hAV, Matrix.mul_assoc]
  have h2 : Ad * V = V * B := by
    simp only [B]; rw [← Matrix.mul_assoc, ← Matrix.mul_assoc, hVVt, Matrix.one_mul]
  have h3 : dV * Matrix.diagonal w = V * (had F B * Matrix.diagonal w) := by
    simp only [dV]; rw [Matrix.mul_assoc]
  rw [h1, h2, h3, ← Matrix.mul_add, ← Matrix.mul_add]
  congr 1
  ext i j
  simp only [Matrix.add_apply, Matrix.diagonal_mul, Matrix.mul_diagonal, had, Matrix.of_apply, Matrix.diagonal_apply, dw]
  by_cases hij : i = j
  · subst hij; simp [hFd]
  · simp only [hij, if_false, add_zero]
    have := hF i j hij
    linear_combination (-(B i j)) * this

/-- … and keeps the eigenvectors orthonormal to first order: `Vᵀ dV` is antisymmetric -/
theorem eigh_rule_orthogonality (Ad V : Matrix (Fin n) (Fin n) K) (F : Matrix (Fin n) (Fin n) K)
    (hVtV : Vᵀ * V = 1) (hAd : Adᵀ = Ad) (hFa : ∀ i j, F j i = -F i j) :
    let B := Vᵀ * Ad * V
    let dV := V * had F B
    Vᵀ * dV + (Vᵀ * dV)ᵀ = 0 := by
  intro B dV
  have hB : Bᵀ = B := by
    simp only [B]; rw [Matrix.transpose_mul, Matrix.transpose_mul, Matrix.transpose_transpose, hAd, Matrix.mul_assoc]
  have h : Vᵀ * dV = had F B := by
    simp only [dV]; rw [← Matrix.mul_assoc, hVtV, Matrix.one_mul]
  rw [h]
  ext i j
  have hBij : B j i = B i j := by
    have := congrFun (congrFun hB i) j; simpa [Matrix.transpose_apply] using this
  simp [had, Matrix.transpose_apply, hFa i j, hBij]

/-! ## (b) orthonormal occupied orbitals -/

/-- choosing distinct columns of a matrix with orthonormal columns and flipping their signs
(aufbau selection + sign gauge of the SCF iteration) gives orthonormal columns -/
theorem selected_columns_orthonormal {k : ℕ} (V : Matrix (Fin n) (Fin n) K) (hV : Vᵀ * V = 1)
    (σ : Fin k → Fin n) (hσ : Function.Injective σ) (s : Fin k → K) (hs : ∀ a, s a * s a = 1) :
    let C : Matrix (Fin n) (Fin k) K := Matrix.of fun p a => s a * V p (σ a)
    Cᵀ * C = 1 := by
  intro C
  ext a b
  have hab : (Vᵀ * V) (σ a) (σ b) = (1 : Matrix (Fin n) (Fin n) K) (σ a) (σ b) := by rw [hV]
  simp only [Matrix.mul_apply, Matrix.transpose_apply] at hab
  simp only [Matrix.mul_apply, Matrix.transpose_apply, C, Matrix.of_apply]
  have : ∑ p, s a * V p (σ a) * (s b * V p (σ b)) = s a * s b * ∑ p, V p (σ a) * V p (σ b) := by
    rw [Finset.mul_sum]; exact Finset.sum_congr rfl fun p _ => by ring
  rw [this, hab]
  by_cases h : a = b
  · subst h; simp [hs]
  · have : σ a ≠ σ b := fun e => h (hσ e)
    simp [Matrix.one_apply, h, this]

/-! ## the jit cache in front of `optimize` (and of every method with `static_argnums=0`)

`jax.jit` with the trial object as a static argument keeps one compiled executable per object *up to the object's
`__eq__`/`__hash__`*: a later call with an object that compares equal reuses the executable traced for the earlier one.
Model: the cache is a list of `(object, executable)` pairs, searched with the object's own equality. -/
section jit
variable {O X Y : Type}

/-- one call through the cache: reuse the first entry whose object compares equal, otherwise trace and remember -/
def jitCall (eqv : O → O → Bool) (compile : O → X → Y) (cache : List (O × (X → Y))) (o : O) (x : X) :
    List (O × (X → Y)) × Y :=
  match cache.find? (fun en => eqv o en.1) with
  | some en => (cache, en.2 x)
  | none => ((o, compile o) :: cache, compile o x)

/-- run a history of calls, collecting the results -/
def jitRun (eqv : O → O → Bool) (compile : O → X → Y) :
    List (O × (X → Y)) → List (O × X) → List Y
  | _, [] => []
  | cache, (o, x) :: rest =>
    let r := jitCall eqv compile cache o x
    r.2 :: jitRun eqv compile r.1 rest

/-- **the cache is transparent for every history of calls** as soon as objects that compare equal are traced to the same
function — i.e. as soon as `__eq__` looks at every attribute the traced method reads (for `optimize`: `norb`, `nelec`,
`n_opt_iter`).  Each call then returns what a fresh trace of *its own* object returns. -/
theorem jit_transparent (eqv : O → O → Bool) (compile : O → X → Y)
    (sound : ∀ a b, eqv a b = true → compile b = compile a) (calls : List (O × X)) :
    jitRun eqv compile [] calls = calls.map fun c => compile c.1 c.2 := by
  suffices h : ∀ cache : List (O × (X → Y)), (∀ en ∈ cache, en.2 = compile en.1) →
      jitRun eqv compile cache calls = calls.map fun c => compile c.1 c.2 from h [] (by simp)
  induction calls with
  | nil => intro cache _; rfl
  | cons c rest ih =>
    intro cache hinv
    obtain ⟨o, x⟩ := c
    simp only [jitRun, List.map_cons]
    unfold jitCall
    cases hf : cache.find? (fun en => eqv o en.1) with
    | some en =>
      have hm := List.mem_of_find?_eq_some hf
      have he := List.find?_some hf
      simp only
      rw [ih cache hinv, hinv en hm, sound o en.1 he]
    | none =>
      simp only
      rw [ih ((o, compile o) :: cache) (by
        intro en hen
        rcases List.mem_cons.mp hen with rfl | h
        · rfl
        · exact hinv en h)]

/-- witness that the hypothesis is needed: objects `(size, iterations)` compared by size only, traced function =
number of iterations.  The second call (1 iteration) silently returns the first object's 30. -/
theorem jit_stale_witness :
    jitRun (fun a b : Nat × Nat => a.1 == b.1) (fun o (_ : Unit) => o.2) [] [((4, 30), ()), ((4, 1), ())] = [30, 30] := by
  decide
end jit

end AfqmcVerif.Props.C18
