import AfqmcVerif.Props.C01
import AfqmcVerif.Props.C02
import AfqmcVerif.Props.C03
import AfqmcVerif.Lemmas.Estimator
import Mathlib.Algebra.BigOperators.Group.Finset.Basic
import Mathlib.Data.Fintype.BigOperators

/-!
# C14 — walkers evolve independently; batching and storage format change nothing

Per-walker routines are `map`s: permuting the population permutes the outputs, any batch split gives
the same result; the only coupling, the population-control shift, is a symmetric function of the
weights; and for a closed-shell problem the restricted formulas equal the unrestricted ones on `[w, w]`
(per-walker equalities from C01–C03, which make the two machines bisimilar).
-/
set_option linter.unusedSectionVars false
namespace AfqmcVerif.Props.C14
open AfqmcVerif.SingleDet

/-- permuting the walkers permutes a per-walker output in the same way -/
theorem perm_equivariant {α β : Type} {n : ℕ} (f : α → β) (w : Fin n → α) (σ : Equiv.Perm (Fin n)) :
    (List.ofFn (w ∘ σ)).map f = List.ofFn ((f ∘ w) ∘ σ) := by
  rw [List.map_ofFn]; rfl

/-- … also when each walker comes with its own auxiliary fields, weight and stored overlap -/
theorem perm_equivariant₂ {α γ β : Type} {n : ℕ} (f : α → γ → β) (w : Fin n → α) (x : Fin n → γ)
    (σ : Equiv.Perm (Fin n)) :
    List.ofFn (fun i => f ((w ∘ σ) i) ((x ∘ σ) i)) = List.ofFn ((fun i => f (w i) (x i)) ∘ σ) := rfl

/-- changing the number of batches changes no output -/
theorem batch_independent {α β : Type} (f : α → β) (nb bs nb' bs' : ℕ) (ws : List α)
    (h : ws.length = nb * bs) (h' : ws.length = nb' * bs') :
    AfqmcVerif.Estimator.batched f nb bs ws = AfqmcVerif.Estimator.batched f nb' bs' ws := by
  rw [AfqmcVerif.Estimator.batched_eq_map f nb bs ws h, AfqmcVerif.Estimator.batched_eq_map f nb' bs' ws h']

/-- the population-control shift depends on the weights only through their sum, which is symmetric -/
theorem weight_sum_symmetric {K : Type} [AddCommMonoid K] {n : ℕ} (w : Fin n → K) (σ : Equiv.Perm (Fin n)) :
    ∑ i, (w ∘ σ) i = ∑ i, w i := Equiv.sum_comp σ w

variable {m k g : ℕ} {K : Type} [Field K] [StarRing K]

/-- closed shell, same trial orbitals: the restricted per-walker quantities are the unrestricted ones
evaluated on equal spin blocks — overlap, every force-bias component and the local energy -/
theorem restricted_unrestricted_bisimilar (H : Ham m g K) (C W : Matrix (Fin m) (Fin k) K)
    (h2 : (2 : K) ≠ 0) :
    rhfOverlapR C W = uhfOverlap C C W W ∧
    (∀ γ, rhfForceBiasR H C W γ = uhfForceBias H C C W W γ) ∧
    rhfEnergyR H C W = uhfEnergy H C C W W :=
  ⟨AfqmcVerif.Props.C01.rhf_restricted_eq_unrestricted C W,
   fun γ => AfqmcVerif.Props.C03.rhf_restricted_eq_unrestricted H C W γ,
   AfqmcVerif.Props.C02.rhf_restricted_eq_unrestricted H C W h2⟩

/-- a per-walker propagation kernel applied to equal spin blocks with equal one-body propagators
returns equal spin blocks: the unrestricted trajectory stays of the form `[w, w]` -/
theorem equal_blocks_stay_equal {α β : Type} (kernel : β → α → α) (ea eb : β) (heq : ea = eb) (w : α) :
    kernel ea w = kernel eb w := by rw [heq]

end AfqmcVerif.Props.C14
