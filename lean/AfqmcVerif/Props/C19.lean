import AfqmcVerif.Model.Stats
import Mathlib.Tactic.Linarith
import Mathlib.Tactic.FieldSimp
import Mathlib.Tactic.Ring
import Mathlib.Algebra.Order.BigOperators.Ring.Finset

/-!
# C19 — means and error bars follow their statistical definitions

All statements are for every series length `n` and every admitted block size.
`blockErr2 w e n i` is the square of the `error` the code computes for block size `i`.
-/
set_option linter.unusedSectionVars false
namespace AfqmcVerif.Props.C19
open AfqmcVerif.Stats Finset

variable {K : Type} [Field K] [LinearOrder K] [IsStrictOrderedRing K]

/-! ## mean -/

/-- the reported mean is the weighted average `Σ w e / Σ w` (definition), invariant under a common
rescaling of the weights and shifted by an added constant -/
theorem mean_scale (w e : ℕ → K) (n : ℕ) (c : K) (hc : c ≠ 0) :
    wmean (fun t => c * w t) e n = wmean w e n := by
  unfold wmean
  simp only [mul_assoc, ← Finset.mul_sum]
  exact mul_div_mul_left _ _ hc

theorem mean_shift (w e : ℕ → K) (n : ℕ) (a : K) (hW : ∑ t ∈ range n, w t ≠ 0) :
    wmean w (fun t => e t + a) n = wmean w e n + a := by
  unfold wmean
  simp only [mul_add, Finset.sum_add_distrib, ← Finset.sum_mul]
  field_simp

/-! ## per-block-size error -/

theorem bw_scale (w : ℕ → K) (c : K) (i j : ℕ) : bw (fun t => c * w t) i j = c * bw w i j := by
  unfold bw; rw [Finset.mul_sum]

theorem be_scale (w e : ℕ → K) (c : K) (hc : c ≠ 0) (i j : ℕ) :
    be (fun t => c * w t) e i j = be w e i j := by
  unfold be
  rw [bw_scale]
  simp only [mul_assoc, ← Finset.mul_sum]
  exact mul_div_mul_left _ _ hc

/-- every per-size error is invariant under `w ↦ c·w` -/
theorem err_scale (w e : ℕ → K) (n i : ℕ) (c : K) (hc : c ≠ 0) :
    blockErr2 (fun t => c * w t) e n i = blockErr2 w e n i := by
  unfold blockErr2
  simp only [bw_scale, be_scale w e c hc]
  have h1 : ∀ f : ℕ → K, ∑ j ∈ range (n / i), c * bw w i j * f j = c * ∑ j ∈ range (n / i), bw w i j * f j := by
    intro f; rw [Finset.mul_sum]; exact Finset.sum_congr rfl fun j _ => by ring
  have h2 : ∑ j ∈ range (n / i), c * bw w i j = c * ∑ j ∈ range (n / i), bw w i j := by
    rw [Finset.mul_sum]
  have h3 : ∑ j ∈ range (n / i), (c * bw w i j) ^ 2 = c * (c * ∑ j ∈ range (n / i), bw w i j ^ 2) := by
    rw [Finset.mul_sum, Finset.mul_sum]; exact Finset.sum_congr rfl fun j _ => by ring
  simp only [h1, h2, h3, mul_div_mul_left _ _ hc]
  generalize (∑ j ∈ range (n / i), bw w i j) = V1
  generalize (∑ j ∈ range (n / i), bw w i j ^ 2) = V2
  have h4 : c * V1 - (c * V2) / V1 = c * (V1 - V2 / V1) := by ring
  rw [h4, mul_div_mul_left _ _ hc]

theorem bw_pos (w : ℕ → K) (hw : ∀ t, 0 < w t) (i j : ℕ) (hi : 0 < i) : 0 < bw w i j := by
  unfold bw
  exact Finset.sum_pos (fun t _ => hw _) ⟨0, by simpa using hi⟩

theorem be_shift (w e : ℕ → K) (a : K) (i j : ℕ) (hb : bw w i j ≠ 0) :
    be w (fun t => e t + a) i j = be w e i j + a := by
  unfold be
  simp only [mul_add, Finset.sum_add_distrib, ← Finset.sum_mul]
  have : ∑ t ∈ range i, w (j * i + t) = bw w i j := rfl
  rw [this]
  field_simp

/-- every per-size error ignores an added constant (positive weights) -/
theorem err_shift (w e : ℕ → K) (n i : ℕ) (a : K) (hw : ∀ t, 0 < w t) (hi : 0 < i) (hB : 0 < n / i) :
    blockErr2 w (fun t => e t + a) n i = blockErr2 w e n i := by
  unfold blockErr2
  have hb : ∀ j, bw w i j ≠ 0 := fun j => (bw_pos w hw i j hi).ne'
  simp only [be_shift w e a i _ (hb _)]
  have hV : ∑ j ∈ range (n / i), bw w i j ≠ 0 :=
    (Finset.sum_pos (fun j _ => bw_pos w hw i j hi) ⟨0, by simpa using hB⟩).ne'
  have hm : (∑ j ∈ range (n / i), bw w i j * (be w e i j + a)) / ∑ j ∈ range (n / i), bw w i j
      = (∑ j ∈ range (n / i), bw w i j * be w e i j) / ∑ j ∈ range (n / i), bw w i j + a := by
    simp only [mul_add, Finset.sum_add_distrib, ← Finset.sum_mul]
    field_simp
  rw [hm]
  congr 2
  exact Finset.sum_congr rfl fun j _ => by ring

/-- constant data: every per-size error is exactly zero (positive weights) -/
theorem err_const (w : ℕ → K) (E : K) (n i : ℕ) (hw : ∀ t, 0 < w t) (hi : 0 < i) (hB : 0 < n / i) :
    blockErr2 w (fun _ => E) n i = 0 := by
  have h := err_shift w (fun _ => 0) n i E hw hi hB
  simp only [zero_add] at h
  rw [h]
  unfold blockErr2 be
  simp

/-- … hence the plateau search returns `None` on constant data: no non-zero error is ever reported -/
theorem plateau_zeros (c2 : K) (errs : List K) (h : ∀ x ∈ errs, x = 0) : plateau c2 errs = none := by
  unfold plateau
  suffices H : ∀ l : List K, (∀ x ∈ l, x = 0) → l.foldl (plateauStep c2) (0, none) = (0, none) by
    rw [H errs h]
  intro l
  induction l with
  | nil => intro _; rfl
  | cons x xs ih =>
    intro hl
    have hx : x = 0 := hl x (by simp)
    rw [List.foldl_cons]
    have : plateauStep c2 (0, none) x = (0, none) := by
      subst hx; simp [plateauStep]
    rw [this]
    exact ih fun y hy => hl y (by simp [hy])

theorem blocking_const (c2 : K) (w : ℕ → K) (E : K) (n : ℕ) (hw : ∀ t, 0 < w t) :
    (blocking c2 w (fun _ => E) n).2 = none := by
  unfold blocking
  apply plateau_zeros
  intro x hx
  rw [List.mem_map] at hx
  obtain ⟨i, hi, rfl⟩ := hx
  unfold admitted at hi
  rw [List.mem_filter, decide_eq_true_eq] at hi
  have hpos : 0 < i := by
    have := hi.1; simp [sizes] at this; omega
  exact err_const w E n i hw hpos (Nat.div_pos (by omega) hpos)

/-- block bookkeeping: every admitted block size is positive and leaves at least two blocks, so
`nBlocks − 1` never vanishes -/
theorem admitted_blocks (n i : ℕ) (hi : i ∈ admitted n) : 0 < i ∧ 2 ≤ n / i := by
  unfold admitted at hi
  rw [List.mem_filter, decide_eq_true_eq] at hi
  have hpos : 0 < i := by
    have := hi.1; simp [sizes] at this; omega
  refine ⟨hpos, ?_⟩
  rw [Nat.le_div_iff_mul_le hpos]; omega

/-- at block size 1 the error is the unbiased weighted-variance formula over `n − 1` -/
theorem err_size_one (w e : ℕ → K) (n : ℕ) (hw : ∀ t, w t ≠ 0) :
    blockErr2 w e n 1 =
      (∑ j ∈ range n, w j * (e j - wmean w e n) ^ 2)
        / ((∑ j ∈ range n, w j) - (∑ j ∈ range n, w j ^ 2) / ∑ j ∈ range n, w j) / ((n : K) - 1) := by
  unfold blockErr2 wmean
  have hbw : ∀ j, bw w 1 j = w j := by intro j; simp [bw]
  have hbe : ∀ j, be w e 1 j = e j := by
    intro j; unfold be; rw [hbw]; simp [hw j]
  simp only [hbw, hbe, Nat.div_one]

/-- both results of the blocking analysis are invariant under a common rescaling of the weights -/
theorem blocking_scale (c2 : K) (w e : ℕ → K) (n : ℕ) (c : K) (hc : c ≠ 0) :
    blocking c2 (fun t => c * w t) e n = blocking c2 w e n := by
  unfold blocking
  rw [mean_scale w e n c hc]
  congr 2
  exact List.map_congr_left fun i _ => err_scale w e n i c hc

/-- adding a constant shifts the mean and leaves the error bar alone -/
theorem blocking_shift (c2 : K) (w e : ℕ → K) (n : ℕ) (a : K) (hw : ∀ t, 0 < w t) (hn : 0 < n) :
    blocking c2 w (fun t => e t + a) n = ((blocking c2 w e n).1 + a, (blocking c2 w e n).2) := by
  unfold blocking
  have hW : ∑ t ∈ range n, w t ≠ 0 :=
    (Finset.sum_pos (fun t _ => hw t) ⟨0, by simpa using hn⟩).ne'
  rw [mean_shift w e n a hW]
  congr 2
  apply List.map_congr_left
  intro i hi
  have := admitted_blocks n i hi
  exact err_shift w e n i a hw this.1 (by omega)

/-! ## single-pass variance -/

/-- the weighted second central moment from the first two raw moments -/
theorem two_moment_identity (b x : ℕ → K) (N : ℕ) (hv : ∑ j ∈ range N, b j ≠ 0) :
    ∑ j ∈ range N, b j * (x j - (∑ j ∈ range N, b j * x j) / ∑ j ∈ range N, b j) ^ 2
      = ((∑ j ∈ range N, b j * x j ^ 2) / (∑ j ∈ range N, b j)
          - ((∑ j ∈ range N, b j * x j) / ∑ j ∈ range N, b j) ^ 2) * ∑ j ∈ range N, b j := by
  set V := ∑ j ∈ range N, b j with hV
  set S := ∑ j ∈ range N, b j * x j with hS
  have e : ∀ j, b j * (x j - S / V) ^ 2 = b j * x j ^ 2 - 2 * (S / V) * (b j * x j) + (S / V) ^ 2 * b j := by
    intro j; ring
  simp only [e]
  rw [sum_add_distrib, sum_sub_distrib, ← mul_sum, ← mul_sum, ← hS, ← hV]
  field_simp
  ring

/-- **single-pass form**: in exact arithmetic the per-size error computed from `Σ W E²/v1 − mean²` equals the two-pass
definition.  The two differ in floating point only (cancellation of two numbers of size `mean²`); that part of the
property is decided on the implementation by the large-offset and constant series of the tie, not by this theorem. -/
theorem blockErr2_single_pass (w e : ℕ → K) (n i : ℕ)
    (hv : ∑ j ∈ range (n / i), bw w i j ≠ 0) :
    blockErr2 w e n i
      = (((∑ j ∈ range (n / i), bw w i j * be w e i j ^ 2) / (∑ j ∈ range (n / i), bw w i j)
          - ((∑ j ∈ range (n / i), bw w i j * be w e i j) / ∑ j ∈ range (n / i), bw w i j) ^ 2)
          * ∑ j ∈ range (n / i), bw w i j)
        / ((∑ j ∈ range (n / i), bw w i j) - (∑ j ∈ range (n / i), bw w i j ^ 2) / ∑ j ∈ range (n / i), bw w i j)
        / (((n / i : ℕ) : K) - 1) := by
  unfold blockErr2
  simp only []
  rw [two_moment_identity (fun j => bw w i j) (fun j => be w e i j) (n / i) hv]

/-! ## jackknife = brute-force leave-one-out -/

theorem jackknife_leave_one_out (num den : ℕ → K) (n i : ℕ) (hn : 2 ≤ n) (hi : i < n) :
    jkEstimate num den n i =
      (∑ t ∈ (range n).erase i, num t) / (∑ t ∈ (range n).erase i, den t) := by
  unfold jkEstimate
  have hn0 : (n : K) ≠ 0 := by exact_mod_cast (by omega : n ≠ 0)
  have hn1 : (n : K) - 1 ≠ 0 := by
    have h1 : (1 : K) < (n : K) := by exact_mod_cast (by omega : 1 < n)
    exact sub_ne_zero.2 (ne_of_gt h1)
  rw [Finset.sum_erase_eq_sub (Finset.mem_range.2 hi), Finset.sum_erase_eq_sub (Finset.mem_range.2 hi)]
  simp only [div_mul_cancel₀ _ hn0]
  exact div_div_div_cancel_right₀ hn1 _ _

/-! ## outlier rejection keeps exactly the rows within `m` (MAD + eps) of the median -/

theorem keep_iff (eps m : K) (x : List K) (k : ℕ) (hk : k < x.length)
    (hmad : 0 < median (x.map fun v => |v - median x|) + eps) :
    (keepMask eps m x)[k]? = some (decide (|x[k] - median x| < m * (median (x.map fun v => |v - median x|) + eps))) := by
  unfold keepMask
  simp only [List.getElem?_map, List.getElem?_eq_getElem hk, Option.map_some]
  congr 1
  rw [decide_eq_decide, div_lt_iff₀ hmad]

/-! ## non-vacuity -/

example : (3 : ℕ) ∈ admitted 7 → False := by decide
example : admitted 12 = [1, 2, 5] := by decide

end AfqmcVerif.Props.C19
