import AfqmcVerif.Lemmas.LatticeClasses
import AfqmcVerif.Lemmas.Dataclass
import AfqmcVerif.Generated.LatticeFields

/-!
# C20 — lattices are consistent graphs that survive construction and pytree round trips

Only property theorems and non-vacuity examples live here; helper lemmas are in `Lemmas/`.
All statements are for **every** side length (no upper bound).  `L.adj a b` is entry `h[a,b]` of
the matrix built by `create_adjacency_matrix`; `L.rowSum a` its row sum; `L.site`/`L.num` the
site list and `get_site_num`; `L.nbrs` is `get_nearest_neighbors`.
-/
namespace AfqmcVerif.Props.C20
open AfqmcVerif.Lattice AfqmcVerif.Dataclass AfqmcVerif.Generated.LatticeFields

/-- the four lattice families, with their validity domain and coordination number -/
inductive Family
  | chain (n : Nat)
  | grid2 (lx ly : Nat)
  | tri (lx ly : Nat)
  | triOpen (lx ly : Nat)
  | grid3 (lx ly lz : Nat)

/-! ## site list and numbering are inverse bijections; neighbour relation symmetric, irreflexive;
adjacency matrix symmetric with zero diagonal — all sides ≥ 2 -/

theorem chain_consistent (n : Nat) (hn : 2 ≤ n) : (chain n).Good (chainDom n) := chain_good n hn

theorem grid2_consistent (lx ly : Nat) (hx : 2 ≤ lx) (hy : 2 ≤ ly) :
    (grid2 lx ly).Good (grid2Dom lx ly) := grid2_good lx ly hx hy

theorem tri_consistent (lx ly : Nat) (hx : 2 ≤ lx) (hy : 2 ≤ ly) :
    (tri lx ly false).Good (triDom lx ly) := tri_good lx ly hx hy

/-- open boundary: needs an even number of rows (as the property says) -/
theorem triOpen_consistent (lx ly : Nat) (hx : 2 ≤ lx) (hy : 2 ≤ ly) (he : lx % 2 = 0) :
    (tri lx ly true).Good (triDom lx ly) := triOpen_good lx ly hx hy he

theorem grid3_consistent (lx ly lz : Nat) (hx : 2 ≤ lx) (hy : 2 ≤ ly) (hz : 2 ≤ lz) :
    (grid3 lx ly lz).Good (grid3Dom lx ly lz) := grid3_good lx ly lz hx hy hz

/-- From `Good`: numbering ∘ site = id, site ∘ numbering = id on valid positions, the adjacency
matrix is symmetric with zero diagonal, and `h[a,b] = 1` exactly for (in-bounds) neighbours. -/
theorem graph_of_good {P : Type} [DecidableEq P] {dom : P → Prop} (L : Lat P) (h : L.Good dom) :
    (∀ i, i < L.n → L.num (L.site i) = (i : Int)) ∧
    (∀ p, dom p → ∃ i, i < L.n ∧ L.site i = p ∧ L.num p = (i : Int)) ∧
    (∀ p q, dom p → dom q → q ∈ L.nbrs p → p ∈ L.nbrs q) ∧
    (∀ p, dom p → p ∉ L.nbrs p) ∧
    (∀ a b, L.adj a b = L.adj b a) ∧
    (∀ a, a < L.n → L.adj a a = false) ∧
    (∀ a b, a < L.n → b < L.n → (L.adj a b = true ↔ (b : Int) ∈ L.nbrNums a)) := by
  refine ⟨h.num_site, ?_, h.symm, h.irrefl, L.adj_symm, fun a ha => L.adj_diag h ha,
    fun a b ha hb => L.adj_iff h ha hb⟩
  intro p hp
  obtain ⟨i, hi, rfl⟩ := h.site_num p hp
  exact ⟨i, hi, rfl, h.num_site i hi⟩

/-! ## periodic lattices with sides ≥ 3 are regular of degree `coord_num` -/

theorem chain_regular (n : Nat) (hn : 3 ≤ n) (a : Nat) (ha : a < n) : (chain n).rowSum a = 2 := by
  have hg := chain_good n (by omega)
  have hd := hg.dom_site a ha
  rw [Lat.rowSum_eq_length _ hg ha (fun _ _ => rfl) (chain_nbrs_nodup n hn _ hd)]
  rfl

theorem grid2_regular (lx ly : Nat) (hx : 3 ≤ lx) (hy : 3 ≤ ly) (a : Nat) (ha : a < lx * ly) :
    (grid2 lx ly).rowSum a = 4 := by
  have hg := grid2_good lx ly (by omega) (by omega)
  have hd := hg.dom_site a ha
  rw [Lat.rowSum_eq_length _ hg ha (grid2_nbrs_ok lx ly _ hd) (grid2_nbrs_nodup lx ly hx hy _ hd)]
  rfl

theorem tri_regular (lx ly : Nat) (hx : 3 ≤ lx) (hy : 3 ≤ ly) (a : Nat) (ha : a < lx * ly) :
    (tri lx ly false).rowSum a = 6 := by
  have hg := tri_good lx ly (by omega) (by omega)
  have hd := hg.dom_site a ha
  rw [Lat.rowSum_eq_length _ hg ha (tri_nbrs_ok lx ly _ hd) (tri_nbrs_nodup lx ly hx hy _ hd)]
  exact tri_nbrs_length lx ly false _

theorem grid3_regular (lx ly lz : Nat) (hx : 3 ≤ lx) (hy : 3 ≤ ly) (hz : 3 ≤ lz) (a : Nat)
    (ha : a < lx * ly * lz) : (grid3 lx ly lz).rowSum a = 6 := by
  have hg := grid3_good lx ly lz (by omega) (by omega) (by omega)
  have hd := hg.dom_site a ha
  rw [Lat.rowSum_eq_length _ hg ha (grid3_nbrs_ok lx ly lz _ hd)
    (grid3_nbrs_nodup lx ly lz hx hy hz _ hd)]
  rfl

/-! ## open boundary, even number of rows: no site exceeds the coordination number -/

theorem triOpen_degree_le (lx ly : Nat) (hx : 2 ≤ lx) (hy : 2 ≤ ly) (he : lx % 2 = 0) (a : Nat)
    (ha : a < lx * ly) : (tri lx ly true).rowSum a ≤ 6 := by
  have hg := triOpen_good lx ly hx hy he
  refine le_trans (Lat.rowSum_le _ hg ha) ?_
  unfold Lat.nbrNums
  rw [List.length_map]
  refine le_trans (List.length_filter_le _ _) ?_
  rw [tri_nbrs_length]

/-- the hypothesis "even number of rows" is needed: with 3 rows the open lattice's neighbour
relation is not symmetric (kernel-evaluated witness). -/
theorem triOpen_odd_rows_not_symmetric :
    ((0 : Int), (1 : Int)) ∈ (tri 3 3 true).nbrs (2, 2) ∧ ((2 : Int), (2 : Int)) ∉ (tri 3 3 true).nbrs (0, 1) := by
  decide

/-! ## flatten / unflatten round trip preserves every attribute

`post` is `__post_init__`; `hP1`/`hP2` say that it only writes the attributes the translator saw
it write and is a function of the attributes the translator saw it read (Python semantics of a
deterministic method — trusted, see DESIGN §3).  The field lists are regenerated from the source
on every run and their side condition is re-proved by `decide` in the generated file. -/

theorem roundtrip_of_spec {V : Type} (S : Spec) (hS : rtCheck S = true)
    (post : Obj V → Obj V) (dflt : Obj V)
    (hP1 : ∀ o f, f ∉ S.computed → post o f = o f)
    (hP2 : ∀ o o' f, (∀ g ∈ S.reads, o g = o' g) → f ∈ S.computed → post o f = post o' f)
    (o0 : Obj V) : ∀ f ∈ S.decl, unflatten S post dflt (flatten S (post o0)) f = post o0 f :=
  roundtrip S post dflt hP1 hP2 hS o0

theorem chain_roundtrip {V : Type} (post : Obj V → Obj V) (dflt : Obj V)
    (hP1 : ∀ o f, f ∉ chainSpec.computed → post o f = o f)
    (hP2 : ∀ o o' f, (∀ g ∈ chainSpec.reads, o g = o' g) → f ∈ chainSpec.computed → post o f = post o' f)
    (o0 : Obj V) :
    ∀ f ∈ chainSpec.decl, unflatten chainSpec post dflt (flatten chainSpec (post o0)) f = post o0 f :=
  roundtrip_of_spec chainSpec chainSpec_ok post dflt hP1 hP2 o0

theorem grid2_roundtrip {V : Type} (post : Obj V → Obj V) (dflt : Obj V)
    (hP1 : ∀ o f, f ∉ grid2Spec.computed → post o f = o f)
    (hP2 : ∀ o o' f, (∀ g ∈ grid2Spec.reads, o g = o' g) → f ∈ grid2Spec.computed → post o f = post o' f)
    (o0 : Obj V) :
    ∀ f ∈ grid2Spec.decl, unflatten grid2Spec post dflt (flatten grid2Spec (post o0)) f = post o0 f :=
  roundtrip_of_spec grid2Spec grid2Spec_ok post dflt hP1 hP2 o0

theorem tri_roundtrip {V : Type} (post : Obj V → Obj V) (dflt : Obj V)
    (hP1 : ∀ o f, f ∉ triSpec.computed → post o f = o f)
    (hP2 : ∀ o o' f, (∀ g ∈ triSpec.reads, o g = o' g) → f ∈ triSpec.computed → post o f = post o' f)
    (o0 : Obj V) :
    ∀ f ∈ triSpec.decl, unflatten triSpec post dflt (flatten triSpec (post o0)) f = post o0 f :=
  roundtrip_of_spec triSpec triSpec_ok post dflt hP1 hP2 o0

theorem grid3_roundtrip {V : Type} (post : Obj V → Obj V) (dflt : Obj V)
    (hP1 : ∀ o f, f ∉ grid3Spec.computed → post o f = o f)
    (hP2 : ∀ o o' f, (∀ g ∈ grid3Spec.reads, o g = o' g) → f ∈ grid3Spec.computed → post o f = post o' f)
    (o0 : Obj V) :
    ∀ f ∈ grid3Spec.decl, unflatten grid3Spec post dflt (flatten grid3Spec (post o0)) f = post o0 f :=
  roundtrip_of_spec grid3Spec grid3Spec_ok post dflt hP1 hP2 o0

/-- all four `tree_unflatten`s are `cls(*aux_data)` with empty children (what the model assumes) -/
theorem unflatten_is_positional :
    chainPositional = true ∧ grid2Positional = true ∧ triPositional = true ∧ grid3Positional = true :=
  ⟨chainPositional_ok, grid2Positional_ok, triPositional_ok, grid3Positional_ok⟩

/-- every hashed attribute is a declared one, so equal attributes give equal hashes -/
theorem hashed_subset_decl :
    (chainSpec.hashed.all chainSpec.decl.contains && grid2Spec.hashed.all grid2Spec.decl.contains &&
     triSpec.hashed.all triSpec.decl.contains && grid3Spec.hashed.all grid3Spec.decl.contains) = true := by
  decide

/-! ## non-vacuity: the hypotheses are met by concrete lattices -/

example : (grid2 3 4).rowSum 5 = 4 := grid2_regular 3 4 (by omega) (by omega) 5 (by omega)
example : (tri 4 3 true).rowSum 0 ≤ 6 := triOpen_degree_le 4 3 (by omega) (by omega) rfl 0 (by omega)
example : (chain 2).adj 0 1 = true := by decide
example : (tri 4 3 true).adj 0 4 = false ∧ (tri 4 3 false).adj 0 2 = true := by decide

end AfqmcVerif.Props.C20
