import AfqmcVerif.Model.Weights
import Mathlib.Tactic.Linarith
import Mathlib.Tactic.NormNum

/-!
# C09 — weights stay real, finite and non-negative; dead walkers stay dead

Decision logic of the weight updates on IEEE-like values (`FVal`): the statements hold for **every**
raw importance factor, including NaN, ±∞, negative and huge values, and for any number of steps.
-/
set_option linter.unusedSimpArgs false
namespace AfqmcVerif.Props.C09
open AfqmcVerif AfqmcVerif.FVal AfqmcVerif.Weights

/-- weight invariant: a finite real number in `[0, cap]` -/
def Good (cap : ℚ) (w : FVal) : Prop := ∃ q, w = fin q ∧ 0 ≤ q ∧ q ≤ cap

/-- the factor actually applied is `0` or inside the documented window — for every raw value -/
theorem clipFactor_window (lo hi : ℚ) (hlo : 0 < lo) (f : FVal) :
    ∃ q, clipFactor lo hi f = fin q ∧ (q = 0 ∨ (lo ≤ q ∧ q ≤ hi)) := by
  cases f with
  | nan => exact ⟨0, by simp [clipFactor, wher, isNan, lt, hlo], Or.inl rfl⟩
  | pinf => exact ⟨0, by simp [clipFactor, wher, isNan, lt], Or.inl rfl⟩
  | ninf => exact ⟨0, by simp [clipFactor, wher, isNan, lt, hlo], Or.inl rfl⟩
  | fin a =>
    by_cases h1 : a < lo
    · exact ⟨0, by simp [clipFactor, wher, isNan, lt, h1, hlo], Or.inl rfl⟩
    · by_cases h2 : hi < a
      · exact ⟨0, by simp [clipFactor, wher, isNan, lt, h1, h2], Or.inl rfl⟩
      · exact ⟨a, by simp [clipFactor, wher, isNan, lt, h1, h2], Or.inr ⟨not_lt.1 h1, not_lt.1 h2⟩⟩

/-- one phaseless step preserves the invariant, multiplies the weight by `0` or by a factor in the
window (or zeroes it through the cap), and keeps a dead walker dead -/
theorem phaselessStep_good (lo hi cap : ℚ) (hlo : 0 < lo) (f w : FVal) (hw : Good cap w) :
    Good cap (phaselessStep lo hi cap f w) ∧ (w = fin 0 → phaselessStep lo hi cap f w = fin 0) := by
  obtain ⟨q, rfl, hq0, hqc⟩ := hw
  obtain ⟨c, hc, hcr⟩ := clipFactor_window lo hi hlo f
  have hc0 : 0 ≤ c := by rcases hcr with rfl | ⟨h, _⟩ <;> linarith
  constructor
  · unfold phaselessStep
    rw [hc]
    simp only [mul, wher, lt]
    by_cases h : cap < c * q
    · exact ⟨0, by simp [h], le_refl _, le_trans hq0 hqc⟩
    · exact ⟨c * q, by simp [h], mul_nonneg hc0 hq0, not_lt.1 h⟩
  · intro h0
    have : q = 0 := by injection h0
    subst this
    unfold phaselessStep
    rw [hc]
    have hcap : ¬ cap < 0 := not_lt.2 hqc
    simp [mul, wher, lt, hcap]

/-- **any history**: after any number of steps with arbitrary raw factors the weight is finite,
real, in `[0, cap]` -/
theorem phaselessRun_good (lo hi cap : ℚ) (hlo : 0 < lo) (fs : List FVal) :
    ∀ w, Good cap w → Good cap (phaselessRun lo hi cap w fs) := by
  induction fs with
  | nil => intro w h; exact h
  | cons f fs ih =>
    intro w h
    simp only [phaselessRun, List.foldl_cons]
    exact ih _ (phaselessStep_good lo hi cap hlo f w h).1

/-- **dead stays dead** through any history (until the next reconfiguration) -/
theorem phaselessRun_dead (lo hi cap : ℚ) (hlo : 0 < lo) (hcap : 0 ≤ cap) (fs : List FVal) :
    phaselessRun lo hi cap (fin 0) fs = fin 0 := by
  induction fs with
  | nil => rfl
  | cons f fs ih =>
    simp only [phaselessRun, List.foldl_cons]
    rw [(phaselessStep_good lo hi cap hlo f (fin 0) ⟨0, rfl, le_refl _, hcap⟩).2 rfl]
    exact ih

/-- killed-walker fraction of one block lies in `[0, 1]` (so the reported fraction, an average over
blocks, does too) -/
theorem killed_le (ws : List FVal) : killedCount ws ≤ ws.length := Nat.sub_le _ _

/-! ## constrained-path propagators -/

/-- the clip **as written** (`where(w < eps, 0, w)`) lets NaN through: a dead walker (weight 0)
whose stored overlap is 0 gets `0 · ∞ = NaN`, which neither `< eps` nor `> 100` removes -/
theorem cpmc_nan_survives (eps cap : ℚ) : cpmcStep eps cap (fin 0) pinf = nan := by
  simp [cpmcStep, cpmcClip, mul, wher, lt]

/-- the NaN-safe form (`where(w >= eps, w, 0)`) preserves the invariant for every raw ratio -/
theorem cpmcStepSafe_good (eps cap : ℚ) (heps : 0 < eps) (w r : FVal) (hw : Good cap w) :
    Good cap (cpmcStepSafe eps cap w r) := by
  obtain ⟨q, rfl, hq0, hqc⟩ := hw
  have hcap0 : 0 ≤ cap := le_trans hq0 hqc
  have zero : Good cap (fin 0) := ⟨0, rfl, le_refl _, hcap0⟩
  have key : ∀ x : FVal, (∃ a, x = fin a) ∨ x = pinf ∨ x = ninf ∨ x = nan := by
    intro x; cases x <;> simp
  unfold cpmcStepSafe cpmcClipSafe
  rcases key (mul (fin q) r) with ⟨a, ha⟩ | h | h | h
  · rw [ha]
    simp only [ge, wher, lt]
    by_cases h1 : eps ≤ a
    · by_cases h2 : cap < a
      · simpa [h1, h2] using zero
      · exact ⟨a, by simp [h1, h2], by linarith, not_lt.1 h2⟩
    · have hcap : ¬ cap < 0 := not_lt.2 hcap0
      simpa [h1, hcap] using zero
  · rw [h]; simpa [ge, wher, lt] using zero
  · rw [h]
    have hcap : ¬ cap < 0 := not_lt.2 hcap0
    simpa [ge, wher, lt, hcap] using zero
  · rw [h]
    have hcap : ¬ cap < 0 := not_lt.2 hcap0
    simpa [ge, wher, lt, hcap] using zero

/-! ## non-vacuity and the window endpoints -/
example : clipFactor (1/1000) 100 (fin (1/1000)) = fin (1/1000) := by
  norm_num [clipFactor, wher, isNan, lt]
example : clipFactor (1/1000) 100 (fin 100) = fin 100 := by norm_num [clipFactor, wher, isNan, lt]
example : clipFactor (1/1000) 100 (fin (-5)) = fin 0 := by norm_num [clipFactor, wher, isNan, lt]
example : phaselessStep (1/1000) 100 100 nan (fin 7) = fin 0 := by
  norm_num [phaselessStep, clipFactor, wher, isNan, lt, mul]
example : phaselessStep (1/1000) 100 100 (fin 50) (fin 3) = fin 0 := by
  norm_num [phaselessStep, clipFactor, wher, isNan, lt, mul]

end AfqmcVerif.Props.C09
