import AfqmcVerif.Model.Dets
import AfqmcVerif.Lemmas.Sign
import AfqmcVerif.Lemmas.Estimator
import Mathlib.LinearAlgebra.Matrix.DotProduct
import Mathlib.Data.Matrix.Mul
import Mathlib.Algebra.Star.Basic
import Mathlib.Algebra.Order.Field.Basic
import Mathlib.Tactic.Ring
import Mathlib.Tactic.FieldSimp

/-!
# C11 — determinant-list trials mean what they say; an exact trial gives zero variance
-/
set_option linter.unusedSectionVars false
namespace AfqmcVerif.Props.C11
open AfqmcVerif.Dets Matrix

/-! ## binary determinant files survive the reader -/

theorem decode_encodeOcc (p : Bool × Bool) : decodeOcc (encodeOcc p) = p := by
  rcases p with ⟨a, b⟩
  cases a <;> cases b <;> decide

/-- **round trip**: writing a determinant in the Dice byte format and reading it back gives the same
alpha and beta occupation vectors, for every number of orbitals -/
theorem read_write_roundtrip (a b : List Bool) (h : a.length = b.length) :
    decodeDet (encodeDet a b) = (a, b) := by
  unfold decodeDet encodeDet
  have hf : ((a.zip b).map encodeOcc).map decodeOcc = a.zip b := by
    rw [List.map_map]
    conv_rhs => rw [← List.map_id (a.zip b)]
    apply List.map_congr_left
    intro p _
    exact decode_encodeOcc p
  rw [hf]
  exact Prod.ext (List.map_fst_zip (by omega)) (List.map_snd_zip (by omega))

/-! ## sign convention: `parity` is the sign of the permutation sorting the in-place replaced
reference string — **any reference**, any excitation rank, **any number of orbitals**.

The proof (`Lemmas/Sign.lean`) follows the loop: replacing one value `c` of a duplicate-free list by a new
value `d` changes the inversion count, mod 2, by the number of entries strictly between `c` and `d`
wherever they sit (`invCount_replace`); the evolving occupation vector and the evolving list describe the
same set (`Rep.step`), so the loop's count is that number; replacing the holes one after the other is the
simultaneous in-place replacement (`seqReplace_eq_map`); the reference string starts sorted. -/

theorem parity_is_sorting_sign (d0 d : List Bool) (hl : d0.length = d.length) (hp : popcount d0 = popcount d) :
    parity d0 d = sortSign d0 d :=
  parity_eq_sortSign d0 d (holes_particles_length d0 d hl hp)

/-- non-vacuity / regression: the statement evaluated on a non-aufbau reference with nested downward moves -/
example : parity [false, false, true, true] [true, true, false, false] = 1
    ∧ sortSign [false, false, true, true] [true, true, false, false] = 1 := by decide

/-! ## zero variance -/

variable {n : Type} [Fintype n] [DecidableEq n] {K : Type} [Field K]

/-- if `H` is symmetric for the bilinear pairing and the trial is an eigenvector, the mixed matrix
element is `E` times the overlap for **every** state `φ` (hence the local energy of every walker is `E`) -/
theorem exact_trial_local_energy (H : Matrix n n K) (ψ φ : n → K) (E : K) (hsym : Hᵀ = H)
    (heig : H.mulVec ψ = E • ψ) : ψ ⬝ᵥ H.mulVec φ = E * (ψ ⬝ᵥ φ) := by
  rw [Matrix.dotProduct_mulVec, ← Matrix.mulVec_transpose, hsym, heig, smul_dotProduct, smul_eq_mul]

/-- the same with a conjugated bra, for a Hermitian `H` and a real eigenvalue -/
theorem exact_trial_local_energy_star [StarRing K] (H : Matrix n n K) (ψ φ : n → K) (E : K)
    (hherm : Hᴴ = H) (hE : star E = E) (heig : H.mulVec ψ = E • ψ) :
    star ψ ⬝ᵥ H.mulVec φ = E * (star ψ ⬝ᵥ φ) := by
  rw [Matrix.dotProduct_mulVec]
  have : Matrix.vecMul (star ψ) H = E • star ψ := by
    have h1 := congrArg star heig
    rw [Matrix.star_mulVec, hherm] at h1
    rw [h1, star_smul, hE]
  rw [this, smul_dotProduct, smul_eq_mul]

/-- consequently every block energy is `E` (no sample is ever capped, whatever the weights) -/
theorem exact_trial_block_energy {F : Type} [Field F] [LinearOrder F] [IsStrictOrderedRing F]
    (eEst bound2 E : F) (w : List F) (m : ℕ) (hm : w.length = m) (hW : w.sum ≠ 0)
    (hin : (E - eEst) ^ 2 ≤ bound2) :
    AfqmcVerif.Estimator.blockEnergy eEst bound2 w (List.replicate m E) = E := by
  unfold AfqmcVerif.Estimator.blockEnergy AfqmcVerif.Estimator.wsum
  have hc : AfqmcVerif.Estimator.cap eEst bound2 E = E := by
    unfold AfqmcVerif.Estimator.cap; simp [not_lt.2 hin]
  rw [List.map_replicate, hc]
  have : (List.zipWith (· * ·) w (List.replicate m E)).sum = w.sum * E := by
    subst hm
    clear hW
    induction w with
    | nil => simp
    | cons a t ih =>
      simp only [List.length_cons, List.replicate_succ, List.zipWith_cons_cons, List.sum_cons]
      rw [ih]; ring
  rw [this]; field_simp

end AfqmcVerif.Props.C11
