import AfqmcVerif.Model.Dets
import AfqmcVerif.Lemmas.Sign
import AfqmcVerif.Lemmas.RowsOf
import AfqmcVerif.Lemmas.Estimator
import Mathlib.LinearAlgebra.Matrix.DotProduct
import Mathlib.LinearAlgebra.Matrix.Block
import Mathlib.LinearAlgebra.Matrix.NonsingularInverse
import Mathlib.Data.Matrix.Mul
import Mathlib.Algebra.Star.Basic
import Mathlib.Algebra.Order.Field.Basic
import Mathlib.Tactic.Ring
import Mathlib.Tactic.FieldSimp

/-!
# C11 — determinant-list trials mean what they say; an exact trial gives zero variance
-/
set_option linter.unusedSectionVars false
namespace AfqmcVerif.Props.C11
open AfqmcVerif.Dets Matrix

/-! ## binary determinant files survive the reader -/

theorem decode_encodeOcc (p : Bool × Bool) : decodeOcc (encodeOcc p) = p := by
  rcases p with ⟨a, b⟩
  cases a <;> cases b <;> decide

/-- **round trip**: writing a determinant in the Dice byte format and reading it back gives the same
alpha and beta occupation vectors, for every number of orbitals -/
theorem read_write_roundtrip (a b : List Bool) (h : a.length = b.length) :
    decodeDet (encodeDet a b) = (a, b) := by
  unfold decodeDet encodeDet
  have hf : ((a.zip b).map encodeOcc).map decodeOcc = a.zip b := by
    rw [List.map_map]
    conv_rhs => rw [← List.map_id (a.zip b)]
    apply List.map_congr_left
    intro p _
    exact decode_encodeOcc p
  rw [hf]
  exact Prod.ext (List.map_fst_zip (by omega)) (List.map_snd_zip (by omega))

/-! ## sign convention: `parity` is the sign of the permutation sorting the in-place replaced
reference string — **any reference**, any excitation rank, **any number of orbitals**.

The proof (`Lemmas/Sign.lean`) follows the loop: replacing one value `c` of a duplicate-free list by a new
value `d` changes the inversion count, mod 2, by the number of entries strictly between `c` and `d`
wherever they sit (`invCount_replace`); the evolving occupation vector and the evolving list describe the
same set (`Rep.step`), so the loop's count is that number; replacing the holes one after the other is the
simultaneous in-place replacement (`seqReplace_eq_map`); the reference string starts sorted. -/

theorem parity_is_sorting_sign (d0 d : List Bool) (hl : d0.length = d.length) (hp : popcount d0 = popcount d) :
    parity d0 d = sortSign d0 d :=
  parity_eq_sortSign d0 d (holes_particles_length d0 d hl hp)

/-- non-vacuity / regression: the statement evaluated on a non-aufbau reference with nested downward moves -/
example : parity [false, false, true, true] [true, true, false, false] = 1
    ∧ sortSign [false, false, true, true] [true, true, false, false] = 1 := by decide

/-! ## what the excitation blocks mean: complementary minors, in the in-place ordering -/

section jacobi
variable {m k : ℕ} {K : Type} [Field K]

/-- **complementary-minor (Jacobi) identity in the in-place ordering**: replace the reference rows at the hole
positions `H` by particle rows, keep every other row where it is.  The minor of the walker on the new rows is
the reference minor times the determinant of the block `Θ[particles, hole positions]` of
`Θ = W (W_ref)⁻¹` — the block of the Green's function that `multislater` / the CI kinds evaluate — with **no
sign**: the sign of a determinant-list entry is entirely the sorting sign of the in-place string. -/
theorem excitation_minor (W : Matrix (Fin m) (Fin k) K) (ref e : Fin k → Fin m) (H : Fin k → Prop) [DecidablePred H]
    (hW : IsUnit (W.submatrix ref id).det) (he : ∀ p, ¬H p → e p = ref p) :
    (W.submatrix e id).det
      = (W.submatrix ref id).det
        * (toSquareBlockProp ((W * (W.submatrix ref id)⁻¹).submatrix e id) H).det := by
  set Wr := W.submatrix ref id with hWr
  set A := (W * Wr⁻¹).submatrix e id with hA
  have hprod : A * Wr = W.submatrix e id := by
    have : A = W.submatrix e id * Wr⁻¹ := by
      rw [hA]; ext i j; simp [Matrix.mul_apply, Matrix.submatrix_apply]
    rw [this, Matrix.mul_assoc, Matrix.nonsing_inv_mul _ hW, Matrix.mul_one]
  have hunit : ∀ p, ¬H p → ∀ q, A p q = if p = q then 1 else 0 := by
    intro p hp q
    have : A p q = (Wr * Wr⁻¹) p q := by
      rw [hA]
      simp only [Matrix.submatrix_apply, Matrix.mul_apply, id_eq, he p hp, hWr]
    rw [this, Matrix.mul_nonsing_inv _ hW, Matrix.one_apply]
  have hdet : A.det = (toSquareBlockProp A H).det := by
    rw [Matrix.twoBlockTriangular_det A H]
    · have hone : toSquareBlockProp A (fun i => ¬H i) = 1 := by
        ext i j
        rw [Matrix.toSquareBlockProp_def, Matrix.of_apply, hunit i.1 i.2 j.1, Matrix.one_apply]
        simp [Subtype.ext_iff]
      rw [hone, Matrix.det_one, mul_one]
    · intro i hi j hj
      rw [hunit i hi j, if_neg]
      intro hij; exact hi (hij ▸ hj)
  rw [← hprod, Matrix.det_mul, hdet, mul_comm]

open AfqmcVerif.Dets in
/-- **what one entry of a determinant list means** (every size, every reference, every excitation rank):
the minor of the walker on the occupied orbitals of `d` — the amplitude `⟨D|φ⟩` of the determinant in the
Slater state of `W` — equals `parity(d0, d)` times the reference minor times the determinant of the block
`Θ[particles, hole positions]` of `Θ = W (W_ref)⁻¹`, which is how `multislater` and the CI kinds evaluate it. -/
theorem determinant_entry (W : Matrix (Fin m) (Fin k) K) (d0 d : List Bool)
    (hl0 : d0.length = m) (hl : d.length = m) (hk : (occList d0).length = k) (hp : popcount d0 = popcount d)
    (hWref : IsUnit (W.submatrix (rowsOf (occList d0) m k hk
        (fun x hx => hl0 ▸ (mem_occList.1 hx).1)) id).det) :
    let refRows := rowsOf (occList d0) m k hk (fun x hx => hl0 ▸ (mem_occList.1 hx).1)
    let hkd : (occList d).length = k := by
      rw [← hk]; have := popcount_eq d0; have := popcount_eq d; unfold occList; omega
    let sRows := rowsOf (occList d) m k hkd (fun x hx => hl ▸ (mem_occList.1 hx).1)
    let hke : (inPlace d0 d).length = k := by rw [← hk]; simp [inPlace]
    let hme : ∀ x ∈ inPlace d0 d, x < m := fun x hx =>
      hl ▸ (mem_occList.1 (((inPlace_rep d0 d (hl0.trans hl.symm) hp).2 x).1 hx)).1
    let eRows := rowsOf (inPlace d0 d) m k hke hme
    let H : Fin k → Prop := fun p => (refRows p).val ∈ holes d0 d
    (W.submatrix sRows id).det
      = ((parity d0 d : ℤ) : K) * ((W.submatrix refRows id).det
          * (toSquareBlockProp ((W * (W.submatrix refRows id)⁻¹).submatrix eRows id) H).det) := by
  intro refRows hkd sRows hke hme eRows H
  have hll : d0.length = d.length := hl0.trans hl.symm
  obtain ⟨hnd, hmem⟩ := inPlace_rep d0 d hll hp
  -- (1) rows of e are injective, rows of s increase, same range
  have heinj : Function.Injective eRows := by
    intro a b hab
    have hv : (eRows a).val = (eRows b).val := congrArg Fin.val hab
    rw [rowsOf_val, rowsOf_val] at hv
    have := (List.Nodup.get_inj_iff hnd).1 hv
    exact Fin.cast_injective _ this
  have hsorted : (occList d).Pairwise (· < ·) := filter_range_sorted _ _
  have hsmono : StrictMono sRows := by
    intro a b hab
    rw [Fin.lt_def, rowsOf_val, rowsOf_val]
    exact List.pairwise_iff_get.1 hsorted (a.cast hkd.symm) (b.cast hkd.symm) (Fin.lt_def.2 (Fin.lt_def.1 hab))
  have hrange : ∀ i, ∃ j, sRows j = eRows i := by
    intro i
    have hmi : (eRows i).val ∈ occList d := by
      apply (hmem _).1; rw [rowsOf_val]; exact List.get_mem _ _
    obtain ⟨n, hn⟩ := List.mem_iff_get.1 hmi
    refine ⟨n.cast hkd, Fin.ext ?_⟩
    rw [rowsOf_val]
    simpa using hn
  have h1 := minor_sort W eRows sRows heinj hsmono hrange
  -- (2) the inversion sign of e is the parity
  have hsign : invSign (fun i => (eRows i).val) = parity d0 d := by
    rw [invSign_eq_sgn _ _ (fun a b h => heinj (Fin.ext h)), ofFn_rowsOf,
      parity_eq_sortSign d0 d (holes_particles_length d0 d hll hp)]
    rfl
  -- (3) non-hole positions keep their reference row
  have hkeep : ∀ p, ¬H p → eRows p = refRows p := by
    intro p hp'
    apply Fin.ext
    rw [rowsOf_val, rowsOf_val]
    have hx : (occList d0).get (p.cast hk.symm) ∉ holes d0 d := hp'
    have hinp : inPlace d0 d = (occList d0).map (simul (holes d0 d) (particles d0 d)) := by
      unfold inPlace simul; rfl
    have hget : (inPlace d0 d).get (p.cast hke.symm)
        = simul (holes d0 d) (particles d0 d) ((occList d0).get (p.cast hk.symm)) := by
      simp [List.get_eq_getElem, hinp]
    rw [hget]
    unfold simul
    rw [idxOf?_none_of_not_mem _ _ hx]
  have h2 := excitation_minor W refRows eRows H hWref hkeep
  rw [← h2, h1, hsign, ← mul_assoc]
  have : ((parity d0 d : ℤ) : K) * ((parity d0 d : ℤ) : K) = 1 := by
    rw [← hsign, invSign_eq_sgn _ _ (fun a b h => heinj (Fin.ext h)), ← Int.cast_mul, sgn_sq, Int.cast_one]
  rw [this, one_mul]


end jacobi


/-! ## the whole list: `multislater._calc_overlap` = `Σ_i c_i ⟨D_i|φ⟩` -/

section wholeList
open AfqmcVerif.Dets

open Matrix

variable {K : Type} [Field K] {m k : ℕ}

/-- minor of the walker on a list of rows (0 when the list is not a list of `k` valid rows) -/
def minorOn (W : Matrix (Fin m) (Fin k) K) (L : List Nat) : K :=
  if h : L.length = k ∧ ∀ x ∈ L, x < m then (W.submatrix (rowsOf L m k h.1 h.2) id).det else 0

/-- the excitation block `Θ[particles, hole positions]` of `Θ = W (W_ref)⁻¹` for the determinant `d` seen from `d0` -/
noncomputable def excBlock (W : Matrix (Fin m) (Fin k) K) (d0 d : List Bool) : K :=
  if h : ((occList d0).length = k ∧ ∀ x ∈ occList d0, x < m) ∧ ((inPlace d0 d).length = k ∧ ∀ x ∈ inPlace d0 d, x < m) then
    (toSquareBlockProp ((W * (W.submatrix (rowsOf (occList d0) m k h.1.1 h.1.2) id)⁻¹).submatrix
        (rowsOf (inPlace d0 d) m k h.2.1 h.2.2) id)
      (fun p => (rowsOf (occList d0) m k h.1.1 h.1.2 p).val ∈ holes d0 d)).det
  else 0

/-- one spin block of one list entry, as `multislater` evaluates it = the amplitude of the determinant -/
theorem entry_eq (W : Matrix (Fin m) (Fin k) K) (d0 d : List Bool)
    (hl0 : d0.length = m) (hl : d.length = m) (hk : (occList d0).length = k) (hp : popcount d0 = popcount d)
    (hW : minorOn W (occList d0) ≠ 0) :
    minorOn W (occList d) = ((parity d0 d : ℤ) : K) * (minorOn W (occList d0) * excBlock W d0 d) := by
  have hm0 : ∀ x ∈ occList d0, x < m := fun x hx => hl0 ▸ (mem_occList.1 hx).1
  have hkd : (occList d).length = k := by
    rw [← hk]; have := popcount_eq d0; have := popcount_eq d; unfold occList; omega
  have hmd : ∀ x ∈ occList d, x < m := fun x hx => hl ▸ (mem_occList.1 hx).1
  have hke : (inPlace d0 d).length = k := by rw [← hk]; simp [inPlace]
  have hme : ∀ x ∈ inPlace d0 d, x < m := fun x hx =>
    hl ▸ (mem_occList.1 (((inPlace_rep d0 d (hl0.trans hl.symm) hp).2 x).1 hx)).1
  have e0 : minorOn W (occList d0) = (W.submatrix (rowsOf (occList d0) m k hk hm0) id).det := by
    unfold minorOn; rw [dif_pos ⟨hk, hm0⟩]
  have e1 : minorOn W (occList d) = (W.submatrix (rowsOf (occList d) m k hkd hmd) id).det := by
    unfold minorOn; rw [dif_pos ⟨hkd, hmd⟩]
  have e2 : excBlock W d0 d = (toSquareBlockProp ((W * (W.submatrix (rowsOf (occList d0) m k hk hm0) id)⁻¹).submatrix
        (rowsOf (inPlace d0 d) m k hke hme) id)
      (fun p => (rowsOf (occList d0) m k hk hm0 p).val ∈ holes d0 d)).det := by
    unfold excBlock; rw [dif_pos ⟨⟨hk, hm0⟩, ⟨hke, hme⟩⟩]
  have hunit : IsUnit (W.submatrix (rowsOf (occList d0) m k hk hm0) id).det := by
    rw [← e0]; exact isUnit_iff_ne_zero.2 hW
  have := determinant_entry W d0 d hl0 hl hk hp hunit
  rw [e0, e1, e2]
  exact this


open Matrix

variable {K : Type} [Field K] {m ka kb : ℕ}

/-- one entry of a determinant list: alpha string, beta string, coefficient -/
structure DetRec (K : Type) where
  da : List Bool
  db : List Bool
  c : K

/-- `⟨ψ_T|φ⟩` for `|ψ_T⟩ = Σ_i c_i |D_i⟩` (alpha string × beta string), real coefficients, written over occupation strings -/
def msSpec (Wa : Matrix (Fin m) (Fin ka) K) (Wb : Matrix (Fin m) (Fin kb) K) (L : List (DetRec K)) : K :=
  (L.map fun D => D.c * (minorOn Wa (occList D.da) * minorOn Wb (occList D.db))).sum

/-- `multislater._calc_overlap`: reference overlap times the sum over the list of (coefficient × parities, as
`get_excitations` stores it) × alpha block × beta block of the Green's function `Θ = W (W_ref)⁻¹` -/
noncomputable def msCode (ra rb : List Bool) (Wa : Matrix (Fin m) (Fin ka) K) (Wb : Matrix (Fin m) (Fin kb) K)
    (L : List (DetRec K)) : K :=
  (minorOn Wa (occList ra) * minorOn Wb (occList rb)) *
    (L.map fun D => (D.c * ((parity ra D.da : ℤ) : K) * ((parity rb D.db : ℤ) : K))
      * (excBlock Wa ra D.da * excBlock Wb rb D.db)).sum

/-- **a determinant-list trial means what it says** (every number of orbitals and electrons, every list, every
reference determinant, every excitation rank): the Wick-type formula of `multislater` equals the explicit sum over
determinants, whenever the walker has non-vanishing overlap with the reference determinant -/
theorem multislater_overlap (ra rb : List Bool) (Wa : Matrix (Fin m) (Fin ka) K) (Wb : Matrix (Fin m) (Fin kb) K)
    (L : List (DetRec K)) (hra : ra.length = m) (hrb : rb.length = m)
    (hka : (occList ra).length = ka) (hkb : (occList rb).length = kb)
    (hWa : minorOn Wa (occList ra) ≠ 0) (hWb : minorOn Wb (occList rb) ≠ 0)
    (hL : ∀ D ∈ L, D.da.length = m ∧ D.db.length = m ∧ popcount ra = popcount D.da ∧ popcount rb = popcount D.db) :
    msCode ra rb Wa Wb L = msSpec Wa Wb L := by
  unfold msCode msSpec
  induction L with
  | nil => simp
  | cons D t ih =>
    have hD := hL D (by simp)
    have ht : ∀ D' ∈ t, D'.da.length = m ∧ D'.db.length = m ∧ popcount ra = popcount D'.da ∧ popcount rb = popcount D'.db :=
      fun D' h' => hL D' (List.mem_cons_of_mem _ h')
    rw [List.map_cons, List.sum_cons, List.map_cons, List.sum_cons, mul_add, ih ht]
    congr 1
    rw [entry_eq Wa ra D.da hra hD.1 hka hD.2.2.1 hWa, entry_eq Wb rb D.db hrb hD.2.1 hkb hD.2.2.2 hWb]
    ring


end wholeList

/-! ## zero variance -/

variable {n : Type} [Fintype n] [DecidableEq n] {K : Type} [Field K]

/-- if `H` is symmetric for the bilinear pairing and the trial is an eigenvector, the mixed matrix
element is `E` times the overlap for **every** state `φ` (hence the local energy of every walker is `E`) -/
theorem exact_trial_local_energy (H : Matrix n n K) (ψ φ : n → K) (E : K) (hsym : Hᵀ = H)
    (heig : H.mulVec ψ = E • ψ) : ψ ⬝ᵥ H.mulVec φ = E * (ψ ⬝ᵥ φ) := by
  rw [Matrix.dotProduct_mulVec, ← Matrix.mulVec_transpose, hsym, heig, smul_dotProduct, smul_eq_mul]

/-- the same with a conjugated bra, for a Hermitian `H` and a real eigenvalue -/
theorem exact_trial_local_energy_star [StarRing K] (H : Matrix n n K) (ψ φ : n → K) (E : K)
    (hherm : Hᴴ = H) (hE : star E = E) (heig : H.mulVec ψ = E • ψ) :
    star ψ ⬝ᵥ H.mulVec φ = E * (star ψ ⬝ᵥ φ) := by
  rw [Matrix.dotProduct_mulVec]
  have : Matrix.vecMul (star ψ) H = E • star ψ := by
    have h1 := congrArg star heig
    rw [Matrix.star_mulVec, hherm] at h1
    rw [h1, star_smul, hE]
  rw [this, smul_dotProduct, smul_eq_mul]

/-- consequently every block energy is `E` (no sample is ever capped, whatever the weights) -/
theorem exact_trial_block_energy {F : Type} [Field F] [LinearOrder F] [IsStrictOrderedRing F]
    (eEst bound2 E : F) (w : List F) (m : ℕ) (hm : w.length = m) (hW : w.sum ≠ 0)
    (hin : (E - eEst) ^ 2 ≤ bound2) :
    AfqmcVerif.Estimator.blockEnergy eEst bound2 w (List.replicate m E) = E := by
  unfold AfqmcVerif.Estimator.blockEnergy AfqmcVerif.Estimator.wsum
  have hc : AfqmcVerif.Estimator.cap eEst bound2 E = E := by
    unfold AfqmcVerif.Estimator.cap; simp [not_lt.2 hin]
  rw [List.map_replicate, hc]
  have : (List.zipWith (· * ·) w (List.replicate m E)).sum = w.sum * E := by
    subst hm
    clear hW
    induction w with
    | nil => simp
    | cons a t ih =>
      simp only [List.length_cons, List.replicate_succ, List.zipWith_cons_cons, List.sum_cons]
      rw [ih]; ring
  rw [this]; field_simp

end AfqmcVerif.Props.C11
