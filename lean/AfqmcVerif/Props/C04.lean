import AfqmcVerif.Model.Weights
import Mathlib.Algebra.Algebra.Basic
import Mathlib.MeasureTheory.Integral.Bochner.Basic
import Mathlib.MeasureTheory.Measure.Lebesgue.Basic
import Mathlib.MeasureTheory.Group.Integral
import Mathlib.Analysis.SpecialFunctions.Exp
import Mathlib.Tactic.Ring
import Mathlib.Tactic.FieldSimp
import Mathlib.Tactic.Linarith

/-!
# C04 — the phaseless step is an exact importance-sampling reweighting of exp(−dt H)

What is proved here (for every size / trial / Hamiltonian): (i) the new trial overlap cancels from
"importance factor × propagated walker / new overlap"; (ii) the mean-field (completing-the-square)
identity behind `h0_prop`, `mf_shifts` and `h1_mod`; (iii) the force-bias shift identity for real
shifts (`shift_identity_partial`; the complex shift of phaseless AFQMC is a contour shift, not proved);
(v) the projection logic `max(0, cos θ)` through the documented window (on IEEE-like values).
The O(dt²) order clause is covered by the tie (quadrature ladder on the implementation), not by a theorem.
-/
set_option linter.unusedSectionVars false
namespace AfqmcVerif.Props.C04

/-! ## (i) exact cancellation of the trial overlap -/

/-- `I = e^z · ov'/ov`, so `I · φ'/ov' = e^z · φ'/ov`: the averaged quantity does not contain the trial
overlap of the propagated walker (any field of scalars, any vector space of states) -/
theorem importance_cancels {K V : Type} [Field K] [AddCommGroup V] [Module K V]
    (ez ov ov' : K) (φ' : V) (hov' : ov' ≠ 0) :
    (ez * ov' / ov) • ((ov')⁻¹ • φ') = (ez / ov) • φ' := by
  rw [smul_smul]
  congr 1
  field_simp

/-! ## (ii) mean-field identity -/

/-- completing the square in any algebra: `½ X² = ½ (X − l)² + l X − ½ l²`, which turns
`h0 + ĥ + ½ Σ_g L̂_g²` into `(h0 − ½ Σ l_g²) + (ĥ + Σ l_g L̂_g) + ½ Σ (L̂_g − l_g)²`
(`h0_prop = −h0 + ½ Σ l²`, `mf_shifts = i l`, `h1_mod = h − v0 + Σ l_g L_g` in the code) -/
theorem complete_square {K A : Type} [Field K] [Ring A] [Algebra K A] (X : A) (l : K) (h2 : (2 : K) ≠ 0) :
    (2 : K)⁻¹ • (X * X)
      = (2 : K)⁻¹ • ((X - algebraMap K A l) * (X - algebraMap K A l)) + l • X - ((2 : K)⁻¹ * l * l) • (1 : A) := by
  have hc : ∀ a : A, algebraMap K A l * a = a * algebraMap K A l := fun a => Algebra.commutes l a
  simp only [sub_mul, mul_sub, Algebra.algebraMap_eq_smul_one, smul_mul_assoc, mul_smul_comm, one_mul, mul_one,
    smul_sub, smul_smul]
  have e : (2 : K)⁻¹ * l + (2 : K)⁻¹ * l = l := by
    rw [← add_mul, ← two_mul, mul_inv_cancel₀ h2, one_mul]
  rw [show (2 : K)⁻¹ • (X * X) - (2⁻¹ * l) • X - ((2⁻¹ * l) • X - (2⁻¹ * (l * l)) • (1 : A)) + l • X - (2⁻¹ * l * l) • (1 : A)
      = (2 : K)⁻¹ • (X * X) + (l - (2⁻¹ * l + 2⁻¹ * l)) • X + ((2⁻¹ * (l * l)) - (2⁻¹ * l * l)) • (1 : A) by
        simp only [sub_smul, add_smul]; abel]
  rw [e, sub_self, zero_smul, add_zero, mul_assoc, sub_self, zero_smul, add_zero]

/-! ## (iii) force-bias shift identity, real shifts -/

/-- for the standard Gaussian weight and a **real** shift `f`:
`∫ e^{−x²/2} e^{x f − f²/2} g(x − f) dx = ∫ e^{−y²/2} g(y) dy` (translation invariance): the force bias
drops out of the field average, it only reduces variance.  The complex shift used by phaseless AFQMC
needs a contour shift of an entire integrand and is *not* proved here. -/
theorem shift_identity_partial (g : ℝ → ℝ) (f : ℝ) :
    ∫ x, Real.exp (-(x ^ 2) / 2) * (Real.exp (x * f - f ^ 2 / 2) * g (x - f))
      = ∫ y, Real.exp (-(y ^ 2) / 2) * g y := by
  have h : ∀ x : ℝ, Real.exp (-(x ^ 2) / 2) * (Real.exp (x * f - f ^ 2 / 2) * g (x - f))
      = (fun y => Real.exp (-(y ^ 2) / 2) * g y) (x - f) := by
    intro x
    simp only
    rw [← mul_assoc, ← Real.exp_add]
    congr 2
    ring
  simp only [h]
  exact MeasureTheory.integral_sub_right_eq_self (fun y => Real.exp (-(y ^ 2) / 2) * g y) f

/-! ## (v) projection logic -/
open AfqmcVerif AfqmcVerif.FVal AfqmcVerif.Weights

/-- `cos θ ≤ 0` (raw factor `|I| cos θ ≤ 0`) ⇒ the applied weight factor is 0 -/
theorem nonpositive_phase_kills (lo hi q : ℚ) (hlo : 0 < lo) (hq : q ≤ 0) : clipFactor lo hi (fin q) = fin 0 := by
  have : q < lo := lt_of_le_of_lt hq hlo
  simp [clipFactor, wher, isNan, lt, this, hlo]

/-- inside the window the applied factor is the raw factor itself (`|I| · max(0, cos θ)`) -/
theorem window_keeps (lo hi q : ℚ) (h1 : lo ≤ q) (h2 : q ≤ hi) : clipFactor lo hi (fin q) = fin q := by
  simp [clipFactor, wher, isNan, lt, not_lt.2 h1, not_lt.2 h2]

end AfqmcVerif.Props.C04
