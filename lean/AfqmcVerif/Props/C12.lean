import AfqmcVerif.Lemmas.Machine
import AfqmcVerif.Generated.SamplerProg
import AfqmcVerif.Lemmas.Estimator
import Mathlib.Tactic.Linarith
import Mathlib.Tactic.Ring
import Mathlib.Tactic.FieldSimp
import Mathlib.Algebra.Order.BigOperators.Group.List
import Mathlib.Data.List.Perm.Basic
import Mathlib.Algebra.BigOperators.Group.List.Lemmas

/-!
# C12 — all sampler entry points compute the same, correct block estimator
-/
set_option linter.unusedSectionVars false
namespace AfqmcVerif.Props.C12
open AfqmcVerif.Machine AfqmcVerif.Generated.SamplerProg AfqmcVerif.Estimator

section machine
variable {W O R : Type}

/-- **with / without orbital relaxation**: for a converged trial (`optimize` is the identity) the
AD entry point with orbital rotation runs exactly like the one without — every history, every
implementation of the operations -/
theorem ad_eq_norot (S : Sem W O R) (ρ : String → Nat) (β : List Bool) (σ : State W O R)
    (hopt : ∀ r, S.other "optimize" r = r) :
    run S ρ m_propagate_phaseless_ad β σ = run S ρ m_propagate_phaseless_ad_norot β σ := by
  have hid : ∀ t, optTags.contains t = true → ∀ r, S.other t r = r := by
    intro t ht r
    simp [optTags] at ht
    subst ht; exact hopt r
  rw [← run_eraseTags S ρ optTags hid m_propagate_phaseless_ad,
    ← run_eraseTags S ρ optTags hid m_propagate_phaseless_ad_norot, ad_eq_ad_norot]

theorem ad_nosr_eq_norot (S : Sem W O R) (ρ : String → Nat) (β : List Bool) (σ : State W O R)
    (hopt : ∀ r, S.other "optimize" r = r) :
    run S ρ m_propagate_phaseless_ad_nosr β σ = run S ρ m_propagate_phaseless_ad_nosr_norot β σ := by
  have hid : ∀ t, optTags.contains t = true → ∀ r, S.other t r = r := by
    intro t ht r
    simp [optTags] at ht
    subst ht; exact hopt r
  rw [← run_eraseTags S ρ optTags hid m_propagate_phaseless_ad_nosr,
    ← run_eraseTags S ρ optTags hid m_propagate_phaseless_ad_nosr_norot, ad_nosr_eq_ad_nosr_norot]

/-- **AD primal = plain sampler at zero coupling**: when rebuilding the intermediates reproduces the
ones already stored (zero coupling), the AD entry point runs exactly like the plain sampler -/
theorem ad_norot_eq_plain (S : Sem W O R) (ρ : String → Nat) (β : List Bool) (σ : State W O R)
    (hopt : ∀ r, S.other "optimize" r = r)
    (hm : ∀ r, S.other "build_measurement_intermediates" r = r)
    (hp : ∀ r, S.other "build_propagation_intermediates" r = r) :
    run S ρ m_propagate_phaseless_ad_norot β σ = run S ρ m_propagate_phaseless β σ := by
  have hid : ∀ t, setupTags.contains t = true → ∀ r, S.other t r = r := by
    intro t ht r
    simp [setupTags] at ht
    rcases ht with rfl | rfl | rfl
    · exact hopt r
    · exact hm r
    · exact hp r
  rw [← run_eraseTags S ρ setupTags hid m_propagate_phaseless_ad_norot,
    ← run_eraseTags S ρ setupTags hid m_propagate_phaseless,
    AfqmcVerif.Generated.SamplerProg.ad_norot_eq_plain]

/-- every call in `sampling.py` / `driver.py` to a sampler, hamiltonian, propagator or trial method
matches the callee's signature, and every scan was resolved (callability of all entry points) -/
theorem all_calls_well_formed : translationIssues = [] := translation_clean

end machine

section estimator
variable {K : Type} [Field K] [LinearOrder K] [IsStrictOrderedRing K]

/-- the cap replaces exactly the samples further than `sqrt(2/dt)` from the running estimate -/
theorem cap_spec (eEst bound2 e : K) :
    (bound2 < (e - eEst) ^ 2 → cap eEst bound2 e = eEst) ∧
    ((e - eEst) ^ 2 ≤ bound2 → cap eEst bound2 e = e) := by
  unfold cap
  constructor
  · intro h; simp [h]
  · intro h; simp [not_lt.2 h]

/-- after the cap every sample is within the window of the running estimate -/
theorem cap_within (eEst bound2 e : K) (hb : 0 ≤ bound2) : (cap eEst bound2 e - eEst) ^ 2 ≤ bound2 := by
  unfold cap
  split
  · simpa using hb
  · rename_i h; exact not_lt.1 h

/-- with no outliers the block energy is the plain weight-averaged local energy -/
theorem blockEnergy_no_outliers (eEst bound2 : K) (w e : List K)
    (h : ∀ x ∈ e, (x - eEst) ^ 2 ≤ bound2) : blockEnergy eEst bound2 w e = wsum w e / w.sum := by
  unfold blockEnergy
  congr 2
  conv_rhs => rw [← List.map_id e]
  apply List.map_congr_left
  intro x hx
  exact (cap_spec eEst bound2 x).2 (h x hx)

/-- constant local energy `E` (exact trial): the block energy is `E`, whatever the weights -/
theorem blockEnergy_const (eEst bound2 E : K) (w : List K) (n : ℕ) (hn : w.length = n)
    (hW : w.sum ≠ 0) (hin : (E - eEst) ^ 2 ≤ bound2) :
    blockEnergy eEst bound2 w (List.replicate n E) = E := by
  unfold blockEnergy wsum
  rw [List.map_replicate, (cap_spec eEst bound2 E).2 hin]
  have : (List.zipWith (· * ·) w (List.replicate n E)).sum = w.sum * E := by
    subst hn
    clear hW
    induction w with
    | nil => simp
    | cons a t ih =>
      simp only [List.length_cons, List.replicate_succ, List.zipWith_cons_cons, List.sum_cons]
      rw [ih]; ring
  rw [this]; field_simp

/-- batching changes nothing: evaluating per batch and concatenating is the per-walker map, for
every batch count `nb` and batch size `bs` with `nb · bs = n` -/
theorem batched_eq_map {α β : Type} (f : α → β) (nb bs : ℕ) (l : List α) (h : l.length = nb * bs) :
    batched f nb bs l = l.map f := AfqmcVerif.Estimator.batched_eq_map f nb bs l h

/-- the value an entry point returns from its blocks: with a single block it is that block's energy -/
theorem combine_single (E Wt : K) (hW : Wt ≠ 0) : combine [(E, Wt)] = E := by
  unfold combine; simp; field_simp

/-- numerator and denominator of `combine` over a concatenation of groups -/
theorem combine_flatten_num (groups : List (List (K × K))) :
    (groups.flatten.map fun b => b.1 * b.2).sum = (groups.map fun g => (g.map fun b => b.1 * b.2).sum).sum := by
  simp [List.sum_flatten, Function.comp_def]

theorem combine_flatten_den (groups : List (List (K × K))) :
    (groups.flatten.map fun b => b.2).sum = (groups.map fun g => (g.map fun b => b.2).sum).sum := by
  simp [List.sum_flatten, Function.comp_def]

/-- **reduction over the (n_sr_blocks, n_ene_blocks) array**: the total-weight average over all blocks equals the
average of the per-reconfiguration-block averages *weighted by the total weight of each reconfiguration block* — for
every grouping of the blocks.  (An unweighted mean over the groups is a different number as soon as the group weights
differ: `two_stage_unweighted_differs`.) -/
theorem combine_grouped (groups : List (List (K × K)))
    (hW : ∀ g ∈ groups, (g.map fun b => b.2).sum ≠ 0) :
    combine groups.flatten = combine (groups.map fun g => (combine g, (g.map fun b => b.2).sum)) := by
  unfold combine
  rw [combine_flatten_num, combine_flatten_den]
  congr 1
  · simp only [List.map_map]
    congr 1
    refine List.map_congr_left fun g hg => ?_
    simp only [Function.comp]
    exact (div_mul_cancel₀ _ (hW g hg)).symm
  · simp only [List.map_map]; rfl

/-- witness: two reconfiguration blocks of one energy block each, energies 0 and 1, weights 1 and 3 — the block
estimator is 3/4, the unweighted mean of the per-group energies is 1/2 -/
theorem two_stage_unweighted_differs :
    combine [((0 : ℚ), 1), (1, 3)] = 3 / 4 ∧ (combine [((0 : ℚ), 1)] + combine [((1 : ℚ), 3)]) / 2 = 1 / 2 := by
  constructor <;> norm_num [combine]

/-- constant block energies: the combined value is that constant, whatever the block weights -/
theorem combine_const (E : K) (ws : List K) (hW : ws.sum ≠ 0) : combine (ws.map fun w => (E, w)) = E := by
  unfold combine
  simp only [List.map_map, Function.comp_def, List.map_id']
  have : (ws.map fun x => E * x).sum = E * ws.sum := by
    clear hW
    induction ws with
    | nil => simp
    | cons a l ih => simp [List.sum_cons, ih, mul_add]
  rw [this]
  field_simp

end estimator

/-! ## non-vacuity -/
example : cap (0 : ℚ) 2 3 = 0 ∧ cap (0 : ℚ) 2 1 = 1 := by constructor <;> norm_num [cap]
example : batched (· + 1) 2 2 [1, 2, 3, 4] = [2, 3, 4, 5] := by decide

end AfqmcVerif.Props.C12
