import AfqmcVerif.Lemmas.Det
import Mathlib.LinearAlgebra.Matrix.SchurComplement
import Mathlib.Tactic.FieldSimp
import Mathlib.Tactic.Ring
import Mathlib.Tactic.LinearCombination
import Mathlib.Tactic.FinCases

/-!
# C10 — the CPMC step samples the discrete Hubbard–Stratonovich propagator without bias

Generalised layout (one block of `m` spin-orbitals, `k` electrons; the UHF layout is the block
diagonal special case).  `M = Cᵀ W`, `P = W M⁻¹ Cᵀ` (the code's Green's function is `Pᵀ`).
-/
set_option linter.unusedSectionVars false
namespace AfqmcVerif.Props.C10
open Matrix

variable {m k : ℕ} {K : Type} [Field K]

/-- the matrix whose transpose is `calc_full_green` -/
noncomputable def P (C W : Matrix (Fin m) (Fin k) K) : Matrix (Fin m) (Fin m) K := W * (Cᵀ * W)⁻¹ * Cᵀ

/-- scaling the rows of the walker by `1 + d_p` (the HS field multiplies row `i` by a constant) -/
def scaled (W : Matrix (Fin m) (Fin k) K) (d : Fin m → K) : Matrix (Fin m) (Fin k) K :=
  (1 + Matrix.diagonal d) * W

/-- **overlap ratio**, any set of scaled rows: `det(Cᵀ (1 + D) W) = det(Cᵀ W) · det(1 + D P)` -/
theorem ratio_general (C W : Matrix (Fin m) (Fin k) K) (d : Fin m → K) (hM : (Cᵀ * W).det ≠ 0) :
    (Cᵀ * scaled W d).det = (Cᵀ * W).det * (1 + Matrix.diagonal d * P C W).det := by
  have hu : IsUnit (Cᵀ * W).det := isUnit_iff_ne_zero.2 hM
  unfold scaled P
  have e : Cᵀ * ((1 + Matrix.diagonal d) * W)
      = (Cᵀ * W) * (1 + (Cᵀ * W)⁻¹ * (Cᵀ * (Matrix.diagonal d * W))) := by
    rw [Matrix.mul_add (Cᵀ * W), Matrix.mul_one, ← Matrix.mul_assoc (Cᵀ * W), Matrix.mul_nonsing_inv _ hu,
      Matrix.one_mul, Matrix.add_mul, Matrix.one_mul, Matrix.mul_add]
  rw [e, Matrix.det_mul]
  congr 1
  have e2 : (Cᵀ * W)⁻¹ * (Cᵀ * (Matrix.diagonal d * W)) = ((Cᵀ * W)⁻¹ * Cᵀ * Matrix.diagonal d) * W := by
    simp only [Matrix.mul_assoc]
  have e3 : Matrix.diagonal d * (W * (Cᵀ * W)⁻¹ * Cᵀ) = (Matrix.diagonal d * W) * ((Cᵀ * W)⁻¹ * Cᵀ) := by
    simp only [Matrix.mul_assoc]
  rw [e2, Matrix.det_one_add_mul_comm, e3, Matrix.det_one_add_mul_comm]
  rw [Matrix.det_one_add_mul_comm (Matrix.diagonal d * W)]
  simp only [Matrix.mul_assoc]

/-- determinant of `1 + D Q` for `D` supported on one index -/
theorem det_one_add_diag1 {n : ℕ} (Q : Matrix (Fin n) (Fin n) K) (i : Fin n) (c : K) :
    (1 + Matrix.diagonal (fun p => if p = i then c else 0) * Q).det = 1 + c * Q i i := by
  let U : Matrix (Fin n) (Fin 1) K := Matrix.of fun a _ => if a = i then c else 0
  let V : Matrix (Fin 1) (Fin n) K := Matrix.of fun _ a => Q i a
  have h : Matrix.diagonal (fun p => if p = i then c else 0) * Q = U * V := by
    ext a b
    rw [Matrix.diagonal_mul, Matrix.mul_apply, Fin.sum_univ_one]
    simp only [U, V, Matrix.of_apply]
    by_cases ha : a = i
    · subst ha; simp
    · simp [ha]
  rw [h, Matrix.det_one_add_mul_comm, Matrix.det_fin_one, Matrix.add_apply, Matrix.one_apply_eq,
    Matrix.mul_apply]
  simp only [U, V, Matrix.of_apply]
  rw [Finset.sum_eq_single i]
  · simp [mul_comm]
  · intro b _ hb; simp [hb]
  · intro h; exact absurd (Finset.mem_univ i) h

/-- determinant of `1 + D Q` for `D` supported on two distinct indices -/
theorem det_one_add_diag2 {n : ℕ} (Q : Matrix (Fin n) (Fin n) K) (i j : Fin n) (hij : i ≠ j) (ci cj : K) :
    (1 + Matrix.diagonal (fun p => if p = i then ci else if p = j then cj else 0) * Q).det
      = (1 + ci * Q i i) * (1 + cj * Q j j) - ci * cj * (Q i j * Q j i) := by
  let U : Matrix (Fin n) (Fin 2) K :=
    Matrix.of fun a b => if b = 0 then (if a = i then ci else 0) else (if a = j then cj else 0)
  let V : Matrix (Fin 2) (Fin n) K := Matrix.of fun b a => if b = 0 then Q i a else Q j a
  have h : Matrix.diagonal (fun p => if p = i then ci else if p = j then cj else 0) * Q = U * V := by
    ext a b
    rw [Matrix.diagonal_mul, Matrix.mul_apply, Fin.sum_univ_two]
    simp only [U, V, Matrix.of_apply]
    by_cases ha : a = i
    · subst ha; simp [hij]
    · by_cases hb : a = j
      · subst hb; simp [ha]
      · simp [ha, hb]
  have s00 : (V * U) 0 0 = ci * Q i i := by
    rw [Matrix.mul_apply, Finset.sum_eq_single i]
    · simp [U, V, mul_comm]
    · intro b _ hb; simp [U, V, hb]
    · intro h; exact absurd (Finset.mem_univ i) h
  have s01 : (V * U) 0 1 = cj * Q i j := by
    rw [Matrix.mul_apply, Finset.sum_eq_single j]
    · simp [U, V, mul_comm]
    · intro b _ hb; simp [U, V, hb]
    · intro h; exact absurd (Finset.mem_univ j) h
  have s10 : (V * U) 1 0 = ci * Q j i := by
    rw [Matrix.mul_apply, Finset.sum_eq_single i]
    · simp [U, V, mul_comm]
    · intro b _ hb; simp [U, V, hb]
    · intro h; exact absurd (Finset.mem_univ i) h
  have s11 : (V * U) 1 1 = cj * Q j j := by
    rw [Matrix.mul_apply, Finset.sum_eq_single j]
    · simp [U, V, mul_comm]
    · intro b _ hb; simp [U, V, hb]
    · intro h; exact absurd (Finset.mem_univ j) h
  rw [h, Matrix.det_one_add_mul_comm, Matrix.det_fin_two]
  simp only [Matrix.add_apply, s00, s01, s10, s11, Matrix.one_apply_eq]
  have z01 : (1 : Matrix (Fin 2) (Fin 2) K) 0 1 = 0 := by simp
  have z10 : (1 : Matrix (Fin 2) (Fin 2) K) 1 0 = 0 := by simp
  rw [z01, z10]
  ring

/-- **rank-one ratio** (each spin block under an on-site, opposite-spin update): `1 + c P_ii` -/
theorem ratio_rank_one (C W : Matrix (Fin m) (Fin k) K) (i : Fin m) (c : K) (hM : (Cᵀ * W).det ≠ 0) :
    (Cᵀ * scaled W (fun p => if p = i then c else 0)).det = (Cᵀ * W).det * (1 + c * P C W i i) := by
  rw [ratio_general C W _ hM, det_one_add_diag1]

/-- **rank-two ratio** (two spin-orbitals of the same block, `i ≠ j`):
`(1 + c_i P_ii)(1 + c_j P_jj) − c_i c_j P_ij P_ji`, the formula of `calc_overlap_ratio` -/
theorem ratio_rank_two (C W : Matrix (Fin m) (Fin k) K) (i j : Fin m) (hij : i ≠ j) (ci cj : K)
    (hM : (Cᵀ * W).det ≠ 0) :
    (Cᵀ * scaled W (fun p => if p = i then ci else if p = j then cj else 0)).det
      = (Cᵀ * W).det * ((1 + ci * P C W i i) * (1 + cj * P C W j j) - ci * cj * (P C W i j * P C W j i)) := by
  rw [ratio_general C W _ hM, det_one_add_diag2 _ i j hij]

/-! ## Hubbard–Stratonovich identity on occupation numbers -/

/-- with `c₊ + c₋ = 2` and `c₊ c₋ = κ`, averaging the two fields multiplies a basis state with
`a` up and `b` down electrons on the site (`a, b ∈ {0,1}`) by `κ^{ab}` = `exp(−dt U n↑ n↓)` -/
theorem hs_identity (cp cm κ : K) (h2 : (2 : K) ≠ 0) (hsum : cp + cm = 2) (hprod : cp * cm = κ) (a b : Fin 2) :
    (cp ^ (a : ℕ) * cm ^ (b : ℕ) + cm ^ (a : ℕ) * cp ^ (b : ℕ)) / 2 = κ ^ ((a : ℕ) * (b : ℕ)) := by
  fin_cases a <;> fin_cases b
  · simp
    field_simp
    norm_num
  · simp
    rw [div_eq_iff h2]; linear_combination hsum
  · simp
    rw [div_eq_iff h2]; linear_combination hsum
  · simp
    rw [div_eq_iff h2]; linear_combination 2 * hprod

/-- scaling row `i` of a walker block multiplies the minor on the string `e` by the constant exactly
when the string contains `i` (so the Slater coefficient on an occupation vector picks up
`c^{n_i}`) -/
theorem minor_row_scaling (W : Matrix (Fin m) (Fin k) K) (d : Fin m → K) (e : Fin k → Fin m) :
    ((scaled W d).submatrix e id).det = (∏ r, (1 + d (e r))) * (W.submatrix e id).det := by
  have h : (scaled W d).submatrix e id = Matrix.diagonal (fun r => 1 + d (e r)) * W.submatrix e id := by
    ext r c
    simp [scaled, Matrix.add_mul, Matrix.diagonal_mul, Matrix.submatrix_apply, add_mul]
  rw [h, Matrix.det_mul, Matrix.det_diagonal]

/-! ## site-wise unbiasedness -/

/-- at one site: probability × weight factor / new overlap = ½ / old overlap, for either field,
whenever no constraint is active (`r_x ≠ 0`) -/
theorem site_unbiased (r0 r1 ov : K) (h0 : r0 ≠ 0) (hov : ov ≠ 0) (hn : r0 / 2 + r1 / 2 ≠ 0) (h2 : (2 : K) ≠ 0) :
    let norm := r0 / 2 + r1 / 2
    let prob0 := (r0 / 2) / norm
    prob0 * norm / (r0 * ov) = 1 / (2 * ov) := by
  intro norm prob0
  simp only [norm, prob0]
  rw [div_mul_cancel₀ _ hn]
  field_simp

end AfqmcVerif.Props.C10
