import AfqmcVerif.Lemmas.Det
import AfqmcVerif.Model.GreenUpdate
import Mathlib.LinearAlgebra.Matrix.SchurComplement
import Mathlib.Tactic.FieldSimp
import Mathlib.Tactic.Ring
import Mathlib.Tactic.LinearCombination
import Mathlib.Tactic.FinCases

/-!
# C10 — the CPMC step samples the discrete Hubbard–Stratonovich propagator without bias

Generalised layout (one block of `m` spin-orbitals, `k` electrons; the UHF layout is the block
diagonal special case).  `M = Cᵀ W`, `P = W M⁻¹ Cᵀ` (the code's Green's function is `Pᵀ`).
-/
set_option linter.unusedSectionVars false
namespace AfqmcVerif.Props.C10
open Matrix AfqmcVerif.GreenUpdate

variable {m k : ℕ} {K : Type} [Field K]

/-- the matrix whose transpose is `calc_full_green` -/
noncomputable def P (C W : Matrix (Fin m) (Fin k) K) : Matrix (Fin m) (Fin m) K := W * (Cᵀ * W)⁻¹ * Cᵀ

/-- scaling the rows of the walker by `1 + d_p` (the HS field multiplies row `i` by a constant) -/
def scaled (W : Matrix (Fin m) (Fin k) K) (d : Fin m → K) : Matrix (Fin m) (Fin k) K :=
  (1 + Matrix.diagonal d) * W

/-- **overlap ratio**, any set of scaled rows: `det(Cᵀ (1 + D) W) = det(Cᵀ W) · det(1 + D P)` -/
theorem ratio_general (C W : Matrix (Fin m) (Fin k) K) (d : Fin m → K) (hM : (Cᵀ * W).det ≠ 0) :
    (Cᵀ * scaled W d).det = (Cᵀ * W).det * (1 + Matrix.diagonal d * P C W).det := by
  have hu : IsUnit (Cᵀ * W).det := isUnit_iff_ne_zero.2 hM
  unfold scaled P
  have e : Cᵀ * ((1 + Matrix.diagonal d) * W)
      = (Cᵀ * W) * (1 + (Cᵀ * W)⁻¹ * (Cᵀ * (Matrix.diagonal d * W))) := by
    rw [Matrix.mul_add (Cᵀ * W), Matrix.mul_one, ← Matrix.mul_assoc (Cᵀ * W), Matrix.mul_nonsing_inv _ hu,
      Matrix.one_mul, Matrix.add_mul, Matrix.one_mul, Matrix.mul_add]
  rw [e, Matrix.det_mul]
  congr 1
  have e2 : (Cᵀ * W)⁻¹ * (Cᵀ * (Matrix.diagonal d * W)) = ((Cᵀ * W)⁻¹ * Cᵀ * Matrix.diagonal d) * W := by
    simp only [Matrix.mul_assoc]
  have e3 : Matrix.diagonal d * (W * (Cᵀ * W)⁻¹ * Cᵀ) = (Matrix.diagonal d * W) * ((Cᵀ * W)⁻¹ * Cᵀ) := by
    simp only [Matrix.mul_assoc]
  rw [e2, Matrix.det_one_add_mul_comm, e3, Matrix.det_one_add_mul_comm]
  rw [Matrix.det_one_add_mul_comm (Matrix.diagonal d * W)]
  simp only [Matrix.mul_assoc]

/-- determinant of `1 + D Q` for `D` supported on one index -/
theorem det_one_add_diag1 {n : ℕ} (Q : Matrix (Fin n) (Fin n) K) (i : Fin n) (c : K) :
    (1 + Matrix.diagonal (fun p => if p = i then c else 0) * Q).det = 1 + c * Q i i := by
  let U : Matrix (Fin n) (Fin 1) K := Matrix.of fun a _ => if a = i then c else 0
  let V : Matrix (Fin 1) (Fin n) K := Matrix.of fun _ a => Q i a
  have h : Matrix.diagonal (fun p => if p = i then c else 0) * Q = U * V := by
    ext a b
    rw [Matrix.diagonal_mul, Matrix.mul_apply, Fin.sum_univ_one]
    simp only [U, V, Matrix.of_apply]
    by_cases ha : a = i
    · subst ha; simp
    · simp [ha]
  rw [h, Matrix.det_one_add_mul_comm, Matrix.det_fin_one, Matrix.add_apply, Matrix.one_apply_eq,
    Matrix.mul_apply]
  simp only [U, V, Matrix.of_apply]
  rw [Finset.sum_eq_single i]
  · simp [mul_comm]
  · intro b _ hb; simp [hb]
  · intro h; exact absurd (Finset.mem_univ i) h

/-- determinant of `1 + D Q` for `D` supported on two distinct indices -/
theorem det_one_add_diag2 {n : ℕ} (Q : Matrix (Fin n) (Fin n) K) (i j : Fin n) (hij : i ≠ j) (ci cj : K) :
    (1 + Matrix.diagonal (fun p => if p = i then ci else if p = j then cj else 0) * Q).det
      = (1 + ci * Q i i) * (1 + cj * Q j j) - ci * cj * (Q i j * Q j i) := by
  let U : Matrix (Fin n) (Fin 2) K :=
    Matrix.of fun a b => if b = 0 then (if a = i then ci else 0) else (if a = j then cj else 0)
  let V : Matrix (Fin 2) (Fin n) K := Matrix.of fun b a => if b = 0 then Q i a else Q j a
  have h : Matrix.diagonal (fun p => if p = i then ci else if p = j then cj else 0) * Q = U * V := by
    ext a b
    rw [Matrix.diagonal_mul, Matrix.mul_apply, Fin.sum_univ_two]
    simp only [U, V, Matrix.of_apply]
    by_cases ha : a = i
    · subst ha; simp [hij]
    · by_cases hb : a = j
      · subst hb; simp [ha]
      · simp [ha, hb]
  have s00 : (V * U) 0 0 = ci * Q i i := by
    rw [Matrix.mul_apply, Finset.sum_eq_single i]
    · simp [U, V, mul_comm]
    · intro b _ hb; simp [U, V, hb]
    · intro h; exact absurd (Finset.mem_univ i) h
  have s01 : (V * U) 0 1 = cj * Q i j := by
    rw [Matrix.mul_apply, Finset.sum_eq_single j]
    · simp [U, V, mul_comm]
    · intro b _ hb; simp [U, V, hb]
    · intro h; exact absurd (Finset.mem_univ j) h
  have s10 : (V * U) 1 0 = ci * Q j i := by
    rw [Matrix.mul_apply, Finset.sum_eq_single i]
    · simp [U, V, mul_comm]
    · intro b _ hb; simp [U, V, hb]
    · intro h; exact absurd (Finset.mem_univ i) h
  have s11 : (V * U) 1 1 = cj * Q j j := by
    rw [Matrix.mul_apply, Finset.sum_eq_single j]
    · simp [U, V, mul_comm]
    · intro b _ hb; simp [U, V, hb]
    · intro h; exact absurd (Finset.mem_univ j) h
  rw [h, Matrix.det_one_add_mul_comm, Matrix.det_fin_two]
  simp only [Matrix.add_apply, s00, s01, s10, s11, Matrix.one_apply_eq]
  have z01 : (1 : Matrix (Fin 2) (Fin 2) K) 0 1 = 0 := by simp
  have z10 : (1 : Matrix (Fin 2) (Fin 2) K) 1 0 = 0 := by simp
  rw [z01, z10]
  ring

/-- **rank-one ratio** (each spin block under an on-site, opposite-spin update): `1 + c P_ii` -/
theorem ratio_rank_one (C W : Matrix (Fin m) (Fin k) K) (i : Fin m) (c : K) (hM : (Cᵀ * W).det ≠ 0) :
    (Cᵀ * scaled W (fun p => if p = i then c else 0)).det = (Cᵀ * W).det * (1 + c * P C W i i) := by
  rw [ratio_general C W _ hM, det_one_add_diag1]

/-- **rank-two ratio** (two spin-orbitals of the same block, `i ≠ j`):
`(1 + c_i P_ii)(1 + c_j P_jj) − c_i c_j P_ij P_ji`, the formula of `calc_overlap_ratio` -/
theorem ratio_rank_two (C W : Matrix (Fin m) (Fin k) K) (i j : Fin m) (hij : i ≠ j) (ci cj : K)
    (hM : (Cᵀ * W).det ≠ 0) :
    (Cᵀ * scaled W (fun p => if p = i then ci else if p = j then cj else 0)).det
      = (Cᵀ * W).det * ((1 + ci * P C W i i) * (1 + cj * P C W j j) - ci * cj * (P C W i j * P C W j i)) := by
  rw [ratio_general C W _ hM, det_one_add_diag2 _ i j hij]

/-! ## Hubbard–Stratonovich identity on occupation numbers -/

/-- with `c₊ + c₋ = 2` and `c₊ c₋ = κ`, averaging the two fields multiplies a basis state with
`a` up and `b` down electrons on the site (`a, b ∈ {0,1}`) by `κ^{ab}` = `exp(−dt U n↑ n↓)` -/
theorem hs_identity (cp cm κ : K) (h2 : (2 : K) ≠ 0) (hsum : cp + cm = 2) (hprod : cp * cm = κ) (a b : Fin 2) :
    (cp ^ (a : ℕ) * cm ^ (b : ℕ) + cm ^ (a : ℕ) * cp ^ (b : ℕ)) / 2 = κ ^ ((a : ℕ) * (b : ℕ)) := by
  fin_cases a <;> fin_cases b
  · simp
    field_simp
    norm_num
  · simp
    rw [div_eq_iff h2]; linear_combination hsum
  · simp
    rw [div_eq_iff h2]; linear_combination hsum
  · simp
    rw [div_eq_iff h2]; linear_combination 2 * hprod

/-- scaling row `i` of a walker block multiplies the minor on the string `e` by the constant exactly
when the string contains `i` (so the Slater coefficient on an occupation vector picks up
`c^{n_i}`) -/
theorem minor_row_scaling (W : Matrix (Fin m) (Fin k) K) (d : Fin m → K) (e : Fin k → Fin m) :
    ((scaled W d).submatrix e id).det = (∏ r, (1 + d (e r))) * (W.submatrix e id).det := by
  have h : (scaled W d).submatrix e id = Matrix.diagonal (fun r => 1 + d (e r)) * W.submatrix e id := by
    ext r c
    simp [scaled, Matrix.add_mul, Matrix.diagonal_mul, Matrix.submatrix_apply, add_mul]
  rw [h, Matrix.det_mul, Matrix.det_diagonal]

/-! ## site-wise unbiasedness -/

/-- at one site: probability × weight factor / new overlap = ½ / old overlap, for either field,
whenever no constraint is active (`r_x ≠ 0`) -/
theorem site_unbiased (r0 r1 ov : K) (h0 : r0 ≠ 0) (hov : ov ≠ 0) (hn : r0 / 2 + r1 / 2 ≠ 0) (h2 : (2 : K) ≠ 0) :
    let norm := r0 / 2 + r1 / 2
    let prob0 := (r0 / 2) / norm
    prob0 * norm / (r0 * ov) = 1 / (2 * ov) := by
  intro norm prob0
  simp only [norm, prob0]
  rw [div_mul_cancel₀ _ hn]
  field_simp

/-! ## the rank-two Green's-function update (`update_greens_function`) is exact -/


/-- **closed form of the updated Green's function, any set of scaled rows**:
`P' (1 + D P) = (1 + D) P`, i.e. `P' = (1 + D) P (1 + D P)⁻¹` whenever the overlap ratio `det(1 + D P)` is non-zero -/
theorem green_update_closed (C W : Matrix (Fin m) (Fin k) K) (d : Fin m → K) (hM : (Cᵀ * W).det ≠ 0)
    (hM' : (Cᵀ * scaled W d).det ≠ 0) :
    P C (scaled W d) * (1 + Matrix.diagonal d * P C W) = (1 + Matrix.diagonal d) * P C W := by
  have hu : IsUnit (Cᵀ * W).det := isUnit_iff_ne_zero.2 hM
  have hu' : IsUnit (Cᵀ * scaled W d).det := isUnit_iff_ne_zero.2 hM'
  unfold P
  set M := Cᵀ * W with hMdef
  set W' := scaled W d with hW'
  set M' := Cᵀ * W' with hM'def
  have key : Cᵀ * (1 + Matrix.diagonal d * (W * M⁻¹ * Cᵀ)) = M' * (M⁻¹ * Cᵀ) := by
    have e1 : M' = M + Cᵀ * Matrix.diagonal d * W := by
      rw [hM'def, hW']; unfold scaled
      rw [Matrix.add_mul, Matrix.one_mul, Matrix.mul_add, Matrix.mul_assoc]
    rw [e1, Matrix.add_mul, ← Matrix.mul_assoc M, Matrix.mul_nonsing_inv _ hu, Matrix.one_mul,
      Matrix.mul_add, Matrix.mul_one]
    simp only [Matrix.mul_assoc]
  calc W' * M'⁻¹ * Cᵀ * (1 + Matrix.diagonal d * (W * M⁻¹ * Cᵀ))
      = W' * M'⁻¹ * (Cᵀ * (1 + Matrix.diagonal d * (W * M⁻¹ * Cᵀ))) := by simp only [Matrix.mul_assoc]
    _ = W' * M'⁻¹ * (M' * (M⁻¹ * Cᵀ)) := by rw [key]
    _ = W' * (M'⁻¹ * M') * (M⁻¹ * Cᵀ) := by simp only [Matrix.mul_assoc]
    _ = W' * (M⁻¹ * Cᵀ) := by rw [Matrix.nonsing_inv_mul _ hu', Matrix.mul_one]
    _ = (1 + Matrix.diagonal d) * (W * M⁻¹ * Cᵀ) := by
        rw [hW']; unfold scaled; simp only [Matrix.mul_assoc]



theorem sum_dvec (i j : Fin m) (hij : i ≠ j) (ci cj : K) (f : Fin m → K) :
    ∑ p, f p * dvec i j ci cj p = f i * ci + f j * cj := by
  unfold dvec
  have : ∀ p, f p * (if p = i then ci else if p = j then cj else 0)
      = (if p = i then f i * ci else 0) + (if p = j then f j * cj else 0) := by
    intro p
    by_cases h1 : p = i
    · subst h1; simp [hij]
    · by_cases h2 : p = j
      · subst h2; simp [h1]
      · simp [h1, h2]
  simp only [this, Finset.sum_add_distrib, Finset.sum_ite_eq', Finset.mem_univ, if_true]

/-- the code's update satisfies the defining equation of the updated Green's function — for ANY matrix `Pm` -/
theorem greenCode_equation (Pm : Matrix (Fin m) (Fin m) K) (i j : Fin m) (hij : i ≠ j) (ci cj : K)
    (hr : ratio2 Pm i j ci cj ≠ 0) :
    greenCode Pm i j ci cj * (1 + Matrix.diagonal (dvec i j ci cj) * Pm)
      = (1 + Matrix.diagonal (dvec i j ci cj)) * Pm := by
  ext y x
  rw [Matrix.mul_add, Matrix.mul_one, Matrix.add_mul, Matrix.one_mul, Matrix.add_apply, Matrix.add_apply,
    Matrix.mul_apply]
  have hsum : ∑ p, greenCode Pm i j ci cj y p * (Matrix.diagonal (dvec i j ci cj) * Pm) p x
      = greenCode Pm i j ci cj y i * ci * Pm i x + greenCode Pm i j ci cj y j * cj * Pm j x := by
    have : ∀ p, greenCode Pm i j ci cj y p * (Matrix.diagonal (dvec i j ci cj) * Pm) p x
        = (greenCode Pm i j ci cj y p * Pm p x) * dvec i j ci cj p := by
      intro p; rw [Matrix.diagonal_mul]; ring
    simp only [this]
    rw [sum_dvec i j hij ci cj (fun p => greenCode Pm i j ci cj y p * Pm p x)]
    ring
  rw [hsum, Matrix.diagonal_mul]
  simp only [greenCode, Matrix.of_apply]
  set r := ratio2 Pm i j ci cj with hrdef
  have hr' : (1 + ci * Pm i i) * (1 + cj * Pm j j) - ci * cj * (Pm i j * Pm j i) = r := rfl
  unfold dvec
  by_cases h1 : y = i
  · subst h1
    simp only [if_true, if_neg hij]
    field_simp
    rw [← hr']; ring
  · by_cases h2 : y = j
    · subst h2
      simp only [if_true, if_neg h1]
      field_simp
      rw [← hr']; ring
    · simp only [if_neg h1, if_neg h2]
      field_simp
      rw [← hr']; ring



/-- **`update_greens_function` is exact** (all dimensions, any pair `i ≠ j` of spin-orbitals, any constants with a
non-vanishing overlap ratio): the code's rank-two update of `G = Pᵀ` is the Green's function of the walker whose
rows `i` and `j` were scaled by `1 + c_i`, `1 + c_j` -/
theorem green_update_correct (C W : Matrix (Fin m) (Fin k) K) (i j : Fin m) (hij : i ≠ j) (ci cj : K)
    (hM : (Cᵀ * W).det ≠ 0) (hr : ratio2 (P C W) i j ci cj ≠ 0) :
    P C (scaled W (dvec i j ci cj)) = greenCode (P C W) i j ci cj := by
  have hM' : (Cᵀ * scaled W (dvec i j ci cj)).det ≠ 0 := by
    have := ratio_rank_two C W i j hij ci cj hM
    unfold dvec
    rw [this]
    exact mul_ne_zero hM hr
  have hN : IsUnit (1 + Matrix.diagonal (dvec i j ci cj) * P C W).det := by
    have := det_one_add_diag2 (P C W) i j hij ci cj
    unfold dvec
    rw [this]
    exact isUnit_iff_ne_zero.2 hr
  have h1 := green_update_closed C W (dvec i j ci cj) hM hM'
  have h2 := greenCode_equation (P C W) i j hij ci cj hr
  have h3 := congrArg (· * (1 + Matrix.diagonal (dvec i j ci cj) * P C W)⁻¹) (h1.trans h2.symm)
  simpa only [Matrix.mul_assoc, Matrix.mul_nonsing_inv _ hN, Matrix.mul_one] using h3


end AfqmcVerif.Props.C10
