import AfqmcVerif.Lemmas.SingleDet
import AfqmcVerif.Lemmas.AutoSpec
import Mathlib.LinearAlgebra.Matrix.Charpoly.Coeff
import Mathlib.Tactic.FieldSimp
import Mathlib.Tactic.Ring

/-!
# C03 — force bias = ⟨ψ_T|L_g|φ⟩/⟨ψ_T|φ⟩ (single-determinant kinds; all dimensions)

`obNumer F O W = Σ_j F(W[j ← O W_j])` is `⟨ψ|Ô|Φ_W⟩` for a bra `F` (one-body operators are derivations
on the columns of a Slater state); it is also the coefficient of `x` in `F((1 + xO)W)`, i.e. the
logarithmic derivative of the overlap along `exp(x L_g)` at `x = 0` times the overlap.
-/
set_option linter.unusedSectionVars false
namespace AfqmcVerif.Props.C03
open AfqmcVerif.SingleDet Matrix

variable {m k ka kb g : ℕ} {K : Type} [Field K] [StarRing K]

/-- UHF (unrestricted walkers): each force-bias component is the mixed expectation value of the
spin-summed one-body operator `L_γ` with the product bra -/
theorem uhf_force_bias_is_mixed_expectation (H : Ham m g K)
    (Ca : Matrix (Fin m) (Fin ka) K) (Cb : Matrix (Fin m) (Fin kb) K)
    (Wa : Matrix (Fin m) (Fin ka) K) (Wb : Matrix (Fin m) (Fin kb) K)
    (ha : ovlp Ca Wa ≠ 0) (hb : ovlp Cb Wb ≠ 0) (γ : Fin g) :
    uhfForceBias H Ca Cb Wa Wb γ
      = (obNumer (ovlp Ca) (H.L γ) Wa * ovlp Cb Wb + ovlp Ca Wa * obNumer (ovlp Cb) (H.L γ) Wb)
          / (ovlp Ca Wa * ovlp Cb Wb) := by
  rw [obNumer_ovlp Ca Wa _ ha, obNumer_ovlp Cb Wb _ hb]
  unfold uhfForceBias
  field_simp

/-- RHF with restricted walkers = the unrestricted formula on `[W, W]` -/
theorem rhf_restricted_eq_unrestricted (H : Ham m g K) (C W : Matrix (Fin m) (Fin k) K) (γ : Fin g) :
    rhfForceBiasR H C W γ = uhfForceBias H C C W W γ := by
  unfold rhfForceBiasR uhfForceBias; ring

/-- the one-body numerator is the first-order coefficient of the overlap along `1 + x O`:
`F((1 + xO) W) = F(W) + x · obNumer F O W + O(x²)` holds for every multilinear `F`; for the
determinant bra this is the statement below at first order -/
theorem first_order_is_derivation (C W : Matrix (Fin m) (Fin k) K) (O : Matrix (Fin m) (Fin m) K)
    (h : ovlp C W ≠ 0) :
    obNumer (ovlp C) O W / ovlp C W = ((Cᴴ * W)⁻¹ * (Cᴴ * O * W)).trace := by
  rw [obNumer_ovlp C W O h, contract_green]
  unfold rot
  field_simp

/-- **NOCI**: `noci._calc_force_bias` returns `Σ_d c_d ov_d fb_d / Σ_d c_d ov_d`; by linearity of the numerator in
the bra this is the mixed expectation of `L_γ` for `⟨ψ_T| = Σ_d c_d ⟨ψ_d|`, written with column replacements -/
theorem noci_force_bias_is_mixed_expectation {nd : ℕ} (H : Ham m g K) (c : Fin nd → K)
    (Ca : Fin nd → Matrix (Fin m) (Fin ka) K) (Cb : Fin nd → Matrix (Fin m) (Fin kb) K)
    (Wa : Matrix (Fin m) (Fin ka) K) (Wb : Matrix (Fin m) (Fin kb) K)
    (h : ∀ d, ovlp (Ca d) Wa ≠ 0 ∧ ovlp (Cb d) Wb ≠ 0) (γ : Fin g) :
    (∑ d, c d * uhfOverlap (Ca d) (Cb d) Wa Wb * uhfForceBias H (Ca d) (Cb d) Wa Wb γ)
        / (∑ d, c d * uhfOverlap (Ca d) (Cb d) Wa Wb)
      = (∑ d, c d * (obNumer (ovlp (Ca d)) (H.L γ) Wa * ovlp (Cb d) Wb
                      + ovlp (Ca d) Wa * obNumer (ovlp (Cb d)) (H.L γ) Wb))
        / (∑ d, c d * (ovlp (Ca d) Wa * ovlp (Cb d) Wb)) := by
  congr 1
  refine Finset.sum_congr rfl fun d _ => ?_
  rw [uhf_force_bias_is_mixed_expectation H (Ca d) (Cb d) Wa Wb (h d).1 (h d).2 γ]
  unfold uhfOverlap
  have h1 := (h d).1
  have h2 := (h d).2
  field_simp

open Polynomial in
/-- **the force bias is the logarithmic derivative of the overlap along `1 + r·O`** — as a statement about the
function of `r`, with the remainder written out: for every `r`,
`⟨ψ|(1 + rO)φ⟩ = ⟨ψ|φ⟩ · (1 + r·tr((CᴴW)⁻¹ CᴴOW) + r²·Q(r))` with `Q` a polynomial. -/
theorem overlap_along_generator (C W : Matrix (Fin m) (Fin k) K) (O : Matrix (Fin m) (Fin m) K)
    (h : ovlp C W ≠ 0) (r : K) :
    ovlp C ((1 + r • O) * W)
      = ovlp C W * (1 + ((Cᴴ * W)⁻¹ * (Cᴴ * O * W)).trace * r
          + (det (1 + (X : K[X]) • ((Cᴴ * W)⁻¹ * (Cᴴ * O * W)).map Polynomial.C)).divX.divX.eval r * r ^ 2) := by
  have hu : IsUnit (Cᴴ * W).det := isUnit_iff_ne_zero.2 h
  unfold ovlp
  have e : Cᴴ * ((1 + r • O) * W) = (Cᴴ * W) * (1 + r • ((Cᴴ * W)⁻¹ * (Cᴴ * O * W))) := by
    rw [Matrix.mul_add, Matrix.mul_one, Matrix.mul_smul, ← Matrix.mul_assoc (Cᴴ * W), Matrix.mul_nonsing_inv _ hu,
      Matrix.one_mul, Matrix.add_mul, Matrix.one_mul, Matrix.mul_add, Matrix.smul_mul, Matrix.mul_smul,
      Matrix.mul_assoc]
  rw [e, Matrix.det_mul, Matrix.det_one_add_smul]


/-- **GHF**: each force-bias component `einsum("ij,ij", rot_chol[γ], green)` in the doubled space is the mixed expectation of
`L_γ` with the single bra `det(Cᴴ ·)` -/
theorem ghf_force_bias_is_mixed_expectation (H : Ham m g K) (C W : Matrix (Fin m) (Fin k) K)
    (E : Matrix (Fin m) (Fin 0) K) (h : ovlp C W ≠ 0) (γ : Fin g) :
    uhfForceBias H C E W E γ = obNumer (ovlp C) (H.L γ) W / ovlp C W := by
  rw [obNumer_ovlp C W _ h]
  unfold uhfForceBias
  have : contract (rot E (H.L γ)) (green E E) = 0 := by unfold contract; simp
  rw [this, add_zero, mul_div_cancel_left₀ _ h]

/-- **the AD kinds** (`wave_function_auto._calc_force_bias`: multislater, CISD, UCISD, GCISD, CISD_THC): the force bias is
`∂_x ⟨ψ|(1 + x L_γ)φ⟩ / ⟨ψ|φ⟩` at `x = 0`, taken by `vjp`.  For **every** bra that is a linear combination of products of minors
(every trial kind, C01), every walker and every dimension, that function of `x` is a polynomial whose linear coefficient is
the mixed-expectation numerator `⟨ψ|L̂_γ|φ⟩` (column replacements in the up block plus column replacements in the down
block) -/
theorem auto_force_bias_is_mixed_expectation {ι : Type} [Fintype ι] (c : ι → K)
    (ea : ι → Fin ka → Fin m) (eb : ι → Fin kb → Fin m) (H : Ham m g K)
    (Wa : Matrix (Fin m) (Fin ka) K) (Wb : Matrix (Fin m) (Fin kb) K) (γ : Fin g) :
    ∃ Q : Polynomial K, ∀ x : K,
      AfqmcVerif.AutoBra.bra c ea eb (Wa + x • (H.L γ * Wa)) (Wb + x • (H.L γ * Wb))
        = AfqmcVerif.AutoBra.bra c ea eb Wa Wb
          + x * ((∑ j, AfqmcVerif.AutoBra.bra c ea eb (repl Wa (H.L γ) j) Wb)
                  + ∑ j, AfqmcVerif.AutoBra.bra c ea eb Wa (repl Wb (H.L γ) j))
          + x ^ 2 * Q.eval x :=
  AfqmcVerif.AutoSpec.one_body_path c ea eb (H.L γ) (H.L γ) Wa Wb

end AfqmcVerif.Props.C03
