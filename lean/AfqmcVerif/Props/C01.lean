import AfqmcVerif.Lemmas.SingleDet
import AfqmcVerif.Lemmas.AutoBra
import AfqmcVerif.Lemmas.Estimator
import AfqmcVerif.Lemmas.CisdOverlap
import AfqmcVerif.Lemmas.UcisdOverlap
import AfqmcVerif.Lemmas.GcisdOverlap
import AfqmcVerif.Lemmas.ThcOverlap
import Mathlib.Data.Matrix.ColumnRowPartitioned
import Mathlib.LinearAlgebra.Matrix.SchurComplement

/-!
# C01 — trial overlap equals the many-body overlap ⟨ψ_T|φ⟩ (single-determinant kinds; all dimensions)

`slaterOverlap C W = Σ_e conj(det C[e,:]) det W[e,:]` is the inner product of the two Slater states
written out over occupation strings.  For the multi-determinant kinds (NOCI as a finite sum of these;
determinant lists; CISD-type expansions) the tie compares the library with the explicit Fock-space
state (harness/trials.py, harness/fock.py); their Lean theorems are not part of this file.
-/
set_option linter.unusedSectionVars false
namespace AfqmcVerif.Props.C01
open AfqmcVerif.SingleDet Matrix

variable {m k ka kb : ℕ} {K : Type} [Field K] [StarRing K]

/-- RHF/UHF (and each determinant of a NOCI expansion): the reported overlap is the product over
spins of the string-summed inner products — for every complex, non-orthonormal walker and trial -/
theorem uhf_overlap_is_manybody (Ca : Matrix (Fin m) (Fin ka) K) (Cb : Matrix (Fin m) (Fin kb) K)
    (Wa : Matrix (Fin m) (Fin ka) K) (Wb : Matrix (Fin m) (Fin kb) K) :
    uhfOverlap Ca Cb Wa Wb = slaterOverlap Ca Wa * slaterOverlap Cb Wb := by
  unfold uhfOverlap; rw [slaterOverlap_eq, slaterOverlap_eq]

/-- restricted and unrestricted entry points agree when the two spin blocks coincide -/
theorem rhf_restricted_eq_unrestricted (C W : Matrix (Fin m) (Fin k) K) :
    rhfOverlapR C W = uhfOverlap C C W W := by
  unfold rhfOverlapR uhfOverlap; ring

/-- a linear combination of determinants (NOCI): overlap is the same combination of the
determinant overlaps, each of which is the many-body overlap -/
theorem noci_overlap_is_manybody {nd : ℕ} (c : Fin nd → K)
    (Ca : Fin nd → Matrix (Fin m) (Fin ka) K) (Cb : Fin nd → Matrix (Fin m) (Fin kb) K)
    (Wa : Matrix (Fin m) (Fin ka) K) (Wb : Matrix (Fin m) (Fin kb) K) :
    ∑ d, c d * uhfOverlap (Ca d) (Cb d) Wa Wb
      = ∑ d, c d * (slaterOverlap (Ca d) Wa * slaterOverlap (Cb d) Wb) := by
  refine Finset.sum_congr rfl fun d _ => ?_
  rw [uhf_overlap_is_manybody]

/-- batched evaluation returns the per-walker values in walker order, for every batch split -/
theorem batched_overlaps {α : Type} (f : α → K) (nb bs : ℕ) (ws : List α) (h : ws.length = nb * bs) :
    AfqmcVerif.Estimator.batched f nb bs ws = ws.map f :=
  AfqmcVerif.Estimator.batched_eq_map f nb bs ws h

/-- the reported one-particle density matrix `C Cᴴ` of an orthonormal determinant is `⟨a†_q a_p⟩`:
the mixed one-body expectation of the unit operator `E_pq` taken at the trial itself -/
theorem rdm1_is_expectation (C : Matrix (Fin m) (Fin k) K) (hC : Cᴴ * C = 1) (p q : Fin m) :
    contract (rot C (Matrix.single p q (1 : K))) (green C C) = (C * Cᴴ) q p := by
  rw [contract_green, hC, inv_one, Matrix.one_mul]
  unfold rot
  simp only [Matrix.trace, Matrix.diag, Matrix.mul_apply, Matrix.single_apply, conjTranspose_apply]
  simp only [mul_ite, mul_one, mul_zero, Finset.sum_ite_eq', Finset.mem_univ, if_true, ite_mul, zero_mul,
    Finset.sum_ite_eq, ite_and]
  apply Finset.sum_congr rfl
  intro i _
  simp [mul_comm]

/-! ## GHF -/

/-- `ghf._calc_overlap`: `det(hstack[C[:norb].T @ W↑, C[norb:].T @ W↓])` (plain transposes, real orbitals) -/
noncomputable def ghfOverlap (Cup Cdn : Matrix (Fin m) (Fin ka ⊕ Fin kb) K)
    (Wa : Matrix (Fin m) (Fin ka) K) (Wb : Matrix (Fin m) (Fin kb) K) : K :=
  (Matrix.fromCols (Cupᵀ * Wa) (Cdnᵀ * Wb)).det

/-- the stacked matrix is `Cᵀ` times the spin-orbital walker `diag(W↑, W↓)`: the GHF overlap is the determinant
overlap `det(Cᵀ W_so)` in the doubled orbital space (to which Cauchy–Binet applies verbatim) -/
theorem ghf_hstack (Cup Cdn : Matrix (Fin m) (Fin ka ⊕ Fin kb) K)
    (Wa : Matrix (Fin m) (Fin ka) K) (Wb : Matrix (Fin m) (Fin kb) K) :
    Matrix.fromCols (Cupᵀ * Wa) (Cdnᵀ * Wb)
      = (Matrix.fromRows Cup Cdn)ᵀ * Matrix.fromBlocks Wa 0 0 Wb := by
  rw [Matrix.transpose_fromRows, Matrix.fromCols_mul_fromBlocks]
  simp

/-- a GHF trial with spin-pure orbitals **is** the UHF trial: for `C = diag(C↑, C↓)` the two overlaps coincide
(real orbitals: the code uses plain transposes for ghf and conjugate transposes for uhf) -/
theorem ghf_block_diagonal_is_uhf (Ca : Matrix (Fin m) (Fin ka) K) (Cb : Matrix (Fin m) (Fin kb) K)
    (Wa : Matrix (Fin m) (Fin ka) K) (Wb : Matrix (Fin m) (Fin kb) K) :
    ghfOverlap (Matrix.fromCols Ca 0) (Matrix.fromCols 0 Cb) Wa Wb = (Caᵀ * Wa).det * (Cbᵀ * Wb).det := by
  unfold ghfOverlap
  rw [Matrix.transpose_fromCols, Matrix.transpose_fromCols, Matrix.fromRows_mul, Matrix.fromRows_mul,
    Matrix.fromCols_fromRows_eq_fromBlocks]
  simp [Matrix.det_fromBlocks_zero₂₁]

/-! ## restricted CISD (`CISD`, `cisd`, `cisd_faster`) -/

/-- **restricted CISD overlap**: the closed form `(1 + 2 o1 + o2)·o0` of the library equals the explicit expansion of
`(1 + Σ c_ia E_ia + ½ Σ c_iajb E_ia E_jb)|ref⟩` (spin-summed `E`) over the reference, singly and doubly excited
determinants, where `E^σ_ia` replaces orbital `i` by `a` in place — every number of occupied and virtual orbitals,
every amplitude tensor (no symmetry assumed), every walker with non-vanishing reference overlap.  The single and
double in-place minors are `det W_ref · Θ_ai` and `det W_ref · (Θ_ai Θ_bj − Θ_bi Θ_aj)` (`Lemmas/Excite.lean`). -/
theorem cisd_overlap_is_manybody {k v : ℕ} (W : Matrix (Fin (k + v)) (Fin k) K)
    (c1 : Fin k → Fin v → K) (c2 : Fin k → Fin v → Fin k → Fin v → K)
    (hW : AfqmcVerif.Excite.D0 W ≠ 0) (h2 : (2 : K) ≠ 0) :
    AfqmcVerif.Excite.cisdCode W c1 c2 = AfqmcVerif.Excite.cisdSpec W c1 c2 :=
  AfqmcVerif.Excite.cisd_overlap W c1 c2 hW h2

/-- **unrestricted CISD overlap** (`UCISD`, `ucisd`): the closed form `(1 + o1 + o2)·o0` with
`o2 = ½ Σ c^AA G^a G^a + ½ Σ c^BB G^b G^b + Σ c^AB G^a G^b` equals the explicit determinant expansion of
`(1 + Σ c^A E^α + Σ c^B E^β + ¼ Σ c^AA E^α E^α + ¼ Σ c^BB E^β E^β + Σ c^AB E^α E^β)|ref⟩`, for same-spin amplitude tensors
antisymmetric in their virtual indices (what the class expects); `Wb` is the down walker in the basis of the
trial's down orbitals (`mo_coeff[1].T @ walker_dn`) -/
theorem ucisd_overlap_is_manybody {ka va kb vb : ℕ} (Wa : Matrix (Fin (ka + va)) (Fin ka) K)
    (Wb : Matrix (Fin (kb + vb)) (Fin kb) K) (c1A : Fin ka → Fin va → K) (c1B : Fin kb → Fin vb → K)
    (cAA : Fin ka → Fin va → Fin ka → Fin va → K) (cBB : Fin kb → Fin vb → Fin kb → Fin vb → K)
    (cAB : Fin ka → Fin va → Fin kb → Fin vb → K)
    (hWa : AfqmcVerif.Excite.D0 Wa ≠ 0) (hWb : AfqmcVerif.Excite.D0 Wb ≠ 0) (h2 : (2 : K) ≠ 0)
    (hAA : ∀ i a j b, cAA i b j a = -cAA i a j b) (hBB : ∀ i a j b, cBB i b j a = -cBB i a j b) :
    AfqmcVerif.Excite.ucisdCode Wa Wb c1A c1B cAA cBB cAB = AfqmcVerif.Excite.ucisdSpec Wa Wb c1A c1B cAA cBB cAB :=
  AfqmcVerif.Excite.ucisd_overlap Wa Wb c1A c1B cAA cBB cAB hWa hWb h2 hAA hBB

/-- **generalised CISD overlap** (`GCISD`, spin-orbital basis of the trial): `(1 + o1 + o2/4)·o0` equals the explicit
expansion of `(1 + Σ c_ia E_ia + ¼ Σ c_iajb E_ia E_jb)|ref⟩`; no symmetry of the amplitudes is needed -/
theorem gcisd_overlap_is_manybody {k v : ℕ} (W : Matrix (Fin (k + v)) (Fin k) K) (c1 : Fin k → Fin v → K)
    (c2 : Fin k → Fin v → Fin k → Fin v → K) (hW : AfqmcVerif.Excite.D0 W ≠ 0) (h2 : (2 : K) ≠ 0) :
    AfqmcVerif.Excite.gcisdCode W c1 c2 = AfqmcVerif.Excite.gcisdSpec W c1 c2 :=
  AfqmcVerif.Excite.gcisd_overlap W c1 c2 hW h2

/-- **THC-factorised CISD overlap** (`CISD_THC`): evaluating with the factors `X1, X2, V` is the CISD closed form for
`c_iajb = Σ_PQ X1_Pi X2_Pa V_PQ X1_Qj X2_Qb` (no symmetry of `V` needed), hence the explicit determinant expansion -/
theorem cisd_thc_overlap_is_manybody {k v p : ℕ} (W : Matrix (Fin (k + v)) (Fin k) K) (c1 : Fin k → Fin v → K)
    (Xo : Fin p → Fin k → K) (Xv : Fin p → Fin v → K) (V : Fin p → Fin p → K)
    (hW : AfqmcVerif.Excite.D0 W ≠ 0) (h2 : (2 : K) ≠ 0) :
    AfqmcVerif.Excite.thcCode W c1 Xo Xv V
      = AfqmcVerif.Excite.cisdSpec W c1 (AfqmcVerif.Excite.thcTensor Xo Xv V) :=
  AfqmcVerif.Excite.thc_overlap W c1 Xo Xv V hW h2

/-! ## the common form of all overlaps -/

/-- **every single-determinant overlap is a `bra`** (a linear combination of products of one minor of each walker block,
here over pairs of increasing orbital strings with the conjugated trial minors as coefficients) — the class of functionals
for which C02 / C03 / C13 prove their statements without looking at the trial's formulas.  Linear combinations of bras
(NOCI, determinant lists, the CI expansions above) are bras again (`bra_add`, `bra_smul`). -/
theorem uhf_overlap_is_bra (Ca : Matrix (Fin m) (Fin ka) K) (Cb : Matrix (Fin m) (Fin kb) K)
    (Wa : Matrix (Fin m) (Fin ka) K) (Wb : Matrix (Fin m) (Fin kb) K) :
    uhfOverlap Ca Cb Wa Wb
      = AfqmcVerif.AutoBra.bra (ι := (Fin ka ↪o Fin m) × (Fin kb ↪o Fin m))
          (fun p => star ((Ca.submatrix p.1 id).det) * star ((Cb.submatrix p.2 id).det))
          (fun p => p.1) (fun p => p.2) Wa Wb := by
  rw [uhf_overlap_is_manybody]
  unfold slaterOverlap AfqmcVerif.AutoBra.bra
  rw [Finset.sum_mul_sum, Fintype.sum_prod_type]
  refine Finset.sum_congr rfl fun e _ => Finset.sum_congr rfl fun f _ => ?_
  ring

/-- sums of bras are bras (index type = disjoint union) -/
theorem bra_add {ι κ : Type} [Fintype ι] [Fintype κ] (c : ι → K) (d : κ → K)
    (ea : ι → Fin ka → Fin m) (eb : ι → Fin kb → Fin m) (fa : κ → Fin ka → Fin m) (fb : κ → Fin kb → Fin m)
    (Wa : Matrix (Fin m) (Fin ka) K) (Wb : Matrix (Fin m) (Fin kb) K) :
    AfqmcVerif.AutoBra.bra c ea eb Wa Wb + AfqmcVerif.AutoBra.bra d fa fb Wa Wb
      = AfqmcVerif.AutoBra.bra (Sum.elim c d) (Sum.elim ea fa) (Sum.elim eb fb) Wa Wb := by
  unfold AfqmcVerif.AutoBra.bra
  rw [Fintype.sum_sum_type]
  simp

/-- scalar multiples of bras are bras -/
theorem bra_smul {ι : Type} [Fintype ι] (a : K) (c : ι → K) (ea : ι → Fin ka → Fin m) (eb : ι → Fin kb → Fin m)
    (Wa : Matrix (Fin m) (Fin ka) K) (Wb : Matrix (Fin m) (Fin kb) K) :
    a * AfqmcVerif.AutoBra.bra c ea eb Wa Wb = AfqmcVerif.AutoBra.bra (fun i => a * c i) ea eb Wa Wb := by
  unfold AfqmcVerif.AutoBra.bra
  rw [Finset.mul_sum]
  refine Finset.sum_congr rfl fun i _ => ?_
  ring

end AfqmcVerif.Props.C01
