import AfqmcVerif.Lemmas.SingleDet
import AfqmcVerif.Lemmas.AutoSpec
import AfqmcVerif.Props.C01
import Mathlib.LinearAlgebra.Matrix.Notation
import Mathlib.Algebra.BigOperators.Field
import Mathlib.Algebra.Polynomial.Inductions
import Mathlib.Algebra.Polynomial.Eval.Coeff
import Mathlib.Tactic.IntervalCases
import Mathlib.Tactic.LinearCombination

/-!
# C02 — local energy = ⟨ψ_T|H|φ⟩/⟨ψ_T|φ⟩ (single-determinant kinds; all dimensions)

With `H = h0 + Σ h[s] a†a + ½ Σ_g (Σ_s L_g·E^s)² − ½ Σ_g Σ_s (L_g²)·E^s` (normal ordering) and the column
calculus of `Lemmas/SingleDet.lean`, the `j = l` replacements cancel the normal-ordering term and

`⟨ψ|H|Φ⟩ = h0 F + [ob↑(h↑) F↓ + F↑ ob↓(h↓)] + ½ Σ_g [tb↑(L,L) F↓ + F↑ tb↓(L,L) + 2 ob↑(L) ob↓(L)]`

for a product bra `F = F↑ F↓`.  `specEnergy` is that expression divided by `F`.
-/
set_option linter.unusedSectionVars false
namespace AfqmcVerif.Props.C02
open AfqmcVerif.SingleDet Matrix

variable {m k ka kb g : ℕ} {K : Type} [Field K] [StarRing K]

/-- the mixed estimator written with explicit column replacements (no Green's functions) -/
noncomputable def specEnergy (H : Ham m g K)
    (Fa : Matrix (Fin m) (Fin ka) K → K) (Fb : Matrix (Fin m) (Fin kb) K → K)
    (Wa : Matrix (Fin m) (Fin ka) K) (Wb : Matrix (Fin m) (Fin kb) K) : K :=
  H.h0
  + (obNumer Fa H.ha Wa * Fb Wb + Fa Wa * obNumer Fb H.hb Wb) / (Fa Wa * Fb Wb)
  + (∑ γ, (tbNumer Fa (H.L γ) (H.L γ) Wa * Fb Wb + Fa Wa * tbNumer Fb (H.L γ) (H.L γ) Wb
            + 2 * (obNumer Fa (H.L γ) Wa * obNumer Fb (H.L γ) Wb)) / (Fa Wa * Fb Wb)) / 2

/-- **UHF**, spin-dependent `h1` included: the Green's-function formula of the code is the mixed
estimator, for every walker with non-vanishing overlap, every Hamiltonian, every dimension -/
theorem uhf_energy_is_mixed_estimator (H : Ham m g K)
    (Ca : Matrix (Fin m) (Fin ka) K) (Cb : Matrix (Fin m) (Fin kb) K)
    (Wa : Matrix (Fin m) (Fin ka) K) (Wb : Matrix (Fin m) (Fin kb) K)
    (ha : ovlp Ca Wa ≠ 0) (hb : ovlp Cb Wb ≠ 0) :
    uhfEnergy H Ca Cb Wa Wb = specEnergy H (ovlp Ca) (ovlp Cb) Wa Wb := by
  unfold specEnergy uhfEnergy uhfEnergyOfGreen
  simp only [obNumer_ovlp Ca Wa _ ha, obNumer_ovlp Cb Wb _ hb, tbNumer_ovlp Ca Wa _ _ ha,
    tbNumer_ovlp Cb Wb _ _ hb, exch_eq_trace, contract_eq_trace]
  have e1 : (ovlp Ca Wa * (rot Ca H.ha * (green Ca Wa)ᵀ).trace * ovlp Cb Wb
      + ovlp Ca Wa * (ovlp Cb Wb * (rot Cb H.hb * (green Cb Wb)ᵀ).trace)) / (ovlp Ca Wa * ovlp Cb Wb)
      = (rot Ca H.ha * (green Ca Wa)ᵀ).trace + (rot Cb H.hb * (green Cb Wb)ᵀ).trace := by
    field_simp
  rw [e1]
  congr 2
  refine Finset.sum_congr rfl fun γ _ => ?_
  unfold fMat
  field_simp
  ring

/-- **RHF with restricted walkers** equals the unrestricted formula on `[W, W]`, and sees only the
spin average of `h1`, which is exact for it -/
theorem rhf_restricted_eq_unrestricted (H : Ham m g K) (C W : Matrix (Fin m) (Fin k) K)
    (h2 : (2 : K) ≠ 0) : rhfEnergyR H C W = uhfEnergy H C C W W := by
  unfold rhfEnergyR rhfEnergyROfGreen uhfEnergy uhfEnergyOfGreen
  simp only [contract_eq_trace, exch_eq_trace]
  have e1 : 2 * (rot C ((2 : K)⁻¹ • (H.ha + H.hb)) * (green C W)ᵀ).trace
      = (rot C H.ha * (green C W)ᵀ).trace + (rot C H.hb * (green C W)ᵀ).trace := by
    unfold rot
    rw [Matrix.mul_smul, Matrix.smul_mul, Matrix.trace_smul, Matrix.mul_add, Matrix.add_mul,
      Matrix.trace_add, smul_eq_mul]
    field_simp
  rw [e1]
  have e2 : ∀ γ, (2 * ((fMat (rot C (H.L γ)) (green C W)).trace * (fMat (rot C (H.L γ)) (green C W)).trace)
        - (fMat (rot C (H.L γ)) (green C W) * fMat (rot C (H.L γ)) (green C W)).trace)
      = ((fMat (rot C (H.L γ)) (green C W)).trace * (fMat (rot C (H.L γ)) (green C W)).trace
        + (fMat (rot C (H.L γ)) (green C W)).trace * (fMat (rot C (H.L γ)) (green C W)).trace
        + 2 * ((fMat (rot C (H.L γ)) (green C W)).trace * (fMat (rot C (H.L γ)) (green C W)).trace)
        - (fMat (rot C (H.L γ)) (green C W) * fMat (rot C (H.L γ)) (green C W)).trace
        - (fMat (rot C (H.L γ)) (green C W) * fMat (rot C (H.L γ)) (green C W)).trace) / 2 := by
    intro γ; field_simp; ring
  simp only [e2]
  rw [Finset.sum_div]

/-- hence RHF restricted is the mixed estimator of the product bra `F = det(Cᴴ·)²` -/
theorem rhf_energy_is_mixed_estimator (H : Ham m g K) (C W : Matrix (Fin m) (Fin k) K)
    (h2 : (2 : K) ≠ 0) (h : ovlp C W ≠ 0) :
    rhfEnergyR H C W = specEnergy H (ovlp C) (ovlp C) W W := by
  rw [rhf_restricted_eq_unrestricted H C W h2, uhf_energy_is_mixed_estimator H C C W W h h]

/-! ## NOCI: a linear combination of product bras

`noci._calc_energy` returns `Σ_d c_d ov_d E_d / Σ_d c_d ov_d` with `E_d` the single-determinant Green's-function
energy.  `⟨ψ|H|φ⟩` is linear in the bra, so the mixed estimator of `⟨ψ_T| = Σ_d c_d ⟨ψ_d|` is
`Σ_d c_d N_d / Σ_d c_d ov_d` with `N_d = ov_d · specEnergy_d` the column-replacement numerator of determinant `d`. -/

/-- the numerator `⟨ψ|H|Φ⟩` of a product bra, written with explicit column replacements -/
noncomputable def specNumer (H : Ham m g K)
    (Fa : Matrix (Fin m) (Fin ka) K → K) (Fb : Matrix (Fin m) (Fin kb) K → K)
    (Wa : Matrix (Fin m) (Fin ka) K) (Wb : Matrix (Fin m) (Fin kb) K) : K :=
  (Fa Wa * Fb Wb) * specEnergy H Fa Fb Wa Wb

theorem noci_energy_is_mixed_estimator {nd : ℕ} (H : Ham m g K) (c : Fin nd → K)
    (Ca : Fin nd → Matrix (Fin m) (Fin ka) K) (Cb : Fin nd → Matrix (Fin m) (Fin kb) K)
    (Wa : Matrix (Fin m) (Fin ka) K) (Wb : Matrix (Fin m) (Fin kb) K)
    (h : ∀ d, ovlp (Ca d) Wa ≠ 0 ∧ ovlp (Cb d) Wb ≠ 0) :
    (∑ d, c d * uhfOverlap (Ca d) (Cb d) Wa Wb * uhfEnergy H (Ca d) (Cb d) Wa Wb)
        / (∑ d, c d * uhfOverlap (Ca d) (Cb d) Wa Wb)
      = (∑ d, c d * specNumer H (ovlp (Ca d)) (ovlp (Cb d)) Wa Wb)
        / (∑ d, c d * (ovlp (Ca d) Wa * ovlp (Cb d) Wb)) := by
  congr 1
  refine Finset.sum_congr rfl fun d _ => ?_
  rw [uhf_energy_is_mixed_estimator H (Ca d) (Cb d) Wa Wb (h d).1 (h d).2]
  unfold specNumer uhfOverlap
  ring

open Polynomial in
/-- **central second differences of a polynomial converge quadratically**: for every polynomial `p` there is a
polynomial `q` with `p(ε) − 2 p(0) + p(−ε) = ε²·(2 p₂ + ε²·q(ε))` for every `ε`.  The finite-difference kinds evaluate the
two-body energy as such a difference of the overlap of `(1 + εL + ε²L²/2)·walker`, which is a polynomial in `ε`. -/
theorem central_difference_quadratic (p : K[X]) :
    ∃ q : K[X], ∀ ε : K, p.eval ε - 2 * p.eval 0 + p.eval (-ε) = ε ^ 2 * (2 * p.coeff 2 + ε ^ 2 * q.eval ε) := by
  induction p using Polynomial.induction_on' with
  | add p r hp hr =>
    obtain ⟨q1, h1⟩ := hp
    obtain ⟨q2, h2⟩ := hr
    refine ⟨q1 + q2, fun ε => ?_⟩
    simp only [eval_add, coeff_add]
    linear_combination h1 ε + h2 ε
  | monomial n a =>
    rcases Nat.lt_or_ge n 4 with hn | hn
    · refine ⟨0, fun ε => ?_⟩
      interval_cases n <;> simp [eval_monomial, coeff_monomial] <;> ring
    · obtain ⟨j, rfl⟩ := Nat.exists_eq_add_of_le hn
      refine ⟨monomial j (a * (1 + (-1) ^ j)), fun ε => ?_⟩
      have hc : (monomial (4 + j) a).coeff 2 = 0 := by
        rw [coeff_monomial]; simp; omega
      simp only [eval_monomial, hc]
      have h0 : (0 : K) ^ (4 + j) = 0 := by simp
      rw [h0]
      have : (-ε) ^ (4 + j) = (-1) ^ j * ε ^ (4 + j) := by
        rw [neg_pow]; congr 1
        rw [pow_add]; norm_num
      rw [this]
      ring


/-- **GHF** (and any single determinant over spin orbitals): `ghf._calc_energy` is the code's uhf formula in the doubled
space with an empty second block — exactly how the tie drives it.  With `m = 2·norb`, `H.ha = diag(h↑, h↓)`,
`H.L γ = diag(L_γ, L_γ)` and the walker `diag(W↑, W↓)`, the Green's-function energy is the mixed estimator of the single
bra `det(Cᴴ ·)`: one-body column replacements plus the `j ≠ l` double replacements, no cross term. -/
theorem ghf_energy_is_mixed_estimator (H : Ham m g K) (C W : Matrix (Fin m) (Fin k) K)
    (E : Matrix (Fin m) (Fin 0) K) (h : ovlp C W ≠ 0) :
    uhfEnergy H C E W E
      = H.h0 + obNumer (ovlp C) H.ha W / ovlp C W
        + (∑ γ, tbNumer (ovlp C) (H.L γ) (H.L γ) W / ovlp C W) / 2 := by
  have hE : ovlp E E = 1 := by unfold ovlp; exact Matrix.det_isEmpty
  rw [uhf_energy_is_mixed_estimator H C E W E h (by rw [hE]; exact one_ne_zero)]
  unfold specEnergy
  have o0 : ∀ O : Matrix (Fin m) (Fin m) K, obNumer (ovlp E) O E = 0 := by
    intro O; unfold obNumer; simp
  have t0 : ∀ O : Matrix (Fin m) (Fin m) K, tbNumer (ovlp E) O O E = 0 := by
    intro O; unfold tbNumer; simp
  simp only [o0, t0, hE, mul_one, mul_zero, add_zero]

/-! ## the AD / finite-difference kinds (`wave_function_auto`: multislater, CISD, UCISD, GCISD, CISD_THC)

These classes define an overlap only — by C01 a linear combination of products of minors of the two walker blocks,
`bra c ea eb` — and obtain the energy by differentiating it: the one-body part as the first derivative of
`x ↦ ⟨ψ|(1 + x(h + v0))φ⟩` (`jvp`), the two-body part as the second derivative of `x ↦ ⟨ψ|(1 + xL + x²L²/2)φ⟩` (central
difference), `v0 = −½ Σ_γ L_γ²`.  Both functions are polynomials in `x`; their low-order coefficients are computed in
`Lemmas/ColumnExpand.lean`, `Lemmas/AutoBra.lean`, `Lemmas/AutoSpec.lean` for **every** such bra, every walker (singular
sub-blocks included) and every dimension, using only the multilinearity of the determinant. -/
section auto
open AfqmcVerif.AutoBra AfqmcVerif.AutoSpec Finset Polynomial
variable {ι : Type} [Fintype ι] (c : ι → K) (ea : ι → Fin ka → Fin m) (eb : ι → Fin kb → Fin m)

/-- the mixed estimator of a general bra, with explicit column replacements -/
noncomputable def specEnergy2 (H : Ham m g K) (G : Matrix (Fin m) (Fin ka) K → Matrix (Fin m) (Fin kb) K → K)
    (Wa : Matrix (Fin m) (Fin ka) K) (Wb : Matrix (Fin m) (Fin kb) K) : K :=
  H.h0 + ob2 G H.ha H.hb Wa Wb / G Wa Wb + (∑ γ, tb2 G (H.L γ) Wa Wb / G Wa Wb) / 2

/-- for a product bra this is `specEnergy` (the spec of the single-determinant kinds) -/
theorem specEnergy2_product (H : Ham m g K)
    (Fa : Matrix (Fin m) (Fin ka) K → K) (Fb : Matrix (Fin m) (Fin kb) K → K)
    (Wa : Matrix (Fin m) (Fin ka) K) (Wb : Matrix (Fin m) (Fin kb) K) :
    specEnergy2 H (fun a b => Fa a * Fb b) Wa Wb = specEnergy H Fa Fb Wa Wb := by
  unfold specEnergy2 specEnergy ob2 tb2 obNumer tbNumer
  congr 2
  · congr 1
    rw [sum_mul, mul_sum]
  · refine sum_congr rfl fun γ _ => ?_
    congr 1
    simp only [sum_mul, mul_sum]
    congr 1
    rw [sum_comm]


/-- **one-body path** `x ↦ ⟨ψ|(1 + xO)φ⟩` (what `jvp` differentiates at `x = 0`; also the force-bias path with `O = L_γ`):
a polynomial whose linear coefficient is `⟨ψ|Ô|φ⟩` -/
theorem auto_one_body_path (Oa Ob : Matrix (Fin m) (Fin m) K)
    (Wa : Matrix (Fin m) (Fin ka) K) (Wb : Matrix (Fin m) (Fin kb) K) :
    ∃ Q : K[X], ∀ x : K,
      bra c ea eb (Wa + x • (Oa * Wa)) (Wb + x • (Ob * Wb))
        = bra c ea eb Wa Wb + x * ob2 (bra c ea eb) Oa Ob Wa Wb + x ^ 2 * Q.eval x := by
  obtain ⟨Q, hQ⟩ := bra_expand c ea eb Wa (Oa * Wa) 0 Wb (Ob * Wb) 0
  refine ⟨C (d2 c ea eb Wa (Oa * Wa) 0 Wb (Ob * Wb) 0) + X * Q, fun x => ?_⟩
  have h := hQ x
  simp only [smul_zero, add_zero] at h
  rw [h]
  unfold ob2 d1
  simp only [repl_eq_rcw, eval_add, eval_mul, eval_C, eval_X]
  ring

/-- **two-body path** `x ↦ ⟨ψ|(1 + xL + x²L²/2)φ⟩` (what the central difference differentiates twice): a polynomial whose
quadratic coefficient is half of `⟨ψ|(L̂)²|φ⟩ = ⟨ψ|(L²)^|φ⟩ + [j ≠ l replacements]` -/
theorem auto_two_body_path (L : Matrix (Fin m) (Fin m) K)
    (Wa : Matrix (Fin m) (Fin ka) K) (Wb : Matrix (Fin m) (Fin kb) K) (h2 : (2 : K) ≠ 0) :
    ∃ Q : K[X], ∀ x : K,
      bra c ea eb (Wa + x • (L * Wa) + x ^ 2 • ((2 : K)⁻¹ • (L * (L * Wa))))
                  (Wb + x • (L * Wb) + x ^ 2 • ((2 : K)⁻¹ • (L * (L * Wb))))
        = bra c ea eb Wa Wb + x * ob2 (bra c ea eb) L L Wa Wb
          + x ^ 2 * ((ob2 (bra c ea eb) (L * L) (L * L) Wa Wb + tb2 (bra c ea eb) L Wa Wb) / 2)
          + x ^ 3 * Q.eval x := by
  obtain ⟨Q, hQ⟩ := bra_expand c ea eb Wa (L * Wa) ((2 : K)⁻¹ • (L * (L * Wa))) Wb (L * Wb) ((2 : K)⁻¹ • (L * (L * Wb)))
  refine ⟨Q, fun x => ?_⟩
  rw [hQ x]
  have e1 : d1 c ea eb Wa (L * Wa) Wb (L * Wb) = ob2 (bra c ea eb) L L Wa Wb := by
    unfold d1 ob2; simp only [repl_eq_rcw]
  have e2 : d2 c ea eb Wa (L * Wa) ((2 : K)⁻¹ • (L * (L * Wa))) Wb (L * Wb) ((2 : K)⁻¹ • (L * (L * Wb)))
      = (ob2 (bra c ea eb) (L * L) (L * L) Wa Wb + tb2 (bra c ea eb) L Wa Wb) / 2 := by
    unfold d2 ob2 tb2
    simp only [repl_eq_rcw, repl2_eq_rcw, bra_rcw_smul_a, bra_rcw_smul_b, sum_add_distrib, Matrix.mul_assoc]
    rw [sum_offdiag_eq_two_sumBelow (fun j l => bra c ea eb (rcw (rcw Wa (L * Wa) j) (L * Wa) l) Wb)
          (fun j l h => by rw [rcw_comm _ _ j l h]),
      sum_offdiag_eq_two_sumBelow (fun j l => bra c ea eb Wa (rcw (rcw Wb (L * Wb) j) (L * Wb) l))
          (fun j l h => by rw [rcw_comm _ _ j l h])]
    simp only [← mul_sum]
    field_simp
    ring
  rw [e1, e2]


/-- `normal_ordering_term`: `v0 = −½ Σ_γ L_γ²` -/
def v0 (H : Ham m g K) : Matrix (Fin m) (Fin m) K := (-(2 : K)⁻¹) • ∑ γ, H.L γ * H.L γ

/-- the value `wave_function_auto._calc_energy` computes when its derivatives are exact: `h0 + (dx1 + Σ_γ d²_γ / 2) / overlap`
with `dx1` the linear coefficient of the one-body path along `h + v0` (`auto_one_body_path`) and `d²_γ` twice the quadratic
coefficient of the two-body path along `L_γ` (`auto_two_body_path`); the central difference with step `ε` differs from `d²_γ`
by `ε²·q(ε)` (`central_difference_quadratic`) -/
noncomputable def autoEnergy (H : Ham m g K) (G : Matrix (Fin m) (Fin ka) K → Matrix (Fin m) (Fin kb) K → K)
    (Wa : Matrix (Fin m) (Fin ka) K) (Wb : Matrix (Fin m) (Fin kb) K) : K :=
  H.h0 + (ob2 G (H.ha + v0 H) (H.hb + v0 H) Wa Wb
          + (∑ γ, (ob2 G (H.L γ * H.L γ) (H.L γ * H.L γ) Wa Wb + tb2 G (H.L γ) Wa Wb)) / 2) / G Wa Wb

/-- **the AD / finite-difference energy is the mixed estimator, for every bra that is a combination of products of minors**
(all trial kinds), every walker, every Hamiltonian, every dimension: the `(L²)^` pieces produced by the second derivative
are cancelled exactly by the normal-ordering shift `v0` of the one-body path -/
theorem auto_energy_is_mixed_estimator (H : Ham m g K)
    (Wa : Matrix (Fin m) (Fin ka) K) (Wb : Matrix (Fin m) (Fin kb) K) (h2 : (2 : K) ≠ 0) :
    autoEnergy H (bra c ea eb) Wa Wb = specEnergy2 H (bra c ea eb) Wa Wb := by
  unfold autoEnergy specEnergy2
  rw [ob2_add, v0, ob2_smul, ob2_sum, sum_add_distrib]
  rw [← sum_div]
  field_simp
  ring

/-- **the two routes agree on a single determinant**: feeding the uhf overlap (as a bra) to the AD / finite-difference energy
formula gives the Green's-function energy `uhf._calc_energy` — both equal the mixed estimator -/
theorem auto_energy_eq_uhf_energy (H : Ham m g K)
    (Ca : Matrix (Fin m) (Fin ka) K) (Cb : Matrix (Fin m) (Fin kb) K)
    (Wa : Matrix (Fin m) (Fin ka) K) (Wb : Matrix (Fin m) (Fin kb) K)
    (ha : ovlp Ca Wa ≠ 0) (hb : ovlp Cb Wb ≠ 0) (h2 : (2 : K) ≠ 0) :
    autoEnergy H (bra (ι := (Fin ka ↪o Fin m) × (Fin kb ↪o Fin m))
          (fun p => star ((Ca.submatrix p.1 id).det) * star ((Cb.submatrix p.2 id).det))
          (fun p => p.1) (fun p => p.2)) Wa Wb
      = uhfEnergy H Ca Cb Wa Wb := by
  rw [auto_energy_is_mixed_estimator _ _ _ H Wa Wb h2, uhf_energy_is_mixed_estimator H Ca Cb Wa Wb ha hb,
    ← specEnergy2_product]
  have hf : (bra (ι := (Fin ka ↪o Fin m) × (Fin kb ↪o Fin m))
          (fun p => star ((Ca.submatrix p.1 id).det) * star ((Cb.submatrix p.2 id).det))
          (fun p => p.1) (fun p => p.2)) = fun a b => ovlp Ca a * ovlp Cb b := by
    funext a b
    rw [← AfqmcVerif.Props.C01.uhf_overlap_is_bra]; rfl
  rw [hf]

/-- the Hamiltonian the restricted entry points see: both spin blocks of `h1` replaced by their average -/
def spinAveraged (H : Ham m g K) : Ham m g K :=
  { h0 := H.h0, ha := (2 : K)⁻¹ • (H.ha + H.hb), hb := (2 : K)⁻¹ • (H.ha + H.hb), L := H.L }

/-- **restricted entry point of the AD kinds** (`_calc_energy_restricted`; CISD, CISD_THC use only this one): the walker `W`
serves as both spin blocks and `h1` is replaced by its spin average.  For a spin-symmetric bra (`G a b = G b a`, which a
restricted trial is) the result is the mixed estimator of the *true*, possibly spin-dependent Hamiltonian on `[W, W]`. -/
theorem auto_energy_restricted {ι : Type} [Fintype ι] (c : ι → K) (ea eb : ι → Fin k → Fin m)
    (H : Ham m g K) (W : Matrix (Fin m) (Fin k) K) (h2 : (2 : K) ≠ 0)
    (hsym : ∀ a b : Matrix (Fin m) (Fin k) K, bra c ea eb a b = bra c ea eb b a) :
    autoEnergy (spinAveraged H) (bra c ea eb) W W = specEnergy2 H (bra c ea eb) W W := by
  rw [auto_energy_is_mixed_estimator c ea eb (spinAveraged H) W W h2]
  unfold specEnergy2 spinAveraged
  simp only
  congr 3
  rw [ob2_smul, ob2_add]
  have e : ∀ O : Matrix (Fin m) (Fin m) K, (∑ j, bra c ea eb W (repl W O j)) = ∑ j, bra c ea eb (repl W O j) W :=
    fun O => sum_congr rfl fun j _ => hsym _ _
  unfold ob2
  simp only [e]
  field_simp
  ring

/-- non-vacuity: a two-term bra on a 2-orbital, (1,1)-electron walker, one-body path evaluated at a concrete point -/
example : bra (m := 2) (ka := 1) (kb := 1) (fun _ : Fin 2 => (1 : ℚ)) (fun i _ => i) (fun i _ => i) !![1; 2] !![3; 4] = 11 := by
  simp [bra, Fin.sum_univ_two, Matrix.det_unique]; norm_num

end auto

end AfqmcVerif.Props.C02
