import AfqmcVerif.Lemmas.SingleDet
import Mathlib.Algebra.BigOperators.Field
import Mathlib.Algebra.Polynomial.Inductions
import Mathlib.Algebra.Polynomial.Eval.Coeff
import Mathlib.Tactic.IntervalCases
import Mathlib.Tactic.LinearCombination

/-!
# C02 — local energy = ⟨ψ_T|H|φ⟩/⟨ψ_T|φ⟩ (single-determinant kinds; all dimensions)

With `H = h0 + Σ h[s] a†a + ½ Σ_g (Σ_s L_g·E^s)² − ½ Σ_g Σ_s (L_g²)·E^s` (normal ordering) and the column
calculus of `Lemmas/SingleDet.lean`, the `j = l` replacements cancel the normal-ordering term and

`⟨ψ|H|Φ⟩ = h0 F + [ob↑(h↑) F↓ + F↑ ob↓(h↓)] + ½ Σ_g [tb↑(L,L) F↓ + F↑ tb↓(L,L) + 2 ob↑(L) ob↓(L)]`

for a product bra `F = F↑ F↓`.  `specEnergy` is that expression divided by `F`.
-/
set_option linter.unusedSectionVars false
namespace AfqmcVerif.Props.C02
open AfqmcVerif.SingleDet Matrix

variable {m k ka kb g : ℕ} {K : Type} [Field K] [StarRing K]

/-- the mixed estimator written with explicit column replacements (no Green's functions) -/
noncomputable def specEnergy (H : Ham m g K)
    (Fa : Matrix (Fin m) (Fin ka) K → K) (Fb : Matrix (Fin m) (Fin kb) K → K)
    (Wa : Matrix (Fin m) (Fin ka) K) (Wb : Matrix (Fin m) (Fin kb) K) : K :=
  H.h0
  + (obNumer Fa H.ha Wa * Fb Wb + Fa Wa * obNumer Fb H.hb Wb) / (Fa Wa * Fb Wb)
  + (∑ γ, (tbNumer Fa (H.L γ) (H.L γ) Wa * Fb Wb + Fa Wa * tbNumer Fb (H.L γ) (H.L γ) Wb
            + 2 * (obNumer Fa (H.L γ) Wa * obNumer Fb (H.L γ) Wb)) / (Fa Wa * Fb Wb)) / 2

/-- **UHF**, spin-dependent `h1` included: the Green's-function formula of the code is the mixed
estimator, for every walker with non-vanishing overlap, every Hamiltonian, every dimension -/
theorem uhf_energy_is_mixed_estimator (H : Ham m g K)
    (Ca : Matrix (Fin m) (Fin ka) K) (Cb : Matrix (Fin m) (Fin kb) K)
    (Wa : Matrix (Fin m) (Fin ka) K) (Wb : Matrix (Fin m) (Fin kb) K)
    (ha : ovlp Ca Wa ≠ 0) (hb : ovlp Cb Wb ≠ 0) :
    uhfEnergy H Ca Cb Wa Wb = specEnergy H (ovlp Ca) (ovlp Cb) Wa Wb := by
  unfold specEnergy uhfEnergy uhfEnergyOfGreen
  simp only [obNumer_ovlp Ca Wa _ ha, obNumer_ovlp Cb Wb _ hb, tbNumer_ovlp Ca Wa _ _ ha,
    tbNumer_ovlp Cb Wb _ _ hb, exch_eq_trace, contract_eq_trace]
  have e1 : (ovlp Ca Wa * (rot Ca H.ha * (green Ca Wa)ᵀ).trace * ovlp Cb Wb
      + ovlp Ca Wa * (ovlp Cb Wb * (rot Cb H.hb * (green Cb Wb)ᵀ).trace)) / (ovlp Ca Wa * ovlp Cb Wb)
      = (rot Ca H.ha * (green Ca Wa)ᵀ).trace + (rot Cb H.hb * (green Cb Wb)ᵀ).trace := by
    field_simp
  rw [e1]
  congr 2
  refine Finset.sum_congr rfl fun γ _ => ?_
  unfold fMat
  field_simp
  ring

/-- **RHF with restricted walkers** equals the unrestricted formula on `[W, W]`, and sees only the
spin average of `h1`, which is exact for it -/
theorem rhf_restricted_eq_unrestricted (H : Ham m g K) (C W : Matrix (Fin m) (Fin k) K)
    (h2 : (2 : K) ≠ 0) : rhfEnergyR H C W = uhfEnergy H C C W W := by
  unfold rhfEnergyR rhfEnergyROfGreen uhfEnergy uhfEnergyOfGreen
  simp only [contract_eq_trace, exch_eq_trace]
  have e1 : 2 * (rot C ((2 : K)⁻¹ • (H.ha + H.hb)) * (green C W)ᵀ).trace
      = (rot C H.ha * (green C W)ᵀ).trace + (rot C H.hb * (green C W)ᵀ).trace := by
    unfold rot
    rw [Matrix.mul_smul, Matrix.smul_mul, Matrix.trace_smul, Matrix.mul_add, Matrix.add_mul,
      Matrix.trace_add, smul_eq_mul]
    field_simp
  rw [e1]
  have e2 : ∀ γ, (2 * ((fMat (rot C (H.L γ)) (green C W)).trace * (fMat (rot C (H.L γ)) (green C W)).trace)
        - (fMat (rot C (H.L γ)) (green C W) * fMat (rot C (H.L γ)) (green C W)).trace)
      = ((fMat (rot C (H.L γ)) (green C W)).trace * (fMat (rot C (H.L γ)) (green C W)).trace
        + (fMat (rot C (H.L γ)) (green C W)).trace * (fMat (rot C (H.L γ)) (green C W)).trace
        + 2 * ((fMat (rot C (H.L γ)) (green C W)).trace * (fMat (rot C (H.L γ)) (green C W)).trace)
        - (fMat (rot C (H.L γ)) (green C W) * fMat (rot C (H.L γ)) (green C W)).trace
        - (fMat (rot C (H.L γ)) (green C W) * fMat (rot C (H.L γ)) (green C W)).trace) / 2 := by
    intro γ; field_simp; ring
  simp only [e2]
  rw [Finset.sum_div]

/-- hence RHF restricted is the mixed estimator of the product bra `F = det(Cᴴ·)²` -/
theorem rhf_energy_is_mixed_estimator (H : Ham m g K) (C W : Matrix (Fin m) (Fin k) K)
    (h2 : (2 : K) ≠ 0) (h : ovlp C W ≠ 0) :
    rhfEnergyR H C W = specEnergy H (ovlp C) (ovlp C) W W := by
  rw [rhf_restricted_eq_unrestricted H C W h2, uhf_energy_is_mixed_estimator H C C W W h h]

/-! ## NOCI: a linear combination of product bras

`noci._calc_energy` returns `Σ_d c_d ov_d E_d / Σ_d c_d ov_d` with `E_d` the single-determinant Green's-function
energy.  `⟨ψ|H|φ⟩` is linear in the bra, so the mixed estimator of `⟨ψ_T| = Σ_d c_d ⟨ψ_d|` is
`Σ_d c_d N_d / Σ_d c_d ov_d` with `N_d = ov_d · specEnergy_d` the column-replacement numerator of determinant `d`. -/

/-- the numerator `⟨ψ|H|Φ⟩` of a product bra, written with explicit column replacements -/
noncomputable def specNumer (H : Ham m g K)
    (Fa : Matrix (Fin m) (Fin ka) K → K) (Fb : Matrix (Fin m) (Fin kb) K → K)
    (Wa : Matrix (Fin m) (Fin ka) K) (Wb : Matrix (Fin m) (Fin kb) K) : K :=
  (Fa Wa * Fb Wb) * specEnergy H Fa Fb Wa Wb

theorem noci_energy_is_mixed_estimator {nd : ℕ} (H : Ham m g K) (c : Fin nd → K)
    (Ca : Fin nd → Matrix (Fin m) (Fin ka) K) (Cb : Fin nd → Matrix (Fin m) (Fin kb) K)
    (Wa : Matrix (Fin m) (Fin ka) K) (Wb : Matrix (Fin m) (Fin kb) K)
    (h : ∀ d, ovlp (Ca d) Wa ≠ 0 ∧ ovlp (Cb d) Wb ≠ 0) :
    (∑ d, c d * uhfOverlap (Ca d) (Cb d) Wa Wb * uhfEnergy H (Ca d) (Cb d) Wa Wb)
        / (∑ d, c d * uhfOverlap (Ca d) (Cb d) Wa Wb)
      = (∑ d, c d * specNumer H (ovlp (Ca d)) (ovlp (Cb d)) Wa Wb)
        / (∑ d, c d * (ovlp (Ca d) Wa * ovlp (Cb d) Wb)) := by
  congr 1
  refine Finset.sum_congr rfl fun d _ => ?_
  rw [uhf_energy_is_mixed_estimator H (Ca d) (Cb d) Wa Wb (h d).1 (h d).2]
  unfold specNumer uhfOverlap
  ring

open Polynomial in
/-- **central second differences of a polynomial converge quadratically**: for every polynomial `p` there is a
polynomial `q` with `p(ε) − 2 p(0) + p(−ε) = ε²·(2 p₂ + ε²·q(ε))` for every `ε`.  The finite-difference kinds evaluate the
two-body energy as such a difference of the overlap of `(1 + εL + ε²L²/2)·walker`, which is a polynomial in `ε`. -/
theorem central_difference_quadratic (p : K[X]) :
    ∃ q : K[X], ∀ ε : K, p.eval ε - 2 * p.eval 0 + p.eval (-ε) = ε ^ 2 * (2 * p.coeff 2 + ε ^ 2 * q.eval ε) := by
  induction p using Polynomial.induction_on' with
  | add p r hp hr =>
    obtain ⟨q1, h1⟩ := hp
    obtain ⟨q2, h2⟩ := hr
    refine ⟨q1 + q2, fun ε => ?_⟩
    simp only [eval_add, coeff_add]
    linear_combination h1 ε + h2 ε
  | monomial n a =>
    rcases Nat.lt_or_ge n 4 with hn | hn
    · refine ⟨0, fun ε => ?_⟩
      interval_cases n <;> simp [eval_monomial, coeff_monomial] <;> ring
    · obtain ⟨j, rfl⟩ := Nat.exists_eq_add_of_le hn
      refine ⟨monomial j (a * (1 + (-1) ^ j)), fun ε => ?_⟩
      have hc : (monomial (4 + j) a).coeff 2 = 0 := by
        rw [coeff_monomial]; simp; omega
      simp only [eval_monomial, hc]
      have h0 : (0 : K) ^ (4 + j) = 0 := by simp
      rw [h0]
      have : (-ε) ^ (4 + j) = (-1) ^ j * ε ^ (4 + j) := by
        rw [neg_pow]; congr 1
        rw [pow_add]; norm_num
      rw [this]
      ring


end AfqmcVerif.Props.C02
