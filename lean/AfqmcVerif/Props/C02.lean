import AfqmcVerif.Lemmas.SingleDet
import Mathlib.Algebra.BigOperators.Field

/-!
# C02 — local energy = ⟨ψ_T|H|φ⟩/⟨ψ_T|φ⟩ (single-determinant kinds; all dimensions)

With `H = h0 + Σ h[s] a†a + ½ Σ_g (Σ_s L_g·E^s)² − ½ Σ_g Σ_s (L_g²)·E^s` (normal ordering) and the column
calculus of `Lemmas/SingleDet.lean`, the `j = l` replacements cancel the normal-ordering term and

`⟨ψ|H|Φ⟩ = h0 F + [ob↑(h↑) F↓ + F↑ ob↓(h↓)] + ½ Σ_g [tb↑(L,L) F↓ + F↑ tb↓(L,L) + 2 ob↑(L) ob↓(L)]`

for a product bra `F = F↑ F↓`.  `specEnergy` is that expression divided by `F`.
-/
set_option linter.unusedSectionVars false
namespace AfqmcVerif.Props.C02
open AfqmcVerif.SingleDet Matrix

variable {m k ka kb g : ℕ} {K : Type} [Field K] [StarRing K]

/-- the mixed estimator written with explicit column replacements (no Green's functions) -/
noncomputable def specEnergy (H : Ham m g K)
    (Fa : Matrix (Fin m) (Fin ka) K → K) (Fb : Matrix (Fin m) (Fin kb) K → K)
    (Wa : Matrix (Fin m) (Fin ka) K) (Wb : Matrix (Fin m) (Fin kb) K) : K :=
  H.h0
  + (obNumer Fa H.ha Wa * Fb Wb + Fa Wa * obNumer Fb H.hb Wb) / (Fa Wa * Fb Wb)
  + (∑ γ, (tbNumer Fa (H.L γ) (H.L γ) Wa * Fb Wb + Fa Wa * tbNumer Fb (H.L γ) (H.L γ) Wb
            + 2 * (obNumer Fa (H.L γ) Wa * obNumer Fb (H.L γ) Wb)) / (Fa Wa * Fb Wb)) / 2

/-- **UHF**, spin-dependent `h1` included: the Green's-function formula of the code is the mixed
estimator, for every walker with non-vanishing overlap, every Hamiltonian, every dimension -/
theorem uhf_energy_is_mixed_estimator (H : Ham m g K)
    (Ca : Matrix (Fin m) (Fin ka) K) (Cb : Matrix (Fin m) (Fin kb) K)
    (Wa : Matrix (Fin m) (Fin ka) K) (Wb : Matrix (Fin m) (Fin kb) K)
    (ha : ovlp Ca Wa ≠ 0) (hb : ovlp Cb Wb ≠ 0) :
    uhfEnergy H Ca Cb Wa Wb = specEnergy H (ovlp Ca) (ovlp Cb) Wa Wb := by
  unfold specEnergy uhfEnergy uhfEnergyOfGreen
  simp only [obNumer_ovlp Ca Wa _ ha, obNumer_ovlp Cb Wb _ hb, tbNumer_ovlp Ca Wa _ _ ha,
    tbNumer_ovlp Cb Wb _ _ hb, exch_eq_trace, contract_eq_trace]
  have e1 : (ovlp Ca Wa * (rot Ca H.ha * (green Ca Wa)ᵀ).trace * ovlp Cb Wb
      + ovlp Ca Wa * (ovlp Cb Wb * (rot Cb H.hb * (green Cb Wb)ᵀ).trace)) / (ovlp Ca Wa * ovlp Cb Wb)
      = (rot Ca H.ha * (green Ca Wa)ᵀ).trace + (rot Cb H.hb * (green Cb Wb)ᵀ).trace := by
    field_simp
  rw [e1]
  congr 2
  refine Finset.sum_congr rfl fun γ _ => ?_
  unfold fMat
  field_simp
  ring

/-- **RHF with restricted walkers** equals the unrestricted formula on `[W, W]`, and sees only the
spin average of `h1`, which is exact for it -/
theorem rhf_restricted_eq_unrestricted (H : Ham m g K) (C W : Matrix (Fin m) (Fin k) K)
    (h2 : (2 : K) ≠ 0) : rhfEnergyR H C W = uhfEnergy H C C W W := by
  unfold rhfEnergyR rhfEnergyROfGreen uhfEnergy uhfEnergyOfGreen
  simp only [contract_eq_trace, exch_eq_trace]
  have e1 : 2 * (rot C ((2 : K)⁻¹ • (H.ha + H.hb)) * (green C W)ᵀ).trace
      = (rot C H.ha * (green C W)ᵀ).trace + (rot C H.hb * (green C W)ᵀ).trace := by
    unfold rot
    rw [Matrix.mul_smul, Matrix.smul_mul, Matrix.trace_smul, Matrix.mul_add, Matrix.add_mul,
      Matrix.trace_add, smul_eq_mul]
    field_simp
  rw [e1]
  have e2 : ∀ γ, (2 * ((fMat (rot C (H.L γ)) (green C W)).trace * (fMat (rot C (H.L γ)) (green C W)).trace)
        - (fMat (rot C (H.L γ)) (green C W) * fMat (rot C (H.L γ)) (green C W)).trace)
      = ((fMat (rot C (H.L γ)) (green C W)).trace * (fMat (rot C (H.L γ)) (green C W)).trace
        + (fMat (rot C (H.L γ)) (green C W)).trace * (fMat (rot C (H.L γ)) (green C W)).trace
        + 2 * ((fMat (rot C (H.L γ)) (green C W)).trace * (fMat (rot C (H.L γ)) (green C W)).trace)
        - (fMat (rot C (H.L γ)) (green C W) * fMat (rot C (H.L γ)) (green C W)).trace
        - (fMat (rot C (H.L γ)) (green C W) * fMat (rot C (H.L γ)) (green C W)).trace) / 2 := by
    intro γ; field_simp; ring
  simp only [e2]
  rw [Finset.sum_div]

/-- hence RHF restricted is the mixed estimator of the product bra `F = det(Cᴴ·)²` -/
theorem rhf_energy_is_mixed_estimator (H : Ham m g K) (C W : Matrix (Fin m) (Fin k) K)
    (h2 : (2 : K) ≠ 0) (h : ovlp C W ≠ 0) :
    rhfEnergyR H C W = specEnergy H (ovlp C) (ovlp C) W W := by
  rw [rhf_restricted_eq_unrestricted H C W h2, uhf_energy_is_mixed_estimator H C C W W h h]

end AfqmcVerif.Props.C02
