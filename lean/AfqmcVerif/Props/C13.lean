import AfqmcVerif.Lemmas.SingleDet
import Mathlib.LinearAlgebra.Matrix.Block

/-!
# C13 — orthonormalisation never changes the represented state (all dimensions)

For **any** factorisation `W = Q R` with `R` invertible (in the code: `jnp.linalg.qr`, `R` upper
triangular): the overlap factorises, and the Green's function — hence force bias and local energy,
which are functions of the trial, the Hamiltonian and the Green's function only — is unchanged.
That `qr` returns such a factorisation with orthonormal `Q` is an assumption monitored on the real
return values (T3).
-/
set_option linter.unusedSectionVars false
namespace AfqmcVerif.Props.C13
open AfqmcVerif.SingleDet Matrix

variable {m k ka kb g : ℕ} {K : Type} [Field K] [StarRing K]

/-- `overlap(original) = overlap(orthonormal) × det R` -/
theorem overlap_factorises (C Q : Matrix (Fin m) (Fin k) K) (R : Matrix (Fin k) (Fin k) K) :
    ovlp C (Q * R) = ovlp C Q * R.det := by
  unfold ovlp; rw [← Matrix.mul_assoc, Matrix.det_mul]

/-- for the upper-triangular factor of a QR decomposition the norm factor is the product of its
diagonal, as `qr_vmap` computes it -/
theorem norm_factor_is_prod_diag (R : Matrix (Fin k) (Fin k) K) (hR : R.BlockTriangular id) :
    R.det = ∏ i, R i i := Matrix.det_of_isUpperTriangular hR

/-- the Green's function of `W = Q R` equals that of `Q` -/
theorem green_invariant (C Q : Matrix (Fin m) (Fin k) K) (R : Matrix (Fin k) (Fin k) K)
    (hR : R.det ≠ 0) : green C (Q * R) = green C Q := by
  unfold green
  rw [cinv_eq_inv, cinv_eq_inv, ← Matrix.mul_assoc Cᴴ Q R, Matrix.mul_inv_rev, Matrix.mul_assoc Q R,
    ← Matrix.mul_assoc R, Matrix.mul_nonsing_inv R (isUnit_iff_ne_zero.2 hR), Matrix.one_mul]

/-- force bias and energy are unchanged (they depend on the walker only through the Green's function) -/
theorem force_bias_invariant (H : Ham m g K) (Ca : Matrix (Fin m) (Fin ka) K) (Cb : Matrix (Fin m) (Fin kb) K)
    (Qa : Matrix (Fin m) (Fin ka) K) (Qb : Matrix (Fin m) (Fin kb) K)
    (Ra : Matrix (Fin ka) (Fin ka) K) (Rb : Matrix (Fin kb) (Fin kb) K)
    (ha : Ra.det ≠ 0) (hb : Rb.det ≠ 0) (γ : Fin g) :
    uhfForceBias H Ca Cb (Qa * Ra) (Qb * Rb) γ = uhfForceBias H Ca Cb Qa Qb γ := by
  unfold uhfForceBias; rw [green_invariant Ca Qa Ra ha, green_invariant Cb Qb Rb hb]

theorem energy_invariant (H : Ham m g K) (Ca : Matrix (Fin m) (Fin ka) K) (Cb : Matrix (Fin m) (Fin kb) K)
    (Qa : Matrix (Fin m) (Fin ka) K) (Qb : Matrix (Fin m) (Fin kb) K)
    (Ra : Matrix (Fin ka) (Fin ka) K) (Rb : Matrix (Fin kb) (Fin kb) K)
    (ha : Ra.det ≠ 0) (hb : Rb.det ≠ 0) :
    uhfEnergy H Ca Cb (Qa * Ra) (Qb * Rb) = uhfEnergy H Ca Cb Qa Qb := by
  unfold uhfEnergy; rw [green_invariant Ca Qa Ra ha, green_invariant Cb Qb Rb hb]

theorem energy_invariant_restricted (H : Ham m g K) (C Q : Matrix (Fin m) (Fin k) K)
    (R : Matrix (Fin k) (Fin k) K) (hR : R.det ≠ 0) : rhfEnergyR H C (Q * R) = rhfEnergyR H C Q := by
  unfold rhfEnergyR; rw [green_invariant C Q R hR]

/-- initial walkers of a single-determinant trial: any orthonormal basis `Q = C U` of the trial's
occupied space (`U` unitary) has overlap of modulus one with an orthonormal trial -/
theorem init_walker_overlap (C : Matrix (Fin m) (Fin k) K) (U : Matrix (Fin k) (Fin k) K)
    (hC : Cᴴ * C = 1) : ovlp C (C * U) = U.det := by
  unfold ovlp; rw [← Matrix.mul_assoc, hC, Matrix.one_mul]

end AfqmcVerif.Props.C13
