import AfqmcVerif.Lemmas.SingleDet
import AfqmcVerif.Lemmas.AutoBra
import Mathlib.LinearAlgebra.Matrix.Block
import Mathlib.Tactic.Ring
import Mathlib.Tactic.FieldSimp
import Mathlib.Data.Rat.Defs
import Mathlib.LinearAlgebra.Matrix.Notation

/-!
# C13 — orthonormalisation never changes the represented state (all dimensions)

For **any** factorisation `W = Q R` with `R` invertible (in the code: `jnp.linalg.qr`, `R` upper
triangular): the overlap factorises, and the Green's function — hence force bias and local energy,
which are functions of the trial, the Hamiltonian and the Green's function only — is unchanged.
That `qr` returns such a factorisation with orthonormal `Q` is an assumption monitored on the real
return values (T3).
-/
set_option linter.unusedSectionVars false
namespace AfqmcVerif.Props.C13
open AfqmcVerif.SingleDet Matrix

variable {m k ka kb g : ℕ} {K : Type} [Field K] [StarRing K]

/-- `overlap(original) = overlap(orthonormal) × det R` -/
theorem overlap_factorises (C Q : Matrix (Fin m) (Fin k) K) (R : Matrix (Fin k) (Fin k) K) :
    ovlp C (Q * R) = ovlp C Q * R.det := by
  unfold ovlp; rw [← Matrix.mul_assoc, Matrix.det_mul]

/-- for the upper-triangular factor of a QR decomposition the norm factor is the product of its
diagonal, as `qr_vmap` computes it -/
theorem norm_factor_is_prod_diag (R : Matrix (Fin k) (Fin k) K) (hR : R.BlockTriangular id) :
    R.det = ∏ i, R i i := Matrix.det_of_isUpperTriangular hR

/-- the Green's function of `W = Q R` equals that of `Q` -/
theorem green_invariant (C Q : Matrix (Fin m) (Fin k) K) (R : Matrix (Fin k) (Fin k) K)
    (hR : R.det ≠ 0) : green C (Q * R) = green C Q := by
  unfold green
  rw [cinv_eq_inv, cinv_eq_inv, ← Matrix.mul_assoc Cᴴ Q R, Matrix.mul_inv_rev, Matrix.mul_assoc Q R,
    ← Matrix.mul_assoc R, Matrix.mul_nonsing_inv R (isUnit_iff_ne_zero.2 hR), Matrix.one_mul]

/-- force bias and energy are unchanged (they depend on the walker only through the Green's function) -/
theorem force_bias_invariant (H : Ham m g K) (Ca : Matrix (Fin m) (Fin ka) K) (Cb : Matrix (Fin m) (Fin kb) K)
    (Qa : Matrix (Fin m) (Fin ka) K) (Qb : Matrix (Fin m) (Fin kb) K)
    (Ra : Matrix (Fin ka) (Fin ka) K) (Rb : Matrix (Fin kb) (Fin kb) K)
    (ha : Ra.det ≠ 0) (hb : Rb.det ≠ 0) (γ : Fin g) :
    uhfForceBias H Ca Cb (Qa * Ra) (Qb * Rb) γ = uhfForceBias H Ca Cb Qa Qb γ := by
  unfold uhfForceBias; rw [green_invariant Ca Qa Ra ha, green_invariant Cb Qb Rb hb]

theorem energy_invariant (H : Ham m g K) (Ca : Matrix (Fin m) (Fin ka) K) (Cb : Matrix (Fin m) (Fin kb) K)
    (Qa : Matrix (Fin m) (Fin ka) K) (Qb : Matrix (Fin m) (Fin kb) K)
    (Ra : Matrix (Fin ka) (Fin ka) K) (Rb : Matrix (Fin kb) (Fin kb) K)
    (ha : Ra.det ≠ 0) (hb : Rb.det ≠ 0) :
    uhfEnergy H Ca Cb (Qa * Ra) (Qb * Rb) = uhfEnergy H Ca Cb Qa Qb := by
  unfold uhfEnergy; rw [green_invariant Ca Qa Ra ha, green_invariant Cb Qb Rb hb]

theorem energy_invariant_restricted (H : Ham m g K) (C Q : Matrix (Fin m) (Fin k) K)
    (R : Matrix (Fin k) (Fin k) K) (hR : R.det ≠ 0) : rhfEnergyR H C (Q * R) = rhfEnergyR H C Q := by
  unfold rhfEnergyR; rw [green_invariant C Q R hR]

/-- initial walkers of a single-determinant trial: any orthonormal basis `Q = C U` of the trial's
occupied space (`U` unitary) has overlap of modulus one with an orthonormal trial -/
theorem init_walker_overlap (C : Matrix (Fin m) (Fin k) K) (U : Matrix (Fin k) (Fin k) K)
    (hC : Cᴴ * C = 1) : ovlp C (C * U) = U.det := by
  unfold ovlp; rw [← Matrix.mul_assoc, hC, Matrix.one_mul]

/-! ## every trial kind at once: a bra is a linear functional of products of minors

Whatever the trial (determinant lists, CISD-type expansions, NOCI, GHF written in a product basis, …),
its overlap with a walker `(Wa, Wb)` is a finite linear combination of products of a minor of `Wa` and
a minor of `Wb` (`⟨ψ_T| = Σ_i c_i ⟨S_i| ⊗ ⟨T_i|`).  For such a functional the statements of this
property hold without looking at the trial's formulas: re-orthonormalisation multiplies the overlap by
`det Ra · det Rb`, and every mixed estimator `⟨ψ_T|Ô|φ⟩/⟨ψ_T|φ⟩` with `Ô` a linear combination of
one-body group elements `A_j ⊗ B_j` (which is how the AD-based kinds literally evaluate force bias and
energy, as derivatives of the overlap of `(1 + xO)W` / `exp(xO)W`) is unchanged. -/

/-- a general bra on the two spin blocks -/
def anyBra {ι : Type} [Fintype ι] (c : ι → K) (ea : ι → Fin ka → Fin m) (eb : ι → Fin kb → Fin m)
    (Wa : Matrix (Fin m) (Fin ka) K) (Wb : Matrix (Fin m) (Fin kb) K) : K :=
  ∑ i, c i * ((Wa.submatrix (ea i) id).det * (Wb.submatrix (eb i) id).det)

/-- the same functional as `AutoBra.bra`, along which C02 / C03 differentiate the AD kinds -/
theorem anyBra_eq_bra {ι : Type} [Fintype ι] (c : ι → K) (ea : ι → Fin ka → Fin m) (eb : ι → Fin kb → Fin m)
    (Wa : Matrix (Fin m) (Fin ka) K) (Wb : Matrix (Fin m) (Fin kb) K) :
    anyBra c ea eb Wa Wb = AfqmcVerif.AutoBra.bra c ea eb Wa Wb := rfl

theorem minor_mul_right {k' : ℕ} (Q : Matrix (Fin m) (Fin k') K) (R : Matrix (Fin k') (Fin k') K) (e : Fin k' → Fin m) :
    ((Q * R).submatrix e id).det = (Q.submatrix e id).det * R.det := by
  have h : (Q * R).submatrix e id = Q.submatrix e id * R := by
    ext i j; simp [Matrix.mul_apply, Matrix.submatrix_apply]
  rw [h, Matrix.det_mul]

/-- **overlap(original) = overlap(orthonormal) × norm factor for every trial kind** -/
theorem anyBra_factorises {ι : Type} [Fintype ι] (c : ι → K) (ea : ι → Fin ka → Fin m) (eb : ι → Fin kb → Fin m)
    (Qa : Matrix (Fin m) (Fin ka) K) (Qb : Matrix (Fin m) (Fin kb) K)
    (Ra : Matrix (Fin ka) (Fin ka) K) (Rb : Matrix (Fin kb) (Fin kb) K) :
    anyBra c ea eb (Qa * Ra) (Qb * Rb) = anyBra c ea eb Qa Qb * (Ra.det * Rb.det) := by
  unfold anyBra
  rw [Finset.sum_mul]
  refine Finset.sum_congr rfl fun i _ => ?_
  rw [minor_mul_right, minor_mul_right]; ring

/-- numerator of a mixed estimator: `Ô = Σ_j d_j (A_j ⊗ B_j)` acting on the walker -/
def anyNumerator {ι κ : Type} [Fintype ι] [Fintype κ] (c : ι → K) (ea : ι → Fin ka → Fin m) (eb : ι → Fin kb → Fin m)
    (d : κ → K) (A B : κ → Matrix (Fin m) (Fin m) K)
    (Wa : Matrix (Fin m) (Fin ka) K) (Wb : Matrix (Fin m) (Fin kb) K) : K :=
  ∑ j, d j * anyBra c ea eb (A j * Wa) (B j * Wb)

/-- **mixed estimators (force bias, local energy, Green's functions) are unchanged by
re-orthonormalisation, for every trial kind** -/
theorem anyEstimator_invariant {ι κ : Type} [Fintype ι] [Fintype κ] (c : ι → K) (ea : ι → Fin ka → Fin m)
    (eb : ι → Fin kb → Fin m) (d : κ → K) (A B : κ → Matrix (Fin m) (Fin m) K)
    (Qa : Matrix (Fin m) (Fin ka) K) (Qb : Matrix (Fin m) (Fin kb) K)
    (Ra : Matrix (Fin ka) (Fin ka) K) (Rb : Matrix (Fin kb) (Fin kb) K) (ha : Ra.det ≠ 0) (hb : Rb.det ≠ 0) :
    anyNumerator c ea eb d A B (Qa * Ra) (Qb * Rb) / anyBra c ea eb (Qa * Ra) (Qb * Rb)
      = anyNumerator c ea eb d A B Qa Qb / anyBra c ea eb Qa Qb := by
  have hnum : anyNumerator c ea eb d A B (Qa * Ra) (Qb * Rb) = anyNumerator c ea eb d A B Qa Qb * (Ra.det * Rb.det) := by
    unfold anyNumerator
    rw [Finset.sum_mul]
    refine Finset.sum_congr rfl fun j _ => ?_
    rw [← Matrix.mul_assoc, ← Matrix.mul_assoc, anyBra_factorises]; ring
  rw [hnum, anyBra_factorises]
  have hne : Ra.det * Rb.det ≠ 0 := mul_ne_zero ha hb
  rw [mul_div_mul_right _ _ hne]

/-- non-vacuity: the single-determinant overlap `det(Cᴴ W)` is such a functional (Cauchy–Binet, C01), and a
two-term bra on concrete data evaluates as expected -/
example : anyBra (ka := 1) (kb := 1) (m := 2) (fun _ : Fin 2 => (1 : ℚ)) (fun i _ => i) (fun i _ => i)
    !![1; 2] !![3; 4] = 1 * 3 + 2 * 4 := by
  simp [anyBra, Fin.sum_univ_two, Matrix.det_unique]

end AfqmcVerif.Props.C13
