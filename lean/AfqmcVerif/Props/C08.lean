import AfqmcVerif.Lemmas.Machine
import AfqmcVerif.Generated.SamplerProg

/-!
# C08 — cached overlaps are coherent with the walkers whenever a step reads them

The programs `m_*` and `driver` are regenerated from `sampling.py` / `driver.py` on every run; the
generated file proves `check p .stale = some _` for each by `decide`.  The theorems below hold for
**every** implementation of the operations (`S`), every scan-length valuation (`ρ`: numbers of
steps, energy blocks, SR blocks, equilibration and sampling iterations), every option-dependent
branch (`β`) and every initial state: each `propagate` executed is entered with
`overlaps = walkers.map overlap`.
-/
namespace AfqmcVerif.Props.C08
open AfqmcVerif.Machine AfqmcVerif.Generated.SamplerProg

variable {W O R : Type}

/-- from a successful check to the run-time statement, from *any* initial state -/
theorem safe_of_check (S : Sem W O R) (ρ : String → Nat) (p : Prog)
    (h : (check p Coh.stale).isSome = true) (β : List Bool) (σ : State W O R) : safe S ρ p β σ := by
  cases hc : check p Coh.stale with
  | none => rw [hc] at h; simp at h
  | some c' => exact (check_sound S ρ p Coh.stale c' β σ hc trivial).1

theorem propagate_phaseless_safe (S : Sem W O R) (ρ : String → Nat) (β : List Bool) (σ : State W O R) :
    safe S ρ m_propagate_phaseless β σ := safe_of_check S ρ _ propagate_phaseless_coherent β σ

theorem propagate_phaseless_ad_safe (S : Sem W O R) (ρ : String → Nat) (β : List Bool) (σ : State W O R) :
    safe S ρ m_propagate_phaseless_ad β σ := safe_of_check S ρ _ propagate_phaseless_ad_coherent β σ

theorem propagate_phaseless_ad_1_safe (S : Sem W O R) (ρ : String → Nat) (β : List Bool) (σ : State W O R) :
    safe S ρ m_propagate_phaseless_ad_1 β σ := safe_of_check S ρ _ propagate_phaseless_ad_1_coherent β σ

theorem propagate_phaseless_ad_nosr_safe (S : Sem W O R) (ρ : String → Nat) (β : List Bool) (σ : State W O R) :
    safe S ρ m_propagate_phaseless_ad_nosr β σ := safe_of_check S ρ _ propagate_phaseless_ad_nosr_coherent β σ

theorem propagate_phaseless_ad_norot_safe (S : Sem W O R) (ρ : String → Nat) (β : List Bool) (σ : State W O R) :
    safe S ρ m_propagate_phaseless_ad_norot β σ := safe_of_check S ρ _ propagate_phaseless_ad_norot_coherent β σ

theorem propagate_phaseless_ad_nosr_norot_safe (S : Sem W O R) (ρ : String → Nat) (β : List Bool)
    (σ : State W O R) : safe S ρ m_propagate_phaseless_ad_nosr_norot β σ :=
  safe_of_check S ρ _ propagate_phaseless_ad_nosr_norot_coherent β σ

/-- the whole driver: initialisation, any number of equilibration iterations
`(sampler ; QR ; global SR ; e_estimate)`, any number of sampling iterations with any AD mode -/
theorem driver_safe (S : Sem W O R) (ρ : String → Nat) (β : List Bool) (σ : State W O R) :
    safe S ρ driver β σ := safe_of_check S ρ _ driver_coherent β σ

/-- the translator classified every statement (no unresolved scans, no arity mismatch) -/
theorem translator_clean : translationIssues = [] := translation_clean

/-- **equivalently**: a sampler entry point gives the same walkers and the same everything-else
(weights, energies, keys, …) as the replay that refreshes the overlaps explicitly after every walker
modification — for every implementation of the operations and every history -/
theorem replay_equiv (S : Sem W O R) (ρ : String → Nat) (p : Prog) (hnc : noClobber p = true)
    (h : (check p Coh.stale).isSome = true) (β : List Bool) (σ : State W O R) :
    (run S ρ (explicit p) β σ).ws = (run S ρ p β σ).ws ∧
    (run S ρ (explicit p) β σ).rest = (run S ρ p β σ).rest := by
  cases hc : check p Coh.stale with
  | none => rw [hc] at h; simp at h
  | some c' =>
    have := explicit_equiv S ρ p Coh.stale c' β σ σ hnc hc ⟨rfl, rfl, fun h => by cases h⟩
    exact ⟨this.1, this.2.1⟩

theorem propagate_phaseless_replay (S : Sem W O R) (ρ : String → Nat) (β : List Bool) (σ : State W O R) :
    (run S ρ (explicit m_propagate_phaseless) β σ).ws = (run S ρ m_propagate_phaseless β σ).ws ∧
    (run S ρ (explicit m_propagate_phaseless) β σ).rest = (run S ρ m_propagate_phaseless β σ).rest :=
  replay_equiv S ρ _ propagate_phaseless_noClobber propagate_phaseless_coherent β σ

/-! ## the check is not vacuous: dropping the refresh after QR is rejected, a redundant refresh is not -/

example : check (.seq (.op .refresh) (.seq (.op .propagate) (.seq (.op .qr) (.op .propagate)))) .stale = none := by
  decide
example : (check (.seq (.op .refresh) (.seq (.op .refresh) (.op .propagate))) .stale).isSome = true := by
  decide
example : check (.scan "n" (.seq (.op .propagate) (.op .srLocal))) .coh = none := by decide

end AfqmcVerif.Props.C08
