import AfqmcVerif.Lemmas.Cholesky

/-!
# C17 — modified Cholesky factorisations reproduce their input

`M` symmetric positive semi-definite of any size `n+1`, over any linearly ordered field.
`numpyChol ε err M` is the list of vectors returned by `pyscf_interface.modified_cholesky`
(`ε = 1e-10`), `jaxVecs M k` the `k` vectors of `linalg_utils.modified_cholesky` (`ε = 0`);
`recon vs i j = Σ_g L_g[i] L_g[j]`.
-/
set_option linter.unusedSectionVars false
namespace AfqmcVerif.Props.C17
open AfqmcVerif.Cholesky Finset

variable {n : ℕ} {K : Type} [Field K] [LinearOrder K] [IsStrictOrderedRing K]

/-! ## pivot rule -/

theorem argmaxAbs_spec (d : Fin (n + 1) → K) : ∀ i, |d i| ≤ |d (argmaxAbs d)| := by
  unfold argmaxAbs
  have gen : ∀ (l : List (Fin (n + 1))) (b : Fin (n + 1)),
      let r := l.foldl (fun best i => if |d best| < |d i| then i else best) b
      |d b| ≤ |d r| ∧ ∀ i ∈ l, |d i| ≤ |d r| := by
    intro l
    induction l with
    | nil => intro b; simp
    | cons a l ih =>
      intro b
      simp only [List.foldl_cons]
      by_cases h : |d b| < |d a|
      · simp only [h, if_true]
        have := ih a
        refine ⟨le_trans h.le this.1, ?_⟩
        intro i hi
        rcases List.mem_cons.1 hi with rfl | hi
        · exact this.1
        · exact this.2 i hi
      · simp only [h, if_false]
        have := ih b
        refine ⟨this.1, ?_⟩
        intro i hi
        rcases List.mem_cons.1 hi with rfl | hi
        · exact le_trans (not_lt.1 h) this.1
        · exact this.2 i hi
  intro i
  exact (gen (List.finRange (n + 1)) 0).2 i (List.mem_finRange i)

theorem argmax_spec (d : Fin (n + 1) → K) : ∀ i, d i ≤ d (argmax d) := by
  unfold argmax
  have gen : ∀ (l : List (Fin (n + 1))) (b : Fin (n + 1)),
      let r := l.foldl (fun best i => if d best < d i then i else best) b
      d b ≤ d r ∧ ∀ i ∈ l, d i ≤ d r := by
    intro l
    induction l with
    | nil => intro b; simp
    | cons a l ih =>
      intro b
      simp only [List.foldl_cons]
      by_cases h : d b < d a
      · simp only [h, if_true]
        have := ih a
        refine ⟨le_trans h.le this.1, ?_⟩
        intro i hi
        rcases List.mem_cons.1 hi with rfl | hi
        · exact this.1
        · exact this.2 i hi
      · simp only [h, if_false]
        have := ih b
        refine ⟨this.1, ?_⟩
        intro i hi
        rcases List.mem_cons.1 hi with rfl | hi
        · exact le_trans (not_lt.1 h) this.1
        · exact this.2 i hi
  intro i
  exact (gen (List.finRange (n + 1)) 0).2 i (List.mem_finRange i)

/-! ## loop invariant -/

/-- what holds of the loop state at the loop head -/
structure Inv (M : Mat (n + 1) K) (s : LoopState (n + 1) K) : Prop where
  symm   : Symm s.R
  psd    : PSD s.R
  tele   : ∀ i j, M i j = s.R i j + recon s.accepted i j     -- residual = M − Σ accepted L Lᵀ
  row    : ∀ j, s.last.u j = s.R s.last.piv j                 -- `mat[nu] − R` is the pivot row of the residual
  dge    : s.R s.last.piv s.last.piv ≤ s.last.d               -- divisor ≥ pivot
  dmax   : |s.deltaMax| ≤ s.last.d                            -- divisor = delta_max + eps
  maxd   : ∀ i, s.R i i ≤ |s.deltaMax|                        -- delta_max is the largest residual diagonal

theorem psd_diag_nonneg (R : Mat (n + 1) K) (hp : PSD R) (i : Fin (n + 1)) : 0 ≤ R i i := by
  have := hp (unit i); rwa [B_unit_unit] at this

theorem inv_init (M : Mat (n + 1) K) (hs : Symm M) (hp : PSD M) : Inv M (loopInit M) where
  symm := hs
  psd := hp
  tele := fun i j => by simp [loopInit, recon]
  row := fun j => rfl
  dge := le_refl _
  dmax := by
    simp only [loopInit]
    rw [abs_of_nonneg (psd_diag_nonneg M hp _)]
  maxd := fun i => by
    simp only [loopInit]
    rw [abs_of_nonneg (psd_diag_nonneg M hp _)]
    exact argmax_spec (fun i => M i i) i

theorem recon_append (vs : List (Vec (n + 1) K)) (v : Vec (n + 1) K) (i j : Fin (n + 1)) :
    recon (vs ++ [v]) i j = recon vs i j + v.u i * v.u j / v.d := by
  simp [recon]

theorem inv_iter (M : Mat (n + 1) K) (ε : K) (hε : 0 ≤ ε) (s : LoopState (n + 1) K) (h : Inv M s)
    (hgo : 0 < |s.deltaMax|) : Inv M (loopIter ε s) := by
  have hd : 0 < s.last.d := lt_of_lt_of_le hgo h.dmax
  have hu : (fun i j => s.R i j - s.last.u i * s.last.u j / s.last.d)
      = fun i j => s.R i j - s.R s.last.piv i * s.R s.last.piv j / s.last.d := by
    funext i j; rw [h.row i, h.row j]
  have hsym : Symm (fun i j => s.R i j - s.last.u i * s.last.u j / s.last.d) :=
    schur_symm s.R h.symm s.last.u s.last.d
  have hpsd : PSD (fun i j => s.R i j - s.last.u i * s.last.u j / s.last.d) := by
    rw [hu]; exact schur_psd s.R h.symm h.psd s.last.piv s.last.d hd h.dge
  refine ⟨hsym, hpsd, ?_, fun j => rfl, ?_, ?_, ?_⟩
  · intro i j
    simp only [loopIter]
    rw [recon_append, h.tele i j]; ring
  · simp only [loopIter, mkVec]
    have := le_abs_self ((fun i j => s.R i j - s.last.u i * s.last.u j / s.last.d)
      (argmaxAbs fun i => s.R i i - s.last.u i * s.last.u i / s.last.d)
      (argmaxAbs fun i => s.R i i - s.last.u i * s.last.u i / s.last.d))
    simp only at this
    linarith
  · simp only [loopIter, mkVec, abs_abs]
    linarith
  · intro i
    simp only [loopIter, abs_abs]
    have := argmaxAbs_spec (fun i => s.R i i - s.last.u i * s.last.u i / s.last.d) i
    exact le_trans (le_abs_self _) this

theorem inv_numpyLoop (M : Mat (n + 1) K) (ε err : K) (hε : 0 ≤ ε) (herr : 0 ≤ err) :
    ∀ (fuel : ℕ) (s : LoopState (n + 1) K), Inv M s → Inv M (numpyLoop ε err fuel s) := by
  intro fuel
  induction fuel with
  | zero => intro s h; exact h
  | succ f ih =>
    intro s h
    simp only [numpyLoop]
    split
    · rename_i hc
      exact ih _ (inv_iter M ε hε s h (lt_of_le_of_lt herr hc.1))
    · exact h

/-! ## the property -/

/-- **NumPy routine, threshold exit**: whenever the routine stops because `delta_max ≤ max_error`,
every element of `M − Σ_g L_g L_gᵀ` is at most `max_error` in modulus — for any size, any rank
(rank one, low rank, badly scaled), any `eps ≥ 0` -/
theorem numpy_elementwise_bound (M : Mat (n + 1) K) (hs : Symm M) (hp : PSD M) (ε err : K)
    (hε : 0 ≤ ε) (herr : 0 ≤ err)
    (hexit : |(numpyLoop ε err (n + 1) (loopInit M)).deltaMax| ≤ err) :
    ∀ i j, |M i j - recon (numpyChol ε err M) i j| ≤ err := by
  intro i j
  have hinv := inv_numpyLoop M ε err hε herr (n + 1) (loopInit M) (inv_init M hs hp)
  set s := numpyLoop ε err (n + 1) (loopInit M) with hsdef
  have hvs : numpyChol ε err M = s.accepted := by
    unfold numpyChol
    simp only [← hsdef, not_lt.2 hexit, if_false]
  rw [hvs, hinv.tele i j, add_sub_cancel_right]
  exact abs_entry_le s.R hinv.symm hinv.psd err (fun k => le_trans (hinv.maxd k) hexit) i j

/-- when the routine leaves the loop with `delta_max` still above the threshold (buffer full) it
returns the last vector too (the `fix:` commit); the residual is then the next Schur complement -/
theorem numpy_full_exit_keeps_last (M : Mat (n + 1) K) (ε err : K)
    (hfull : err < |(numpyLoop ε err (n + 1) (loopInit M)).deltaMax|) :
    numpyChol ε err M = (numpyLoop ε err (n + 1) (loopInit M)).accepted
      ++ [(numpyLoop ε err (n + 1) (loopInit M)).last] := by
  unfold numpyChol; simp only [hfull, if_true]

/-- **JAX routine**: after `k+1` vectors (all pivots so far non-zero) the residual is symmetric PSD
and equals `M − Σ L Lᵀ` … -/
theorem jax_inv (M : Mat (n + 1) K) (hs : Symm M) (hp : PSD M) :
    ∀ k, (∀ m, m < k → 0 < |(jaxChol M m).deltaMax|) → Inv M (jaxChol M k) := by
  intro k
  induction k with
  | zero => intro _; exact inv_init M hs hp
  | succ k ih =>
    intro hpos
    simp only [jaxChol]
    exact inv_iter M 0 (le_refl 0) _ (ih fun m hm => hpos m (by omega)) (hpos k (by omega))

/-- … so as soon as the largest residual diagonal is `0` (as many vectors as the rank) the
reconstruction is **exact** -/
theorem jax_exact_at_rank (M : Mat (n + 1) K) (hs : Symm M) (hp : PSD M) (k : ℕ)
    (hpos : ∀ m, m < k → 0 < |(jaxChol M m).deltaMax|) (hzero : (jaxChol M k).deltaMax = 0) :
    ∀ i j, M i j = recon (jaxChol M k).accepted i j := by
  intro i j
  have hinv := jax_inv M hs hp k hpos
  have hd : ∀ a, (jaxChol M k).R a a = 0 := by
    intro a
    have h1 := hinv.maxd a
    rw [hzero, abs_zero] at h1
    exact le_antisymm h1 (psd_diag_nonneg _ hinv.psd a)
  rw [hinv.tele i j, zero_of_diag_zero _ hinv.symm hinv.psd hd i j, zero_add]

/-- and in general the element-wise error after `k` accepted vectors is bounded by `delta_max` -/
theorem jax_elementwise_bound (M : Mat (n + 1) K) (hs : Symm M) (hp : PSD M) (k : ℕ)
    (hpos : ∀ m, m < k → 0 < |(jaxChol M m).deltaMax|) :
    ∀ i j, |M i j - recon (jaxChol M k).accepted i j| ≤ |(jaxChol M k).deltaMax| := by
  intro i j
  have hinv := jax_inv M hs hp k hpos
  rw [hinv.tele i j, add_sub_cancel_right]
  exact abs_entry_le _ hinv.symm hinv.psd _ hinv.maxd i j

/-! ## non-vacuity: a concrete PSD matrix -/

example : Symm (fun i j : Fin 2 => if i = j then (2 : ℚ) else 1) := by
  intro i j; by_cases h : i = j <;> simp [h, eq_comm]

end AfqmcVerif.Props.C17
