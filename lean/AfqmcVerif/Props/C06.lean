import AfqmcVerif.Lemmas.SingleDet
import Mathlib.Tactic.Ring
import Mathlib.Tactic.FieldSimp

/-!
# C06 — AD energy derivatives (partial: what a theorem can carry)

The correctness of JAX's AD engine (`jvp`, `vjp`, `checkpoint`, `custom_jvp` wiring) is **not** a
theorem; the tie compares forward mode, reverse mode and finite differences of the very function
`driver.afqmc` differentiates.  What is proved (single-determinant models, all dimensions):

* **particle-number symmetry**: shifting `h1[s]` by `λ·1` shifts the local energy of every walker by
  `λ N_s` (`energy_shift_up`); with a single energy block the returned energy is a weighted average of
  local energies, so its derivative along `O = 1_s` is `N_s`: the per-spin trace of the AD density matrix
  (the weights' own dependence on `λ` drops out of a normalised average of a constant shift; with several
  energy blocks the population-control shift feeds back and the clause is not claimed by the property);
* **one-body limit**: without Cholesky vectors the local energy is `h0 + Σ_s tr((C_sᴴW_s)⁻¹ C_sᴴ h_s W_s)`,
  and for a walker in the span of eigenvectors `C` of `h` it is `h0 + Σ_occ ε_i`;
* **Hellmann–Feynman** (`hellmann_feynman`): for the energy `tr(Cᵀ h C)` of orthonormal eigen-columns, the
  product-rule derivative along any first-order change `(O, dC)` that keeps `C` orthonormal to first order
  is `tr(C Cᵀ O)` — the orbital-relaxed response equals `tr(ρ O)` (real symmetric `h`, as in the SCF of
  `rhf/uhf.optimize`).
-/
set_option linter.unusedSectionVars false
namespace AfqmcVerif.Props.C06
open AfqmcVerif.SingleDet Matrix

variable {m ka kb g : ℕ} {K : Type} [Field K] [StarRing K]

/-- the Green's-function contraction of the identity counts the electrons of that spin -/
theorem contract_identity (C W : Matrix (Fin m) (Fin ka) K) (h : ovlp C W ≠ 0) :
    contract (rot C (1 : Matrix (Fin m) (Fin m) K)) (green C W) = (ka : K) := by
  rw [contract_green]
  unfold rot
  rw [Matrix.mul_one, Matrix.nonsing_inv_mul _ (isUnit_iff_ne_zero.2 h), Matrix.trace_one, Fintype.card_fin]

theorem contract_add (C W : Matrix (Fin m) (Fin ka) K) (X Y : Matrix (Fin m) (Fin m) K) :
    contract (rot C (X + Y)) (green C W) = contract (rot C X) (green C W) + contract (rot C Y) (green C W) := by
  simp only [contract_eq_trace]
  unfold rot
  rw [Matrix.mul_add, Matrix.add_mul, Matrix.trace_add]

theorem contract_smul (C W : Matrix (Fin m) (Fin ka) K) (c : K) (X : Matrix (Fin m) (Fin m) K) :
    contract (rot C (c • X)) (green C W) = c * contract (rot C X) (green C W) := by
  simp only [contract_eq_trace]
  unfold rot
  rw [Matrix.mul_smul, Matrix.smul_mul, Matrix.trace_smul, smul_eq_mul]

/-- **particle-number symmetry** of the local energy: `h1[0] ↦ h1[0] + λ·1` adds `λ N_up`
(and likewise for the other spin) for every walker with non-vanishing overlap -/
theorem energy_shift_up (H : Ham m g K) (Ca : Matrix (Fin m) (Fin ka) K) (Cb : Matrix (Fin m) (Fin kb) K)
    (Wa : Matrix (Fin m) (Fin ka) K) (Wb : Matrix (Fin m) (Fin kb) K) (lam : K) (ha : ovlp Ca Wa ≠ 0) :
    uhfEnergy { H with ha := H.ha + lam • (1 : Matrix (Fin m) (Fin m) K) } Ca Cb Wa Wb
      = uhfEnergy H Ca Cb Wa Wb + lam * (ka : K) := by
  unfold uhfEnergy uhfEnergyOfGreen
  simp only [contract_add, contract_smul, contract_identity Ca Wa ha]
  ring

/-- **one-body limit**: no Cholesky vectors ⇒ the local energy is the one-body mixed estimator -/
theorem one_body_limit (h0 : K) (hA hB : Matrix (Fin m) (Fin m) K)
    (Ca : Matrix (Fin m) (Fin ka) K) (Cb : Matrix (Fin m) (Fin kb) K)
    (Wa : Matrix (Fin m) (Fin ka) K) (Wb : Matrix (Fin m) (Fin kb) K) :
    uhfEnergy ({ h0 := h0, ha := hA, hb := hB, L := fun (_ : Fin 0) => 0 } : Ham m 0 K) Ca Cb Wa Wb
      = h0 + contract (rot Ca hA) (green Ca Wa) + contract (rot Cb hB) (green Cb Wb) := by
  unfold uhfEnergy uhfEnergyOfGreen
  simp
  ring

/-- for a walker spanning eigenvectors of `h` (`h C = C diag ε`, orthonormal `C`, `W = C U`) the
one-body contraction is the sum of the occupied orbital energies -/
theorem one_body_eigen (hM : Matrix (Fin m) (Fin m) K) (C : Matrix (Fin m) (Fin ka) K) (ε : Fin ka → K)
    (U : Matrix (Fin ka) (Fin ka) K) (hC : Cᴴ * C = 1) (heig : hM * C = C * Matrix.diagonal ε) (hU : U.det ≠ 0) :
    contract (rot C hM) (green C (C * U)) = ∑ i, ε i := by
  rw [contract_green]
  unfold rot
  have hu : IsUnit U.det := isUnit_iff_ne_zero.2 hU
  have e1 : Cᴴ * (C * U) = U := by rw [← Matrix.mul_assoc, hC, Matrix.one_mul]
  have e2 : Cᴴ * hM * (C * U) = Matrix.diagonal ε * U := by
    rw [Matrix.mul_assoc Cᴴ hM, ← Matrix.mul_assoc hM, heig, Matrix.mul_assoc C, ← Matrix.mul_assoc Cᴴ, hC, Matrix.one_mul]
  rw [e1, e2, Matrix.trace_mul_comm, Matrix.mul_assoc, Matrix.mul_nonsing_inv _ hu, Matrix.mul_one, Matrix.trace_diagonal]

/-- **Hellmann–Feynman, orbital-relaxed response.**  `E = tr(Cᵀ h C)` with `h` symmetric, `h C = C diag ε`;
any tangent `dC` with `Cᵀ dC + dCᵀ C = 0` (orthonormality kept to first order — `eigh_rule_orthogonality`
of C18 provides it for the library's rule) contributes nothing: the product-rule derivative
`tr(dCᵀ h C) + tr(Cᵀ O C) + tr(Cᵀ h dC)` equals `tr(C Cᵀ O) = tr(ρ O)`. -/
theorem hellmann_feynman {F : Type} [Field F] (hM O : Matrix (Fin m) (Fin m) F) (C dC : Matrix (Fin m) (Fin ka) F)
    (ε : Fin ka → F) (hsym : hMᵀ = hM) (heig : hM * C = C * Matrix.diagonal ε)
    (horth : Cᵀ * dC + dCᵀ * C = 0) :
    (dCᵀ * hM * C).trace + (Cᵀ * O * C).trace + (Cᵀ * hM * dC).trace = (C * Cᵀ * O).trace := by
  have e1 : dCᵀ * hM * C = dCᵀ * C * Matrix.diagonal ε := by
    rw [Matrix.mul_assoc, heig, Matrix.mul_assoc]
  have e2 : Cᵀ * hM = Matrix.diagonal ε * Cᵀ := by
    have := congrArg Matrix.transpose heig
    rw [Matrix.transpose_mul, Matrix.transpose_mul, hsym, Matrix.diagonal_transpose] at this
    exact this
  have e3 : (Cᵀ * hM * dC).trace = (Cᵀ * dC * Matrix.diagonal ε).trace := by
    rw [e2, Matrix.mul_assoc, Matrix.trace_mul_comm]
  have e4 : (dCᵀ * hM * C).trace + (Cᵀ * hM * dC).trace = 0 := by
    rw [e1, e3, ← Matrix.trace_add, ← Matrix.add_mul, add_comm, horth, Matrix.zero_mul, Matrix.trace_zero]
  have e5 : (Cᵀ * O * C).trace = (C * Cᵀ * O).trace := by
    rw [Matrix.trace_mul_comm, ← Matrix.mul_assoc]
  calc (dCᵀ * hM * C).trace + (Cᵀ * O * C).trace + (Cᵀ * hM * dC).trace
      = ((dCᵀ * hM * C).trace + (Cᵀ * hM * dC).trace) + (Cᵀ * O * C).trace := by ring
    _ = (C * Cᵀ * O).trace := by rw [e4, e5, zero_add]

end AfqmcVerif.Props.C06
