import AfqmcVerif.Lemmas.SingleDet

/-!
# C15 — covariance under orthogonal orbital rotations (single-determinant kinds; all dimensions)

`rotate_orbs(ham_data, U)` is modelled as the congruence `X ↦ Uᵀ X U` on `h1[0]`, `h1[1]` and every
Cholesky matrix (`rotHam`); trial orbitals and walkers transform as `C ↦ Uᵀ C`, `W ↦ Uᵀ W`.
For real orthogonal `U` (`star U = U`, `U Uᵀ = 1`) overlaps, Green's-function contractions, force
biases and local energies are unchanged.
-/
set_option linter.unusedSectionVars false
namespace AfqmcVerif.Props.C15
open AfqmcVerif.SingleDet Matrix

variable {m k ka kb g : ℕ} {K : Type} [Field K] [StarRing K]

/-- the library's rotation routine: two einsums = the congruence -/
def rotHam (U : Matrix (Fin m) (Fin m) K) (H : Ham m g K) : Ham m g K :=
  { h0 := H.h0, ha := Uᵀ * H.ha * U, hb := Uᵀ * H.hb * U, L := fun γ => Uᵀ * H.L γ * U }

/-- congruences compose: rotating by `U` then `V` is rotating by `U V` (any matrices, not nec. invertible) -/
theorem rotHam_comp (U V : Matrix (Fin m) (Fin m) K) (H : Ham m g K) :
    rotHam V (rotHam U H) = rotHam (U * V) H := by
  simp [rotHam, Matrix.transpose_mul, Matrix.mul_assoc]

variable (U : Matrix (Fin m) (Fin m) K)

theorem conjT_rot (hreal : U.map star = U) (C : Matrix (Fin m) (Fin k) K) : (Uᵀ * C)ᴴ = Cᴴ * U := by
  rw [Matrix.conjTranspose_mul]
  have e : (Uᵀ)ᴴ = U := by
    ext i j
    have := congrFun (congrFun hreal i) j
    simpa [conjTranspose_apply] using this
  rw [e]

theorem gram_invariant (hreal : U.map star = U) (horth : U * Uᵀ = 1) (C W : Matrix (Fin m) (Fin k) K) :
    (Uᵀ * C)ᴴ * (Uᵀ * W) = Cᴴ * W := by
  rw [conjT_rot U hreal, Matrix.mul_assoc, ← Matrix.mul_assoc U, horth, Matrix.one_mul]

/-- overlaps are unchanged (factor 1 for orthogonal rotations) -/
theorem overlap_invariant (hreal : U.map star = U) (horth : U * Uᵀ = 1) (C W : Matrix (Fin m) (Fin k) K) :
    ovlp (Uᵀ * C) (Uᵀ * W) = ovlp C W := by
  unfold ovlp; rw [gram_invariant U hreal horth]

/-- every rotated contraction `Σ (C'ᴴ X')_{ij} G'_{ij}` equals the unrotated one -/
theorem contract_invariant (hreal : U.map star = U) (horth : U * Uᵀ = 1) (C W : Matrix (Fin m) (Fin k) K)
    (X : Matrix (Fin m) (Fin m) K) :
    contract (rot (Uᵀ * C) (Uᵀ * X * U)) (green (Uᵀ * C) (Uᵀ * W)) = contract (rot C X) (green C W) := by
  rw [contract_green, contract_green, gram_invariant U hreal horth]
  unfold rot
  rw [conjT_rot U hreal]
  congr 2
  calc Cᴴ * U * (Uᵀ * X * U) * (Uᵀ * W)
      = Cᴴ * ((U * Uᵀ) * X * (U * Uᵀ)) * W := by simp only [Matrix.mul_assoc]
    _ = Cᴴ * X * W := by rw [horth, Matrix.one_mul, Matrix.mul_one, Matrix.mul_assoc]

theorem fMat_invariant (hreal : U.map star = U) (horth : U * Uᵀ = 1) (C W : Matrix (Fin m) (Fin k) K)
    (X : Matrix (Fin m) (Fin m) K) :
    fMat (rot (Uᵀ * C) (Uᵀ * X * U)) (green (Uᵀ * C) (Uᵀ * W)) = fMat (rot C X) (green C W) := by
  unfold fMat green rot
  rw [gram_invariant U hreal horth]
  simp only [Matrix.transpose_transpose, conjT_rot U hreal]
  calc Cᴴ * U * (Uᵀ * X * U) * (Uᵀ * W * cinv (Cᴴ * W))
      = Cᴴ * ((U * Uᵀ) * X * (U * Uᵀ)) * (W * cinv (Cᴴ * W)) := by simp only [Matrix.mul_assoc]
    _ = Cᴴ * X * (W * cinv (Cᴴ * W)) := by rw [horth, Matrix.one_mul, Matrix.mul_one]

/-- force biases are unchanged -/
theorem force_bias_invariant (hreal : U.map star = U) (horth : U * Uᵀ = 1) (H : Ham m g K)
    (Ca : Matrix (Fin m) (Fin ka) K) (Cb : Matrix (Fin m) (Fin kb) K)
    (Wa : Matrix (Fin m) (Fin ka) K) (Wb : Matrix (Fin m) (Fin kb) K) (γ : Fin g) :
    uhfForceBias (rotHam U H) (Uᵀ * Ca) (Uᵀ * Cb) (Uᵀ * Wa) (Uᵀ * Wb) γ = uhfForceBias H Ca Cb Wa Wb γ := by
  unfold uhfForceBias rotHam
  simp only [contract_invariant U hreal horth]

/-- local energies are unchanged -/
theorem energy_invariant (hreal : U.map star = U) (horth : U * Uᵀ = 1) (H : Ham m g K)
    (Ca : Matrix (Fin m) (Fin ka) K) (Cb : Matrix (Fin m) (Fin kb) K)
    (Wa : Matrix (Fin m) (Fin ka) K) (Wb : Matrix (Fin m) (Fin kb) K) :
    uhfEnergy (rotHam U H) (Uᵀ * Ca) (Uᵀ * Cb) (Uᵀ * Wa) (Uᵀ * Wb) = uhfEnergy H Ca Cb Wa Wb := by
  unfold uhfEnergy uhfEnergyOfGreen rotHam
  simp only [contract_invariant U hreal horth, fMat_invariant U hreal horth]

end AfqmcVerif.Props.C15
