import AfqmcVerif.Lemmas.SingleDet
import Mathlib.Analysis.SpecialFunctions.Exp
import Mathlib.Tactic.Ring
import Mathlib.Tactic.FieldSimp

/-!
# C05 — free projection: exact norm bookkeeping

(a) re-orthonormalisation never changes the represented state: every occupation-string coefficient
(minor) of `Q R` is `det R` times that of `Q`, for **any** factorisation; by induction the accumulated
norm times the orthonormal walker is the un-normalised product of propagators, for every number of steps.
(b) the stored overlap is the overlap of the un-normalised state.
(c) the per-spin constants multiply to the intended scalar (that is why the code divides by `2 N_s`).
The O(dt²) order and the Taylor-remainder clauses are covered by the tie.
-/
set_option linter.unusedSectionVars false
namespace AfqmcVerif.Props.C05
open AfqmcVerif.SingleDet Matrix

variable {m k : ℕ} {K : Type} [Field K] [StarRing K]

/-- every minor of `Q R` is `det R` times the minor of `Q`: the Slater state of `W = Q R` is
`det R` times the Slater state of `Q` -/
theorem minor_factorises (Q : Matrix (Fin m) (Fin k) K) (R : Matrix (Fin k) (Fin k) K) (e : Fin k → Fin m) :
    ((Q * R).submatrix e id).det = (Q.submatrix e id).det * R.det := by
  have h : (Q * R).submatrix e id = Q.submatrix e id * R := by
    ext i j; simp [Matrix.mul_apply, Matrix.submatrix_apply]
  rw [h, Matrix.det_mul]

/-- scaling a walker block by a constant `c` multiplies every minor (and every overlap) by `c^k` -/
theorem minor_scaling (W : Matrix (Fin m) (Fin k) K) (c : K) (e : Fin k → Fin m) :
    ((c • W).submatrix e id).det = c ^ k * (W.submatrix e id).det := by
  have h : (c • W).submatrix e id = c • W.submatrix e id := by ext i j; simp
  rw [h, Matrix.det_smul, Fintype.card_fin]

/-- one free-projection step as seen by the bookkeeping: the propagator `B` (Trotter kernel times the
scalar constants), and the factorisation `B Q_old = Q R` chosen by the re-orthonormalisation -/
structure Step (m k : ℕ) (K : Type) where
  B : Matrix (Fin m) (Fin m) K
  Q : Matrix (Fin m) (Fin k) K
  R : Matrix (Fin k) (Fin k) K

/-- the un-normalised product of propagators applied to the initial walker -/
def rawAfter : Matrix (Fin m) (Fin k) K → List (Step m k K) → Matrix (Fin m) (Fin k) K
  | W, [] => W
  | W, s :: r => rawAfter (s.B * W) r

/-- what the code stores: the orthonormal walker and the accumulated norm (`norms *= det R`) -/
def normedAfter : Matrix (Fin m) (Fin k) K × K → List (Step m k K) → Matrix (Fin m) (Fin k) K × K
  | st, [] => st
  | st, s :: r => normedAfter (s.Q, st.2 * s.R.det) r

/-- every step's factorisation really factorises the propagated previous orthonormal walker -/
def Valid : Matrix (Fin m) (Fin k) K → List (Step m k K) → Prop
  | _, [] => True
  | Q, s :: r => s.B * Q = s.Q * s.R ∧ Valid s.Q r

theorem bookkeeping_invariant (steps : List (Step m k K)) :
    ∀ (W Q : Matrix (Fin m) (Fin k) K) (T : Matrix (Fin k) (Fin k) K) (n : K),
      W = Q * T → T.det = n → Valid Q steps →
      ∃ T', rawAfter W steps = (normedAfter (Q, n) steps).1 * T' ∧ T'.det = (normedAfter (Q, n) steps).2 := by
  induction steps with
  | nil => intro W Q T n hW hT _; exact ⟨T, hW, hT⟩
  | cons s r ih =>
    intro W Q T n hW hT hv
    simp only [rawAfter, normedAfter]
    apply ih (s.B * W) s.Q (s.R * T) (n * s.R.det)
    · rw [hW, ← Matrix.mul_assoc, hv.1, Matrix.mul_assoc]
    · rw [Matrix.det_mul, hT, mul_comm]
    · exact hv.2

/-- **any number of steps** (norms accumulate): accumulated norm × every occupation-string
coefficient of the stored orthonormal walker = the coefficient of the un-normalised product of
propagators applied to the initial walker -/
theorem norms_accumulate (steps : List (Step m k K)) (Q0 : Matrix (Fin m) (Fin k) K)
    (hv : Valid Q0 steps) (e : Fin k → Fin m) :
    ((rawAfter Q0 steps).submatrix e id).det
      = (((normedAfter (Q0, 1) steps).1).submatrix e id).det * (normedAfter (Q0, 1) steps).2 := by
  obtain ⟨T', h1, h2⟩ := bookkeeping_invariant steps Q0 Q0 1 1 (by simp) (by simp) hv
  rw [h1, minor_factorises, h2]

/-- (b) the stored overlap `overlap(Q) × norms` is the overlap of the un-normalised state, for every
single-determinant bra (and, by linearity in the minors, for every bra) -/
theorem stored_overlap_is_unnormalised (C : Matrix (Fin m) (Fin k) K) (steps : List (Step m k K))
    (Q0 : Matrix (Fin m) (Fin k) K) (hv : Valid Q0 steps) :
    ovlp C (rawAfter Q0 steps) = ovlp C (normedAfter (Q0, 1) steps).1 * (normedAfter (Q0, 1) steps).2 := by
  obtain ⟨T', h1, h2⟩ := bookkeeping_invariant steps Q0 Q0 1 1 (by simp) (by simp) hv
  rw [h1]
  unfold ovlp
  rw [← Matrix.mul_assoc, Matrix.det_mul, h2]

/-- (c) the per-spin constants: scaling the `N_s` columns of spin `s` by `exp(a / (2 N_s))` multiplies the
state by `exp(a/2)` per spin, `exp(a)` in total — for both spins present (`N_s > 0`) -/
theorem per_spin_constants (a : ℝ) (Na Nb : ℕ) (ha : 0 < Na) (hb : 0 < Nb) :
    Real.exp (a / (2 * Na)) ^ Na * Real.exp (a / (2 * Nb)) ^ Nb = Real.exp a := by
  rw [← Real.exp_nat_mul, ← Real.exp_nat_mul, ← Real.exp_add]
  congr 1
  have h1 : (Na : ℝ) ≠ 0 := by exact_mod_cast ha.ne'
  have h2 : (Nb : ℝ) ≠ 0 := by exact_mod_cast hb.ne'
  field_simp
  ring

end AfqmcVerif.Props.C05
