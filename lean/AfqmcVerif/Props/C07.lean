import AfqmcVerif.Lemmas.Comb
import AfqmcVerif.Lemmas.CombIntegral

/-!
# C07 — stochastic reconfiguration is an unbiased, weight-conserving comb

For **every** population size `N`, every weight vector `w` over a linearly ordered field with
`W = Σ|w| > 0`, every offset `ζ ∈ (0,1)`.  `idx w ζ i` is entry `i` of the index vector the code
computes (`searchsorted(cumsum(|w|), W (i+ζ)/N)`), `copies w ζ k` the number of `i` with
`idx w ζ i = k`, `combWeights w` the returned weights.
-/
namespace AfqmcVerif.Props.C07
open AfqmcVerif.Comb

section
variable {K : Type} [Field K] [LinearOrder K] [IsStrictOrderedRing K]

/-- only existing walkers are copied -/
theorem copies_of_existing_walkers (w : List K) (ζ : K) (hW : 0 < total w) (hζ1 : ζ < 1) :
    ∀ k ∈ combIdx w ζ, k < w.length := by
  intro k hk
  unfold combIdx at hk
  rw [List.mem_map] at hk
  obtain ⟨i, hi, rfl⟩ := hk
  exact idx_lt w ζ i hW hζ1 (List.mem_range.1 hi)

/-- the resampled population has the same size, every entry is an existing walker -/
theorem resample_all_some {α : Type} (walkers : List α) (w : List K) (ζ : K)
    (hlen : walkers.length = w.length) (hW : 0 < total w) (hζ1 : ζ < 1) :
    (resample walkers (combIdx w ζ)).length = w.length ∧
    ∀ x ∈ resample walkers (combIdx w ζ), x.isSome = true := by
  constructor
  · simp [resample, combIdx]
  · intro x hx
    unfold resample at hx
    rw [List.mem_map] at hx
    obtain ⟨k, hk, rfl⟩ := hx
    have := copies_of_existing_walkers w ζ hW hζ1 k hk
    rw [List.getElem?_eq_getElem (by omega)]
    rfl

/-- every survivor gets the same weight `W/N`, and the total absolute weight is conserved -/
theorem weights_equal_and_conserved (w : List K) (hN : 0 < w.length) :
    (∀ x ∈ combWeights w, x = total w / (w.length : K)) ∧ (combWeights w).length = w.length ∧
    (combWeights w).sum = total w :=
  ⟨combWeights_all w, by simp [combWeights], combWeights_sum w hN⟩

/-- up and down blocks are copied together: entry `i` of both new spin blocks comes from the same
old walker -/
theorem spin_blocks_copied_together {α : Type} (up dn : List α) (ix : List Nat) (i : Nat)
    (hi : i < ix.length) :
    (resampleUhf up dn ix).1[i]? = some (up[ix[i]]?) ∧ (resampleUhf up dn ix).2[i]? = some (dn[ix[i]]?) := by
  simp [resampleUhf, resample, hi]

/-- the comb never reorders walkers -/
theorem indices_monotone (w : List K) (ζ : K) (i j : Nat) (hij : i ≤ j) (hN : 0 < w.length) :
    idx w ζ i ≤ idx w ζ j := idx_mono w ζ hij hN

/-- NumPy and MPI-root flavours (`(i+ζ)/N * W`) give the same index vector as the jitted one
(`W (i+ζ)/N`) -/
theorem numpy_eq_jitted (w : List K) (ζ : K) : combIdxNp w ζ = combIdx w ζ := combIdxNp_eq w ζ

variable [FloorRing K]

/-- walker `k` is selected `⌊x⌋` or `⌈x⌉` times, `x = N |w_k| / W`, for every offset in `(0,1)` -/
theorem copies_floor_or_ceil (w : List K) (ζ : K) (k : Nat) (hW : 0 < total w) (hζ0 : 0 < ζ)
    (hζ1 : ζ < 1) (hk : k < w.length) :
    (copies w ζ k : Int) = ⌊(w.length : K) * |w[k]| / total w⌋ ∨
    (copies w ζ k : Int) = ⌈(w.length : K) * |w[k]| / total w⌉ := by
  rw [copies_eq w ζ k hW hζ0 hζ1 hk]
  have hx : (w.length : K) * psum w (k + 1) / total w - ζ
      = ((w.length : K) * psum w k / total w - ζ) + (w.length : K) * |w[k]| / total w := by
    rw [psum_succ w k hk]; ring
  rw [hx]
  exact floor_diff_mem _ _

/-- zero-weight walkers are never selected -/
theorem zero_weight_never_selected (w : List K) (ζ : K) (k : Nat) (hW : 0 < total w) (hζ0 : 0 < ζ)
    (hζ1 : ζ < 1) (hk : k < w.length) (h0 : w[k] = 0) : copies w ζ k = 0 := by
  have := copies_eq w ζ k hW hζ0 hζ1 hk
  rw [psum_succ w k hk, h0, abs_zero, add_zero, sub_self] at this
  exact_mod_cast this

omit [FloorRing K] in
/-- all `N` teeth land on some walker: the copies add up to `N` -/
theorem copies_sum (w : List K) (ζ : K) (hW : 0 < total w) (hζ1 : ζ < 1) :
    ∑ k ∈ Finset.range w.length, copies w ζ k = w.length := by
  unfold copies
  rw [← Finset.card_eq_sum_card_fiberwise (f := idx w ζ) (s := Finset.range w.length)
    (t := Finset.range w.length)]
  · simp
  · intro i hi
    simp only [Finset.coe_range, Set.mem_Iio] at hi ⊢
    exact idx_lt w ζ i hW hζ1 hi

/-- **the comb sees ratios only**: multiplying every weight by the same positive constant changes no index — whatever the
overall scale of the population (2^-60 or 2^45), for every offset -/
theorem comb_scale_invariant (w : List K) (ζ : K) (c : K) (hc : 0 < c) :
    combIdx (w.map (c * ·)) ζ = combIdx w ζ := by
  unfold combIdx
  rw [List.length_map]
  refine List.map_congr_left fun i _ => ?_
  unfold idx rank cumAbs tooth total
  simp only [List.length_map, psum_scale w c hc, List.countP_map]
  congr 1
  funext k
  simp only [Function.comp]
  have : c * psum w w.length * ((i : K) + ζ) / (w.length : K) = c * (psum w w.length * ((i : K) + ζ) / (w.length : K)) := by ring
  rw [this]
  exact decide_eq_decide.mpr (mul_lt_mul_iff_right₀ hc)

end

/-- **unbiasedness**: averaged over the uniform offset, walker `k` is selected exactly
`N |w_k| / W` times (real weights; the integrand is the piecewise-constant `copies`) -/
theorem expected_copies (w : List ℝ) (k : Nat) (hW : 0 < total w) (hk : k < w.length) :
    ∫ ζ in (0:ℝ)..1, (copies w ζ k : ℝ) = (w.length : ℝ) * |w[k]| / total w := by
  have hne : ∀ᵐ ζ ∂MeasureTheory.volume, ζ ≠ (1 : ℝ) := by
    rw [MeasureTheory.ae_iff]; simp
  have hcongr : ∀ᵐ ζ ∂MeasureTheory.volume, ζ ∈ Set.uIoc (0:ℝ) 1 →
      (copies w ζ k : ℝ) = (⌊(w.length : ℝ) * psum w (k + 1) / total w - ζ⌋ : ℝ)
        - (⌊(w.length : ℝ) * psum w k / total w - ζ⌋ : ℝ) := by
    filter_upwards [hne] with ζ hζ hmem
    rw [Set.uIoc_of_le zero_le_one] at hmem
    have h1 : ζ < 1 := lt_of_le_of_ne hmem.2 hζ
    have := copies_eq w ζ k hW hmem.1 h1 hk
    exact_mod_cast this
  rw [intervalIntegral.integral_congr_ae hcongr, integral_floor_diff, psum_succ w k hk]
  ring

section
variable {K : Type} [Field K] [LinearOrder K]

/-- **MPI**: whatever order the ranks enter the gather in and the scatter serves them in, every
rank that has been served holds its slice of the serial comb on the rank-ordered concatenation -/
theorem mpi_any_interleaving {R : Nat} (inp : Fin R → List K) (n : Nat) (ζ : K)
    (es : List (MpiEv R)) (s : MpiState (K := K) R)
    (hrun : mpiRun inp n ζ (mpiInit R) es = some s) (r : Fin R) (y : List Nat × List K)
    (hy : s.delivered r = some y) :
    y = (slice n r (combIdxNp (concatBuf inp) ζ), slice n r (combWeights (concatBuf inp))) :=
  (mpiInv_run inp n ζ es _ s (mpiInv_init inp n ζ) hrun).deliv_ok r y hy

/-- … and no execution can get stuck before every rank has been served -/
theorem mpi_no_deadlock {R : Nat} (inp : Fin R → List K) (n : Nat) (ζ : K)
    (s : MpiState (K := K) R) (hnt : ∃ r, s.delivered r = none) :
    ∃ e s', mpiStep inp n ζ s e = some s' := mpi_progress inp n ζ s hnt

end

/-! ## non-vacuity -/

example : (0 : ℚ) < total [1, -2, 0, 5] ∧ (0:ℚ) < 1/3 ∧ (1/3 : ℚ) < 1 := by
  refine ⟨?_, by norm_num, by norm_num⟩
  simp [total, psum]; norm_num

end AfqmcVerif.Props.C07
